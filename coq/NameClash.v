(* C20 - name clashes: what the model rejects, where the error points, and what it does not detect.

   PART 1  the parser's check on text and movement names (Parser.dup_text, Parser.dup_mov, the tail of Parser.parse_program)
     dup_text_reports_later / dup_text_none_nodup       dup_text [] l returns the first text of l whose name was already used by an
                                                         earlier text (the LATER text of the first repeated pair); None iff NoDup names
     dup_mov_reports_earlier / dup_mov_none_nodup       dup_mov [] l stops at the first movement statement whose name was already used and
                                                         returns the token of the EARLIER statement of that name; None iff NoDup names
     accepted_names_distinct                             every accepted program: text names NoDup, movement names NoDup
     parse_program_name_check                            the complete case analysis (text error / movement error / accepted)
     duplicate_text_label_iff, duplicate_movement_label_iff, accepted_iff     "exactly when"
     parse_tops_names                                    the generated names  <script>_Text_<k>, <script>_Movement_<k>  never clash among
                                                         themselves (below 10^40 of them: the model's decimal printer has 40 digits)
     duplicate_text_reports_statement,                   hence the reported construct is always a text / movement STATEMENT of the source,
     duplicate_movement_reports_statement                and the token is its keyword 'text' / 'movement'
   PART 2  the emitter's check on labels (Emitter.clash in render_bodies)
     clash_none_iff, clash_some_iff, render_chunks_cases the check, chunk by chunk in rendering order; Ok or ErrLabel, nothing else
     graph_labels_are_source_labels                      the worklist conserves the label statements with their tokens
     generated_labels_spec                               the labels checked against: the script name and name_1 .. name_(#chunks-1)
     emit_script_label_check, emit_script_accepts_iff,   a script is rendered iff no label statement at any depth is named like one of its own
     emit_script_rejects_iff, emit_script_error_token    generated chunk labels or like a text; else ErrLabel with the token of such a label
     emit_program_error, emit_program_accepts_iff,       programs: the outcome is the error of the first script (emission order) that fails
     emit_program_label_error, emit_program_rejects_iff
   PART 3  source texts (Compile.compile): compiled_without_name_clash ("never compiled into something else"),
           compile_label_error_located, compile_duplicate_text_located, compile_duplicate_movement_located
   PART 4  examples: hypotheses satisfiable; which statement is reported; NOT detected by the model (nor by the property):
           two scripts of one name, a label named like another script's generated label, a label written twice, a label named
           like a movement / a movement or text named like a script, a script named like a generated label. *)
From Coq Require Import List String Ascii ZArith NArith Lia Bool Permutation.
From Pory Require Import Lexer Ast Parser Emitter Sem2 SemTgt Tr EmitProps RenderSim RenderCheck LabelSim C01Final Worklist
                         WorkLabels LabelsUnique ProgWf ProgSrc.
From Pory Require WorkShape OrderPerm SrcWf Compile.
Import ListNotations.
Open Scope list_scope.

(* ---------- small facts ---------- *)
Lemma teq_iff a b : text_eqb a b = true <-> a = b.
Proof. unfold text_eqb. destruct (list_eq_dec N.eq_dec a b); split; auto; discriminate. Qed.

Lemma existsb_teq n l : existsb (text_eqb n) l = true <-> In n l.
Proof.
  rewrite existsb_exists. split.
  - intros (y & Hy & E). apply teq_iff in E. now subst.
  - intros H. exists n. split; [exact H|now apply teq_iff].
Qed.

Lemma existsb_teq_false n l : existsb (text_eqb n) l = false <-> ~ In n l.
Proof.
  rewrite <- existsb_teq. destruct (existsb (text_eqb n) l); split; intros H.
  - discriminate.
  - exfalso. now apply H.
  - intros X. discriminate.
  - reflexivity.
Qed.

Lemma assoc_none {B} (l : list (text * B)) k : assoc l k = None <-> ~ In k (map Datatypes.fst l).
Proof.
  induction l as [|[a b] r IH]; cbn [assoc map Datatypes.fst]; [split; [intros _ []|reflexivity]|].
  destruct (text_eqb a k) eqn:E.
  - apply teq_iff in E. subst. split; [discriminate|]. intros H. exfalso. apply H. now left.
  - rewrite IH. split; intros H.
    + intros [X|X]; [|now apply H]. subst. rewrite (proj2 (teq_iff k k) eq_refl) in E. discriminate.
    + intros X. apply H. now right.
Qed.

Lemma assoc_in {B} (l : list (text * B)) k v : assoc l k = Some v -> In (k, v) l.
Proof.
  induction l as [|[a b] r IH]; cbn [assoc]; [discriminate|].
  destruct (text_eqb a k) eqn:E.
  - apply teq_iff in E. subst. intros H. inversion H; subst. now left.
  - intros H. right. now apply IH.
Qed.

Lemma assoc_nodup_in {B} (l : list (text * B)) k v : NoDup (map Datatypes.fst l) -> In (k, v) l -> assoc l k = Some v.
Proof.
  induction l as [|[a b] r IH]; cbn [assoc map Datatypes.fst]; intros ND H; [destruct H|].
  inversion ND as [|? ? N1 N2]; subst. destruct H as [H|H].
  - inversion H; subst. now rewrite (proj2 (teq_iff k k) eq_refl).
  - destruct (text_eqb a k) eqn:E; [|now apply IH].
    apply teq_iff in E. subst. exfalso. apply N1. change k with (Datatypes.fst (k, v)). now apply in_map.
Qed.

(* ================================================================================================================== *)
(* 1a.  dup_text: the FIRST text (in list order) whose name was already used by an EARLIER text - i.e. the LATER text   *)
(*      of the first repeated pair - is returned; None iff the names are pairwise distinct                             *)
(* ================================================================================================================== *)
Lemma dup_text_none_iff : forall l seen,
  dup_text seen l = None <-> NoDup (map xname l) /\ (forall n, In n (map xname l) -> ~ In n seen).
Proof.
  induction l as [|x r IH]; intros seen; cbn [dup_text map].
  - split; [intros _; split; [constructor|intros n []]|reflexivity].
  - destruct (existsb (text_eqb (xname x)) seen) eqn:E.
    + apply existsb_teq in E. split; [discriminate|]. intros [_ H]. exfalso. apply (H (xname x)); [now left|exact E].
    + apply existsb_teq_false in E. rewrite IH. split.
      * intros [ND H]. split.
        -- constructor; [|exact ND]. intros X. apply (H _ X). now left.
        -- intros n [<-|Hn]; [exact E|]. intros X. apply (H _ Hn). now right.
      * intros [ND H]. inversion ND as [|? ? N1 N2]; subst. split; [exact N2|].
        intros n Hn [<-|X]; [now apply N1|]. apply (H n); [now right|exact X].
Qed.

Lemma dup_text_some_iff : forall l seen x,
  dup_text seen l = Some x <->
  exists l1 l2, l = l1 ++ x :: l2 /\ dup_text seen l1 = None /\ (In (xname x) seen \/ In (xname x) (map xname l1)).
Proof.
  induction l as [|y r IH]; intros seen x; cbn [dup_text].
  - split; [discriminate|]. intros (l1 & l2 & E & _). destruct l1; discriminate.
  - destruct (existsb (text_eqb (xname y)) seen) eqn:E.
    + split.
      * intros H. inversion H; subst. exists [], r. split; [reflexivity|]. split; [reflexivity|]. left. now apply existsb_teq.
      * intros (l1 & l2 & E1 & E2 & _). destruct l1 as [|z l1]; cbn [app] in E1; inversion E1; subst; [reflexivity|].
        cbn [dup_text] in E2. rewrite E in E2. discriminate.
    + rewrite IH. split.
      * intros (l1 & l2 & -> & E2 & E3). exists (y :: l1), l2. split; [reflexivity|]. cbn [dup_text map]. rewrite E. split; [exact E2|].
        destruct E3 as [[<-|X]|X]; [right; now left|now left|right; now right].
      * intros (l1 & l2 & E1 & E2 & E3). destruct l1 as [|z l1]; cbn [app] in E1; inversion E1; subst.
        -- exfalso. apply existsb_teq_false in E. destruct E3 as [X|[]]. now apply E.
        -- cbn [dup_text] in E2. rewrite E in E2. exists l1, l2. split; [reflexivity|]. split; [exact E2|].
           cbn [map] in E3. destruct E3 as [X|[X|X]]; [left; now right|left; now left|now right].
Qed.

(* the statement a reader wants: with no names seen yet *)
Theorem dup_text_reports_later : forall l x,
  dup_text [] l = Some x <->
  exists l1 l2, l = l1 ++ x :: l2 /\ NoDup (map xname l1) /\ In (xname x) (map xname l1).
Proof.
  intros l x. rewrite dup_text_some_iff. split.
  - intros (l1 & l2 & E & N & [[]|H]). exists l1, l2. apply dup_text_none_iff in N. tauto.
  - intros (l1 & l2 & E & N & H). exists l1, l2. split; [exact E|]. split; [|now right].
    apply dup_text_none_iff. split; [exact N|]. intros n _ [].
Qed.

Theorem dup_text_none_nodup : forall l, dup_text [] l = None <-> NoDup (map xname l).
Proof. intros l. rewrite dup_text_none_iff. split; [tauto|]. intros H. split; [exact H|]. intros n _ []. Qed.

(* ================================================================================================================== *)
(* 1b.  dup_mov: scanning the movement statements in list order, at the first one whose name was already used, the      *)
(*      token of the EARLIER statement of that name is returned                                                         *)
(* ================================================================================================================== *)
(* the movement statements of a list of top-level statements: (name, token) *)
Definition mov_entries (l : list top) : list (text * token) :=
  flat_map (fun tp => match tp with TMovement n _ tk _ => [(n, tk)] | _ => [] end) l.
Definition mov_names (l : list top) : list text := map Datatypes.fst (mov_entries l).

Lemma mov_entries_app a b : mov_entries (a ++ b) = mov_entries a ++ mov_entries b.
Proof. apply flat_map_app. Qed.
Lemma mov_names_app a b : mov_names (a ++ b) = mov_names a ++ mov_names b.
Proof. unfold mov_names. now rewrite mov_entries_app, map_app. Qed.

Fixpoint dupm (seen : list (text * token)) (es : list (text * token)) : option token :=
  match es with
  | [] => None
  | (n, tk) :: r => match assoc seen n with Some tk0 => Some tk0 | None => dupm ((n, tk) :: seen) r end
  end.

Lemma dup_mov_dupm : forall l seen, dup_mov seen l = dupm seen (mov_entries l).
Proof.
  induction l as [|tp r IH]; intros seen; [reflexivity|].
  destruct tp; cbn [dup_mov mov_entries flat_map app dupm]; try apply IH.
  fold (mov_entries r). destruct (assoc seen name); [reflexivity|apply IH].
Qed.

Lemma dupm_none_iff : forall es seen,
  dupm seen es = None <-> NoDup (map Datatypes.fst es) /\ (forall n, In n (map Datatypes.fst es) -> ~ In n (map Datatypes.fst seen)).
Proof.
  induction es as [|[n tk] r IH]; intros seen; cbn [dupm map Datatypes.fst].
  - split; [intros _; split; [constructor|intros n []]|reflexivity].
  - destruct (assoc seen n) as [tk0|] eqn:E.
    + split; [discriminate|]. intros [_ H]. exfalso. apply (H n); [now left|].
      apply assoc_in in E. change n with (Datatypes.fst (n, tk0)). now apply in_map.
    + apply assoc_none in E. rewrite IH. cbn [map Datatypes.fst]. split.
      * intros [ND H]. split.
        -- constructor; [|exact ND]. intros X. apply (H _ X). now left.
        -- intros m [<-|Hm]; [exact E|]. intros X. apply (H _ Hm). now right.
      * intros [ND H]. inversion ND as [|? ? N1 N2]; subst. split; [exact N2|].
        intros m Hm [<-|X]; [now apply N1|]. apply (H m); [now right|exact X].
Qed.

Lemma dupm_some_iff : forall es seen tk0,
  dupm seen es = Some tk0 <->
  exists e1 n tk e2, es = e1 ++ (n, tk) :: e2 /\ dupm seen e1 = None /\ assoc (rev e1 ++ seen) n = Some tk0.
Proof.
  induction es as [|[m tkm] r IH]; intros seen tk0; cbn [dupm].
  - split; [discriminate|]. intros (e1 & n & tk & e2 & E & _). destruct e1; discriminate.
  - destruct (assoc seen m) as [tk1|] eqn:E.
    + split.
      * intros H. inversion H; subst. exists [], m, tkm, r. split; [reflexivity|]. split; [reflexivity|exact E].
      * intros (e1 & n & tk & e2 & E1 & E2 & E3). destruct e1 as [|[z tz] e1]; cbn [app] in E1; inversion E1; subst.
        -- cbn [rev app] in E3. congruence.
        -- cbn [dupm] in E2. rewrite E in E2. discriminate.
    + rewrite IH. split.
      * intros (e1 & n & tk & e2 & -> & E2 & E3). exists ((m, tkm) :: e1), n, tk, e2. split; [reflexivity|]. cbn [dupm]. rewrite E.
        split; [exact E2|]. cbn [rev]. rewrite <- app_assoc. exact E3.
      * intros (e1 & n & tk & e2 & E1 & E2 & E3). destruct e1 as [|[z tz] e1]; cbn [app] in E1; inversion E1; subst.
        -- cbn [rev app] in E3. congruence.
        -- cbn [dupm] in E2. rewrite E in E2. exists e1, n, tk, e2. split; [reflexivity|]. split; [exact E2|].
           cbn [rev] in E3. rewrite <- app_assoc in E3. exact E3.
Qed.

Lemma map_fst_rev {A B} (l : list (A * B)) : map Datatypes.fst (rev l) = rev (map Datatypes.fst l).
Proof. apply map_rev. Qed.

Theorem dup_mov_reports_earlier : forall l tk0,
  dup_mov [] l = Some tk0 <->
  exists e1 n tk e2, mov_entries l = e1 ++ (n, tk) :: e2 /\ NoDup (map Datatypes.fst e1) /\ In (n, tk0) e1.
Proof.
  intros l tk0. rewrite dup_mov_dupm, dupm_some_iff. split.
  - intros (e1 & n & tk & e2 & E & N & H). exists e1, n, tk, e2. apply dupm_none_iff in N. destruct N as [N _].
    split; [exact E|]. split; [exact N|]. rewrite app_nil_r in H. apply assoc_in in H. now apply in_rev.
  - intros (e1 & n & tk & e2 & E & N & H). exists e1, n, tk, e2. split; [exact E|]. split.
    + apply dupm_none_iff. split; [exact N|]. intros m _ [].
    + rewrite app_nil_r. apply assoc_nodup_in; [|now apply in_rev in H].
      rewrite map_fst_rev. apply NoDup_rev. exact N.
Qed.

Theorem dup_mov_none_nodup : forall l, dup_mov [] l = None <-> NoDup (mov_names l).
Proof.
  intros l. rewrite dup_mov_dupm, dupm_none_iff. unfold mov_names. split; [tauto|]. intros H. split; [exact H|]. intros n _ [].
Qed.

(* a list with a repeated name has a first repetition *)
Lemma not_nodup_text l : ~ NoDup (map xname l) -> exists x, dup_text [] l = Some x.
Proof.
  intros H. destruct (dup_text [] l) as [x|] eqn:E; [now exists x|]. exfalso. apply H. now apply dup_text_none_nodup.
Qed.
Lemma not_nodup_mov l : ~ NoDup (mov_names l) -> exists tk, dup_mov [] l = Some tk.
Proof.
  intros H. destruct (dup_mov [] l) as [x|] eqn:E; [now exists x|]. exfalso. apply H. now apply dup_mov_none_nodup.
Qed.

(* ================================================================================================================== *)
(* 1c.  parse_program                                                                                                  *)
(* ================================================================================================================== *)
Definition pst0 : pstate := {| pconsts := []; ph := hst0; ptops := []; ptexts := [] |}.
(* the two lists parse_program checks, built from the state parse_tops ends in:
   texts: the hoisted (inline) texts first, then the user's text statements in source order;
   top-level statements: the user's statements in source order first, then the hoisted (inline) movements *)
Definition all_texts (st : pstate) : list textdef := htexts (ph st) ++ ptexts st.
Definition all_tops (st : pstate) : list top := ptops st ++ hmovs (ph st).

Lemma msg_text_ne_mov : t "duplicate text label" <> t "duplicate movement label".
Proof. intros H. vm_compute in H. discriminate H. Qed.

Lemma err_tok_msg {A} tk tk' m m' : @err_tok A tk m = err_tok tk' m' -> t m = t m'.
Proof. unfold err_tok. intros H. injection H. intros. assumption. Qed.

Section PROGRAM.
Variable autovars : list (text * autovar).
Variable switches : list (text * text).
Variable ee : bool.
Variable pf : toks -> Parser.res (token * text * text * toks).
Notation parse_tops := (parse_tops autovars switches ee pf).
Notation parse_program := (parse_program autovars switches ee pf).

(* the lists the name check compares: in a real compilation (ee = true) all texts and all top-level statements; in lint mode
   (ee = false: no switches and no fonts, so the hoisted names are not those of the real compilation) the author's own *)
Notation chk_texts := (checked_texts ee).
Notation chk_tops := (checked_tops ee).
Lemma chk_texts_true st : ee = true -> chk_texts st = all_texts st. Proof. intros ->. reflexivity. Qed.
Lemma chk_tops_true st : ee = true -> chk_tops st = all_tops st. Proof. intros ->. reflexivity. Qed.
Lemma chk_texts_lint st : ee = false -> chk_texts st = ptexts st. Proof. intros ->. reflexivity. Qed.
Lemma chk_tops_lint st : ee = false -> chk_tops st = ptops st. Proof. intros ->. reflexivity. Qed.

Lemma parse_program_eq ts :
  parse_program ts =
  match parse_tops (5 * List.length ts + 4) pst0 ts with
  | Parser.Ok st =>
      match dup_text [] (chk_texts st) with
      | Some x => err_tok (xtok x) "duplicate text label"
      | None => match dup_mov [] (chk_tops st) with
                | Some tk => err_tok tk "duplicate movement label"
                | None => Parser.Ok {| tops := all_tops st; texts := all_texts st |}
                end
      end
  | Parser.Err e => Parser.Err e | Parser.Panic => Parser.Panic | Parser.Fuel => Parser.Fuel
  end.
Proof. reflexivity. Qed.

(* THEOREM 1 (every program accepted by a real compilation): text names pairwise distinct, movement names pairwise distinct *)
Theorem accepted_names_distinct ts p : ee = true ->
  parse_program ts = Parser.Ok p -> NoDup (map xname (texts p)) /\ NoDup (mov_names (tops p)).
Proof.
  intros EE. rewrite parse_program_eq. destruct (parse_tops _ pst0 ts) as [st| | |]; try discriminate.
  rewrite (chk_texts_true st EE), (chk_tops_true st EE).
  destruct (dup_text [] (all_texts st)) eqn:E1; [discriminate|]. destruct (dup_mov [] (all_tops st)) eqn:E2; [discriminate|].
  intros H. inversion H; subst. cbn [texts tops]. split; [now apply dup_text_none_nodup|now apply dup_mov_none_nodup].
Qed.

(* THEOREM 2 (the complete case analysis of the name check, for every token stream on which the top-level loop succeeds,
   in both modes): exactly one of
   (a) some compared text name is repeated: the error "duplicate text label" on the token of x, the first text of the list
       (hoisted texts, then text statements) whose name was used by an earlier text - the LATER text of the pair;
   (b) text names distinct, some movement name is repeated: the error "duplicate movement label" on the token tk0 of the
       EARLIER movement statement of the first repeated name (list: user statements in source order, then hoisted movements);
   (c) both distinct: the program is accepted, with all texts and all statements. *)
Theorem parse_program_name_check ts st :
  parse_tops (5 * List.length ts + 4) pst0 ts = Parser.Ok st ->
  (exists l1 x l2, chk_texts st = l1 ++ x :: l2 /\ NoDup (map xname l1) /\ In (xname x) (map xname l1) /\
                   parse_program ts = err_tok (xtok x) "duplicate text label")
  \/ (NoDup (map xname (chk_texts st)) /\
      exists e1 n tk e2 tk0, mov_entries (chk_tops st) = e1 ++ (n, tk) :: e2 /\ NoDup (map Datatypes.fst e1) /\ In (n, tk0) e1 /\
                   parse_program ts = err_tok tk0 "duplicate movement label")
  \/ (NoDup (map xname (chk_texts st)) /\ NoDup (mov_names (chk_tops st)) /\
      parse_program ts = Parser.Ok {| tops := all_tops st; texts := all_texts st |}).
Proof.
  intros H. rewrite parse_program_eq, H.
  destruct (dup_text [] (chk_texts st)) as [x|] eqn:E1.
  - left. apply dup_text_reports_later in E1. destruct E1 as (l1 & l2 & E & N & I). exists l1, x, l2. tauto.
  - right. apply dup_text_none_nodup in E1. destruct (dup_mov [] (chk_tops st)) as [tk0|] eqn:E2.
    + left. split; [exact E1|]. apply dup_mov_reports_earlier in E2. destruct E2 as (e1 & n & tk & e2 & E & N & I).
      exists e1, n, tk, e2, tk0. tauto.
    + right. apply dup_mov_none_nodup in E2. tauto.
Qed.

(* "exactly when": the three outcomes characterised by the names alone *)
Theorem duplicate_text_label_iff ts st :
  parse_tops (5 * List.length ts + 4) pst0 ts = Parser.Ok st ->
  (~ NoDup (map xname (chk_texts st)) <->
   exists x, In x (chk_texts st) /\ parse_program ts = err_tok (xtok x) "duplicate text label").
Proof.
  intros H. split.
  - intros ND. destruct (not_nodup_text _ ND) as (x & E). exists x. split.
    + apply dup_text_reports_later in E. destruct E as (l1 & l2 & -> & _). apply in_or_app. right. now left.
    + rewrite parse_program_eq, H, E. reflexivity.
  - intros (x & _ & E) ND. rewrite parse_program_eq, H in E. apply dup_text_none_nodup in ND. rewrite ND in E.
    destruct (dup_mov [] (chk_tops st)); [|discriminate]. apply err_tok_msg in E. symmetry in E. exact (msg_text_ne_mov E).
Qed.

Theorem duplicate_movement_label_iff ts st :
  parse_tops (5 * List.length ts + 4) pst0 ts = Parser.Ok st ->
  (NoDup (map xname (chk_texts st)) /\ ~ NoDup (mov_names (chk_tops st)) <->
   exists n tk0, In (n, tk0) (mov_entries (chk_tops st)) /\ parse_program ts = err_tok tk0 "duplicate movement label").
Proof.
  intros H. split.
  - intros [NT ND]. destruct (not_nodup_mov _ ND) as (tk0 & E). pose proof E as E'.
    apply dup_mov_reports_earlier in E'. destruct E' as (e1 & n & tk & e2 & E1 & _ & I). exists n, tk0. split.
    + rewrite E1. apply in_or_app. now left.
    + apply dup_text_none_nodup in NT. rewrite parse_program_eq, H, NT, E. reflexivity.
  - intros (n & tk0 & _ & E). rewrite parse_program_eq, H in E.
    destruct (dup_text [] (chk_texts st)) as [x|] eqn:E1.
    + apply err_tok_msg in E. exfalso. exact (msg_text_ne_mov E).
    + split; [now apply dup_text_none_nodup|]. intros ND. apply dup_mov_none_nodup in ND. rewrite ND in E. discriminate.
Qed.

Theorem accepted_iff ts st :
  parse_tops (5 * List.length ts + 4) pst0 ts = Parser.Ok st ->
  (NoDup (map xname (chk_texts st)) /\ NoDup (mov_names (chk_tops st)) <->
   parse_program ts = Parser.Ok {| tops := all_tops st; texts := all_texts st |}).
Proof.
  intros H. split.
  - intros [A B]. apply dup_text_none_nodup in A. apply dup_mov_none_nodup in B. rewrite parse_program_eq, H, A, B. reflexivity.
  - intros E. rewrite parse_program_eq, H in E.
    destruct (dup_text [] (chk_texts st)) eqn:E1; [discriminate|]. destruct (dup_mov [] (chk_tops st)) eqn:E2; [discriminate|].
    split; [now apply dup_text_none_nodup|now apply dup_mov_none_nodup].
Qed.

(* lint mode: the author's own text and movement statements decide; nothing generated is compared *)
Corollary lint_accepted_iff ts st : ee = false ->
  parse_tops (5 * List.length ts + 4) pst0 ts = Parser.Ok st ->
  (NoDup (map xname (ptexts st)) /\ NoDup (mov_names (ptops st)) <->
   parse_program ts = Parser.Ok {| tops := all_tops st; texts := all_texts st |}).
Proof. intros EE H. rewrite <- (chk_texts_lint st EE), <- (chk_tops_lint st EE). now apply accepted_iff. Qed.

(* the name check is the last step: an outcome of the top-level loop other than Ok is the outcome of parse_program *)
Theorem parse_program_propagates ts :
  match parse_tops (5 * List.length ts + 4) pst0 ts with
  | Parser.Ok _ => True
  | other => parse_program ts = match other with Parser.Err e => Parser.Err e | Parser.Panic => Parser.Panic | _ => Parser.Fuel end
  end.
Proof. rewrite parse_program_eq. destruct (parse_tops _ pst0 ts); [exact I|reflexivity|reflexivity|reflexivity]. Qed.
End PROGRAM.

(* ================================================================================================================== *)
(* PART 2: the emitter's label check (clash in render_bodies)                                                          *)
(* ================================================================================================================== *)
(* the label statements written directly in a statement list: (name, token) *)
Definition labtks (ss : list stmt) : list (text * token) :=
  flat_map (fun s => match s with SLabel n _ tk => [(n, tk)] | _ => [] end) ss.
Lemma labtks_app a b : labtks (a ++ b) = labtks a ++ labtks b.
Proof. apply flat_map_app. Qed.
Lemma labtks_names ss : map Datatypes.fst (labtks ss) = map Datatypes.fst (user_labels ss).
Proof.
  induction ss as [|s r IH]; [reflexivity|]. unfold labtks, user_labels in *. cbn [flat_map]. rewrite !map_app, IH.
  destruct s; reflexivity.
Qed.

Section CLASH.
Variable mp : option text.
Variable tl : list text.       (* the text labels: names of the texts of the program *)

(* 2a. clash: the first label statement of the list whose name is one of [labels] (flag false) or, failing that, one of
       the text labels (flag true); its token is returned *)
Lemma clash_none_iff labels ss :
  clash tl labels ss = None <-> forall n, In n (map Datatypes.fst (labtks ss)) -> ~ In n labels /\ ~ In n tl.
Proof.
  induction ss as [|s r IH].
  - split; [intros _ n []|reflexivity].
  - destruct s as [cm|l g tk| | | | | | ]; cbn [clash]; unfold labtks; cbn [flat_map app]; fold (labtks r); try exact IH.
    cbn [map Datatypes.fst].
    destruct (existsb (text_eqb l) labels) eqn:E1.
    { apply existsb_teq in E1. split; [discriminate|]. intros H. exfalso. destruct (H l (or_introl eq_refl)) as [A _]. now apply A. }
    destruct (existsb (text_eqb l) tl) eqn:E2.
    { apply existsb_teq in E2. split; [discriminate|]. intros H. exfalso. destruct (H l (or_introl eq_refl)) as [_ A]. now apply A. }
    apply existsb_teq_false in E1, E2. rewrite IH. split.
    + intros H n [<-|Hn]; [split; assumption|now apply H].
    + intros H n Hn. apply H. now right.
Qed.

Lemma clash_some_iff labels ss tk b :
  clash tl labels ss = Some (tk, b) <->
  exists pre n g post, ss = pre ++ SLabel n g tk :: post /\ clash tl labels pre = None /\
    ((b = false /\ In n labels) \/ (b = true /\ ~ In n labels /\ In n tl)).
Proof.
  induction ss as [|s r IH].
  - split; [discriminate|]. intros (pre & n & g & post & E & _). destruct pre; discriminate.
  - assert (SKIP : (forall n g tk', s <> SLabel n g tk') -> clash tl labels (s :: r) = clash tl labels r).
    { intros NS. destruct s; try reflexivity. exfalso. eapply NS. reflexivity. }
    assert (GEN : (forall n g tk', s <> SLabel n g tk') ->
                  (clash tl labels (s :: r) = Some (tk, b) <->
                   exists pre n g post, s :: r = pre ++ SLabel n g tk :: post /\ clash tl labels pre = None /\
                     ((b = false /\ In n labels) \/ (b = true /\ ~ In n labels /\ In n tl)))).
    { intros NS. rewrite (SKIP NS), IH. split.
      - intros (pre & n & g & post & -> & C & K). exists (s :: pre), n, g, post. split; [reflexivity|]. split; [|exact K].
        destruct s; try exact C. exfalso. eapply NS. reflexivity.
      - intros (pre & n & g & post & E & C & K). destruct pre as [|z pre]; cbn [app] in E; inversion E; subst.
        + exfalso. eapply NS. reflexivity.
        + exists pre, n, g, post. split; [reflexivity|]. split; [|exact K]. destruct z; try exact C. exfalso. eapply NS. reflexivity. }
    destruct s as [cm|l g0 tk0| | | | | | ]; try (apply GEN; intros; discriminate). clear GEN SKIP.
    cbn [clash]. destruct (existsb (text_eqb l) labels) eqn:E1.
    { split.
      - intros H. inversion H; subst. exists [], l, g0, r. split; [reflexivity|]. split; [reflexivity|]. left. split; [reflexivity|now apply existsb_teq].
      - intros (pre & n & g & post & E & C & K). destruct pre as [|z pre]; cbn [app] in E; inversion E; subst.
        + destruct K as [[-> _]|(_ & K & _)]; [reflexivity|]. exfalso. apply K. now apply existsb_teq.
        + cbn [clash] in C. rewrite E1 in C. discriminate. }
    destruct (existsb (text_eqb l) tl) eqn:E2.
    { split.
      - intros H. inversion H; subst. exists [], l, g0, r. split; [reflexivity|]. split; [reflexivity|]. right.
        split; [reflexivity|]. split; [now apply existsb_teq_false|now apply existsb_teq].
      - intros (pre & n & g & post & E & C & K). destruct pre as [|z pre]; cbn [app] in E; inversion E; subst.
        + destruct K as [[_ K]|(-> & _)]; [|reflexivity]. apply existsb_teq in K. congruence.
        + cbn [clash] in C. rewrite E1, E2 in C. discriminate. }
    rewrite IH. split.
    + intros (pre & n & g & post & -> & C & K). exists (SLabel l g0 tk0 :: pre), n, g, post. split; [reflexivity|]. split; [|exact K].
      cbn [clash]. rewrite E1, E2. exact C.
    + intros (pre & n & g & post & E & C & K). destruct pre as [|z pre]; cbn [app] in E; inversion E; subst.
      * exfalso. apply existsb_teq_false in E1, E2. destruct K as [[_ K]|(_ & _ & K)]; auto.
      * cbn [clash] in C. rewrite E1, E2 in C. exists pre, n, g, post. split; [reflexivity|]. split; assumption.
Qed.

(* 2b. render_bodies: the chunks are checked in rendering order; the result is Ok or ErrLabel, never another error *)
Definition chunk_ok (labels : list text) (c : chunk) : Prop := clash tl labels (cstmts c) = None.

Lemma rchunks_cons_some G i r c : get_chunk G i = Some c -> rchunks G (i :: r) = c :: rchunks G r.
Proof. intros E. unfold rchunks. cbn [flat_map]. now rewrite E. Qed.
Lemma rchunks_cons_none G i r : get_chunk G i = None -> rchunks G (i :: r) = rchunks G r.
Proof. intros E. unfold rchunks. cbn [flat_map]. now rewrite E. Qed.

Lemma render_bodies_cases name G labels : forall order,
  ((exists r, render_bodies mp tl name G labels order = Emitter.Ok r) /\ Forall (chunk_ok labels) (rchunks G order))
  \/ (exists o1 i o2 c tk b, order = o1 ++ i :: o2 /\ get_chunk G i = Some c /\ Forall (chunk_ok labels) (rchunks G o1) /\
        clash tl labels (cstmts c) = Some (tk, b) /\ render_bodies mp tl name G labels order = ErrLabel tk b).
Proof.
  induction order as [|i r IH]; cbn [render_bodies].
  - left. split; [eexists; reflexivity|constructor].
  - destruct (get_chunk G i) as [c|] eqn:GC.
    + destruct (clash tl labels (cstmts c)) as [[tk b]|] eqn:CL.
      * right. exists [], i, r, c, tk, b. split; [reflexivity|]. split; [exact GC|]. split; [constructor|]. split; [exact CL|reflexivity].
      * destruct (render_branch mp name c _) as [[b0 regs0] fall].
        destruct IH as [[(res & E) F]|(o1 & j & o2 & c' & tk & b & E & GC' & F & CL' & R)].
        -- left. rewrite E. destruct res as [rest regs']. split; [eexists; reflexivity|].
           rewrite (rchunks_cons_some _ _ _ _ GC). constructor; assumption.
        -- right. exists (i :: o1), j, o2, c', tk, b. split; [rewrite E; reflexivity|]. split; [exact GC'|].
           split; [rewrite (rchunks_cons_some _ _ _ _ GC); constructor; assumption|]. split; [exact CL'|]. rewrite R. reflexivity.
    + destruct IH as [[E F]|(o1 & j & o2 & c' & tk & b & E & GC' & F & CL' & R)].
      * left. split; [exact E|]. now rewrite (rchunks_cons_none _ _ _ GC).
      * right. exists (i :: o1), j, o2, c', tk, b. split; [rewrite E; reflexivity|]. split; [exact GC'|].
        split; [now rewrite (rchunks_cons_none _ _ _ GC)|]. split; [exact CL'|exact R].
Qed.

(* render_chunks: the labels checked against are the chunk labels of ALL chunks of the graph (rendered or not, referenced
   or not): the script name for chunk 0, name_<id> for the others *)
Theorem render_chunks_cases name glob G order :
  let gen := map (chunk_label name) G in
  ((exists code, render_chunks mp tl name glob G order = Emitter.Ok code) /\ Forall (chunk_ok gen) (rchunks G order))
  \/ (exists o1 i o2 c tk b, order = o1 ++ i :: o2 /\ get_chunk G i = Some c /\ Forall (chunk_ok gen) (rchunks G o1) /\
        clash tl gen (cstmts c) = Some (tk, b) /\ render_chunks mp tl name glob G order = ErrLabel tk b).
Proof.
  cbv zeta. unfold render_chunks.
  destruct (render_bodies_cases name G (map (chunk_label name) G) order) as [[(res & E) F]|(o1 & j & o2 & c' & tk & b & E & GC' & F & CL' & R)].
  - left. rewrite E. destruct res as [bodies regs]. split; [eexists; reflexivity|exact F].
  - right. exists o1, j, o2, c', tk, b. rewrite R. tauto.
Qed.
End CLASH.

(* ---------- 2c. the label statements of a script body, at every depth: (name, token) ---------- *)
Fixpoint dlt1 (s : stmt) : list (text * token) :=
  let dl := fix dl (ss : list stmt) : list (text * token) := match ss with [] => [] | x :: r => dlt1 x ++ dl r end in
  match s with
  | SLabel n _ tk => [(n, tk)]
  | SIf conds els =>
      (fix go (cs : list (bexp * list stmt)) : list (text * token) := match cs with [] => [] | (_, b) :: r => dl b ++ go r end) conds ++
      match els with Some b => dl b | None => [] end
  | SWhile _ _ b => dl b
  | SDoWhile _ b _ => dl b
  | SSwitch _ _ _ cases =>
      (fix go (cs : list scase) : list (text * token) := match cs with [] => [] | c :: r => dl (sc_body c) ++ go r end) cases
  | _ => []
  end.
Fixpoint dlts (ss : list stmt) : list (text * token) := match ss with [] => [] | x :: r => dlt1 x ++ dlts r end.
Definition dlts_local := fix dl (ss : list stmt) : list (text * token) := match ss with [] => [] | x :: r => dlt1 x ++ dl r end.
Lemma dlts_local_eq ss : dlts_local ss = dlts ss.
Proof. induction ss as [|x r IH]; [reflexivity|]. cbn. now rewrite IH. Qed.

Lemma dlt1_if conds els :
  dlt1 (SIf conds els) = List.concat (map (fun cb : bexp * list stmt => dlts (snd cb)) conds) ++ match els with Some b => dlts b | None => [] end.
Proof.
  change (dlt1 (SIf conds els)) with
    ((fix go (cs : list (bexp * list stmt)) : list (text * token) := match cs with [] => [] | (_, b) :: r => dlts_local b ++ go r end) conds ++
     match els with Some b => dlts_local b | None => [] end).
  f_equal.
  - induction conds as [|[e b] r IH]; [reflexivity|]. cbn. rewrite IH, dlts_local_eq. reflexivity.
Qed.
Lemma dlt1_while tg c b : dlt1 (SWhile tg c b) = dlts b.
Proof. change (dlt1 (SWhile tg c b)) with (dlts_local b). apply dlts_local_eq. Qed.
Lemma dlt1_dowhile tg b c : dlt1 (SDoWhile tg b c) = dlts b.
Proof. change (dlt1 (SDoWhile tg b c)) with (dlts_local b). apply dlts_local_eq. Qed.
Lemma dlt1_switch tg o ol cases : dlt1 (SSwitch tg o ol cases) = List.concat (map (fun c : scase => dlts (sc_body c)) cases).
Proof.
  change (dlt1 (SSwitch tg o ol cases)) with
    ((fix go (cs : list scase) : list (text * token) := match cs with [] => [] | c :: r => dlts_local (sc_body c) ++ go r end) cases).
  induction cases as [|c r IH]; [reflexivity|]. cbn. rewrite IH, dlts_local_eq. reflexivity.
Qed.
Lemma dlts_app a b : dlts (a ++ b) = dlts a ++ dlts b.
Proof. induction a as [|x r IH]; [reflexivity|]. cbn. now rewrite IH, app_assoc. Qed.
Lemma dlts_ctl s : is_simple s = false -> dlts [s] = Msub (text * token) dlts s.
Proof.
  intros NS. cbn [dlts]. rewrite app_nil_r. unfold Msub.
  destruct s as [c|nm g tk|conds els|tag c body|tag body c|tag|tag|tag op ol cases]; try discriminate NS; cbn [subblocks]; try reflexivity.
  - rewrite dlt1_if, map_app, List.concat_app, map_map. f_equal. destruct els; cbn; [now rewrite app_nil_r|reflexivity].
  - rewrite dlt1_while. cbn. now rewrite app_nil_r.
  - rewrite dlt1_dowhile. cbn. now rewrite app_nil_r.
  - rewrite dlt1_switch, map_map. reflexivity.
Qed.
Lemma dlts_simple ss : Forall simple ss -> dlts ss = labtks ss.
Proof.
  induction 1 as [|x r H _ IH]; [reflexivity|]. cbn [dlts]. unfold labtks. cbn [flat_map]. fold (labtks r). rewrite IH. f_equal.
  destruct x; try discriminate H; reflexivity.
Qed.

(* the names of these label statements are WorkLabels.dlabs *)
Lemma concat_map_map {A B C} (f : B -> C) (g : A -> list B) l : map f (List.concat (map g l)) = List.concat (map (fun x => map f (g x)) l).
Proof. induction l as [|x r IH]; [reflexivity|]. cbn. now rewrite map_app, IH. Qed.

Lemma dlts_names : forall ss, map Datatypes.fst (dlts ss) = dlabs ss.
Proof.
  apply (stmts_ind2 (fun s => map Datatypes.fst (dlt1 s) = dlab1 s) (fun ss => map Datatypes.fst (dlts ss) = dlabs ss)).
  - reflexivity.
  - intros s r Hs Hr. cbn [dlts dlabs]. now rewrite map_app, Hs, Hr.
  - reflexivity.
  - reflexivity.
  - intros conds els FC FE. rewrite dlt1_if, dlab1_if, map_app. f_equal.
    + rewrite concat_map_map. f_equal. induction FC as [|cb r H _ IH]; [reflexivity|]. cbn [map]. now rewrite H, IH.
    + destruct els as [b|]; [exact FE|reflexivity].
  - intros tg c b Hb. now rewrite dlt1_while, dlab1_while.
  - intros tg b c Hb. now rewrite dlt1_dowhile, dlab1_dowhile.
  - reflexivity.
  - reflexivity.
  - intros tg o ol cases FC. rewrite dlt1_switch, dlab1_switch, concat_map_map. f_equal.
    induction FC as [|c r H _ IH]; [reflexivity|]. cbn [map]. now rewrite H, IH.
Qed.

(* the worklist conserves the label statements with their tokens *)
Definition graph_labtks (G : list chunk) : list (text * token) := flat_map (fun c => labtks (cstmts c)) G.

Lemma Mrem_labtks fs : Forall (fun c => Forall simple (cstmts c)) fs -> Mrem (text * token) dlts fs = graph_labtks fs.
Proof.
  induction 1 as [|c r H _ IH]; [reflexivity|]. rewrite Mrem_cons, IH, (dlts_simple _ H). reflexivity.
Qed.

Lemma emit_graph_inv0 body : src_ok body ->
  Worklist.Inv {| remaining := [mk 0 (-1) body None]; finals := []; counter := 0; brk := []; org := [] |}.
Proof.
  intros [OK ND]. constructor; cbn.
  - lia.
  - repeat constructor. intros [].
  - repeat constructor; cbn; lia.
  - constructor; [right; split; reflexivity|constructor].
  - constructor; [exact OK|constructor].
  - unfold tags_rem. cbn. rewrite !app_nil_r. exact ND.
  - reflexivity.
Qed.

Local Opaque work_fuel work.
Theorem graph_labels_are_source_labels body w :
  emit_graph body = Emitter.Ok w -> src_ok body -> Permutation (graph_labtks (finals w)) (dlts body).
Proof.
  intros H S. unfold emit_graph in H.
  destruct (work_conserves (text * token) dlts eq_refl dlts_app (fun _ => eq_refl) dlts_ctl _ _ _ (emit_graph_inv0 body S) (Forall_nil _) H) as [P SF].
  rewrite (Mrem_labtks _ SF) in P. etransitivity; [exact P|]. unfold MW, Mrem. cbn. rewrite !app_nil_r. reflexivity.
Qed.

(* the worklist never reports a label error *)
Local Transparent work.
Lemma work_no_label_error tk b : forall f w, work f w <> ErrLabel tk b.
Proof.
  induction f as [|f IH]; intros w; [discriminate|]. rewrite work_S. destruct (wstep w); try discriminate. apply IH.
Qed.
Local Opaque work.
Lemma emit_graph_no_label_error body tk b : emit_graph body <> ErrLabel tk b.
Proof. apply work_no_label_error. Qed.

(* every chunk of the graph is rendered exactly once *)
Lemma rchunks_ids G : NoDup (map cid G) -> rchunks G (map cid G) = G.
Proof.
  intros ND. unfold rchunks. rewrite flat_map_concat_map, map_map.
  rewrite (map_ext_in _ (fun c => [c])).
  - induction G as [|c r IH]; [reflexivity|]. cbn. f_equal. apply IH. now inversion ND.
  - intros c Hc. now rewrite (get_chunk_nodup G ND c Hc).
Qed.

Lemma rchunks_perm G order : NoDup (map cid G) -> Permutation order (map cid G) -> Permutation (rchunks G order) G.
Proof.
  intros ND P. rewrite <- (rchunks_ids G ND) at 2. unfold rchunks. apply Permutation_flat_map. exact P.
Qed.

(* the generated labels of a script: its name and name_1 ... name_(#chunks - 1), whether printed or not *)
Theorem generated_labels_spec name body w :
  emit_graph body = Emitter.Ok w -> src_ok body ->
  forall n, In n (map (chunk_label name) (finals w)) <->
            n = name \/ exists k, (0 < k < Z.of_nat (List.length (finals w)))%Z /\ n = lbl name k.
Proof.
  intros H S n. destruct (WorkShape.final_graph_shape body w H S) as (DN & NE & _).
  assert (DN' : OrderPerm.dense (finals w)) by exact DN. split.
  - intros X. apply in_map_iff in X. destruct X as (c & <- & Hc). unfold chunk_label.
    destruct (Z.eqb_spec (cid c) 0) as [E|E]; [now left|right]. exists (cid c). split; [|reflexivity].
    pose proof (OrderPerm.ids_range _ DN' (cid c) (in_map cid _ _ Hc)). lia.
  - intros [->|(k & K & ->)].
    + assert (I0 : In 0%Z (map cid (finals w))).
      { apply (OrderPerm.ids_full _ DN'). destruct (finals w); [now elim NE|]. cbn [List.length]. lia. }
      apply in_map_iff in I0. destruct I0 as (c & E & Hc). apply in_map_iff. exists c. split; [|exact Hc].
      unfold chunk_label. rewrite E. reflexivity.
    + assert (I0 : In k (map cid (finals w))) by (apply (OrderPerm.ids_full _ DN'); lia).
      apply in_map_iff in I0. destruct I0 as (c & E & Hc). apply in_map_iff. exists c. split; [|exact Hc].
      unfold chunk_label. rewrite E. destruct (Z.eqb_spec k 0); [lia|reflexivity].
Qed.

(* ================================================================================================================== *)
(* 2d. emit_script: THE LABEL CHECK OF A SCRIPT                                                                        *)
(* ================================================================================================================== *)
Lemma emit_script_eq mp tl name glob optimize body :
  emit_script mp tl name glob optimize body =
  match emit_graph body with
  | Emitter.Ok w => render_chunks mp tl name glob (finals w) (order_of optimize (finals w))
  | ErrBreak => ErrBreak | ErrContinue => ErrContinue | OutOfFuel => OutOfFuel | ErrLabel tk b => ErrLabel tk b
  end.
Proof. reflexivity. Qed.

Local Opaque emit_graph order_of.

Lemma in_labtks_split ss n tk : In (n, tk) (labtks ss) -> exists pre g post, ss = pre ++ SLabel n g tk :: post.
Proof.
  induction ss as [|s r IH]; [intros []|]. unfold labtks. cbn [flat_map]. fold (labtks r). intros H. apply in_app_or in H.
  destruct H as [H|H].
  - destruct s; try (destruct H; fail). destruct H as [H|[]]. inversion H; subst. exists [], glob, r. reflexivity.
  - destruct (IH H) as (pre & g & post & ->). exists (s :: pre), g, post. reflexivity.
Qed.

Section SCRIPT.
Variable mp : option text.
Variable tl : list text.
Variable name : text.
Variable glob optimize : bool.
Variable body : list stmt.
Variable w : wst.
Hypothesis HW : emit_graph body = Emitter.Ok w.
Hypothesis HS : src_ok body.
Let G := finals w.
Let gen := map (chunk_label name) G.

Lemma rendered_perm : Permutation (rchunks G (order_of optimize G)) G.
Proof.
  destruct (WorkShape.final_graph_shape body w HW HS) as (DN & _). fold G in DN.
  assert (DN' : OrderPerm.dense G) by exact DN.
  apply rchunks_perm; [destruct DN; assumption|]. apply OrderPerm.order_of_perm_all. exact DN'.
Qed.

Lemma all_chunks_ok_iff :
  Forall (chunk_ok tl gen) G <-> forall n, In n (dlabs body) -> ~ In n gen /\ ~ In n tl.
Proof.
  pose proof (graph_labels_are_source_labels body w HW HS) as P. fold G in P.
  rewrite <- dlts_names. rewrite Forall_forall. unfold chunk_ok. split.
  - intros H n Hn. assert (Hn' : In n (map Datatypes.fst (graph_labtks G))).
    { eapply Permutation_in; [symmetry; apply Permutation_map; exact P|exact Hn]. }
    apply in_map_iff in Hn'. destruct Hn' as ([n' tk] & <- & Hx). unfold graph_labtks in Hx. apply in_flat_map in Hx.
    destruct Hx as (c & Hc & Hx). apply (proj1 (clash_none_iff tl gen (cstmts c)) (H c Hc)).
    change n' with (Datatypes.fst (n', tk)). now apply in_map.
  - intros H c Hc. apply clash_none_iff. intros n Hn. apply H. eapply Permutation_in; [apply Permutation_map; exact P|].
    apply in_map_iff in Hn. destruct Hn as (x & <- & Hx). apply in_map. unfold graph_labtks. apply in_flat_map. exists c. split; assumption.
Qed.

(* THEOREM 3: for every script body whose chunk graph is built, exactly one of
   (a) no label statement of the body (at any depth) is named like a generated chunk label of this script or like a text:
       the script is rendered;
   (b) the script is rejected with ErrLabel tk b, where tk is the token of a label statement  name(tk)  of the body whose
       name n is a generated chunk label of this script (b = false: "duplicate script label") or, if not, the name of a
       text (b = true: "duplicate text label"). *)
Theorem emit_script_label_check :
  ((exists code, emit_script mp tl name glob optimize body = Emitter.Ok code) /\
   (forall n, In n (dlabs body) -> ~ In n gen /\ ~ In n tl))
  \/ (exists n tk b, emit_script mp tl name glob optimize body = ErrLabel tk b /\ In (n, tk) (dlts body) /\
        ((b = false /\ In n gen) \/ (b = true /\ ~ In n gen /\ In n tl))).
Proof.
  rewrite emit_script_eq, HW. fold G.
  destruct (render_chunks_cases mp tl name glob G (order_of optimize G)) as [[E F]|(o1 & i & o2 & c & tk & b & E & GC & F & CL & R)].
  - left. split; [exact E|]. apply all_chunks_ok_iff. fold gen in F.
    rewrite Forall_forall in *. intros c Hc. apply F. eapply Permutation_in; [symmetry; apply rendered_perm|exact Hc].
  - right. fold gen in CL. apply clash_some_iff in CL. destruct CL as (pre & n & g & post & ES & _ & K).
    exists n, tk, b. split; [exact R|]. split; [|exact K].
    eapply Permutation_in; [apply (graph_labels_are_source_labels body w HW HS)|]. fold G. unfold graph_labtks. apply in_flat_map.
    exists c. split; [eapply EmitProps.get_chunk_in; exact GC|]. rewrite ES, labtks_app. apply in_or_app. right. now left.
Qed.

(* "exactly": accepted iff no label clashes, rejected (ErrLabel) iff some label clashes *)
Theorem emit_script_accepts_iff :
  (exists code, emit_script mp tl name glob optimize body = Emitter.Ok code) <->
  (forall n, In n (dlabs body) -> ~ In n gen /\ ~ In n tl).
Proof.
  destruct emit_script_label_check as [[E F]|(n & tk & b & E & I & K)].
  - tauto.
  - split.
    + intros (code & E'). rewrite E in E'. discriminate.
    + intros H. exfalso. assert (Hn : In n (dlabs body)) by (rewrite <- dlts_names; change n with (Datatypes.fst (n, tk)); now apply in_map).
      destruct (H n Hn) as [A B]. destruct K as [[_ K]|(_ & _ & K)]; auto.
Qed.

Theorem emit_script_rejects_iff :
  (exists tk b, emit_script mp tl name glob optimize body = ErrLabel tk b) <->
  (exists n, In n (dlabs body) /\ (In n gen \/ In n tl)).
Proof.
  destruct emit_script_label_check as [[(code & E) F]|(n & tk & b & E & I & K)].
  - split.
    + intros (tk & b & E'). rewrite E in E'. discriminate.
    + intros (n & Hn & K). exfalso. destruct (F n Hn) as [A B]. destruct K; auto.
  - split.
    + intros _. exists n. split; [rewrite <- dlts_names; change n with (Datatypes.fst (n, tk)); now apply in_map|]. tauto.
    + intros _. exists tk, b. exact E.
Qed.

(* the reported token is the token of a clashing label statement, and the flag tells which kind of clash *)
Theorem emit_script_error_token tk b :
  emit_script mp tl name glob optimize body = ErrLabel tk b ->
  exists n, In (n, tk) (dlts body) /\ ((b = false /\ In n gen) \/ (b = true /\ ~ In n gen /\ In n tl)).
Proof.
  intros E. destruct emit_script_label_check as [[(code & E') _]|(n & tk' & b' & E' & I & K)]; rewrite E in E'; [discriminate|].
  inversion E'; subst. exists n. tauto.
Qed.
End SCRIPT.

(* without a chunk graph there is no label error: ErrLabel only comes out of the rendering *)
Theorem emit_script_label_error_has_graph mp tl name glob optimize body tk b :
  emit_script mp tl name glob optimize body = ErrLabel tk b -> exists w, emit_graph body = Emitter.Ok w.
Proof.
  rewrite emit_script_eq. destruct (emit_graph body) as [w| | | |tk' b'] eqn:E; try discriminate; [intros _; now exists w|].
  exfalso. exact (emit_graph_no_label_error body tk' b' E).
Qed.

(* ================================================================================================================== *)
(* 2e. programs: the scripts of a program in emission order, and the first script error                                *)
(* ================================================================================================================== *)
Definition script : Type := (text * bool * list stmt)%type.   (* name, global, body *)
Definition sc_of (l : list (text * option (list stmt))) : list script :=
  flat_map (fun nb : text * option (list stmt) => match Datatypes.snd nb with Some b => [(Datatypes.fst nb, false, b)] | None => [] end) l.
Definition scripts_of_top (tp : top) : list script :=
  match tp with
  | TScript n g b => [(n, g, b)]
  | TMapScripts _ _ plain tables =>
      flat_map (fun m => match msScript m with Some b => [(msName m, false, b)] | None => [] end) plain ++
      flat_map (fun tb => flat_map (fun e => match teScript e with Some b => [(teName e, false, b)] | None => [] end) (tmEntries tb)) tables
  | _ => []
  end.
Definition scripts_of (l : list top) : list script := flat_map scripts_of_top l.

Lemma scripts_bodies l : map (fun s : script => Datatypes.snd s) (scripts_of l) = bodies_of l.
Proof.
  unfold scripts_of, bodies_of. induction l as [|tp r IH]; [reflexivity|]. cbn [flat_map]. rewrite map_app, IH. f_equal.
  destruct tp; try reflexivity. cbn [scripts_of_top bodies_of_top]. rewrite map_app. f_equal.
  - induction plain as [|m q IHq]; [reflexivity|]. cbn [flat_map]. rewrite map_app, IHq. destruct (msScript m); reflexivity.
  - induction tables as [|tb q IHq]; [reflexivity|]. cbn [flat_map]. rewrite map_app, IHq. f_equal.
    induction (tmEntries tb) as [|e q' IHq']; [reflexivity|]. cbn [flat_map]. rewrite map_app, IHq'. destruct (teScript e); reflexivity.
Qed.

Inductive eerr := EBreak | EContinue | EFuel | ELabel (tk : token) (b : bool).
Definition err_of {A} (r : Emitter.res A) : option eerr :=
  match r with
  | Emitter.Ok _ => None | ErrBreak => Some EBreak | ErrContinue => Some EContinue | OutOfFuel => Some EFuel
  | ErrLabel tk b => Some (ELabel tk b)
  end.
Lemma err_of_none {A} (r : Emitter.res A) : err_of r = None <-> exists x, r = Emitter.Ok x.
Proof. destruct r; cbn; split; try discriminate; try (intros (x & E); discriminate). - intros _. now exists a. - reflexivity. Qed.
Lemma err_of_label {A} (r : Emitter.res A) tk b : err_of r = Some (ELabel tk b) <-> r = ErrLabel tk b.
Proof. destruct r; cbn; split; intros H; try discriminate; inversion H; reflexivity. Qed.

Section PROGRAM_EMIT.
Variable mp : option text.
Variable tl : list text.
Variable optimize : bool.

Definition script_result (s : script) : Emitter.res (list instr) :=
  emit_script mp tl (Datatypes.fst (Datatypes.fst s)) (Datatypes.snd (Datatypes.fst s)) optimize (Datatypes.snd s).
(* the error of the first script (in emission order) that has one *)
Fixpoint first_error (l : list script) : option eerr :=
  match l with [] => None | s :: r => match err_of (script_result s) with Some e => Some e | None => first_error r end end.

Lemma first_error_app a b : first_error (a ++ b) = match first_error a with Some e => Some e | None => first_error b end.
Proof. induction a as [|s r IH]; [reflexivity|]. cbn [app first_error]. destruct (err_of (script_result s)); [reflexivity|exact IH]. Qed.

Lemma first_error_none l : first_error l = None <-> Forall (fun s => exists code, script_result s = Emitter.Ok code) l.
Proof.
  induction l as [|s r IH]; cbn [first_error]; [split; [constructor|reflexivity]|].
  destruct (err_of (script_result s)) eqn:E.
  - split; [discriminate|]. intros H. inversion H as [|? ? H1 H2]; subst. apply err_of_none in H1. congruence.
  - rewrite IH. apply err_of_none in E. split; [intros H; constructor; assumption|intros H; now inversion H].
Qed.

Lemma first_error_some l e : first_error l = Some e <->
  exists s1 s s2, l = s1 ++ s :: s2 /\ Forall (fun s => exists code, script_result s = Emitter.Ok code) s1 /\ err_of (script_result s) = Some e.
Proof.
  induction l as [|s r IH]; cbn [first_error].
  - split; [discriminate|]. intros (s1 & s & s2 & E & _). destruct s1; discriminate.
  - destruct (err_of (script_result s)) as [e0|] eqn:E.
    + split.
      * intros H. inversion H; subst. exists [], s, r. split; [reflexivity|]. split; [constructor|exact E].
      * intros (s1 & s' & s2 & E1 & F & E2). destruct s1 as [|z s1]; cbn [app] in E1; inversion E1; subst; [congruence|].
        inversion F as [|? ? F1 _]; subst. apply err_of_none in F1. congruence.
    + rewrite IH. split.
      * intros (s1 & s' & s2 & -> & F & E2). exists (s :: s1), s', s2. split; [reflexivity|]. split; [|exact E2].
        constructor; [now apply err_of_none|exact F].
      * intros (s1 & s' & s2 & E1 & F & E2). destruct s1 as [|z s1]; cbn [app] in E1; inversion E1; subst; [congruence|].
        exists s1, s', s2. split; [reflexivity|]. split; [now inversion F|exact E2].
Qed.

Lemma err_of_bind {A B} (r : Emitter.res A) (f : A -> Emitter.res B) :
  err_of (bind_i r f) = match r with Emitter.Ok x => err_of (f x) | _ => err_of r end.
Proof. destruct r; reflexivity. Qed.

Lemma emit_scripts_err l : err_of (emit_scripts mp tl optimize l) = first_error (sc_of l).
Proof.
  induction l as [|[n [b|]] r IH]; [reflexivity| |exact IH].
  cbn [emit_scripts]. unfold sc_of. cbn [flat_map Datatypes.snd Datatypes.fst app]. fold (sc_of r). cbn [first_error].
  unfold script_result at 1. cbn [Datatypes.fst Datatypes.snd]. rewrite err_of_bind.
  destruct (emit_script mp tl n false optimize b) as [x| | | |]; try reflexivity. cbn [err_of]. rewrite err_of_bind, <- IH.
  destruct (emit_scripts mp tl optimize r); reflexivity.
Qed.

Lemma sc_of_plain plain :
  sc_of (map (fun m => (msName m, msScript m)) plain) = flat_map (fun m => match msScript m with Some b => [(msName m, false, b)] | None => [] end) plain.
Proof. unfold sc_of. rewrite flat_map_concat_map, map_map, <- flat_map_concat_map. reflexivity. Qed.
Lemma sc_of_entries es :
  sc_of (map (fun e => (teName e, teScript e)) es) = flat_map (fun e => match teScript e with Some b => [(teName e, false, b)] | None => [] end) es.
Proof. unfold sc_of. rewrite flat_map_concat_map, map_map, <- flat_map_concat_map. reflexivity. Qed.

Lemma emit_tables_err tables :
  err_of (emit_tables mp tl optimize tables) =
  first_error (flat_map (fun tb => flat_map (fun e => match teScript e with Some b => [(teName e, false, b)] | None => [] end) (tmEntries tb)) tables).
Proof.
  induction tables as [|tb r IH]; [reflexivity|]. cbn [emit_tables flat_map]. rewrite first_error_app, <- sc_of_entries, <- emit_scripts_err, err_of_bind.
  destruct (emit_scripts mp tl optimize _) as [x| | | |]; try reflexivity. cbn [err_of]. rewrite err_of_bind, <- IH.
  destruct (emit_tables mp tl optimize r); reflexivity.
Qed.

Lemma emit_top_err tp :
  match emit_top mp tl optimize tp with
  | Some rt => err_of rt = first_error (scripts_of_top tp)
  | None => scripts_of_top tp = []
  end.
Proof.
  destruct tp; cbn [emit_top scripts_of_top]; try reflexivity.
  - cbn [first_error]. unfold script_result. cbn [Datatypes.fst Datatypes.snd]. destruct (err_of _); reflexivity.
  - unfold emit_mapscripts. rewrite first_error_app, <- sc_of_plain, <- emit_scripts_err, err_of_bind.
    destruct (emit_scripts mp tl optimize _) as [x| | | |]; try reflexivity. cbn [err_of]. rewrite err_of_bind, <- emit_tables_err.
    destruct (emit_tables mp tl optimize tables); reflexivity.
Qed.

Lemma emit_tops_err : forall l i, err_of (emit_tops mp tl optimize l i) = first_error (scripts_of l).
Proof.
  induction l as [|tp r IH]; intros i; [reflexivity|]. cbn [emit_tops]. unfold scripts_of. cbn [flat_map]. fold (scripts_of r).
  rewrite first_error_app. pose proof (emit_top_err tp) as T. destruct (emit_top mp tl optimize tp) as [rt|].
  - rewrite err_of_bind, <- T. destruct rt as [x| | | |]; try reflexivity. cbn [err_of]. rewrite err_of_bind, <- (IH (S i)).
    destruct (emit_tops mp tl optimize r (S i)) as [[y n]| | | |]; reflexivity.
  - rewrite T. cbn [first_error]. apply IH.
Qed.
End PROGRAM_EMIT.

(* THEOREM 4: the outcome of emitting a program is Ok iff every script is rendered, and otherwise the error of the first
   script (in emission order) that is not; the text labels scripts are checked against are the names of ALL texts *)
Theorem emit_program_error optimize mp p :
  err_of (emit_program optimize mp p) = first_error mp (map xname (texts p)) optimize (scripts_of (tops p)).
Proof.
  unfold emit_program, emit_program_instrs. rewrite <- (emit_tops_err mp (map xname (texts p)) optimize (tops p) 0).
  destruct (emit_tops mp (map xname (texts p)) optimize (tops p) 0) as [[x n]| | | |]; reflexivity.
Qed.

(* a script without clash: its chunk graph is built and no label statement of its body (at any depth) is named like one of
   its generated chunk labels or like a text *)
Definition script_clean (tl : list text) (s : script) : Prop :=
  exists w, emit_graph (Datatypes.snd s) = Emitter.Ok w /\
            forall lab, In lab (dlabs (Datatypes.snd s)) ->
                        ~ In lab (map (chunk_label (Datatypes.fst (Datatypes.fst s))) (finals w)) /\ ~ In lab tl.

Lemma script_ok_iff_clean mp tl optimize (s : script) :
  src_ok (Datatypes.snd s) ->
  ((exists code, script_result mp tl optimize s = Emitter.Ok code) <-> script_clean tl s).
Proof.
  intros S. destruct s as [[n g] body]. unfold script_result, script_clean. cbn [Datatypes.fst Datatypes.snd] in *. split.
  - intros (code & E). destruct (emit_graph body) as [w| | | |] eqn:HW; try (rewrite emit_script_eq, HW in E; discriminate).
    exists w. split; [reflexivity|]. apply (emit_script_accepts_iff mp tl n g optimize body w HW S). now exists code.
  - intros (w & HW & F). apply (emit_script_accepts_iff mp tl n g optimize body w HW S). exact F.
Qed.

Lemma src_ok_scripts l : Forall src_ok (bodies_of l) -> Forall (fun s : script => src_ok (Datatypes.snd s)) (scripts_of l).
Proof. rewrite <- scripts_bodies. rewrite Forall_map. auto. Qed.

Lemma Forall_iff_in {A} (P Q : A -> Prop) l : Forall (fun x => P x <-> Q x) l -> (Forall P l <-> Forall Q l).
Proof. induction 1 as [|x r H _ IH]; split; intros F; try constructor; inversion F; subst; tauto. Qed.

(* THEOREM 5: a program whose script bodies pass the source check (every accepted program, see accepted_bodies_are_src_ok)
   is emitted iff every script is clean *)
Theorem emit_program_accepts_iff optimize mp p :
  Forall src_ok (bodies_of (tops p)) ->
  ((exists out, emit_program optimize mp p = Emitter.Ok out) <-> Forall (script_clean (map xname (texts p))) (scripts_of (tops p))).
Proof.
  intros S. rewrite <- err_of_none, emit_program_error, first_error_none. apply Forall_iff_in.
  apply src_ok_scripts in S. eapply Forall_impl; [|exact S]. intros s Hs. now apply script_ok_iff_clean.
Qed.

(* THEOREM 6: a label error of the program is the label error of the first script that is not rendered; the token is the
   token of a label statement of that script which is named like a generated chunk label of THAT script (flag false) or
   like a text of the program (flag true) *)
Theorem emit_program_label_error optimize mp p tk b :
  Forall src_ok (bodies_of (tops p)) ->
  emit_program optimize mp p = ErrLabel tk b ->
  exists s1 s s2 w lab,
    scripts_of (tops p) = s1 ++ s :: s2 /\ Forall (script_clean (map xname (texts p))) s1 /\
    emit_graph (Datatypes.snd s) = Emitter.Ok w /\ In (lab, tk) (dlts (Datatypes.snd s)) /\
    let gen := map (chunk_label (Datatypes.fst (Datatypes.fst s))) (finals w) in
    ((b = false /\ In lab gen) \/ (b = true /\ ~ In lab gen /\ In lab (map xname (texts p)))).
Proof.
  intros S E. apply err_of_label in E. rewrite emit_program_error in E. apply first_error_some in E.
  destruct E as (s1 & s & s2 & ES & F & E). apply err_of_label in E. apply src_ok_scripts in S. rewrite ES in S.
  apply Forall_app in S. destruct S as [S1 S2]. inversion S2 as [|? ? Ss _]; subst.
  destruct s as [[n g] body]. unfold script_result in E. cbn [Datatypes.fst Datatypes.snd] in *.
  destruct (emit_script_label_error_has_graph _ _ _ _ _ _ _ _ E) as (w & HW).
  destruct (emit_script_error_token mp _ n g optimize body w HW Ss tk b E) as (lab & I & K).
  exists s1, (n, g, body), s2, w, lab. split; [exact ES|]. split.
  - apply (proj1 (Forall_iff_in _ _ s1 (Forall_impl _ (fun s Hs => script_ok_iff_clean mp _ optimize s Hs) S1))). exact F.
  - cbn [Datatypes.fst Datatypes.snd]. tauto.
Qed.

(* THEOREM 7: when every chunk graph is built (no fuel / scoping error), the program is rejected with a label error exactly
   when some script contains a clashing label *)
Theorem emit_program_rejects_iff optimize mp p :
  Forall src_ok (bodies_of (tops p)) ->
  (forall s, In s (scripts_of (tops p)) -> exists w, emit_graph (Datatypes.snd s) = Emitter.Ok w) ->
  ((exists tk b, emit_program optimize mp p = ErrLabel tk b) <->
   exists s w lab, In s (scripts_of (tops p)) /\ emit_graph (Datatypes.snd s) = Emitter.Ok w /\ In lab (dlabs (Datatypes.snd s)) /\
                   (In lab (map (chunk_label (Datatypes.fst (Datatypes.fst s))) (finals w)) \/ In lab (map xname (texts p)))).
Proof.
  intros S GR. split.
  - intros (tk & b & E). destruct (emit_program_label_error optimize mp p tk b S E) as (s1 & s & s2 & w & lab & ES & _ & HW & I & K).
    exists s, w, lab. split; [rewrite ES; apply in_or_app; right; now left|]. split; [exact HW|].
    split; [rewrite <- dlts_names; change lab with (Datatypes.fst (lab, tk)); now apply in_map|]. cbv zeta in K. tauto.
  - intros (s & w & lab & Hs & HW & Hl & K).
    destruct (first_error mp (map xname (texts p)) optimize (scripts_of (tops p))) as [e|] eqn:FE.
    + pose proof FE as FE'. apply first_error_some in FE'. destruct FE' as (s1 & s' & s2 & ES & _ & E').
      assert (Hs' : In s' (scripts_of (tops p))) by (rewrite ES; apply in_or_app; right; now left).
      destruct (GR s' Hs') as (w' & HW'). pose proof (src_ok_scripts _ S) as S'. rewrite Forall_forall in S'. specialize (S' s' Hs').
      destruct s' as [[n' g'] body']. unfold script_result in E'. cbn [Datatypes.fst Datatypes.snd] in *.
      destruct (emit_script_label_check mp (map xname (texts p)) n' g' optimize body' w' HW' S') as [[(code & EC) _]|(n0 & tk & b & EC & _)];
        rewrite EC in E'; [discriminate|]. cbn [err_of] in E'. inversion E'; subst.
      exists tk, b. apply err_of_label. rewrite emit_program_error. exact FE.
    + exfalso. apply first_error_none in FE. rewrite Forall_forall in FE. destruct (FE s Hs) as (code & EC).
      pose proof (src_ok_scripts _ S) as S'. rewrite Forall_forall in S'. specialize (S' s Hs).
      assert (EC' : script_clean (map xname (texts p)) s) by (apply (script_ok_iff_clean mp _ optimize s S'); now exists code).
      destruct EC' as (w2 & HW2 & F). rewrite HW in HW2. inversion HW2; subst.
      destruct (F lab Hl) as [A B]. destruct K; auto.
Qed.

(* ================================================================================================================== *)
(* PART 3: source texts (Compile.compile)                                                                              *)
(* ================================================================================================================== *)
Section SOURCE.
Variable hl hd hs : N -> bool.
Variable autovars : list (text * autovar).
Variable switches : list (text * text).
Variable ee : bool.
Variable fc : Format.fontcfg.
Variable cli_font : text.
Variable cli_maxlen : Z.
Notation PARSE src := (parse_program autovars switches ee (Format.parse_format fc cli_font cli_maxlen ee) (lex hl hd hs src)).
Notation COMPILE := (Compile.compile hl hd hs autovars switches ee fc cli_font cli_maxlen).

Lemma compile_eq optimize mpath src :
  COMPILE optimize mpath src =
  match PARSE src with
  | Parser.Ok p => match emit_program optimize mpath p with
                   | Emitter.Ok x => Compile.OutText x
                   | Emitter.ErrLabel tk _ =>
                       Compile.OutErr {| els := tline tk; ele := teline tk; ecs := tsb tk; eus := tsu tk; ece := teb tk; eue := teu tk;
                                         emsg := t "duplicate label" |}
                   | _ => Compile.OutEmitErr
                   end
  | Parser.Err e => Compile.OutErr e
  | Parser.Panic => Compile.OutPanic
  | Parser.Fuel => Compile.OutFuel
  end.
Proof. reflexivity. Qed.

(* THEOREM 8 ("never compiled into something else"): whatever text is compiled to assembly has no name clash of the four
   kinds: text names pairwise distinct, movement names pairwise distinct, and in every script no label named like a
   generated chunk label of that script or like a text *)
Theorem compiled_without_name_clash optimize mpath src out : ee = true ->
  COMPILE optimize mpath src = Compile.OutText out ->
  exists p, PARSE src = Parser.Ok p /\
    NoDup (map xname (texts p)) /\ NoDup (mov_names (tops p)) /\
    Forall (script_clean (map xname (texts p))) (scripts_of (tops p)).
Proof.
  intros EE. rewrite compile_eq. destruct (PARSE src) as [p| | |] eqn:HP; try discriminate.
  destruct (emit_program optimize mpath p) as [x| | | |] eqn:HE; try discriminate. intros _. exists p. split; [reflexivity|].
  destruct (accepted_names_distinct _ _ _ _ _ _ EE HP) as [A B]. split; [exact A|]. split; [exact B|].
  apply (emit_program_accepts_iff optimize mpath p).
  - pose proof (accepted_bodies_are_src_ok hl hd hs autovars switches ee fc cli_font cli_maxlen src p HP) as Q.
    eapply Forall_impl; [|exact Q]. intros a [H _]. exact H.
  - now exists x.
Qed.

(* THEOREM 9: an error reported for a text the parser accepts is a label clash, located on the label statement: line and
   columns of the error are those of the token of a label statement of a script, named like a generated chunk label of
   that script or like a text of the program *)
Theorem compile_label_error_located optimize mpath src p e :
  PARSE src = Parser.Ok p ->
  COMPILE optimize mpath src = Compile.OutErr e ->
  exists s w lab tk,
    In s (scripts_of (tops p)) /\ emit_graph (Datatypes.snd s) = Emitter.Ok w /\ In (lab, tk) (dlts (Datatypes.snd s)) /\
    (In lab (map (chunk_label (Datatypes.fst (Datatypes.fst s))) (finals w)) \/ In lab (map xname (texts p))) /\
    els e = tline tk /\ ele e = teline tk /\ ecs e = tsb tk /\ eus e = tsu tk /\ ece e = teb tk /\ eue e = teu tk.
Proof.
  intros HP. rewrite compile_eq, HP. destruct (emit_program optimize mpath p) as [x| | | |tk b] eqn:HE; try discriminate.
  intros H. inversion H; subst. cbn [els ele ecs eus ece eue].
  assert (S : Forall src_ok (bodies_of (tops p))).
  { pose proof (accepted_bodies_are_src_ok hl hd hs autovars switches ee fc cli_font cli_maxlen src p HP) as Q.
    eapply Forall_impl; [|exact Q]. intros a [H' _]. exact H'. }
  destruct (emit_program_label_error optimize mpath p tk b S HE) as (s1 & s & s2 & w & lab & ES & _ & HW & I & K).
  exists s, w, lab, tk. split; [rewrite ES; apply in_or_app; right; now left|]. split; [exact HW|]. split; [exact I|].
  cbv zeta in K. split; [tauto|]. repeat split; reflexivity.
Qed.

(* THEOREM 10: the parser's two name errors reach the user unchanged *)
Theorem compile_duplicate_text_located optimize mpath src st x :
  parse_tops autovars switches ee (Format.parse_format fc cli_font cli_maxlen ee) (5 * List.length (lex hl hd hs src) + 4) pst0 (lex hl hd hs src) = Parser.Ok st ->
  dup_text [] (checked_texts ee st) = Some x ->
  COMPILE optimize mpath src =
  Compile.OutErr {| els := tline (xtok x); ele := teline (xtok x); ecs := tsb (xtok x); eus := tsu (xtok x); ece := teb (xtok x); eue := teu (xtok x);
                    emsg := t "duplicate text label" |}.
Proof. intros H D. rewrite compile_eq, parse_program_eq, H, D. reflexivity. Qed.

Theorem compile_duplicate_movement_located optimize mpath src st tk :
  parse_tops autovars switches ee (Format.parse_format fc cli_font cli_maxlen ee) (5 * List.length (lex hl hd hs src) + 4) pst0 (lex hl hd hs src) = Parser.Ok st ->
  dup_text [] (checked_texts ee st) = None -> dup_mov [] (checked_tops ee st) = Some tk ->
  COMPILE optimize mpath src =
  Compile.OutErr {| els := tline tk; ele := teline tk; ecs := tsb tk; eus := tsu tk; ece := teb tk; eue := teu tk;
                    emsg := t "duplicate movement label" |}.
Proof. intros H D1 D2. rewrite compile_eq, parse_program_eq, H, D1, D2. reflexivity. Qed.
End SOURCE.

(* ================================================================================================================== *)
(* PART 1d: the statement reported by the parser's name check is always one the author wrote                           *)
(*   hoisted (inline) texts / movements get names  <script>_Text_<k>  /  <script>_Movement_<k>  with a per-script       *)
(*   counter; these generated names never clash among themselves (while fewer than 10^40 of them exist: the decimal     *)
(*   printer of the model has 40 digits), so the text reported by dup_text - the later one - is a text STATEMENT, and   *)
(*   the movement reported by dup_mov - the earlier one - is a movement STATEMENT; the tokens are the keywords 'text' / *)
(*   'movement' of these statements.                                                                                    *)
(* ================================================================================================================== *)
Definition is_digit (c : N) : Prop := (48 <= c <= 57)%N.

Lemma nat_text_dec n : nat_text n = dec n.
Proof. reflexivity. Qed.

Lemma dec_aux_digits f : forall n acc, Forall is_digit acc -> Forall is_digit (dec_aux f n acc).
Proof.
  induction f as [|f IH]; intros n acc H; [exact H|]. rewrite dec_aux_eq.
  assert (D : is_digit (48 + n mod 10)%N).
  { pose proof (N.mod_lt n 10 ltac:(lia)) as ML. unfold is_digit. revert ML. generalize (n mod 10)%N. intros r ML. lia. }
  destruct (N.eqb (n / 10) 0); [constructor; assumption|]. apply IH. constructor; assumption.
Qed.
Lemma nat_text_digits n : Forall is_digit (nat_text n).
Proof. rewrite nat_text_dec. unfold dec. apply dec_aux_digits. constructor. Qed.

Lemma nat_text_inj a b : (N.of_nat a < 10 ^ 40)%N -> (N.of_nat b < 10 ^ 40)%N -> nat_text a = nat_text b -> a = b.
Proof. rewrite !nat_text_dec. apply dec_inj. Qed.

(* a run of digits followed by a non-digit is determined by the whole *)
Lemma digits_sep c : ~ is_digit c -> forall l l' r r',
  Forall is_digit l -> Forall is_digit l' -> l ++ c :: r = l' ++ c :: r' -> l = l' /\ r = r'.
Proof.
  intros NC. induction l as [|x l IH]; intros l' r r' Hl Hl' E.
  - destruct l' as [|y l']; cbn [app] in E.
    + inversion E. split; reflexivity.
    + inversion E; subst. inversion Hl'; subst. contradiction.
  - destruct l' as [|y l']; cbn [app] in E.
    + inversion E; subst. inversion Hl; subst. contradiction.
    + inversion E; subst. inversion Hl; subst. inversion Hl'; subst. destruct (IH l' r r') as [A B]; try assumption.
      split; [now f_equal|exact B].
Qed.

(* names  s ++ mid ++ "_" ++ digits *)
Lemma gen_name_inj mid s s' d d' :
  Forall is_digit d -> Forall is_digit d' -> s ++ (mid ++ [95%N]) ++ d = s' ++ (mid ++ [95%N]) ++ d' -> s = s' /\ d = d'.
Proof.
  intros Hd Hd' E. apply (f_equal (@rev N)) in E. rewrite !rev_app_distr in E. cbn [rev app] in E. rewrite <- !app_assoc in E. cbn [app] in E.
  assert (ND : ~ is_digit 95%N) by (unfold is_digit; lia).
  destruct (digits_sep 95%N ND _ _ _ _ (Forall_rev Hd) (Forall_rev Hd') E) as [A B].
  apply app_inv_head in B. split.
  - rewrite <- (rev_involutive s), <- (rev_involutive s'). now f_equal.
  - rewrite <- (rev_involutive d), <- (rev_involutive d'). now f_equal.
Qed.

Definition tgen (s : text) (k : nat) : text := s ++ t "_Text_" ++ nat_text k.
Definition mgen (s : text) (k : nat) : text := s ++ t "_Movement_" ++ nat_text k.
Definition small (k : nat) : Prop := (N.of_nat k < 10 ^ 40)%N.

Lemma tgen_inj s s' k k' : small k -> small k' -> tgen s k = tgen s' k' -> s = s' /\ k = k'.
Proof.
  intros K K' E. unfold tgen in E. change (t "_Text_") with (t "_Text" ++ [95%N]) in E.
  destruct (gen_name_inj _ _ _ _ _ (nat_text_digits k) (nat_text_digits k') E) as [A B]. split; [exact A|]. now apply nat_text_inj.
Qed.
Lemma mgen_inj s s' k k' : small k -> small k' -> mgen s k = mgen s' k' -> s = s' /\ k = k'.
Proof.
  intros K K' E. unfold mgen in E. change (t "_Movement_") with (t "_Movement" ++ [95%N]) in E.
  destruct (gen_name_inj _ _ _ _ _ (nat_text_digits k) (nat_text_digits k') E) as [A B]. split; [exact A|]. now apply nat_text_inj.
Qed.

(* ---------- the invariant of a name generator with per-script counters ---------- *)
Section GEN.
Variable gen : text -> nat -> text.
Hypothesis gen_inj : forall s s' k k', small k -> small k' -> gen s k = gen s' k' -> s = s' /\ k = k'.

Definition GI (names : list text) (cnt : list (text * nat)) : Prop :=
  NoDup names /\
  (forall n, In n names -> exists s k, n = gen s k /\ k < count_of cnt s) /\
  (forall s, count_of cnt s <= List.length names).

Lemma GI_nil : GI [] [].
Proof. split; [constructor|]. split; [intros n []|]. intros s. cbn. lia. Qed.

Lemma count_bump cnt s s' : count_of (bump cnt s) s' = if text_eqb s s' then S (count_of cnt s) else count_of cnt s'.
Proof. unfold bump, count_of at 1. cbn [assoc]. destruct (text_eqb s s'); reflexivity. Qed.

Lemma GI_step names cnt s : GI names cnt -> small (List.length names) -> GI (names ++ [gen s (count_of cnt s)]) (bump cnt s).
Proof.
  intros (ND & FORM & CNT) SM. unfold small in SM. split; [|split].
  - apply NoDup_app_intro'; [exact ND|constructor; [intros []|constructor]|].
    intros x Hx [<-|[]]. destruct (FORM _ Hx) as (s' & k' & E & LT).
    pose proof (CNT s) as C1. pose proof (CNT s') as C2.
    destruct (gen_inj s s' (count_of cnt s) k') as [E1 E2]; [unfold small; lia|unfold small; lia|exact E|]. subst s'. lia.
  - intros n Hn. apply in_app_or in Hn. destruct Hn as [Hn|[<-|[]]].
    + destruct (FORM _ Hn) as (s' & k' & E & LT). exists s', k'. split; [exact E|]. rewrite count_bump. destruct (text_eqb s s') eqn:Q; [|exact LT].
      apply teq_iff in Q. subst. lia.
    + exists s, (count_of cnt s). split; [reflexivity|]. rewrite count_bump, (proj2 (teq_iff s s) eq_refl). lia.
  - intros s'. rewrite count_bump, app_length. cbn [List.length]. pose proof (CNT s). pose proof (CNT s'). destruct (text_eqb s s'); lia.
Qed.
End GEN.

Lemma mov_names_length l : List.length (mov_names l) <= List.length l.
Proof.
  unfold mov_names, mov_entries. induction l as [|tp r IH]; [cbn; lia|]. cbn [flat_map]. rewrite map_app, app_length.
  destruct tp; cbn [map List.length] in *; lia.
Qed.

Definition HI (h : hst) : Prop := GI tgen (map xname (htexts h)) (hcnt h) /\ GI mgen (mov_names (hmovs h)) (hmcnt h).
Definition le_h (h h' : hst) : Prop :=
  List.length (htexts h) <= List.length (htexts h') /\ List.length (hmovs h) <= List.length (hmovs h').
Definition small_h (h : hst) : Prop :=
  (N.of_nat (List.length (htexts h)) <= 10 ^ 40)%N /\ (N.of_nat (List.length (hmovs h)) <= 10 ^ 40)%N.

Lemma le_h_refl h : le_h h h. Proof. split; lia. Qed.
Lemma le_h_trans a b c : le_h a b -> le_h b c -> le_h a c. Proof. unfold le_h. lia. Qed.
Lemma HI_0 : HI hst0. Proof. split; apply GI_nil. Qed.

Lemma add_texts_mono : forall its h ps, le_h h (Datatypes.fst (add_texts its h ps)).
Proof.
  induction its as [|it r IH]; intros h ps; cbn [add_texts]; [apply le_h_refl|].
  destruct (find_text (hset h) (tlit (itTok it)) (itType it)); [apply IH|].
  eapply le_h_trans; [|apply IH]. unfold le_h. cbn [htexts hmovs]. rewrite app_length. cbn. lia.
Qed.
Lemma add_movs_mono : forall ims h ps, le_h h (Datatypes.fst (add_movs ims h ps)).
Proof.
  induction ims as [|im r IH]; intros h ps; cbn [add_movs]; [apply le_h_refl|].
  destruct (assoc (hmset h) (mov_key (imToks im))); [apply IH|].
  eapply le_h_trans; [|apply IH]. unfold le_h. cbn [htexts hmovs]. rewrite app_length. cbn. lia.
Qed.

Lemma add_texts_HI : forall its h ps, small_h (Datatypes.fst (add_texts its h ps)) -> HI h -> HI (Datatypes.fst (add_texts its h ps)).
Proof.
  induction its as [|it r IH]; intros h ps SM H; cbn [add_texts] in *; [exact H|].
  destruct (find_text (hset h) (tlit (itTok it)) (itType it)); [apply IH; assumption|].
  apply IH; [exact SM|].
  match type of SM with small_h (Datatypes.fst (add_texts r ?h1 ?ps1)) => pose proof (add_texts_mono r h1 ps1) as [M _] end.
  destruct H as [HT HM]. split; [|exact HM]. cbn [htexts hcnt]. rewrite map_app. cbn [map xname].
  apply (GI_step tgen tgen_inj); [exact HT|].
  cbn [htexts] in M. rewrite app_length in M. cbn [List.length] in M. destruct SM as [SM _]. unfold small. rewrite map_length. lia.
Qed.

Lemma add_movs_HI : forall ims h ps, small_h (Datatypes.fst (add_movs ims h ps)) -> HI h -> HI (Datatypes.fst (add_movs ims h ps)).
Proof.
  induction ims as [|im r IH]; intros h ps SM H; cbn [add_movs] in *; [exact H|].
  destruct (assoc (hmset h) (mov_key (imToks im))); [apply IH; assumption|].
  apply IH; [exact SM|].
  match type of SM with small_h (Datatypes.fst (add_movs r ?h1 ?ps1)) => pose proof (add_movs_mono r h1 ps1) as [_ M] end.
  destruct H as [HT HM]. split; [exact HT|]. cbn [hmovs hmcnt]. rewrite mov_names_app.
  change (mov_names [TMovement (imScript im ++ t "_Movement_" ++ nat_text (count_of (hmcnt h) (imScript im))) false (imCmdTok im) (imToks im)])
    with [mgen (imScript im) (count_of (hmcnt h) (imScript im))].
  apply (GI_step mgen mgen_inj); [exact HM|].
  cbn [hmovs] in M. rewrite app_length in M. cbn [List.length] in M. destruct SM as [_ SM]. unfold small.
  pose proof (mov_names_length (hmovs h)). lia.
Qed.

Lemma add_implicit_mono imp h : le_h h (Datatypes.fst (add_implicit imp h)).
Proof.
  unfold add_implicit. pose proof (add_texts_mono (idT imp) h []) as A. destruct (add_texts (idT imp) h []) as [h1 ps1].
  eapply le_h_trans; [exact A|apply add_movs_mono].
Qed.
Lemma small_le h h' : le_h h h' -> small_h h' -> small_h h.
Proof. unfold le_h, small_h. lia. Qed.
Lemma add_implicit_HI imp h : small_h (Datatypes.fst (add_implicit imp h)) -> HI h -> HI (Datatypes.fst (add_implicit imp h)).
Proof.
  unfold add_implicit. pose proof (add_texts_HI (idT imp) h []) as A. destruct (add_texts (idT imp) h []) as [h1 ps1] eqn:E.
  cbn [Datatypes.fst] in A. intros SM H. apply add_movs_HI; [exact SM|]. apply A; [|exact H].
  eapply small_le; [apply add_movs_mono|exact SM].
Qed.

(* ---------- the top-level loop ---------- *)
Lemma pbind_inv {X Y} (m : Parser.res X) (k : X -> Parser.res Y) r :
  match m with Parser.Ok x => k x | Parser.Err e => Parser.Err e | Parser.Panic => Parser.Panic | Parser.Fuel => Parser.Fuel end = Parser.Ok r ->
  exists x, m = Parser.Ok x /\ k x = Parser.Ok r.
Proof. destruct m; try discriminate. eauto. Qed.
Tactic Notation "pbind" hyp(H) "as" simple_intropattern(p) "eqn" ident(E) :=
  apply pbind_inv in H; destruct H as (p & E & H); cbn beta iota in H.

(* what the author wrote: text statements carry their 'text' keyword, movement statements their 'movement' keyword *)
Definition PI (st : pstate) : Prop :=
  Forall (fun x => ttype (xtok x) = TEXT) (ptexts st) /\
  Forall (fun e : text * token => ttype (Datatypes.snd e) = MOVEMENT) (mov_entries (ptops st)).

Section TOPS.
Variable autovars : list (text * autovar).
Variable switches : list (text * text).
Variable ee : bool.
Variable pf : toks -> Parser.res (token * text * text * toks).
Notation parse_tops := (parse_tops autovars switches ee pf).

Lemma PI_snoc_other st c h tp :
  mov_entries [tp] = [] -> PI st -> PI {| pconsts := c; ph := h; ptops := ptops st ++ [tp]; ptexts := ptexts st |}.
Proof. intros E [A B]. split; [exact A|]. cbn [ptops]. rewrite mov_entries_app, E, app_nil_r. exact B. Qed.

Lemma parse_tops_inv f : forall st ts st', parse_tops f st ts = Parser.Ok st' ->
  le_h (ph st) (ph st') /\ (PI st -> PI st') /\ (small_h (ph st') -> HI (ph st) -> HI (ph st')).
Proof.
  induction f as [|f IH]; intros st ts st' H; [discriminate|].
  cbn [Parser.parse_tops] in H. destruct (curis EOF ts).
  { inversion H; subst. split; [apply le_h_refl|]. split; auto. }
  cbn zeta in H. destruct (ttype (cur ts)) eqn:TT; try discriminate.
  - (* script *)
    pbind H as [[[[name g] b] imp] ts1] eqn E.
    pose proof (add_implicit_mono imp (ph st)) as M. pose proof (add_implicit_HI imp (ph st)) as K.
    destruct (add_implicit imp (ph st)) as [h' ps]. cbn [Datatypes.fst] in M, K.
    destruct (IH _ _ _ H) as (L & P & Q). cbn [ph] in L, Q. split; [eapply le_h_trans; eassumption|]. split.
    + intros HP. apply P. apply PI_snoc_other; [reflexivity|exact HP].
    + intros SM HH. apply Q; [exact SM|]. apply K; [eapply small_le; eassumption|exact HH].
  - (* raw *)
    pbind H as [tp ts1] eqn E. destruct (IH _ _ _ H) as (L & P & Q). cbn [ph] in L, Q. split; [exact L|]. split; [|exact Q].
    intros HP. apply P. apply PI_snoc_other; [|exact HP].
    unfold parse_raw in E. destruct (expect_peek RAWSTRING ts); [|discriminate]. inversion E; subst. reflexivity.
  - (* text *)
    pbind H as [td ts1] eqn E. destruct (IH _ _ _ H) as (L & P & Q). cbn [ph] in L, Q. split; [exact L|]. split; [|exact Q].
    intros [A B]. apply P. split.
    + cbn [ptexts]. apply Forall_app. split; [exact A|]. constructor; [|constructor].
      unfold Parser.parse_text in E. cbn zeta in E. pbind E as [g0 ts0] eqn E0.
      destruct (expect_peek IDENT ts0) as [ts2|]; [|discriminate].
      destruct (expect_peek LBRACE ts2) as [ts3|]; [|discriminate]. pbind E as [[v sty] ts5] eqn E5.
      destruct (expect_peek RBRACE ts5) as [ts6|]; [|discriminate]. inversion E; subst. cbn [xtok]. exact TT.
    + cbn [ptops]. rewrite mov_entries_app. cbn. rewrite app_nil_r. exact B.
  - (* movement *)
    pbind H as [tp ts1] eqn E. destruct (IH _ _ _ H) as (L & P & Q). cbn [ph] in L, Q. split; [exact L|]. split; [|exact Q].
    intros [A B]. apply P. split; [exact A|]. cbn [ptops]. rewrite mov_entries_app. apply Forall_app. split; [exact B|].
    unfold Parser.parse_movement in E. cbn zeta in E. pbind E as [g0 ts0] eqn E0.
    destruct (expect_peek IDENT ts0) as [ts2|]; [|discriminate].
    destruct (expect_peek LBRACE ts2) as [ts3|]; [|discriminate]. pbind E as [steps ts4] eqn E4. inversion E; subst.
    cbn. constructor; [exact TT|constructor].
  - (* mart *)
    pbind H as [tp ts1] eqn E. destruct (IH _ _ _ H) as (L & P & Q). cbn [ph] in L, Q. split; [exact L|]. split; [|exact Q].
    intros HP. apply P. apply PI_snoc_other; [|exact HP].
    unfold Parser.parse_mart in E. cbn zeta in E. pbind E as [g0 ts0] eqn E0.
    destruct (expect_peek IDENT ts0) as [ts2|]; [|discriminate].
    destruct (expect_peek LBRACE ts2) as [ts3|]; [|discriminate]. pbind E as [items ts4] eqn E4. inversion E; subst. reflexivity.
  - (* mapscripts *)
    pbind H as [[tp imp] ts1] eqn E.
    pose proof (add_implicit_mono imp (ph st)) as M. pose proof (add_implicit_HI imp (ph st)) as K.
    destruct (add_implicit imp (ph st)) as [h' ps]. cbn [Datatypes.fst] in M, K.
    destruct (IH _ _ _ H) as (L & P & Q). cbn [ph] in L, Q. split; [eapply le_h_trans; eassumption|]. split.
    + intros HP. apply P. apply PI_snoc_other; [|exact HP].
      unfold Parser.parse_mapscripts in E. pbind E as [g0 ts0] eqn E0. cbn zeta in E.
      destruct (expect_peek IDENT ts0) as [ts2|]; [|discriminate].
      destruct (expect_peek LBRACE ts2) as [ts3|]; [|discriminate]. pbind E as [[[plain tables] imp1] ts4] eqn E4. inversion E; subst. reflexivity.
    + intros SM HH. apply Q; [exact SM|]. apply K; [eapply small_le; eassumption|exact HH].
  - (* const *)
    pbind H as [c' ts1] eqn E. destruct (IH _ _ _ H) as (L & P & Q). cbn [ph] in L, Q. split; [exact L|]. split; [exact P|exact Q].
Qed.

(* THEOREM 11: the generated names are pairwise distinct and of the generated form; what the author wrote carries its keyword *)
Theorem parse_tops_names f ts st :
  parse_tops f pst0 ts = Parser.Ok st ->
  (N.of_nat (List.length (htexts (ph st))) <= 10 ^ 40)%N -> (N.of_nat (List.length (hmovs (ph st))) <= 10 ^ 40)%N ->
  NoDup (map xname (htexts (ph st))) /\ NoDup (mov_names (hmovs (ph st))) /\
  (forall x, In x (htexts (ph st)) -> exists s k, xname x = s ++ t "_Text_" ++ nat_text k) /\
  (forall n, In n (mov_names (hmovs (ph st))) -> exists s k, n = s ++ t "_Movement_" ++ nat_text k) /\
  Forall (fun x => ttype (xtok x) = TEXT) (ptexts st) /\
  Forall (fun e : text * token => ttype (Datatypes.snd e) = MOVEMENT) (mov_entries (ptops st)).
Proof.
  intros H B1 B2. destruct (parse_tops_inv _ _ _ _ H) as (_ & P & Q).
  destruct (Q (conj B1 B2) HI_0) as [(N1 & F1 & _) (N2 & F2 & _)].
  destruct (P (conj (Forall_nil _) (Forall_nil _))) as [P1 P2].
  split; [exact N1|]. split; [exact N2|]. split; [|split; [|split; assumption]].
  - intros x Hx. destruct (F1 (xname x) (in_map xname _ _ Hx)) as (s & k & E & _). exists s, k. exact E.
  - intros n Hn. destruct (F2 n Hn) as (s & k & E & _). exists s, k. exact E.
Qed.

(* THEOREM 12: which statement the parser's name errors point at.
   texts: x (the reported text) is a text STATEMENT of the source, reported on its 'text' keyword; the text it clashes
   with comes earlier in  hoisted texts ++ text statements  (a generated name, or an earlier text statement) *)
Theorem duplicate_text_reports_statement f ts st x :
  parse_tops f pst0 ts = Parser.Ok st ->
  (N.of_nat (List.length (htexts (ph st))) <= 10 ^ 40)%N -> (N.of_nat (List.length (hmovs (ph st))) <= 10 ^ 40)%N ->
  dup_text [] (all_texts st) = Some x ->
  exists p1 p2, ptexts st = p1 ++ x :: p2 /\ ttype (xtok x) = TEXT /\
                NoDup (map xname (htexts (ph st) ++ p1)) /\ In (xname x) (map xname (htexts (ph st) ++ p1)).
Proof.
  intros H B1 B2 D. destruct (parse_tops_names _ _ _ H B1 B2) as (N1 & _ & _ & _ & PT & _).
  apply dup_text_reports_later in D. destruct D as (l1 & l2 & E & ND & I). unfold all_texts in E.
  apply app_eq_app in E. destruct E as (l & [[E1 E2]|[E1 E2]]).
  - destruct l as [|y l]; cbn [app] in E2.
    + exists [], l2. rewrite app_nil_r in E1. subst l1. rewrite app_nil_r. split; [now symmetry|]. split; [|split; assumption].
      rewrite <- E2 in PT. now inversion PT.
    + exfalso. inversion E2; subst y l2. rewrite E1, map_app in N1. cbn [map] in N1. apply NoDup_remove_2 in N1. apply N1.
      apply in_or_app. now left.
  - exists l, l2. split; [exact E2|]. split; [|rewrite <- E1; split; assumption].
    rewrite E2 in PT. apply Forall_app in PT. destruct PT as [_ PT]. now inversion PT.
Qed.

(* movements: tk0 (the reported token) is the 'movement' keyword of a movement STATEMENT of the source; the movement that
   repeats its name comes later in  statements ++ hoisted movements  (a later statement, or a generated name) *)
Theorem duplicate_movement_reports_statement f ts st tk0 :
  parse_tops f pst0 ts = Parser.Ok st ->
  (N.of_nat (List.length (htexts (ph st))) <= 10 ^ 40)%N -> (N.of_nat (List.length (hmovs (ph st))) <= 10 ^ 40)%N ->
  dup_mov [] (all_tops st) = Some tk0 ->
  exists n, In (n, tk0) (mov_entries (ptops st)) /\ ttype tk0 = MOVEMENT /\
            exists e1 tk e2, mov_entries (all_tops st) = e1 ++ (n, tk) :: e2 /\ In (n, tk0) e1 /\ NoDup (map Datatypes.fst e1).
Proof.
  intros H B1 B2 D. destruct (parse_tops_names _ _ _ H B1 B2) as (_ & N2 & _ & _ & _ & PM).
  apply dup_mov_reports_earlier in D. destruct D as (e1 & n & tk & e2 & E & ND & I). exists n.
  assert (IN : In (n, tk0) (mov_entries (ptops st))).
  { unfold all_tops in E. rewrite mov_entries_app in E. apply app_eq_app in E. destruct E as (l & [[E1 E2]|[E1 E2]]).
    - rewrite E1. apply in_or_app. now left.
      (* e1 = entries of the statements ++ l, and (n, tk) :: e2 = rest of the hoisted ones *)
    - rewrite E1 in I. apply in_app_or in I. destruct I as [I|I]; [exact I|]. exfalso.
      unfold mov_names in N2. rewrite E2, map_app in N2. cbn [map Datatypes.fst] in N2. apply NoDup_remove_2 in N2. apply N2.
      apply in_or_app. left. change n with (Datatypes.fst (n, tk0)). now apply in_map. }
  split; [exact IN|]. split.
  - rewrite Forall_forall in PM. exact (PM _ IN).
  - exists e1, tk, e2. tauto.
Qed.
End TOPS.

(* ================================================================================================================== *)
(* PART 4: examples - the hypotheses are satisfiable; which statement is reported; what is NOT detected                *)
(* ================================================================================================================== *)
From Pory Require C01Main.
Local Transparent emit_graph order_of work work_fuel.
Section EXAMPLES.
Open Scope string_scope.
Definition nf (_ : N) : bool := false.
Definition fc0 : Format.fontcfg := {| Format.fcDefault := []; Format.fcFonts := [] |}.
Definition pf0 := Format.parse_format fc0 [] 0%Z true.
Definition nl : string := String (ascii_of_nat 10) "".
Definition lex0 (s : string) : toks := lex nf nf nf (t s).
Definition comp (s : string) : Compile.outcome := Compile.compile nf nf nf [] [] true fc0 [] 0%Z false None (t s).
Definition show (x : text) : string := string_of_list_ascii (map ascii_of_N x).
(* message, line, start column of a reported error *)
Definition located (o : Compile.outcome) : option (string * Z * Z) :=
  match o with Compile.OutErr e => Some (show (emsg e), els e, ecs e) | _ => None end.
(* the label lines of the assembly a source is compiled to *)
Definition out_labels (s : string) : option (list string) :=
  match parse_program [] [] true pf0 (lex0 s) with
  | Parser.Ok p => match emit_program_instrs false None p with Emitter.Ok is => Some (map show (lnames is)) | _ => None end
  | _ => None
  end.
Definition compiled (s : string) : bool := match comp s with Compile.OutText _ => true | _ => false end.

(* ---- parser: which statement is reported ---- *)
(* a text statement named like a generated text: the user's statement (line 2) is reported - it comes later in the list *)
Definition src_text_gen := "script A { msgbox(""hi"") }" ++ nl ++ "text A_Text_0 { ""x"" }".
Example ex_text_vs_generated : located (comp src_text_gen) = Some ("duplicate text label", 2%Z, 0%Z).
Proof. vm_compute. reflexivity. Qed.
(* D20: the generated names depend on the switch values. With V = A the first case is selected and nothing is hoisted: the
   text statement A_Text_0 clashes with nothing. With V = B the default case hoists A_Text_0: compile error. The lint
   parser (no switches: it selects the default case too) compares the author's statements only and accepts - before the
   repair it answered with the error of the second line, for a program that compiles. *)
Definition src_lint := "script A { poryswitch(V) { A: foo _: msgbox(""b"") } }" ++ nl ++ "text A_Text_0 { ""x"" }".
Definition pfl := Format.parse_format fc0 [] 0%Z false.
Definition accepted (r : Parser.res program) : bool := match r with Parser.Ok _ => true | _ => false end.
Example ex_lint_ignores_generated_names :
  accepted (parse_program [] [(t "V", t "A")] true pf0 (lex0 src_lint)) = true /\
  accepted (parse_program [] [(t "V", t "B")] true pf0 (lex0 src_lint)) = false /\
  accepted (parse_program [] [] false pfl (lex0 src_lint)) = true.
Proof. vm_compute. repeat split; reflexivity. Qed.
(* two text statements of one name: the LATER one (line 3) is reported, on its 'text' keyword (column 0) *)
Definition src_text_text := "text T { ""x"" }" ++ nl ++ "script A { lock }" ++ nl ++ "text T { ""y"" }".
Example ex_text_vs_text : located (comp src_text_text) = Some ("duplicate text label", 3%Z, 0%Z).
Proof. vm_compute. reflexivity. Qed.
(* two movement statements of one name: the EARLIER one (line 1) is reported, on its 'movement' keyword *)
Definition src_mov_mov := "movement M { walk_up }" ++ nl ++ "script A { lock }" ++ nl ++ "movement M { walk_down }".
Example ex_mov_vs_mov : located (comp src_mov_mov) = Some ("duplicate movement label", 1%Z, 0%Z).
Proof. vm_compute. reflexivity. Qed.
(* a movement statement named like a generated movement: the user's statement (line 2) is reported - user statements come
   first in the list, hoisted movements are appended *)
Definition src_mov_gen := "script A { applymovement(2, moves(walk_up)) }" ++ nl ++ "movement A_Movement_0 { walk_down }".
Example ex_mov_vs_generated : located (comp src_mov_gen) = Some ("duplicate movement label", 2%Z, 0%Z).
Proof. vm_compute. reflexivity. Qed.

(* the hypothesis of parse_program_name_check / duplicate_*_iff holds on these inputs, with the lists as described *)
Example ex_name_check_hyp :
  exists st, parse_tops [] [] true pf0 (5 * List.length (lex0 src_text_gen) + 4) pst0 (lex0 src_text_gen) = Parser.Ok st /\
             map show (map xname (all_texts st)) = ["A_Text_0"; "A_Text_0"] /\
             map (fun x => tline (xtok x)) (all_texts st) = [1%Z; 2%Z].
Proof. eexists. split; [vm_compute; reflexivity|]. split; vm_compute; reflexivity. Qed.
Example ex_name_check_hyp_mov :
  exists st, parse_tops [] [] true pf0 (5 * List.length (lex0 src_mov_gen) + 4) pst0 (lex0 src_mov_gen) = Parser.Ok st /\
             map show (map xname (all_texts st)) = [] /\
             map (fun e => (show (Datatypes.fst e), tline (Datatypes.snd e))) (mov_entries (all_tops st)) = [("A_Movement_0", 2%Z); ("A_Movement_0", 1%Z)].
Proof. eexists. split; [vm_compute; reflexivity|]. split; vm_compute; reflexivity. Qed.
(* duplicate_text_reports_statement / duplicate_movement_reports_statement: all hypotheses hold on these inputs *)
Example ex_reported_statement :
  exists st x, parse_tops [] [] true pf0 (5 * List.length (lex0 src_text_gen) + 4) pst0 (lex0 src_text_gen) = Parser.Ok st /\
               (N.of_nat (List.length (htexts (ph st))) <= 10 ^ 40)%N /\ (N.of_nat (List.length (hmovs (ph st))) <= 10 ^ 40)%N /\
               dup_text [] (all_texts st) = Some x /\ tline (xtok x) = 2%Z /\ ttype (xtok x) = TEXT.
Proof.
  eexists. eexists. split; [vm_compute; reflexivity|]. split; [vm_compute; intros X; discriminate X|].
  split; [vm_compute; intros X; discriminate X|]. split; [vm_compute; reflexivity|]. split; vm_compute; reflexivity.
Qed.
Example ex_reported_statement_mov :
  exists st tk, parse_tops [] [] true pf0 (5 * List.length (lex0 src_mov_gen) + 4) pst0 (lex0 src_mov_gen) = Parser.Ok st /\
               (N.of_nat (List.length (htexts (ph st))) <= 10 ^ 40)%N /\ (N.of_nat (List.length (hmovs (ph st))) <= 10 ^ 40)%N /\
               dup_text [] (all_texts st) = None /\ dup_mov [] (all_tops st) = Some tk /\ tline tk = 2%Z /\ ttype tk = MOVEMENT.
Proof.
  eexists. eexists. split; [vm_compute; reflexivity|]. split; [vm_compute; intros X; discriminate X|].
  split; [vm_compute; intros X; discriminate X|]. split; [vm_compute; reflexivity|]. split; [vm_compute; reflexivity|]. split; vm_compute; reflexivity.
Qed.
(* an accepted program with a text statement, an inline text, a movement statement and an inline movement *)
Definition src_ok_names := "text T { ""x"" }" ++ nl ++ "movement M { walk_up }" ++ nl ++
                           "script A { msgbox(""hi"") " ++ nl ++ " applymovement(2, moves(walk_up)) }".
Example ex_accepted :
  exists p, parse_program [] [] true pf0 (lex0 src_ok_names) = Parser.Ok p /\
            map show (map xname (texts p)) = ["A_Text_0"; "T"] /\ map show (mov_names (tops p)) = ["M"; "A_Movement_0"].
Proof. eexists. split; [vm_compute; reflexivity|]. split; vm_compute; reflexivity. Qed.

(* ---- emitter: the label check ---- *)
(* a label named like a generated chunk label of its script; like the script itself; like a text: the label (line 2, col 1) *)
Definition src_lab_chunk := "script A { if (flag(F)) { lock }" ++ nl ++ " A_1: release }".
Definition src_lab_name := "script A { lock " ++ nl ++ " A: release }".
Definition src_lab_text := "script A { lock " ++ nl ++ " T: release }" ++ nl ++ "text T { ""x"" }".
Example ex_label_vs_chunk : located (comp src_lab_chunk) = Some ("duplicate label", 2%Z, 1%Z).
Proof. vm_compute. reflexivity. Qed.
Example ex_label_vs_name : located (comp src_lab_name) = Some ("duplicate label", 2%Z, 1%Z).
Proof. vm_compute. reflexivity. Qed.
Example ex_label_vs_text : located (comp src_lab_text) = Some ("duplicate label", 2%Z, 1%Z).
Proof. vm_compute. reflexivity. Qed.

(* the hypotheses of emit_script_label_check hold for the parsed body of src_lab_chunk; the theorem's second case applies *)
Definition body_of (s : string) : list stmt :=
  match parse_program [] [] true pf0 (lex0 s) with Parser.Ok p => match tops p with TScript _ _ b :: _ => b | _ => [] end | _ => [] end.
Example ex_script_hyp :
  exists w, emit_graph (body_of src_lab_chunk) = Emitter.Ok w /\ src_ok (body_of src_lab_chunk) /\
            List.length (finals w) = 4%nat /\ map show (dlabs (body_of src_lab_chunk)) = ["A_1"] /\
            exists tk, emit_script None [] (t "A") true false (body_of src_lab_chunk) = ErrLabel tk false /\ tline tk = 2%Z.
Proof.
  eexists. split; [vm_compute; reflexivity|]. split; [apply C01Main.src_okb_sound; vm_compute; reflexivity|].
  split; [vm_compute; reflexivity|]. split; [vm_compute; reflexivity|]. eexists. split; vm_compute; reflexivity.
Qed.
(* ... and the first case for a script with a harmless label inside a nested block *)
Definition src_lab_fine := "script A { if (flag(F)) { Inner: lock }" ++ nl ++ " Done: release }".
Example ex_script_hyp_clean :
  exists w, emit_graph (body_of src_lab_fine) = Emitter.Ok w /\ src_ok (body_of src_lab_fine) /\
            map show (dlabs (body_of src_lab_fine)) = ["Inner"; "Done"] /\
            out_labels src_lab_fine = Some ["A"; "A_1"; "Done"; "A_2"; "Inner"; "A_3"].
Proof.
  eexists. split; [vm_compute; reflexivity|]. split; [apply C01Main.src_okb_sound; vm_compute; reflexivity|].
  split; vm_compute; reflexivity.
Qed.

(* when several labels of a script clash, the one reported is the first clashing label of the first offending chunk in
   RENDERING order (render_chunks_cases) - not the first in the source, and it depends on the chunk-order optimisation *)
Definition compo (o : bool) (s : string) : Compile.outcome := Compile.compile nf nf nf [] [] true fc0 [] 0%Z o None (t s).
Definition src_two_clashes := "script A { if (flag(F)) { A_1: lock }" ++ nl ++ " A: release }".
Example ex_reported_not_first_in_source :
  located (compo false src_two_clashes) = Some ("duplicate label", 2%Z, 1%Z) /\
  located (compo true src_two_clashes) = Some ("duplicate label", 2%Z, 1%Z).
Proof. split; vm_compute; reflexivity. Qed.
Definition src_two_clashes' := "script A { if (flag(F)) { " ++ nl ++ " A_1: lock } else { " ++ nl ++ "A_2: release } }".
Example ex_reported_depends_on_order :
  located (compo false src_two_clashes') = Some ("duplicate label", 2%Z, 1%Z) /\
  located (compo true src_two_clashes') = Some ("duplicate label", 3%Z, 0%Z).
Proof. split; vm_compute; reflexivity. Qed.

(* ---- NOT detected (facts about the model; the same sources compile with poryscript) ---- *)
(* N1: two scripts of one name: compiled, the label A is defined twice *)
Definition src_two_scripts := "script A { lock }" ++ nl ++ "script A { release }".
Example not_detected_two_scripts : compiled src_two_scripts = true /\ out_labels src_two_scripts = Some ["A"; "A"].
Proof. split; vm_compute; reflexivity. Qed.
(* N2: a label of script B named like a generated chunk label of ANOTHER script A: compiled, A_1 is defined twice *)
Definition src_other_script := "script A { if (flag(F)) { lock } release }" ++ nl ++ "script B { A_1: release }".
Example not_detected_other_scripts_label :
  compiled src_other_script = true /\ out_labels src_other_script = Some ["A"; "A_1"; "A_2"; "A_3"; "B"; "A_1"].
Proof. split; vm_compute; reflexivity. Qed.
(* N3: the same label written twice in one script *)
Definition src_label_twice := "script A { L: lock" ++ nl ++ " L: release }".
Example not_detected_label_twice : compiled src_label_twice = true /\ out_labels src_label_twice = Some ["A"; "L"; "L"].
Proof. split; vm_compute; reflexivity. Qed.
(* N4: a label named like a movement statement; a movement statement named like a script *)
Definition src_label_mov := "movement M { walk_up }" ++ nl ++ "script A { M: lock }".
Definition src_mov_script := "script A { lock }" ++ nl ++ "movement A { walk_up }".
Example not_detected_label_vs_movement : compiled src_label_mov = true /\ out_labels src_label_mov = Some ["M"; "A"; "M"].
Proof. split; vm_compute; reflexivity. Qed.
Example not_detected_movement_vs_script : compiled src_mov_script = true /\ out_labels src_mov_script = Some ["A"; "A"].
Proof. split; vm_compute; reflexivity. Qed.
(* N5: a script named like a generated chunk label of another script; a text named like a script *)
Definition src_script_chunk := "script A { if (flag(F)) { lock } release }" ++ nl ++ "script A_1 { release }".
Example not_detected_script_vs_chunk :
  compiled src_script_chunk = true /\ out_labels src_script_chunk = Some ["A"; "A_1"; "A_2"; "A_3"; "A_1"].
Proof. split; vm_compute; reflexivity. Qed.
Definition src_text_script := "script A { lock }" ++ nl ++ "text A { ""x"" }".
Example not_detected_text_vs_script : compiled src_text_script = true /\ out_labels src_text_script = Some ["A"; "A"].
Proof. split; vm_compute; reflexivity. Qed.
End EXAMPLES.
