(* Lexer invariants: the line counter is 1 + the number of newlines consumed, so every token line lies in 1..nlines. *)
From Coq Require Import List String Ascii ZArith NArith Lia Bool.
From Pory Require Import Lexer.
Import ListNotations.
Open Scope list_scope.
Local Open Scope Z_scope.

Fixpoint nl (s : list N) : Z := match s with [] => 0 | c :: r => (if (c =? 10)%N then 1 else 0) + nl r end.
Lemma nl_nonneg s : 0 <= nl s.
Proof. induction s as [|c r IH]; cbn; [lia|]. destruct (c =? 10)%N; lia. Qed.

Section L.
Variable is_letter_hi is_digit_hi is_space_hi : N -> bool.
Variable total : Z.    (* 1 + number of newlines of the whole input *)

Definition Inv (l : lx) : Prop := 1 <= line l /\ line l + nl (chs l) = total.

Lemma inv_read_char l : Inv l -> Inv (read_char l).
Proof.
  intros [H1 H2]. unfold read_char, ch, Inv. destruct (chs l) as [|c rest]; cbn [tl nl] in *.
  - cbn. split; lia.
  - destruct (c =? 10)%N; cbn; split; lia.
Qed.

Lemma inv_skip_ws f : forall l, Inv l -> Inv (skip_ws f l).
Proof. induction f as [|f IH]; intros l H; cbn [skip_ws]; [exact H|]. destruct (is_ws (ch l) && _); [apply IH, inv_read_char, H|exact H]. Qed.

Lemma inv_skip_line f : forall l, Inv l -> Inv (skip_line f l).
Proof. induction f as [|f IH]; intros l H; cbn [skip_line]; [exact H|]. destruct (negb _ && negb _); [apply IH|]; apply inv_read_char, H. Qed.

Lemma inv_skip_comments f : forall l, Inv l -> Inv (skip_comments f l).
Proof.
  induction f as [|f IH]; intros l H; cbn [skip_comments]; [exact H|]. destruct (at_comment l); [|exact H].
  apply IH, inv_skip_ws, inv_skip_line, H.
Qed.

Lemma inv_read_while f p : forall l acc, Inv l -> Inv (snd (read_while f p l acc)).
Proof.
  induction f as [|f IH]; intros l acc H; cbn [read_while snd]; [exact H|]. destruct (chs l) as [|c r] eqn:E; [exact H|].
  destruct (p c); [apply IH, inv_read_char, H|exact H].
Qed.

Lemma inv_read_ident l : Inv l -> Inv (snd (read_ident is_letter_hi is_digit_hi l)).
Proof.
  intros H. unfold read_ident. destruct (chs l) as [|c r] eqn:E; [exact H|].
  destruct (is_letter is_letter_hi c); [|exact H].
  pose proof (inv_read_while (fuel_of l) (fun x => is_letter is_letter_hi x || is_digit is_digit_hi x) (read_char l) [] (inv_read_char _ H)) as K.
  destruct (read_while _ _ _ _) as [r0 l']. exact K.
Qed.

Lemma inv_skip_nl f : forall l b, Inv l -> Inv (fst (skip_nl f l b)).
Proof.
  induction f as [|f IH]; intros l b H; cbn [skip_nl fst]; [exact H|]. destruct (_ && _); [apply IH, inv_read_char, H|exact H].
Qed.

Lemma inv_read_str_part f : forall l acc, Inv l -> Inv (snd (read_str_part f l acc)).
Proof.
  induction f as [|f IH]; intros l acc H; cbn [read_str_part]; [exact H|].
  destruct ((ch l =? 34)%N || (ch l =? 0)%N); [exact H|].
  pose proof (inv_skip_nl (fuel_of l) l false H) as K. destruct (skip_nl (fuel_of l) l false) as [l1 sk]. cbn [fst] in K.
  destruct sk.
  - pose proof (inv_skip_ws (fuel_of l1) l1 K) as K2.
    destruct ((ch (skip_ws (fuel_of l1) l1) =? 34)%N || _); [exact K2|]. apply IH, inv_read_char, K2.
  - apply IH, inv_read_char, H.
Qed.

(* the end position recorded for a string is that of a reachable state, or the initial (0,0,0) when no part was read *)
Definition end_ok (e : Z * Z * Z) : Prop := let '(el, _, _) := e in 1 <= el <= total.

Lemma inv_line l : Inv l -> 1 <= line l <= total.
Proof. intros [H1 H2]. pose proof (nl_nonneg (chs l)). lia. Qed.

Lemma inv_read_string' f : forall l acc e, Inv l ->
  let '(lit, e', l') := read_string' f l acc e in Inv l' /\ (end_ok e -> end_ok e').
Proof.
  induction f as [|f IH]; intros l acc e H; cbn [read_string']; [split; auto|].
  destruct ((ch l =? 34)%N && _); [|split; auto].
  pose proof (inv_read_str_part (fuel_of (read_char l)) (read_char l) (match acc with [] => acc | _ => acc ++ [10%N] end) (inv_read_char _ H)) as K.
  destruct (read_str_part _ _ _) as [acc1 l2]. cbn [snd] in K.
  pose proof (inv_read_char _ K) as K3.
  pose proof (inv_skip_comments (fuel_of (skip_ws (fuel_of (read_char l2)) (read_char l2))) _ (inv_skip_ws (fuel_of (read_char l2)) _ K3)) as K5.
  specialize (IH _ acc1 (line (read_char l2), pcn (read_char l2), pun (read_char l2)) K5).
  destruct (read_string' f _ acc1 _) as [[lit e'] l']. destruct IH as [I1 I2]. split; [exact I1|].
  intros _. apply I2. cbn. apply inv_line, K3.
Qed.

(* a string token that starts at an opening quote ends on a line of the input *)
Lemma read_string_first l : Inv l -> (ch l =? 34)%N && negb (match chs l with [] => true | _ => false end) = true ->
  let '(lit, e', l') := read_string' (fuel_of l) l [] (0, 0, 0) in Inv l' /\ end_ok e'.
Proof.
  intros H Q. unfold fuel_of. cbn [read_string']. rewrite Q.
  pose proof (inv_read_str_part (fuel_of (read_char l)) (read_char l) [] (inv_read_char _ H)) as K.
  destruct (read_str_part _ _ _) as [acc1 l2]. cbn [snd] in K.
  pose proof (inv_read_char _ K) as K3.
  pose proof (inv_skip_comments (fuel_of (skip_ws (fuel_of (read_char l2)) (read_char l2))) _ (inv_skip_ws (fuel_of (read_char l2)) _ K3)) as K5.
  pose proof (inv_read_string' (List.length (chs l)) _ acc1 (line (read_char l2), pcn (read_char l2), pun (read_char l2)) K5) as R.
  destruct (read_string' _ _ acc1 _) as [[lit e'] l']. destruct R as [I1 I2]. split; [exact I1|].
  apply I2. cbn. apply inv_line, K3.
Qed.

Definition tok_ok (tk : token) : Prop := 1 <= tline tk <= total /\ 1 <= teline tk <= total.

Lemma read_string_token_ok l : Inv l -> (ch l =? 34)%N && negb (match chs l with [] => true | _ => false end) = true ->
  tok_ok (fst (read_string_token l)) /\ Inv (snd (read_string_token l)).
Proof.
  intros H Q. unfold read_string_token. pose proof (read_string_first l H Q) as R.
  destruct (read_string' (fuel_of l) l [] (0, 0, 0)) as [[lit [[el eb] eu]] l']. destruct R as [I E].
  cbn [fst snd]. split; [|exact I]. split; cbn; [apply inv_line, H|exact E].
Qed.

Lemma single_ok ty l : Inv l -> tok_ok (single ty l).
Proof. intros H. split; cbn; apply inv_line, H. Qed.

Lemma double_ok ty l : Inv l -> tok_ok (fst (double ty l)) /\ Inv (snd (double ty l)).
Proof.
  intros H. unfold double. cbn [fst snd]. pose proof (inv_read_char _ H) as K. split; [|apply inv_read_char, K].
  split; cbn; apply inv_line, K.
Qed.

Ltac inv_solve :=
  repeat match goal with
  | H : Inv ?l |- Inv (read_char ?l) => apply inv_read_char, H
  | |- Inv (read_char _) => apply inv_read_char
  | H : Inv ?l |- _ <= line ?l <= _ => apply inv_line, H
  | |- _ <= line _ <= _ => apply inv_line
  | H : Inv ?l |- Inv ?l => exact H
  end.

Lemma next_token_ok l0 : Inv l0 ->
  Forall tok_ok (fst (fst (next_token_aux is_letter_hi is_digit_hi is_space_hi l0))) /\
  Inv (snd (fst (next_token_aux is_letter_hi is_digit_hi is_space_hi l0))).
Proof.
  intros H0. unfold next_token_aux.
  set (l1 := skip_ws (fuel_of l0) l0). set (l := skip_comments (fuel_of l1) l1).
  assert (H : Inv l) by (apply inv_skip_comments, inv_skip_ws, H0).
  clearbody l. clear l1 H0 l0. cbn zeta.
  assert (ONE : forall ty, Forall tok_ok [single ty l] /\ Inv (read_char l)).
  { intros ty. split; [constructor; [apply single_ok, H|constructor]|apply inv_read_char, H]. }
  assert (TWO : forall ty, Forall tok_ok (fst (let '(tk, l') := double ty l in ([tk], l'))) /\ Inv (snd (let '(tk, l') := double ty l in ([tk], l')))).
  { intros ty. pose proof (double_ok ty l H) as D. destruct (double ty l) as [tk l']. cbn [fst snd] in *. destruct D. split; [constructor; [assumption|constructor]|assumption]. }
  cbn [fst snd].
  destruct (match chs l with [] => true | _ => false end || (ch l =? 0)%N) eqn:EOFQ.
  { cbn [fst snd]. split; [constructor; [split; cbn; apply inv_line, H|constructor]|apply inv_read_char, H]. }
  apply orb_false_iff in EOFQ. destruct EOFQ as [NE _].
  repeat match goal with
  | |- context [if (ch l =? ?k)%N then _ else _] => destruct (ch l =? k)%N eqn:?; [first [apply ONE | destruct (peek l =? _)%N; first [apply TWO | apply ONE] | idtac ] | ]
  end.
  all: try (apply ONE).
  - (* string *)
    match goal with Q : (ch l =? 34)%N = true |- _ =>
      assert (Q2 : (ch l =? 34)%N && negb (match chs l with [] => true | _ => false end) = true) by (rewrite Q, NE; reflexivity) end.
    pose proof (read_string_token_ok l H Q2) as R. destruct (read_string_token l) as [tk l']. cbn [fst snd] in *.
    destruct R. split; [constructor; [assumption|constructor]|assumption].
  - (* raw string *)
    pose proof (inv_read_while (fuel_of (read_char l)) (fun x => negb (x =? 96)%N && negb (x =? 0)%N) (read_char l) [] (inv_read_char _ H)) as K.
    destruct (read_while _ _ _ _) as [body l3]. cbn [fst snd] in *.
    split; [constructor; [split; cbn; inv_solve|constructor]|inv_solve].
  - (* 0 / 0x *)
    destruct (peek l =? 120)%N.
    + pose proof (inv_read_while (fuel_of (read_char (read_char l))) is_hex (read_char (read_char l)) [] (inv_read_char _ (inv_read_char _ H))) as K.
      destruct (read_while _ _ _ _) as [h l3]. cbn [fst snd] in *. split; [constructor; [split; cbn; inv_solve|constructor]|inv_solve].
    + pose proof (inv_read_while (fuel_of l) (is_digit is_digit_hi) l [] H) as K.
      destruct (read_while _ _ _ _) as [h l3]. cbn [fst snd] in *. split; [constructor; [split; cbn; inv_solve|constructor]|inv_solve].
  - (* '-' *)
    destruct (is_letter is_letter_hi (ch l)).
    + pose proof (inv_read_ident l H) as K. destruct (read_ident is_letter_hi is_digit_hi l) as [id l3]. cbn [snd] in K.
      destruct ((ch l3 =? 34)%N && negb (match chs l3 with [] => true | _ => false end)) eqn:Q.
      * pose proof (read_string_token_ok l3 K Q) as R. destruct (read_string_token l3) as [tk l']. cbn [fst snd] in *. destruct R.
        split; [constructor; [split; cbn; inv_solve|constructor; [assumption|constructor]]|assumption].
      * cbn [fst snd]. split; [constructor; [split; cbn; inv_solve|constructor]|inv_solve].
    + destruct (is_digit is_digit_hi (ch l) || true && is_digit is_digit_hi (peek l)).
      * pose proof (inv_read_while (fuel_of (read_char l)) (is_digit is_digit_hi) (read_char l) [] (inv_read_char _ H)) as K.
        destruct (read_while _ _ _ _) as [h l3]. cbn [fst snd] in *. split; [constructor; [split; cbn; inv_solve|constructor]|inv_solve].
      * cbn [fst snd]. split; [constructor; [split; cbn; inv_solve|constructor]|inv_solve].
  - (* other *)
    destruct (is_letter is_letter_hi (ch l)).
    + pose proof (inv_read_ident l H) as K. destruct (read_ident is_letter_hi is_digit_hi l) as [id l3]. cbn [snd] in K.
      destruct ((ch l3 =? 34)%N && negb (match chs l3 with [] => true | _ => false end)) eqn:Q.
      * pose proof (read_string_token_ok l3 K Q) as R. destruct (read_string_token l3) as [tk l']. cbn [fst snd] in *. destruct R.
        split; [constructor; [split; cbn; inv_solve|constructor; [assumption|constructor]]|assumption].
      * cbn [fst snd]. split; [constructor; [split; cbn; inv_solve|constructor]|inv_solve].
    + destruct (is_digit is_digit_hi (ch l) || false && is_digit is_digit_hi (peek l)).
      * pose proof (inv_read_while (fuel_of l) (is_digit is_digit_hi) l [] H) as K.
        destruct (read_while _ _ _ _) as [h l3]. cbn [fst snd] in *. split; [constructor; [split; cbn; inv_solve|constructor]|inv_solve].
      * cbn [fst snd]. split; [constructor; [split; cbn; inv_solve|constructor]|inv_solve].
Qed.

(* every token of the stream lies on a line of the input *)
Lemma lex_all_ok f : forall l, Inv l -> Forall tok_ok (lex_all is_letter_hi is_digit_hi is_space_hi f l).
Proof.
  induction f as [|f IH]; intros l H; cbn [lex_all]; [constructor|].
  pose proof (next_token_ok l H) as K. destruct (next_token_aux is_letter_hi is_digit_hi is_space_hi l) as [[ts l'] e]. cbn [fst snd] in K.
  destruct K as [K1 K2]. destruct e; [exact K1|]. apply Forall_app. split; [exact K1|apply IH, K2].
Qed.
End L.

(* THE THEOREM (C16, C18, C19): every token of every input starts and ends on a line between 1 and the number of lines *)
Theorem lex_lines_in_range is_letter_hi is_digit_hi is_space_hi (s : text) :
  Forall (fun tk => 1 <= tline tk <= 1 + nl s /\ 1 <= teline tk <= 1 + nl s) (lex is_letter_hi is_digit_hi is_space_hi s).
Proof.
  unfold lex. apply (lex_all_ok is_letter_hi is_digit_hi is_space_hi (1 + nl s)).
  unfold Inv, init. cbn [line chs]. split; lia.
Qed.
