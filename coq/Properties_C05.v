(* C05 - -optimize changes layout only and leaves no redundant jumps or labels. *)
From Coq Require Import List ZArith Bool.
From Pory Require Import Lexer Ast Emitter EmitProps.
Import ListNotations.

(* (c1) a jump that ends a chunk never targets the chunk rendered next (it is elided instead), for any chunk order *)
Theorem no_goto_to_next_chunk :
  forall name d next m1 is regs fall, goto_or_fall name d next m1 = (is, regs, fall) ->
    gotos_of is = map (lbl name) regs /\ ~ In next regs.
Proof. exact goto_or_fall_gotos. Qed.
Print Assumptions no_goto_to_next_chunk.

(* (d) every generated sub-label that is emitted is the target of a generated jump of the same script, for any order *)
Theorem sublabels_referenced :
  forall mp tl name glob fs order is, render_chunks mp tl name glob fs order = Ok is ->
    forall i, In (ILabel (lbl name i) false) is -> i <> 0%Z ->
      In (lbl name i) (targets_of is) \/ (exists c, In c fs /\ In (lbl name i, false) (user_labels (cstmts c))).
Proof. exact EmitProps.sublabels_referenced. Qed.
Print Assumptions sublabels_referenced.
