(* C05 - -optimize changes layout only and leaves no redundant jumps or labels. *)
From Coq Require Import List ZArith Bool.
From Pory Require Import Lexer Ast Emitter Sem2 SemTgt Tr Check C01Proofs EmitProps RenderSim RenderCheck LabelSim C01Final Worklist C01Main.
Import ListNotations.

(* (c1) a jump that ends a chunk never targets the chunk rendered next (it is elided instead), for any chunk order *)
Theorem no_goto_to_next_chunk :
  forall name d next m1 is regs fall, goto_or_fall name d next m1 = (is, regs, fall) ->
    gotos_of is = map (lbl name) regs /\ ~ In next regs.
Proof. exact goto_or_fall_gotos. Qed.
Print Assumptions no_goto_to_next_chunk.

(* (d) every generated sub-label that is emitted is the target of a generated jump of the same script, for any order *)
Theorem sublabels_referenced :
  forall mp tl name glob fs order is, render_chunks mp tl name glob fs order = Ok is ->
    forall i, In (ILabel (lbl name i) false) is -> i <> 0%Z ->
      In (lbl name i) (targets_of is) \/ (exists c, In c fs /\ In (lbl name i, false) (user_labels (cstmts c))).
Proof. exact EmitProps.sublabels_referenced. Qed.
Print Assumptions sublabels_referenced.

(* (a) the optimized and the unoptimized output of a script behave identically from its entry (validated form, see C01) *)
Theorem optimize_equiv_checked :
  forall (St : Type) (exec : cmd -> St -> stepres St) (flag_set trainer_beaten : text -> St -> bool)
         (cmp_var cmp_var_value : text -> text -> St -> comparison) (case_matches : text -> text -> St -> bool)
         (mp : option text) (tl : list text) (name : text) (glob : bool) (body : list stmt)
         (w : wst) (code0 code1 : list instr) (find_label : text -> option sstate) (fuel : nat),
    emit_graph body = Ok w ->
    emit_script mp tl name glob false body = Ok code0 -> emit_script mp tl name glob true body = Ok code1 ->
    chk_block (finals w) (brk w) (org w) fuel body 0 (-1) = true ->
    wf_render mp name (finals w) (order_of false (finals w)) code0 = true ->
    wf_render mp name (finals w) (order_of true (finals w)) code1 = true ->
    scoped None None body ->
    label_lookup_agrees St exec flag_set trainer_beaten cmp_var cmp_var_value case_matches (finals w) (brk w) (org w) find_label ->
    label_lookup_scoped find_label ->
    (forall m s, exists m', res_le (run (@tfinal) (tstep St exec flag_set trainer_beaten cmp_var cmp_var_value case_matches code0) m (jump code0 name) s)
                                  (run (@tfinal) (tstep St exec flag_set trainer_beaten cmp_var cmp_var_value case_matches code1) m' (jump code1 name) s)) /\
    (forall m s, exists m', res_le (run (@tfinal) (tstep St exec flag_set trainer_beaten cmp_var cmp_var_value case_matches code1) m (jump code1 name) s)
                                  (run (@tfinal) (tstep St exec flag_set trainer_beaten cmp_var cmp_var_value case_matches code0) m' (jump code0 name) s)).
Proof. exact C01Final.optimize_equiv_checked. Qed.
Print Assumptions optimize_equiv_checked.

(* final form (see C01): premises are the validators and well-scopedness only *)
Theorem optimize_equiv_validated :
  forall (St : Type) (exec : cmd -> St -> stepres St) (flag_set trainer_beaten : text -> St -> bool)
         (cmp_var cmp_var_value : text -> text -> St -> comparison) (case_matches : text -> text -> St -> bool)
         (mp : option text) (tl : list text) (name : text) (glob : bool) (body : list stmt)
         (w : wst) (code0 code1 : list instr) (fuel : nat),
    emit_graph body = Ok w ->
    emit_script mp tl name glob false body = Ok code0 -> emit_script mp tl name glob true body = Ok code1 ->
    chk_block (finals w) (brk w) (org w) fuel body 0 (-1) = true ->
    wf_render mp name (finals w) (order_of false (finals w)) code0 = true ->
    wf_render mp name (finals w) (order_of true (finals w)) code1 = true ->
    labels_okb body (finals w) = true -> scoped None None body ->
    (forall m s, exists m', res_le (run (@tfinal) (tstep St exec flag_set trainer_beaten cmp_var cmp_var_value case_matches code0) m (jump code0 name) s)
                                  (run (@tfinal) (tstep St exec flag_set trainer_beaten cmp_var cmp_var_value case_matches code1) m' (jump code1 name) s)) /\
    (forall m s, exists m', res_le (run (@tfinal) (tstep St exec flag_set trainer_beaten cmp_var cmp_var_value case_matches code1) m (jump code1 name) s)
                                  (run (@tfinal) (tstep St exec flag_set trainer_beaten cmp_var cmp_var_value case_matches code0) m' (jump code0 name) s)).
Proof. exact C01Final.optimize_equiv_validated. Qed.
Print Assumptions optimize_equiv_validated.


(* final form: the relation checker is no longer a premise (lemma 1, Worklist.v) *)
Theorem optimize_equiv :
  forall (St : Type) (exec : cmd -> St -> stepres St) (flag_set trainer_beaten : text -> St -> bool)
         (cmp_var cmp_var_value : text -> text -> St -> comparison) (case_matches : text -> text -> St -> bool)
         (mp : option text) (tl : list text) (name : text) (glob : bool) (body : list stmt)
         (w : wst) (code0 code1 : list instr),
    emit_graph body = Ok w ->
    emit_script mp tl name glob false body = Ok code0 -> emit_script mp tl name glob true body = Ok code1 ->
    src_okb body = true ->
    wf_render mp name (finals w) (order_of false (finals w)) code0 = true ->
    wf_render mp name (finals w) (order_of true (finals w)) code1 = true ->
    labels_okb body (finals w) = true -> scoped None None body ->
    (forall m s, exists m', res_le (run (@tfinal) (tstep St exec flag_set trainer_beaten cmp_var cmp_var_value case_matches code0) m (jump code0 name) s)
                                  (run (@tfinal) (tstep St exec flag_set trainer_beaten cmp_var cmp_var_value case_matches code1) m' (jump code1 name) s)) /\
    (forall m s, exists m', res_le (run (@tfinal) (tstep St exec flag_set trainer_beaten cmp_var cmp_var_value case_matches code1) m (jump code1 name) s)
                                  (run (@tfinal) (tstep St exec flag_set trainer_beaten cmp_var cmp_var_value case_matches code0) m' (jump code0 name) s)).
Proof. exact C01Main.optimize_equiv. Qed.
Print Assumptions optimize_equiv.

(* ---------- C05 from the source text ---------- *)
From Pory Require Import Parser Format ProgWf WorkLabels RenderFromSource C01Top.
(* both settings of -optimize produce code with the same behaviour, for every script body of every accepted program; premises
   as in Properties_C01.compiled_scripts_correct_from_source (conditions on the names the author chose) *)
Theorem optimize_equiv_from_source :
  forall (St : Type) (exec : cmd -> St -> stepres St) (flag_set trainer_beaten : text -> St -> bool)
         (cmp_var cmp_var_value : text -> text -> St -> comparison) (case_matches : text -> text -> St -> bool)
         hl hd hs autovars switches ee fc cli_font cli_maxlen (src : text) (p : program),
  parse_program autovars switches ee (parse_format fc cli_font cli_maxlen ee) (lex hl hd hs src) = Parser.Ok p ->
  forall body, In body (ProgWf.bodies_of (tops p)) ->
  NoDup (WorkLabels.dlabs body) ->
  forall (mp : option text) (tl : list text) (name : text) (glob : bool) (w : wst) (code0 code1 : list instr),
  emit_graph body = Emitter.Ok w ->
  emit_script mp tl name glob false body = Emitter.Ok code0 ->
  emit_script mp tl name glob true body = Emitter.Ok code1 ->
  RenderFromSource.names_okb (finals w) code0 = true -> RenderFromSource.names_okb (finals w) code1 = true ->
  (Z.of_nat (List.length (finals w)) <= 10 ^ 40)%Z ->
  (forall m s, exists m', res_le (run (@tfinal) (tstep St exec flag_set trainer_beaten cmp_var cmp_var_value case_matches code0) m (jump code0 name) s)
                                 (run (@tfinal) (tstep St exec flag_set trainer_beaten cmp_var cmp_var_value case_matches code1) m' (jump code1 name) s)) /\
  (forall m s, exists m', res_le (run (@tfinal) (tstep St exec flag_set trainer_beaten cmp_var cmp_var_value case_matches code1) m (jump code1 name) s)
                                 (run (@tfinal) (tstep St exec flag_set trainer_beaten cmp_var cmp_var_value case_matches code0) m' (jump code0 name) s)).
Proof. exact C01Top.optimize_equiv_from_source. Qed.
Print Assumptions optimize_equiv_from_source.

(* both orders render every chunk exactly once: the two outputs consist of the same blocks *)
Theorem both_orders_enumerate_the_chunks :
  forall b G, OrderPerm.dense G -> G <> nil -> Permutation.Permutation (order_of b G) (map cid G).
Proof. exact OrderPerm.order_of_perm. Qed.
Print Assumptions both_orders_enumerate_the_chunks.

(* ---- (b) the same data and labels in both outputs, (c2) no goto to the next label (OptimSame.v).
   program_is_assembly / program_layout / optimize_changes_script_code_only / _text_only: the output is an assembly of pieces
   that are a function of the program alone; only script pieces are rendered with the flag - every data segment (raw, text,
   movement, mart, mapscripts header and table) is identical and at the same position in both outputs.
   script_labels_both: label definitions of a rendered script in either setting; script_code_same_multiset /
   script_commands_same_multiset: everything except goto, blank and label lines is the same multiset in both outputs.
   optimized_gotos_go_backward / no_goto_to_a_later_label_optimized: in the optimized output no generated goto names a label
   defined after it. goto_to_next_label_partial (PARTIAL, either setting): only across an empty chunk nothing jumps to.
   optimize_accepts_same_programs: both settings accept the same inputs. *_from_source: for every accepted program. ---- *)
From Coq Require Import Permutation. From Pory Require Import OptimSame. Open Scope list_scope.
Theorem program_is_assembly :
  forall (opt : bool) (mp : option text) (p : program),
  emit_program_instrs opt mp p = assemble mp (map xname (texts p)) opt (program_pieces mp p).
Proof. exact OptimSame.program_is_assembly. Qed.
Print Assumptions program_is_assembly.

Theorem program_layout :
  forall (opt : bool) (mp : option text) (p : program) (code : list instr),
  emit_program_instrs opt mp p = Emitter.Ok code <->
  (exists codes : list (list instr), Forall2 (realizes mp (map xname (texts p)) opt) (program_pieces mp p) codes /\ code = List.concat codes).
Proof. exact OptimSame.program_layout. Qed.
Print Assumptions program_layout.

Theorem optimize_changes_script_code_only :
  forall (mp : option text) (p : program) (code0 code1 : list instr),
  emit_program_instrs false mp p = Emitter.Ok code0 ->
  emit_program_instrs true mp p = Emitter.Ok code1 ->
  exists segs0 segs1 : list (list instr),
    same_layout mp (map xname (texts p)) (program_pieces mp p) segs0 segs1 /\ code0 = List.concat segs0 /\ code1 = List.concat segs1.
Proof. exact OptimSame.optimize_changes_script_code_only. Qed.
Print Assumptions optimize_changes_script_code_only.

Theorem optimize_changes_script_text_only :
  forall (mp : option text) (p : program) (out0 out1 : text),
  emit_program false mp p = Emitter.Ok out0 ->
  emit_program true mp p = Emitter.Ok out1 ->
  exists segs0 segs1 : list (list instr),
    same_layout mp (map xname (texts p)) (program_pieces mp p) segs0 segs1 /\
    out0 = List.concat (map (print_instrs mp) segs0) /\ out1 = List.concat (map (print_instrs mp) segs1).
Proof. exact OptimSame.optimize_changes_script_text_only. Qed.
Print Assumptions optimize_changes_script_text_only.

Theorem program_pieces_scripts :
  forall (mp : option text) (p : program), piece_scripts (program_pieces mp p) = NameClash.scripts_of (tops p).
Proof. exact OptimSame.program_pieces_scripts. Qed.
Print Assumptions program_pieces_scripts.

Theorem script_pieces_are_program_bodies :
  forall (mp : option text) (p : program) (n : text) (g : bool) (b : list stmt),
  In (PScript n g b) (program_pieces mp p) -> In (n, g, b) (NameClash.scripts_of (tops p)) /\ In b (bodies_of (tops p)).
Proof. exact OptimSame.script_pieces_are_program_bodies. Qed.
Print Assumptions script_pieces_are_program_bodies.

Theorem graph_scoped_labels_are_source_labels :
  forall (body : list stmt) (w : wst),
  emit_graph body = Emitter.Ok w ->
  src_ok body -> Permutation (graph_ulabels (finals w)) (slabs body) /\ Forall (fun c : chunk => Forall simple (cstmts c)) (finals w).
Proof. exact OptimSame.graph_scoped_labels_are_source_labels. Qed.
Print Assumptions graph_scoped_labels_are_source_labels.

Theorem script_labels_both :
  forall (mp : option text) (tl : list text) (name : text) (glob : bool) (body : list stmt) (w : wst) (code0 code1 : list instr),
  emit_graph body = Emitter.Ok w ->
  src_ok body ->
  emit_script mp tl name glob false body = Emitter.Ok code0 ->
  emit_script mp tl name glob true body = Emitter.Ok code1 ->
  exists gen0 gen1 : list Z,
    Permutation (labels_of code0) ((name, glob) :: slabs body ++ map (fun i : Z => (lbl name i, false)) gen0) /\
    Permutation (labels_of code1) ((name, glob) :: slabs body ++ map (fun i : Z => (lbl name i, false)) gen1) /\
    NoDup gen0 /\
    NoDup gen1 /\
    (forall i : Z, In i gen0 -> (0 < i < Z.of_nat (Datatypes.length (finals w)))%Z /\ In (lbl name i) (targets_of code0)) /\
    (forall i : Z, In i gen1 -> (0 < i < Z.of_nat (Datatypes.length (finals w)))%Z /\ In (lbl name i) (targets_of code1)).
Proof. exact OptimSame.script_labels_both. Qed.
Print Assumptions script_labels_both.

Theorem script_code_same_multiset :
  forall (mp : option text) (tl : list text) (name : text) (glob : bool) (body : list stmt) (w : wst) (code0 code1 : list instr),
  emit_graph body = Emitter.Ok w ->
  src_ok body ->
  emit_script mp tl name glob false body = Emitter.Ok code0 ->
  emit_script mp tl name glob true body = Emitter.Ok code1 -> Permutation (filter essential code0) (filter essential code1).
Proof. exact OptimSame.script_code_same_multiset. Qed.
Print Assumptions script_code_same_multiset.

Theorem script_commands_same_multiset :
  forall (mp : option text) (tl : list text) (name : text) (glob : bool) (body : list stmt) (w : wst) (code0 code1 : list instr),
  emit_graph body = Emitter.Ok w ->
  src_ok body ->
  emit_script mp tl name glob false body = Emitter.Ok code0 ->
  emit_script mp tl name glob true body = Emitter.Ok code1 -> Permutation (filter is_cmd code0) (filter is_cmd code1).
Proof. exact OptimSame.script_commands_same_multiset. Qed.
Print Assumptions script_commands_same_multiset.

Theorem optimized_gotos_go_backward :
  forall (mp : option text) (tl : list text) (name : text) (glob : bool) (body : list stmt) (w : wst) (code : list instr),
  emit_graph body = Emitter.Ok w ->
  src_ok body ->
  (Z.of_nat (Datatypes.length (finals w)) <= 10 ^ 40)%Z ->
  emit_script mp tl name glob true body = Emitter.Ok code ->
  forall (pre : list instr) (l : text) (post : list instr), code = pre ++ IGoto l :: post -> ~ In l (lnames post).
Proof. exact OptimSame.optimized_gotos_go_backward. Qed.
Print Assumptions optimized_gotos_go_backward.

Theorem no_goto_to_a_later_label_optimized :
  forall (mp : option text) (tl : list text) (name : text) (glob : bool) (body : list stmt) (w : wst) (code : list instr),
  emit_graph body = Emitter.Ok w ->
  src_ok body ->
  (Z.of_nat (Datatypes.length (finals w)) <= 10 ^ 40)%Z ->
  emit_script mp tl name glob true body = Emitter.Ok code ->
  forall (pre : list instr) (l : text) (mid : list instr) (g : bool) (post : list instr),
  code = pre ++ IGoto l :: mid ++ ILabel l g :: post -> False.
Proof. exact OptimSame.no_goto_to_a_later_label_optimized. Qed.
Print Assumptions no_goto_to_a_later_label_optimized.

Theorem goto_to_next_label_partial :
  forall (mp : option text) (tl : list text) (name : text) (glob : bool) (body : list stmt) (w : wst) (opt : bool) (code : list instr),
  emit_graph body = Emitter.Ok w ->
  src_ok body ->
  (Z.of_nat (Datatypes.length (finals w)) <= 10 ^ 40)%Z ->
  emit_script mp tl name glob opt body = Emitter.Ok code ->
  forall (pre : list instr) (l : text) (mid : list instr) (g : bool) (post : list instr),
  code = pre ++ IGoto l :: mid ++ ILabel l g :: post ->
  Forall skip mid ->
  exists (l1 : list Z) (A B : Z) (l2 : list Z) (cA cB : chunk),
    order_of opt (finals w) = l1 ++ A :: B :: l2 /\
    get_chunk (finals w) A = Some cA /\
    get_chunk (finals w) B = Some cB /\
    l = lbl name (tail_of cA) /\ tail_of cA <> B /\ B <> 0%Z /\ cstmts cB = [] /\ ~ In (lbl name B) (targets_of code).
Proof. exact OptimSame.goto_to_next_label_partial. Qed.
Print Assumptions goto_to_next_label_partial.

Theorem no_goto_to_next_label_checked :
  forall (mp : option text) (tl : list text) (name : text) (glob : bool) (body : list stmt) (w : wst) (opt : bool) (code : list instr),
  emit_graph body = Emitter.Ok w ->
  src_ok body ->
  (Z.of_nat (Datatypes.length (finals w)) <= 10 ^ 40)%Z ->
  emit_script mp tl name glob opt body = Emitter.Ok code ->
  no_dead_empty_chunk name (finals w) code = true ->
  forall (pre : list instr) (l : text) (mid : list instr) (g : bool) (post : list instr),
  code = pre ++ IGoto l :: mid ++ ILabel l g :: post -> Forall skip mid -> False.
Proof. exact OptimSame.no_goto_to_next_label_checked. Qed.
Print Assumptions no_goto_to_next_label_checked.

Theorem optimize_accepts_same_scripts :
  forall (mp : option text) (tl : list text) (name : text) (glob : bool) (body : list stmt),
  src_ok body ->
  (exists code : list instr, emit_script mp tl name glob false body = Emitter.Ok code) <->
  (exists code : list instr, emit_script mp tl name glob true body = Emitter.Ok code).
Proof. exact OptimSame.optimize_accepts_same_scripts. Qed.
Print Assumptions optimize_accepts_same_scripts.

Theorem optimize_accepts_same_programs :
  forall (mp : option text) (p : program),
  Forall src_ok (bodies_of (tops p)) ->
  (exists out : text, emit_program false mp p = Emitter.Ok out) <-> (exists out : text, emit_program true mp p = Emitter.Ok out).
Proof. exact OptimSame.optimize_accepts_same_programs. Qed.
Print Assumptions optimize_accepts_same_programs.

Theorem script_labels_from_source :
  forall (hl hd hs : N -> bool) (autovars : list (text * autovar)) (switches : list (text * text)) (ee : bool) (fc : fontcfg) 
    (cli_font : text) (cli_maxlen : Z) (src : text) (p : program),
  parse_program autovars switches ee (parse_format fc cli_font cli_maxlen ee) (lex hl hd hs src) = Ok p ->
  forall (body : list stmt) (mp : option text) (tl : list text) (name : text) (glob : bool) (w : wst) (code0 code1 : list instr),
  In body (bodies_of (tops p)) ->
  emit_graph body = Emitter.Ok w ->
  emit_script mp tl name glob false body = Emitter.Ok code0 ->
  emit_script mp tl name glob true body = Emitter.Ok code1 ->
  exists gen0 gen1 : list Z,
    Permutation (labels_of code0) ((name, glob) :: slabs body ++ map (fun i : Z => (lbl name i, false)) gen0) /\
    Permutation (labels_of code1) ((name, glob) :: slabs body ++ map (fun i : Z => (lbl name i, false)) gen1) /\
    NoDup gen0 /\
    NoDup gen1 /\
    (forall i : Z, In i gen0 -> (0 < i < Z.of_nat (Datatypes.length (finals w)))%Z /\ In (lbl name i) (targets_of code0)) /\
    (forall i : Z, In i gen1 -> (0 < i < Z.of_nat (Datatypes.length (finals w)))%Z /\ In (lbl name i) (targets_of code1)).
Proof. exact OptimSame.script_labels_from_source. Qed.
Print Assumptions script_labels_from_source.

Theorem script_code_same_multiset_from_source :
  forall (hl hd hs : N -> bool) (autovars : list (text * autovar)) (switches : list (text * text)) (ee : bool) (fc : fontcfg) 
    (cli_font : text) (cli_maxlen : Z) (src : text) (p : program),
  parse_program autovars switches ee (parse_format fc cli_font cli_maxlen ee) (lex hl hd hs src) = Ok p ->
  forall (body : list stmt) (mp : option text) (tl : list text) (name : text) (glob : bool) (w : wst) (code0 code1 : list instr),
  In body (bodies_of (tops p)) ->
  emit_graph body = Emitter.Ok w ->
  emit_script mp tl name glob false body = Emitter.Ok code0 ->
  emit_script mp tl name glob true body = Emitter.Ok code1 ->
  Permutation (filter essential code0) (filter essential code1) /\ Permutation (filter is_cmd code0) (filter is_cmd code1).
Proof. exact OptimSame.script_code_same_multiset_from_source. Qed.
Print Assumptions script_code_same_multiset_from_source.

Theorem optimized_gotos_go_backward_from_source :
  forall (hl hd hs : N -> bool) (autovars : list (text * autovar)) (switches : list (text * text)) (ee : bool) (fc : fontcfg) 
    (cli_font : text) (cli_maxlen : Z) (src : text) (p : program),
  parse_program autovars switches ee (parse_format fc cli_font cli_maxlen ee) (lex hl hd hs src) = Ok p ->
  forall (body : list stmt) (mp : option text) (tl : list text) (name : text) (glob : bool) (w : wst) (code : list instr),
  In body (bodies_of (tops p)) ->
  emit_graph body = Emitter.Ok w ->
  (Z.of_nat (Datatypes.length (finals w)) <= 10 ^ 40)%Z ->
  emit_script mp tl name glob true body = Emitter.Ok code ->
  forall (pre : list instr) (l : text) (post : list instr), code = pre ++ IGoto l :: post -> ~ In l (lnames post).
Proof. exact OptimSame.optimized_gotos_go_backward_from_source. Qed.
Print Assumptions optimized_gotos_go_backward_from_source.

Theorem optimize_accepts_same_from_source :
  forall (hl hd hs : N -> bool) (autovars : list (text * autovar)) (switches : list (text * text)) (ee : bool) (fc : fontcfg) 
    (cli_font : text) (cli_maxlen : Z) (src : text) (p : program),
  parse_program autovars switches ee (parse_format fc cli_font cli_maxlen ee) (lex hl hd hs src) = Ok p ->
  forall mp : option text,
  (exists out : text, emit_program false mp p = Emitter.Ok out) <-> (exists out : text, emit_program true mp p = Emitter.Ok out).
Proof. exact OptimSame.optimize_accepts_same_from_source. Qed.
Print Assumptions optimize_accepts_same_from_source.


(* ---- (c2) for BOTH settings, and the program-level form of 'no unreferenced sub-label' (NoGotoNext.v).
   forward_tail_crosses_a_solid_chunk: a worklist invariant - between a chunk and a later tail target lies a chunk that
   emits something. no_goto_to_next_label(_unoptimized, _from_source): for every body of every accepted program and both
   settings, no generated `goto l` is followed - blank lines and markers aside - by the label l. (Needs that the body is well
   scoped, which every accepted body is; OptimSame.EXAMPLES.ascending_order_needs_scoping shows the need.)
   script_label_lines(_from_source), program_label_lines: every label line of a script's code is the script's label, a label
   the author wrote, or a sub-label that some jump of that code refers to - for the final code of every accepted program.
   program_segments_ok, program_no_goto_to_next_label: the whole program's list (the flat form needs the labels of the program
   pairwise distinct: flat_statement_needs_distinct_labels, boundary B2). ---- *)
From Pory Require Import NoGotoNext. Open Scope list_scope.
Theorem forward_tail_crosses_a_solid_chunk :
  forall (body : list stmt) (w : wst),
  emit_graph body = Emitter.Ok w ->
  src_ok body ->
  scoped None None body ->
  forall c : chunk,
  In c (finals w) -> (tail_of c <= cid c + 1)%Z \/ (exists W : chunk, In W (finals w) /\ solidF W /\ (cid c < cid W < tail_of c)%Z).
Proof. exact NoGotoNext.forward_tail_crosses_a_solid_chunk. Qed.
Print Assumptions forward_tail_crosses_a_solid_chunk.

Theorem no_goto_to_next_label_unoptimized :
  forall (mp : option text) (tl : list text) (name : text) (glob : bool) (body : list stmt) (w : wst) (code : list instr),
  emit_graph body = Emitter.Ok w ->
  src_ok body ->
  scoped None None body ->
  (Z.of_nat (Datatypes.length (finals w)) <= 10 ^ 40)%Z ->
  emit_script mp tl name glob false body = Emitter.Ok code ->
  forall (pre : list instr) (l : text) (mid : list instr) (g : bool) (post : list instr),
  code = pre ++ IGoto l :: mid ++ ILabel l g :: post -> Forall skip mid -> False.
Proof. exact NoGotoNext.no_goto_to_next_label_unoptimized. Qed.
Print Assumptions no_goto_to_next_label_unoptimized.

Theorem no_goto_to_next_label :
  forall (mp : option text) (tl : list text) (name : text) (glob : bool) (body : list stmt) (w : wst) (opt : bool) (code : list instr),
  emit_graph body = Emitter.Ok w ->
  src_ok body ->
  scoped None None body ->
  (Z.of_nat (Datatypes.length (finals w)) <= 10 ^ 40)%Z ->
  emit_script mp tl name glob opt body = Emitter.Ok code ->
  forall (pre : list instr) (l : text) (mid : list instr) (g : bool) (post : list instr),
  code = pre ++ IGoto l :: mid ++ ILabel l g :: post -> Forall skip mid -> False.
Proof. exact NoGotoNext.no_goto_to_next_label. Qed.
Print Assumptions no_goto_to_next_label.

Theorem no_goto_to_next_label_from_source :
  forall (hl hd hs : N -> bool) (autovars : list (text * autovar)) (switches : list (text * text)) (ee : bool) (fc : fontcfg) 
    (cli_font : text) (cli_maxlen : Z) (src : text) (p : program),
  parse_program autovars switches ee (parse_format fc cli_font cli_maxlen ee) (lex hl hd hs src) = Ok p ->
  forall (body : list stmt) (mp : option text) (tl : list text) (name : text) (glob : bool) (w : wst) (opt : bool) (code : list instr),
  In body (bodies_of (tops p)) ->
  emit_graph body = Emitter.Ok w ->
  (Z.of_nat (Datatypes.length (finals w)) <= 10 ^ 40)%Z ->
  emit_script mp tl name glob opt body = Emitter.Ok code ->
  forall (pre : list instr) (l : text) (mid : list instr) (g : bool) (post : list instr),
  code = pre ++ IGoto l :: mid ++ ILabel l g :: post -> Forall skip mid -> False.
Proof. exact NoGotoNext.no_goto_to_next_label_from_source. Qed.
Print Assumptions no_goto_to_next_label_from_source.

Theorem script_label_lines :
  forall (mp : option text) (tl : list text) (name : text) (glob : bool) (body : list stmt) (w : wst) (opt : bool) (code : list instr),
  emit_graph body = Emitter.Ok w ->
  src_ok body -> emit_script mp tl name glob opt body = Emitter.Ok code -> label_lines_accounted name glob body code.
Proof. exact NoGotoNext.script_label_lines. Qed.
Print Assumptions script_label_lines.

Theorem script_label_lines_from_source :
  forall (hl hd hs : N -> bool) (autovars : list (text * autovar)) (switches : list (text * text)) (ee : bool) (fc : fontcfg) 
    (cli_font : text) (cli_maxlen : Z) (src : text) (p : program),
  parse_program autovars switches ee (parse_format fc cli_font cli_maxlen ee) (lex hl hd hs src) = Ok p ->
  forall (body : list stmt) (mp : option text) (tl : list text) (name : text) (glob opt : bool) (code : list instr),
  In body (bodies_of (tops p)) -> emit_script mp tl name glob opt body = Emitter.Ok code -> label_lines_accounted name glob body code.
Proof. exact NoGotoNext.script_label_lines_from_source. Qed.
Print Assumptions script_label_lines_from_source.

Theorem program_segments_ok :
  forall (hl hd hs : N -> bool) (autovars : list (text * autovar)) (switches : list (text * text)) (ee : bool) (fc : fontcfg) 
    (cli_font : text) (cli_maxlen : Z) (src : text) (p : program),
  parse_program autovars switches ee (parse_format fc cli_font cli_maxlen ee) (lex hl hd hs src) = Ok p ->
  forall (opt : bool) (mp : option text) (code : list instr),
  (forall (body : list stmt) (w : wst),
   In body (bodies_of (tops p)) -> emit_graph body = Emitter.Ok w -> (Z.of_nat (Datatypes.length (finals w)) <= 10 ^ 40)%Z) ->
  emit_program_instrs opt mp p = Emitter.Ok code ->
  exists segs : list (list instr), Forall2 (segment_ok mp (map xname (texts p)) opt) (program_pieces mp p) segs /\ code = List.concat segs.
Proof. exact NoGotoNext.program_segments_ok. Qed.
Print Assumptions program_segments_ok.

Theorem data_pieces_have_no_goto :
  forall (mp : option text) (p : program) (is : list instr), In (PData is) (program_pieces mp p) -> forall l : text, ~ In (IGoto l) is.
Proof. exact NoGotoNext.data_pieces_have_no_goto. Qed.
Print Assumptions data_pieces_have_no_goto.

Theorem program_label_lines :
  forall (hl hd hs : N -> bool) (autovars : list (text * autovar)) (switches : list (text * text)) (ee : bool) (fc : fontcfg) 
    (cli_font : text) (cli_maxlen : Z) (src : text) (p : program),
  parse_program autovars switches ee (parse_format fc cli_font cli_maxlen ee) (lex hl hd hs src) = Ok p ->
  forall (opt : bool) (mp : option text) (code : list instr),
  emit_program_instrs opt mp p = Emitter.Ok code ->
  exists segs : list (list instr),
    Forall2 (realizes mp (map xname (texts p)) opt) (program_pieces mp p) segs /\
    code = List.concat segs /\
    (forall (n : text) (g : bool) (b : list stmt) (seg : list instr),
     In (PScript n g b, seg) (combine (program_pieces mp p) segs) ->
     forall (n' : text) (g' : bool),
     In (ILabel n' g') seg ->
     (n', g') = (n, g) \/
     In (n', g') (slabs b) \/ (exists i : Z, (0 < i)%Z /\ n' = lbl n i /\ g' = false /\ In n' (targets_of seg) /\ In n' (targets_of code))).
Proof. exact NoGotoNext.program_label_lines. Qed.
Print Assumptions program_label_lines.

Theorem program_no_goto_to_next_label :
  forall (hl hd hs : N -> bool) (autovars : list (text * autovar)) (switches : list (text * text)) (ee : bool) (fc : fontcfg) 
    (cli_font : text) (cli_maxlen : Z) (src : text) (p : program),
  parse_program autovars switches ee (parse_format fc cli_font cli_maxlen ee) (lex hl hd hs src) = Ok p ->
  forall (opt : bool) (mp : option text) (code : list instr),
  (forall (body : list stmt) (w : wst),
   In body (bodies_of (tops p)) -> emit_graph body = Emitter.Ok w -> (Z.of_nat (Datatypes.length (finals w)) <= 10 ^ 40)%Z) ->
  emit_program_instrs opt mp p = Emitter.Ok code ->
  NoDup (lnames code) ->
  forall (pre : list instr) (l : text) (mid : list instr) (g : bool) (post : list instr),
  code = pre ++ IGoto l :: mid ++ ILabel l g :: post -> Forall skip mid -> False.
Proof. exact NoGotoNext.program_no_goto_to_next_label. Qed.
Print Assumptions program_no_goto_to_next_label.


(* NoGotoNextSize.v *)
From Pory Require NoGotoNextSize.
Theorem graph_size_holds :
  forall (body : list stmt) (w : wst), emit_graph body = Emitter.Ok w -> (Z.of_nat (length (finals w)) <= 10 ^ 40)%Z.
Proof. exact NoGotoNextSize.graph_size_holds. Qed.
Print Assumptions graph_size_holds.

Theorem no_goto_to_next_label_unoptimized_nosize :
  forall (mp : option text) (tl : list text) (name : text) (glob : bool) (body : list stmt) (w : wst) (code : list instr),
  emit_graph body = Emitter.Ok w ->
  src_ok body ->
  scoped None None body ->
  emit_script mp tl name glob false body = Emitter.Ok code ->
  forall (pre : list instr) (l : text) (mid : list instr) (g : bool) (post : list instr),
  code = pre ++ IGoto l :: mid ++ ILabel l g :: post -> Forall skip mid -> False.
Proof. exact NoGotoNextSize.no_goto_to_next_label_unoptimized_nosize. Qed.
Print Assumptions no_goto_to_next_label_unoptimized_nosize.

Theorem no_goto_to_next_label_nosize :
  forall (mp : option text) (tl : list text) (name : text) (glob : bool) (body : list stmt) (w : wst) (opt : bool) (code : list instr),
  emit_graph body = Emitter.Ok w ->
  src_ok body ->
  scoped None None body ->
  emit_script mp tl name glob opt body = Emitter.Ok code ->
  forall (pre : list instr) (l : text) (mid : list instr) (g : bool) (post : list instr),
  code = pre ++ IGoto l :: mid ++ ILabel l g :: post -> Forall skip mid -> False.
Proof. exact NoGotoNextSize.no_goto_to_next_label_nosize. Qed.
Print Assumptions no_goto_to_next_label_nosize.

Theorem script_goto_target_defined_nosize :
  forall (mp : option text) (tl : list text) (name : text) (glob : bool) (body : list stmt) (w : wst) (opt : bool) (code : list instr),
  emit_graph body = Emitter.Ok w ->
  src_ok body ->
  emit_script mp tl name glob opt body = Emitter.Ok code ->
  forall (a : list instr) (l : text) (b : list instr), code = a ++ IGoto l :: b -> In l (lnames code).
Proof. exact NoGotoNextSize.script_goto_target_defined_nosize. Qed.
Print Assumptions script_goto_target_defined_nosize.

Theorem no_goto_to_next_label_from_source_nosize :
  forall (hl hd hs : N -> bool) (autovars : list (text * autovar)) (switches : list (text * text)) (ee : bool) (fc : fontcfg) 
    (cli_font : text) (cli_maxlen : Z) (src : text) (p : program),
  parse_program autovars switches ee (parse_format fc cli_font cli_maxlen ee) (lex hl hd hs src) = Ok p ->
  forall (body : list stmt) (mp : option text) (tl : list text) (name : text) (glob : bool) (w : wst) (opt : bool) (code : list instr),
  In body (bodies_of (tops p)) ->
  emit_graph body = Emitter.Ok w ->
  emit_script mp tl name glob opt body = Emitter.Ok code ->
  forall (pre : list instr) (l : text) (mid : list instr) (g : bool) (post : list instr),
  code = pre ++ IGoto l :: mid ++ ILabel l g :: post -> Forall skip mid -> False.
Proof. exact NoGotoNextSize.no_goto_to_next_label_from_source_nosize. Qed.
Print Assumptions no_goto_to_next_label_from_source_nosize.

Theorem program_segments_ok_nosize :
  forall (hl hd hs : N -> bool) (autovars : list (text * autovar)) (switches : list (text * text)) (ee : bool) (fc : fontcfg) 
    (cli_font : text) (cli_maxlen : Z) (src : text) (p : program),
  parse_program autovars switches ee (parse_format fc cli_font cli_maxlen ee) (lex hl hd hs src) = Ok p ->
  forall (opt : bool) (mp : option text) (code : list instr),
  emit_program_instrs opt mp p = Emitter.Ok code ->
  exists segs : list (list instr), Forall2 (segment_ok mp (map xname (texts p)) opt) (program_pieces mp p) segs /\ code = concat segs.
Proof. exact NoGotoNextSize.program_segments_ok_nosize. Qed.
Print Assumptions program_segments_ok_nosize.

Theorem program_no_goto_to_next_label_nosize :
  forall (hl hd hs : N -> bool) (autovars : list (text * autovar)) (switches : list (text * text)) (ee : bool) (fc : fontcfg) 
    (cli_font : text) (cli_maxlen : Z) (src : text) (p : program),
  parse_program autovars switches ee (parse_format fc cli_font cli_maxlen ee) (lex hl hd hs src) = Ok p ->
  forall (opt : bool) (mp : option text) (code : list instr),
  emit_program_instrs opt mp p = Emitter.Ok code ->
  NoDup (lnames code) ->
  forall (pre : list instr) (l : text) (mid : list instr) (g : bool) (post : list instr),
  code = pre ++ IGoto l :: mid ++ ILabel l g :: post -> Forall skip mid -> False.
Proof. exact NoGotoNextSize.program_no_goto_to_next_label_nosize. Qed.
Print Assumptions program_no_goto_to_next_label_nosize.

Theorem optimized_gotos_go_backward_nosize :
  forall (mp : option text) (tl : list text) (name : text) (glob : bool) (body : list stmt) (w : wst) (code : list instr),
  emit_graph body = Emitter.Ok w ->
  src_ok body ->
  emit_script mp tl name glob true body = Emitter.Ok code ->
  forall (pre : list instr) (l : text) (post : list instr), code = pre ++ IGoto l :: post -> ~ In l (lnames post).
Proof. exact NoGotoNextSize.optimized_gotos_go_backward_nosize. Qed.
Print Assumptions optimized_gotos_go_backward_nosize.

Theorem no_goto_to_a_later_label_optimized_nosize :
  forall (mp : option text) (tl : list text) (name : text) (glob : bool) (body : list stmt) (w : wst) (code : list instr),
  emit_graph body = Emitter.Ok w ->
  src_ok body ->
  emit_script mp tl name glob true body = Emitter.Ok code ->
  forall (pre : list instr) (l : text) (mid : list instr) (g : bool) (post : list instr),
  code = pre ++ IGoto l :: mid ++ ILabel l g :: post -> False.
Proof. exact NoGotoNextSize.no_goto_to_a_later_label_optimized_nosize. Qed.
Print Assumptions no_goto_to_a_later_label_optimized_nosize.

Theorem goto_to_next_label_partial_nosize :
  forall (mp : option text) (tl : list text) (name : text) (glob : bool) (body : list stmt) (w : wst) (opt : bool) (code : list instr),
  emit_graph body = Emitter.Ok w ->
  src_ok body ->
  emit_script mp tl name glob opt body = Emitter.Ok code ->
  forall (pre : list instr) (l : text) (mid : list instr) (g : bool) (post : list instr),
  code = pre ++ IGoto l :: mid ++ ILabel l g :: post ->
  Forall skip mid ->
  exists (l1 : list Z) (A B : Z) (l2 : list Z) (cA cB : chunk),
    order_of opt (finals w) = l1 ++ A :: B :: l2 /\
    get_chunk (finals w) A = Some cA /\
    get_chunk (finals w) B = Some cB /\
    l = lbl name (tail_of cA) /\ tail_of cA <> B /\ B <> 0%Z /\ cstmts cB = [] /\ ~ In (lbl name B) (targets_of code).
Proof. exact NoGotoNextSize.goto_to_next_label_partial_nosize. Qed.
Print Assumptions goto_to_next_label_partial_nosize.

Theorem no_goto_to_next_label_checked_nosize :
  forall (mp : option text) (tl : list text) (name : text) (glob : bool) (body : list stmt) (w : wst) (opt : bool) (code : list instr),
  emit_graph body = Emitter.Ok w ->
  src_ok body ->
  emit_script mp tl name glob opt body = Emitter.Ok code ->
  no_dead_empty_chunk name (finals w) code = true ->
  forall (pre : list instr) (l : text) (mid : list instr) (g : bool) (post : list instr),
  code = pre ++ IGoto l :: mid ++ ILabel l g :: post -> Forall skip mid -> False.
Proof. exact NoGotoNextSize.no_goto_to_next_label_checked_nosize. Qed.
Print Assumptions no_goto_to_next_label_checked_nosize.

Theorem optimized_gotos_go_backward_from_source_nosize :
  forall (hl hd hs : N -> bool) (autovars : list (text * autovar)) (switches : list (text * text)) (ee : bool) (fc : fontcfg) 
    (cli_font : text) (cli_maxlen : Z) (src : text) (p : program),
  parse_program autovars switches ee (parse_format fc cli_font cli_maxlen ee) (lex hl hd hs src) = Ok p ->
  forall (body : list stmt) (mp : option text) (tl : list text) (name : text) (glob : bool) (w : wst) (code : list instr),
  In body (bodies_of (tops p)) ->
  emit_graph body = Emitter.Ok w ->
  emit_script mp tl name glob true body = Emitter.Ok code ->
  forall (pre : list instr) (l : text) (post : list instr), code = pre ++ IGoto l :: post -> ~ In l (lnames post).
Proof. exact NoGotoNextSize.optimized_gotos_go_backward_from_source_nosize. Qed.
Print Assumptions optimized_gotos_go_backward_from_source_nosize.

Theorem no_goto_to_next_label_closed :
  forall (mp : option text) (tl : list text) (name : text) (glob : bool) (body : list stmt) (opt : bool) (code : list instr),
  src_ok body -> scoped None None body -> emit_script mp tl name glob opt body = Emitter.Ok code -> no_goto_to_next code.
Proof. exact NoGotoNextSize.no_goto_to_next_label_closed. Qed.
Print Assumptions no_goto_to_next_label_closed.

Theorem optimized_gotos_go_backward_closed :
  forall (mp : option text) (tl : list text) (name : text) (glob : bool) (body : list stmt) (code : list instr),
  src_ok body ->
  emit_script mp tl name glob true body = Emitter.Ok code ->
  forall (pre : list instr) (l : text) (post : list instr), code = pre ++ IGoto l :: post -> ~ In l (lnames post).
Proof. exact NoGotoNextSize.optimized_gotos_go_backward_closed. Qed.
Print Assumptions optimized_gotos_go_backward_closed.

Theorem no_goto_to_next_label_from_source_closed :
  forall (hl hd hs : N -> bool) (autovars : list (text * autovar)) (switches : list (text * text)) (ee : bool) (fc : fontcfg) 
    (cli_font : text) (cli_maxlen : Z) (src : text) (p : program),
  parse_program autovars switches ee (parse_format fc cli_font cli_maxlen ee) (lex hl hd hs src) = Ok p ->
  forall (body : list stmt) (mp : option text) (tl : list text) (name : text) (glob opt : bool) (code : list instr),
  In body (bodies_of (tops p)) ->
  emit_script mp tl name glob opt body = Emitter.Ok code -> no_goto_to_next code /\ label_lines_accounted name glob body code.
Proof. exact NoGotoNextSize.no_goto_to_next_label_from_source_closed. Qed.
Print Assumptions no_goto_to_next_label_from_source_closed.

