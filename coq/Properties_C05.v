(* C05 - -optimize changes layout only and leaves no redundant jumps or labels. *)
From Coq Require Import List ZArith Bool.
From Pory Require Import Lexer Ast Emitter Sem2 SemTgt Tr Check C01Proofs EmitProps RenderSim RenderCheck LabelSim C01Final Worklist C01Main.
Import ListNotations.

(* (c1) a jump that ends a chunk never targets the chunk rendered next (it is elided instead), for any chunk order *)
Theorem no_goto_to_next_chunk :
  forall name d next m1 is regs fall, goto_or_fall name d next m1 = (is, regs, fall) ->
    gotos_of is = map (lbl name) regs /\ ~ In next regs.
Proof. exact goto_or_fall_gotos. Qed.
Print Assumptions no_goto_to_next_chunk.

(* (d) every generated sub-label that is emitted is the target of a generated jump of the same script, for any order *)
Theorem sublabels_referenced :
  forall mp tl name glob fs order is, render_chunks mp tl name glob fs order = Ok is ->
    forall i, In (ILabel (lbl name i) false) is -> i <> 0%Z ->
      In (lbl name i) (targets_of is) \/ (exists c, In c fs /\ In (lbl name i, false) (user_labels (cstmts c))).
Proof. exact EmitProps.sublabels_referenced. Qed.
Print Assumptions sublabels_referenced.

(* (a) the optimized and the unoptimized output of a script behave identically from its entry (validated form, see C01) *)
Theorem optimize_equiv_checked :
  forall (St : Type) (exec : cmd -> St -> stepres St) (flag_set trainer_beaten : text -> St -> bool)
         (cmp_var cmp_var_value : text -> text -> St -> comparison) (case_matches : text -> text -> St -> bool)
         (mp : option text) (tl : list text) (name : text) (glob : bool) (body : list stmt)
         (w : wst) (code0 code1 : list instr) (find_label : text -> option sstate) (fuel : nat),
    emit_graph body = Ok w ->
    emit_script mp tl name glob false body = Ok code0 -> emit_script mp tl name glob true body = Ok code1 ->
    chk_block (finals w) (brk w) (org w) fuel body 0 (-1) = true ->
    wf_render mp name (finals w) (order_of false (finals w)) code0 = true ->
    wf_render mp name (finals w) (order_of true (finals w)) code1 = true ->
    scoped None None body ->
    label_lookup_agrees St exec flag_set trainer_beaten cmp_var cmp_var_value case_matches (finals w) (brk w) (org w) find_label ->
    label_lookup_scoped find_label ->
    (forall m s, exists m', res_le (run (@tfinal) (tstep St exec flag_set trainer_beaten cmp_var cmp_var_value case_matches code0) m (jump code0 name) s)
                                  (run (@tfinal) (tstep St exec flag_set trainer_beaten cmp_var cmp_var_value case_matches code1) m' (jump code1 name) s)) /\
    (forall m s, exists m', res_le (run (@tfinal) (tstep St exec flag_set trainer_beaten cmp_var cmp_var_value case_matches code1) m (jump code1 name) s)
                                  (run (@tfinal) (tstep St exec flag_set trainer_beaten cmp_var cmp_var_value case_matches code0) m' (jump code0 name) s)).
Proof. exact C01Final.optimize_equiv_checked. Qed.
Print Assumptions optimize_equiv_checked.

(* final form (see C01): premises are the validators and well-scopedness only *)
Theorem optimize_equiv_validated :
  forall (St : Type) (exec : cmd -> St -> stepres St) (flag_set trainer_beaten : text -> St -> bool)
         (cmp_var cmp_var_value : text -> text -> St -> comparison) (case_matches : text -> text -> St -> bool)
         (mp : option text) (tl : list text) (name : text) (glob : bool) (body : list stmt)
         (w : wst) (code0 code1 : list instr) (fuel : nat),
    emit_graph body = Ok w ->
    emit_script mp tl name glob false body = Ok code0 -> emit_script mp tl name glob true body = Ok code1 ->
    chk_block (finals w) (brk w) (org w) fuel body 0 (-1) = true ->
    wf_render mp name (finals w) (order_of false (finals w)) code0 = true ->
    wf_render mp name (finals w) (order_of true (finals w)) code1 = true ->
    labels_okb body (finals w) = true -> scoped None None body ->
    (forall m s, exists m', res_le (run (@tfinal) (tstep St exec flag_set trainer_beaten cmp_var cmp_var_value case_matches code0) m (jump code0 name) s)
                                  (run (@tfinal) (tstep St exec flag_set trainer_beaten cmp_var cmp_var_value case_matches code1) m' (jump code1 name) s)) /\
    (forall m s, exists m', res_le (run (@tfinal) (tstep St exec flag_set trainer_beaten cmp_var cmp_var_value case_matches code1) m (jump code1 name) s)
                                  (run (@tfinal) (tstep St exec flag_set trainer_beaten cmp_var cmp_var_value case_matches code0) m' (jump code0 name) s)).
Proof. exact C01Final.optimize_equiv_validated. Qed.
Print Assumptions optimize_equiv_validated.


(* final form: the relation checker is no longer a premise (lemma 1, Worklist.v) *)
Theorem optimize_equiv :
  forall (St : Type) (exec : cmd -> St -> stepres St) (flag_set trainer_beaten : text -> St -> bool)
         (cmp_var cmp_var_value : text -> text -> St -> comparison) (case_matches : text -> text -> St -> bool)
         (mp : option text) (tl : list text) (name : text) (glob : bool) (body : list stmt)
         (w : wst) (code0 code1 : list instr),
    emit_graph body = Ok w ->
    emit_script mp tl name glob false body = Ok code0 -> emit_script mp tl name glob true body = Ok code1 ->
    src_okb body = true ->
    wf_render mp name (finals w) (order_of false (finals w)) code0 = true ->
    wf_render mp name (finals w) (order_of true (finals w)) code1 = true ->
    labels_okb body (finals w) = true -> scoped None None body ->
    (forall m s, exists m', res_le (run (@tfinal) (tstep St exec flag_set trainer_beaten cmp_var cmp_var_value case_matches code0) m (jump code0 name) s)
                                  (run (@tfinal) (tstep St exec flag_set trainer_beaten cmp_var cmp_var_value case_matches code1) m' (jump code1 name) s)) /\
    (forall m s, exists m', res_le (run (@tfinal) (tstep St exec flag_set trainer_beaten cmp_var cmp_var_value case_matches code1) m (jump code1 name) s)
                                  (run (@tfinal) (tstep St exec flag_set trainer_beaten cmp_var cmp_var_value case_matches code0) m' (jump code0 name) s)).
Proof. exact C01Main.optimize_equiv. Qed.
Print Assumptions optimize_equiv.

(* ---------- C05 from the source text ---------- *)
From Pory Require Import Parser Format ProgWf WorkLabels RenderFromSource C01Top.
(* both settings of -optimize produce code with the same behaviour, for every script body of every accepted program; premises
   as in Properties_C01.compiled_scripts_correct_from_source (conditions on the names the author chose) *)
Theorem optimize_equiv_from_source :
  forall (St : Type) (exec : cmd -> St -> stepres St) (flag_set trainer_beaten : text -> St -> bool)
         (cmp_var cmp_var_value : text -> text -> St -> comparison) (case_matches : text -> text -> St -> bool)
         hl hd hs autovars switches ee fc cli_font cli_maxlen (src : text) (p : program),
  parse_program autovars switches ee (parse_format fc cli_font cli_maxlen ee) (lex hl hd hs src) = Parser.Ok p ->
  forall body, In body (ProgWf.bodies_of (tops p)) ->
  NoDup (WorkLabels.dlabs body) ->
  forall (mp : option text) (tl : list text) (name : text) (glob : bool) (w : wst) (code0 code1 : list instr),
  emit_graph body = Emitter.Ok w ->
  emit_script mp tl name glob false body = Emitter.Ok code0 ->
  emit_script mp tl name glob true body = Emitter.Ok code1 ->
  RenderFromSource.names_okb (finals w) code0 = true -> RenderFromSource.names_okb (finals w) code1 = true ->
  (Z.of_nat (List.length (finals w)) <= 10 ^ 40)%Z ->
  (forall m s, exists m', res_le (run (@tfinal) (tstep St exec flag_set trainer_beaten cmp_var cmp_var_value case_matches code0) m (jump code0 name) s)
                                 (run (@tfinal) (tstep St exec flag_set trainer_beaten cmp_var cmp_var_value case_matches code1) m' (jump code1 name) s)) /\
  (forall m s, exists m', res_le (run (@tfinal) (tstep St exec flag_set trainer_beaten cmp_var cmp_var_value case_matches code1) m (jump code1 name) s)
                                 (run (@tfinal) (tstep St exec flag_set trainer_beaten cmp_var cmp_var_value case_matches code0) m' (jump code0 name) s)).
Proof. exact C01Top.optimize_equiv_from_source. Qed.
Print Assumptions optimize_equiv_from_source.

(* both orders render every chunk exactly once: the two outputs consist of the same blocks *)
Theorem both_orders_enumerate_the_chunks :
  forall b G, OrderPerm.dense G -> G <> nil -> Permutation.Permutation (order_of b G) (map cid G).
Proof. exact OrderPerm.order_of_perm. Qed.
Print Assumptions both_orders_enumerate_the_chunks.
