(* C17: the emitted program is the concatenation of per-statement blocks, each a function of that statement alone. *)
From Coq Require Import List String Ascii ZArith NArith Lia Bool.
From Pory Require Import Lexer Ast Emitter.
Import ListNotations.
Open Scope list_scope.

Section S.
Variable mp : option text.
Variable tl : list text.
Variable opt : bool.

(* the blocks of the top-level statements, in order (text statements are rendered with the texts); first error wins *)
Fixpoint collect (l : list top) : res (list (list instr)) :=
  match l with
  | [] => Ok []
  | tp :: r =>
      match emit_top mp tl opt tp with
      | None => collect r
      | Some rt => bind_i rt (fun x => bind_i (collect r) (fun bs => Ok (x :: bs)))
      end
  end.

Fixpoint seq_blocks (bs : list (list instr)) (i : nat) : list instr :=
  match bs with
  | [] => []
  | b :: r => (match i with O => [] | _ => [IBlank] end) ++ b ++ seq_blocks r (S i)
  end.

Theorem emit_tops_compositional l : forall i,
  emit_tops mp tl opt l i = bind_i (collect l) (fun bs => Ok (seq_blocks bs i, (i + List.length bs)%nat)).
Proof.
  induction l as [|tp r IH]; intros i; cbn [emit_tops collect].
  - cbn. now rewrite Nat.add_0_r.
  - destruct (emit_top mp tl opt tp) as [rt|]; [|apply IH].
    destruct rt as [x| | | |]; cbn; try reflexivity. rewrite IH.
    destruct (collect r) as [bs| | | |]; cbn; try reflexivity.
    now rewrite Nat.add_succ_r.
Qed.
End S.

(* the set of text labels only decides whether a script label clashes (an error); it never changes emitted code *)
Lemma render_bodies_tl mp tl1 tl2 name fs labels order b1 r1 b2 r2 :
  render_bodies mp tl1 name fs labels order = Ok (b1, r1) ->
  render_bodies mp tl2 name fs labels order = Ok (b2, r2) -> b1 = b2 /\ r1 = r2.
Proof.
  revert b1 r1 b2 r2. induction order as [|i r IH]; cbn [render_bodies]; intros b1 r1 b2 r2 H1 H2.
  - inversion H1; inversion H2; subst; auto.
  - destruct (get_chunk fs i) as [c|]; [|eapply IH; eauto].
    destruct (clash tl1 labels (cstmts c)) as [[? ?]|]; [discriminate|].
    destruct (clash tl2 labels (cstmts c)) as [[? ?]|]; [discriminate|].
    destruct (render_branch mp name c _) as [[b regs] fall].
    destruct (render_bodies mp tl1 name fs labels r) as [[rest1 regs1]| | | |]; try discriminate.
    destruct (render_bodies mp tl2 name fs labels r) as [[rest2 regs2]| | | |]; try discriminate.
    destruct (IH _ _ _ _ eq_refl eq_refl) as [-> ->]. inversion H1; inversion H2; subst; auto.
Qed.

Theorem script_code_independent_of_texts mp tl1 tl2 name glob opt body x y :
  emit_script mp tl1 name glob opt body = Ok x -> emit_script mp tl2 name glob opt body = Ok y -> x = y.
Proof.
  unfold emit_script. destruct (emit_graph body) as [w| | | |]; try discriminate.
  unfold render_chunks. intros H1 H2.
  destruct (render_bodies mp tl1 name (finals w) _ _) as [[b1 r1]| | | |] eqn:E1; try discriminate.
  destruct (render_bodies mp tl2 name (finals w) _ _) as [[b2 r2]| | | |] eqn:E2; try discriminate.
  destruct (render_bodies_tl _ _ _ _ _ _ _ _ _ _ _ E1 E2) as [-> ->]. inversion H1; inversion H2; subst. reflexivity.
Qed.
