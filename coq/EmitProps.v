(* Local properties of the rendering functions of the emitter model (C04, C05, C10, C15). *)
From Coq Require Import List String Ascii ZArith NArith Lia Bool.
From Pory Require Import Lexer Ast Emitter.
Import ListNotations.
Open Scope list_scope.

(* ---------- C10: a command is one line: tab, name, arguments joined by ", " ---------- *)
Lemma render_cmd_noargs c : cargs c = [] -> render_cmd c = tab ++ cname c ++ nl.
Proof. intros H. unfold render_cmd. rewrite H. now rewrite app_nil_l. Qed.
Lemma render_cmd_args c a r :
  cargs c = a :: r -> render_cmd c = tab ++ cname c ++ t " " ++ join (t ", ") (a :: r) ++ nl.
Proof. intros H. unfold render_cmd. rewrite H. now rewrite <- !app_assoc. Qed.

(* statements of a chunk are printed in order, one instruction each (markers aside), nothing dropped or added *)
Definition is_cmd_or_label (i : instr) : bool := match i with ICmd _ | ILabel _ _ => true | _ => false end.
Definition stmt_instr (s : stmt) : list instr :=
  match s with SCmd c => [ICmd c] | SLabel n g _ => [ILabel n g] | _ => [] end.
Lemma render_stmt_filter mp s : filter is_cmd_or_label (render_stmt mp s) = stmt_instr s.
Proof. destruct s; cbn; try reflexivity; unfold marker; destruct mp; reflexivity. Qed.
Lemma render_stmts_filter mp ss :
  filter is_cmd_or_label (flat_map (render_stmt mp) ss) = flat_map stmt_instr ss.
Proof.
  induction ss as [|s r IH]; [reflexivity|]. cbn [flat_map]. rewrite filter_app, IH, render_stmt_filter. reflexivity.
Qed.

(* ---------- C05 (c1): a generated goto never targets the chunk that is rendered next ---------- *)
Lemma goto_or_fall_not_next name d next m1 is regs fall :
  goto_or_fall name d next m1 = (is, regs, fall) -> ~ In (IGoto (lbl name next)) is \/ d <> next.
Proof.
  unfold goto_or_fall. destruct (m1 && (d =? -1)%Z).
  - intros H; inversion H; subst. left. intros [X|[]]; discriminate.
  - destruct (d =? next)%Z eqn:E.
    + intros H; inversion H; subst. left. intros [].
    + intros _. right. intros ->. now rewrite Z.eqb_refl in E.
Qed.

(* every goto written by goto_or_fall goes to a chunk different from the next one, and is registered *)
Lemma goto_or_fall_spec name d next m1 :
  goto_or_fall name d next m1 =
    if m1 && (d =? -1)%Z then ([IReturn], [], false)
    else if (d =? next)%Z then ([], [], true) else ([IGoto (lbl name d)], [d], false).
Proof. reflexivity. Qed.

Definition gotos_of (is : list instr) : list text :=
  flat_map (fun i => match i with IGoto l => [l] | _ => [] end) is.

Lemma goto_or_fall_gotos name d next m1 is regs fall :
  goto_or_fall name d next m1 = (is, regs, fall) ->
  gotos_of is = map (lbl name) regs /\ ~ In next regs.
Proof.
  unfold goto_or_fall. destruct (m1 && (d =? -1)%Z).
  - intros H; inversion H; subst. split; [reflexivity|intros []].
  - destruct (d =? next)%Z eqn:E; intros H; inversion H; subst.
    + split; [reflexivity|intros []].
    + split; [reflexivity|]. intros [X|[]]. subst. now rewrite Z.eqb_refl in E.
Qed.

(* ---------- C15: labels written by the chunk renderer ---------- *)
Definition labels_of (is : list instr) : list (text * bool) :=
  flat_map (fun i => match i with ILabel n g => [(n, g)] | _ => [] end) is.

Lemma labels_of_app a b : labels_of (a ++ b) = labels_of a ++ labels_of b.
Proof. unfold labels_of. apply flat_map_app. Qed.

Definition user_labels (ss : list stmt) : list (text * bool) :=
  flat_map (fun s => match s with SLabel n g _ => [(n, g)] | _ => [] end) ss.

Lemma labels_marker mp line : labels_of (marker mp line) = [].
Proof. unfold marker. destruct mp; reflexivity. Qed.

Lemma labels_render_stmts mp ss : labels_of (flat_map (render_stmt mp) ss) = user_labels ss.
Proof.
  induction ss as [|s r IH]; [reflexivity|]. cbn [flat_map user_labels]. rewrite labels_of_app, IH.
  destruct s; cbn; try reflexivity; rewrite labels_of_app, labels_marker; reflexivity.
Qed.

Lemma labels_goto_or_fall name d next m1 : labels_of (fst (fst (goto_or_fall name d next m1))) = [].
Proof. unfold goto_or_fall. destruct (m1 && _); [reflexivity|]. destruct (d =? next)%Z; reflexivity. Qed.

Lemma labels_leaf_cmp name l d : labels_of (render_leaf_cmp name l d) = [].
Proof. unfold render_leaf_cmp. destruct (lk l); try reflexivity. destruct (flag_truthy l); reflexivity. Qed.

Lemma labels_cases mp name (cases : list (text * Z * Z)) :
  labels_of (flat_map (fun '(v, vl, d) => marker mp vl ++ [ICase v (lbl name d)]) cases) = [].
Proof.
  induction cases as [|[[v vl] d] r IH]; [reflexivity|]. cbn [flat_map]. rewrite !labels_of_app, labels_marker, IH. reflexivity.
Qed.

(* the branch part of a chunk never defines a label *)
Lemma labels_render_branch mp name c next : labels_of (fst (fst (render_branch mp name c next))) = [].
Proof.
  unfold render_branch. destruct (cbr c) as [[d|d|l tr fa|op ol cases def dest]|].
  - apply labels_goto_or_fall.
  - apply labels_goto_or_fall.
  - pose proof (labels_goto_or_fall name fa next true) as H.
    destruct (goto_or_fall name fa next true) as [[x regs] fall]. cbn [fst] in *.
    rewrite !labels_of_app, labels_marker, labels_leaf_cmp, H. destruct (lpre l); reflexivity.
  - destruct def as [dd|].
    + destruct (dd =? next)%Z; cbn [fst]; rewrite !labels_of_app, labels_marker, labels_cases; reflexivity.
    + destruct (dest =? next)%Z; [|destruct (dest =? -1)%Z]; cbn [fst]; rewrite !labels_of_app, labels_marker, labels_cases; reflexivity.
  - destruct (cret c =? -1)%Z; [destruct (cend c); reflexivity|]. destruct (cret c =? next)%Z; reflexivity.
Qed.

Lemma get_chunk_in fs i c : get_chunk fs i = Some c -> In c fs.
Proof.
  induction fs as [|x r IH]; cbn; [discriminate|]. destruct (cid x =? i)%Z; intros H.
  - inversion H; subst. now left.
  - right. auto.
Qed.

Lemma labels_flat_map {A} (f : A -> list instr) l x :
  In x (labels_of (flat_map f l)) -> exists y, In y l /\ In x (labels_of (f y)).
Proof.
  induction l as [|a r IH]; cbn [flat_map]; [intros []|]. rewrite labels_of_app. intros H.
  apply in_app_or in H. destruct H as [H|H]; [exists a; split; [now left|exact H]|].
  destruct (IH H) as (y & Hy & Hx). exists y. split; [now right|exact Hx].
Qed.

Section LABELS.
Variable mp : option text.
Variable tl : list text.

(* labels inside the rendered bodies are exactly the labels the author wrote in the chunks' statements *)
Lemma render_bodies_labels name fs labels order bodies regs :
  render_bodies mp tl name fs labels order = Ok (bodies, regs) ->
  forall i b x, In (i, b) bodies -> In x (labels_of b) -> exists c, In c fs /\ In x (user_labels (cstmts c)).
Proof.
  revert bodies regs. induction order as [|i r IH]; cbn [render_bodies]; intros bodies regs H.
  - inversion H; subst. intros ? ? ? [].
  - destruct (get_chunk fs i) as [c|] eqn:G; [|eapply IH; eauto].
    destruct (clash tl labels (cstmts c)) as [[tk bb]|]; [discriminate|].
    pose proof (labels_render_branch mp name c (match r with n :: _ => n | [] => (-1)%Z end)) as HB.
    destruct (render_branch mp name c _) as [[b0 regs0] fall]. cbn [fst] in HB.
    destruct (render_bodies mp tl name fs labels r) as [[rest regs']| | | |] eqn:E; try discriminate.
    inversion H; subst. intros j b x [Hin|Hin] Hx.
    + inversion Hin; subst. rewrite !labels_of_app, labels_render_stmts, HB in Hx.
      exists c. split; [eapply get_chunk_in; eauto|].
      apply in_app_or in Hx. destruct Hx as [Hx|Hx]; [exact Hx|].
      destruct fall; cbn in Hx; contradiction.
    + eapply IH; eauto.
Qed.

(* C15 for scripts: the script's own label carries its scope, every label the compiler invents is local,
   every other label is one the author wrote, with the scope the author gave it *)
Theorem render_chunks_label_scopes name glob fs order is :
  render_chunks mp tl name glob fs order = Ok is ->
  forall n g, In (n, g) (labels_of is) ->
    (n = name /\ g = glob) \/ (exists i, n = lbl name i /\ g = false) \/
    (exists c, In c fs /\ In (n, g) (user_labels (cstmts c))).
Proof.
  unfold render_chunks. destruct (render_bodies mp tl name fs _ order) as [[bodies regs]| | | |] eqn:E; try discriminate.
  intros H; inversion H; subst; clear H. intros n g Hin.
  apply labels_flat_map in Hin. destruct Hin as ([i b] & Hib & Hx).
  rewrite labels_of_app in Hx. apply in_app_or in Hx. destruct Hx as [Hx|Hx].
  - destruct (i =? 0)%Z.
    + cbn in Hx. destruct Hx as [Hx|[]]. inversion Hx; subst. now left.
    + destruct (zmem i regs); cbn in Hx; [|contradiction]. destruct Hx as [Hx|[]]. inversion Hx; subst. right. left. eauto.
  - right. right. eapply render_bodies_labels; eauto.
Qed.
End LABELS.

(* ---------- C04 / C05: targets of generated jumps are exactly the registered chunks ---------- *)
Definition targets_of (is : list instr) : list text :=
  flat_map (fun i => match i with
                     | IGoto l | IGotoIfSet _ l | IGotoIfUnset _ l | IGotoIfCmp _ l | IGotoIf _ l | ICase _ l => [l]
                     | _ => [] end) is.
Lemma targets_app a b : targets_of (a ++ b) = targets_of a ++ targets_of b.
Proof. unfold targets_of. apply flat_map_app. Qed.
Lemma targets_marker mp line : targets_of (marker mp line) = [].
Proof. unfold marker. destruct mp; reflexivity. Qed.

Lemma targets_goto_or_fall name d next m1 is regs fall :
  goto_or_fall name d next m1 = (is, regs, fall) -> targets_of is = map (lbl name) regs.
Proof.
  unfold goto_or_fall. destruct (m1 && _); [intros H; inversion H; reflexivity|].
  destruct (d =? next)%Z; intros H; inversion H; reflexivity.
Qed.

Lemma targets_leaf_cmp name l d : targets_of (render_leaf_cmp name l d) = [lbl name d].
Proof. unfold render_leaf_cmp. destruct (lk l); try reflexivity. destruct (flag_truthy l); reflexivity. Qed.

Lemma targets_cases mp name (cases : list (text * Z * Z)) :
  targets_of (flat_map (fun '(v, vl, d) => marker mp vl ++ [ICase v (lbl name d)]) cases) =
  map (lbl name) (map (fun '(_, _, d) => d) cases).
Proof.
  induction cases as [|[[v vl] d] r IH]; [reflexivity|]. cbn [flat_map map]. rewrite !targets_app, targets_marker, IH. reflexivity.
Qed.

Theorem render_branch_targets mp name c next is regs fall :
  render_branch mp name c next = (is, regs, fall) -> targets_of is = map (lbl name) regs.
Proof.
  unfold render_branch. destruct (cbr c) as [[d|d|l tr fa|op ol cases def dest]|].
  - apply targets_goto_or_fall.
  - apply targets_goto_or_fall.
  - destruct (goto_or_fall name fa next true) as [[x regs0] fall0] eqn:E. intros H; inversion H; subst.
    rewrite !targets_app, targets_marker, targets_leaf_cmp, (targets_goto_or_fall _ _ _ _ _ _ _ E).
    destruct (lpre l); reflexivity.
  - destruct def as [dd|].
    + destruct (dd =? next)%Z; intros H; inversion H; subst;
        rewrite !targets_app, targets_marker, targets_cases; cbn; rewrite ?map_app, ?app_nil_r; reflexivity.
    + destruct (dest =? next)%Z; [|destruct (dest =? -1)%Z]; intros H; inversion H; subst;
        rewrite !targets_app, targets_marker, targets_cases; cbn; rewrite ?map_app, ?app_nil_r; reflexivity.
  - destruct (cret c =? -1)%Z; [destruct (cend c); intros H; inversion H; reflexivity|].
    destruct (cret c =? next)%Z; intros H; inversion H; reflexivity.
Qed.

(* C05 (c1): the chunk that is rendered next is never the target of a goto that ends a chunk; the registered
   list of goto_or_fall never contains it *)
Lemma targets_render_stmts mp ss : targets_of (flat_map (render_stmt mp) ss) = [].
Proof.
  induction ss as [|s r IH]; [reflexivity|]. cbn [flat_map]. rewrite targets_app, IH.
  destruct s; cbn; try reflexivity; rewrite targets_app, targets_marker; reflexivity.
Qed.

Section REFS.
Variable mp : option text.
Variable tl : list text.

Lemma render_bodies_targets name fs labels order bodies regs :
  render_bodies mp tl name fs labels order = Ok (bodies, regs) ->
  targets_of (flat_map snd bodies) = map (lbl name) regs.
Proof.
  revert bodies regs. induction order as [|i r IH]; cbn [render_bodies]; intros bodies regs H.
  - inversion H; reflexivity.
  - destruct (get_chunk fs i) as [c|] eqn:G; [|eapply IH; eauto].
    destruct (clash tl labels (cstmts c)) as [[tk bb]|]; [discriminate|].
    destruct (render_branch mp name c _) as [[b0 regs0] fall] eqn:EB.
    destruct (render_bodies mp tl name fs labels r) as [[rest regs']| | | |] eqn:E; try discriminate.
    inversion H; subst. cbn [flat_map snd]. rewrite !targets_app, targets_render_stmts, (render_branch_targets _ _ _ _ _ _ _ EB), (IH _ _ eq_refl).
    rewrite map_app. destruct fall; cbn; rewrite ?app_nil_r; reflexivity.
Qed.

Lemma targets_flat_bodies (f : Z -> list instr) (bodies : list (Z * list instr)) :
  (forall i, targets_of (f i) = []) ->
  targets_of (flat_map (fun '(i, b) => f i ++ b) bodies) = targets_of (flat_map snd bodies).
Proof.
  intros Hf. induction bodies as [|[i b] r IH]; [reflexivity|]. cbn [flat_map snd]. rewrite !targets_app, Hf, IH. reflexivity.
Qed.

(* the generated jump targets of a rendered script are exactly the registered chunk labels ... *)
Theorem render_chunks_targets name glob fs order is :
  render_chunks mp tl name glob fs order = Ok is ->
  exists bodies regs, render_bodies mp tl name fs (map (chunk_label name) fs) order = Ok (bodies, regs) /\
    targets_of is = map (lbl name) regs.
Proof.
  unfold render_chunks. destruct (render_bodies mp tl name fs _ order) as [[bodies regs]| | | |] eqn:E; try discriminate.
  intros H; inversion H; subst. exists bodies, regs. split; [reflexivity|].
  rewrite (targets_flat_bodies (fun i => if (i =? 0)%Z then [ILabel name glob] else if zmem i regs then [ILabel (lbl name i) false] else [])).
  - eapply render_bodies_targets; eauto.
  - intros i. destruct (i =? 0)%Z; [reflexivity|]. destruct (zmem i regs); reflexivity.
Qed.

(* ... and (C05 d) every generated sub-label that is emitted is the target of a jump of the same script *)
Theorem sublabels_referenced name glob fs order is :
  render_chunks mp tl name glob fs order = Ok is ->
  forall i, In (ILabel (lbl name i) false) is -> i <> 0%Z ->
    In (lbl name i) (targets_of is) \/ (exists c, In c fs /\ In (lbl name i, false) (user_labels (cstmts c))).
Proof.
  intros H i Hin Hi.
  destruct (render_chunks_targets _ _ _ _ _ H) as (bodies & regs & E & T).
  unfold render_chunks in H. rewrite E in H. inversion H; subst; clear H.
  apply in_flat_map in Hin. destruct Hin as ([j b] & Hjb & Hin). apply in_app_or in Hin. destruct Hin as [Hin|Hin].
  - left. rewrite T. destruct (j =? 0)%Z eqn:J0.
    + destruct Hin as [X|[]]. inversion X as [[Hn Hg]].
      (* name = lbl name i is impossible: lengths differ *)
      exfalso. apply (f_equal (@List.length N)) in Hn. unfold lbl in Hn. rewrite !app_length in Hn. cbn in Hn. lia.
    + destruct (zmem j regs) eqn:Zm; [|destruct Hin]. destruct Hin as [X|[]]. inversion X as [[Hn]].
      apply in_map_iff. exists j. split; [first [exact Hn | reflexivity]|].
      unfold zmem in Zm. apply existsb_exists in Zm. destruct Zm as (y & Hy & Ey). apply Z.eqb_eq in Ey. now subst.
  - right. assert (L : In (lbl name i, false) (labels_of b)).
    { unfold labels_of. apply in_flat_map. exists (ILabel (lbl name i) false). split; [exact Hin|now left]. }
    eapply render_bodies_labels; eauto.
Qed.
End REFS.
