(* Prototype: executable checker for the translation relations and its soundness (fall-back for lemma 1). *)
From Coq Require Import List String Ascii ZArith NArith Lia Bool.
From Pory Require Import Lexer Ast Emitter Sem2 Tr.
Import ListNotations.
Open Scope list_scope.

(* ---------- decidable equality of the simple statements ---------- *)
Definition token_eqb (a b : token) : bool :=
  tt_eqb (ttype a) (ttype b) && text_eqb (tlit a) (tlit b) && (tline a =? tline b)%Z && (tsb a =? tsb b)%Z &&
  (tsu a =? tsu b)%Z && (teline a =? teline b)%Z && (teb a =? teb b)%Z && (teu a =? teu b)%Z.
Lemma tt_eqb_eq a b : tt_eqb a b = true -> a = b.
Proof. unfold tt_eqb. destruct (toktype_eq_dec a b); congruence. Qed.
Lemma text_eqb_eq a b : text_eqb a b = true -> a = b.
Proof. unfold text_eqb. destruct (list_eq_dec N.eq_dec a b); congruence. Qed.
Lemma token_eqb_eq a b : token_eqb a b = true -> a = b.
Proof.
  unfold token_eqb. rewrite !andb_true_iff. intros [[[[[[[H1 H2] H3] H4] H5] H6] H7] H8].
  apply tt_eqb_eq in H1. apply text_eqb_eq in H2. apply Z.eqb_eq in H3, H4, H5, H6, H7, H8.
  destruct a, b; cbn in *; congruence.
Qed.
Fixpoint texts_eqb (a b : list text) : bool :=
  match a, b with [], [] => true | x :: r, y :: s => text_eqb x y && texts_eqb r s | _, _ => false end.
Lemma texts_eqb_eq a : forall b, texts_eqb a b = true -> a = b.
Proof. induction a; destruct b; cbn; try congruence. rewrite andb_true_iff. intros [H1 H2]. apply text_eqb_eq in H1. f_equal; auto. Qed.
Definition cmd_eqb (a b : cmd) : bool :=
  text_eqb (cname a) (cname b) && texts_eqb (cargs a) (cargs b) && token_eqb (ctok a) (ctok b) && Nat.eqb (Ast.cid a) (Ast.cid b).
Lemma cmd_eqb_eq a b : cmd_eqb a b = true -> a = b.
Proof.
  unfold cmd_eqb. rewrite !andb_true_iff. intros [[[H1 H2] H3] H4].
  apply text_eqb_eq in H1. apply texts_eqb_eq in H2. apply token_eqb_eq in H3. apply Nat.eqb_eq in H4.
  destruct a, b; cbn in *; congruence.
Qed.
Definition simple_eqb (a b : stmt) : bool :=
  match a, b with
  | SCmd x, SCmd y => cmd_eqb x y
  | SLabel n g tk, SLabel n' g' tk' => text_eqb n n' && Bool.eqb g g' && token_eqb tk tk'
  | _, _ => false
  end.
Lemma simple_eqb_eq a b : simple_eqb a b = true -> a = b /\ is_simple a = true.
Proof.
  destruct a, b; cbn; try discriminate.
  - intros H. apply cmd_eqb_eq in H. subst. auto.
  - rewrite !andb_true_iff. intros [[H1 H2] H3]. apply text_eqb_eq in H1. apply eqb_prop in H2. apply token_eqb_eq in H3. subst. auto.
Qed.
Fixpoint simples_eqb (a b : list stmt) : bool :=
  match a, b with [], [] => true | x :: r, y :: s => simple_eqb x y && simples_eqb r s | _, _ => false end.
Lemma simples_eqb_eq a : forall b, simples_eqb a b = true -> a = b /\ Forall simple a.
Proof.
  induction a; destruct b; cbn; try discriminate; [auto|].
  rewrite andb_true_iff. intros [H1 H2]. apply simple_eqb_eq in H1. destruct H1 as [-> S]. destruct (IHa _ H2) as [-> F]. auto.
Qed.

Section CHK.
Variable G : list chunk.
Variable brkT orgT : tagmap.
Hypothesis G_ids : forall i c, get_chunk G i = Some c -> (0 <= i)%Z.

Definition is_nil {A} (l : list A) : bool := match l with [] => true | _ => false end.

(* follow a condition through the graph, returning its success and failure targets *)
Definition leaf_eqb (a b : leaf) : bool :=
  (match lk a, lk b with KFlag, KFlag | KVar, KVar | KDefeated, KDefeated => true | _, _ => false end) &&
  text_eqb (loperand a) (loperand b) && (lline a =? lline b)%Z &&
  (match lop a, lop b with OEq, OEq | ONe, ONe | OLt, OLt | OLe, OLe | OGt, OGt | OGe, OGe => true | _, _ => false end) &&
  text_eqb (lvalue a) (lvalue b) && Bool.eqb (lstrict a) (lstrict b) &&
  (match lpre a, lpre b with None, None => true | Some x, Some y => cmd_eqb x y | _, _ => false end).
Lemma leaf_eqb_eq a b : leaf_eqb a b = true -> a = b.
Proof.
  unfold leaf_eqb. rewrite !andb_true_iff. intros [[[[[[H1 H2] H3] H4] H5] H6] H7].
  apply text_eqb_eq in H2, H5. apply Z.eqb_eq in H3. apply eqb_prop in H6.
  destruct a as [k1 o1 l1 p1 v1 s1 pr1], b as [k2 o2 l2 p2 v2 s2 pr2]; cbn in *. subst.
  assert (k1 = k2) by (destruct k1, k2; congruence).
  assert (p1 = p2) by (destruct p1, p2; congruence).
  assert (pr1 = pr2).
  { destruct pr1, pr2; try congruence. apply cmd_eqb_eq in H7. congruence. }
  congruence.
Qed.

Fixpoint cond_targets (e : bexp) (en : Z) : option (Z * Z) :=
  match e with
  | BLeaf l =>
      match get_chunk G en with
      | Some c => match cstmts c, cbr c with
                  | [], Some (BrLeaf l' su fa) => if leaf_eqb l' l then Some (su, fa) else None
                  | _, _ => None
                  end
      | None => None
      end
  | BBin BAnd a b =>
      match cond_targets a en with
      | Some (sc, fa) =>
          match get_chunk G sc with
          | Some c => match cstmts c, cbr c with
                      | [], Some (BrJump eb) =>
                          match cond_targets b eb with
                          | Some (su, fa') => if (fa =? fa')%Z then Some (su, fa) else None
                          | None => None
                          end
                      | _, _ => None
                      end
          | None => None
          end
      | None => None
      end
  | BBin BOr a b =>
      match cond_targets a en with
      | Some (su, fc) =>
          match get_chunk G fc with
          | Some c => match cstmts c, cbr c with
                      | [], Some (BrJump eb) =>
                          match cond_targets b eb with
                          | Some (su', fa) => if (su =? su')%Z then Some (su, fa) else None
                          | None => None
                          end
                      | _, _ => None
                      end
          | None => None
          end
      | None => None
      end
  end.

Lemma cond_targets_sound e : forall en su fa, cond_targets e en = Some (su, fa) -> tr_cond G e en su fa.
Proof.
  induction e as [l|o a IHa b IHb]; intros en su fa H; cbn in H.
  - destruct (get_chunk G en) as [c|] eqn:Hc; [|discriminate].
    destruct (cstmts c) eqn:Hs; [|discriminate].
    destruct (cbr c) as [[| |l' su' fa'|]|] eqn:Hb; try discriminate.
    destruct (leaf_eqb l' l) eqn:E; [|discriminate]. apply leaf_eqb_eq in E. inversion H; subst.
    econstructor; eauto.
  - destruct o.
    + destruct (cond_targets a en) as [[sc fa0]|] eqn:Ha; [|discriminate].
      destruct (get_chunk G sc) as [c|] eqn:Hc; [|discriminate].
      destruct (cstmts c) eqn:Hs; [|discriminate].
      destruct (cbr c) as [[eb| | |]|] eqn:Hb; try discriminate.
      destruct (cond_targets b eb) as [[su' fa']|] eqn:Hb2; [|discriminate].
      destruct (fa0 =? fa')%Z eqn:E; [|discriminate]. apply Z.eqb_eq in E. inversion H; subst.
      eapply tc_and; eauto.
    + destruct (cond_targets a en) as [[su0 fc]|] eqn:Ha; [|discriminate].
      destruct (get_chunk G fc) as [c|] eqn:Hc; [|discriminate].
      destruct (cstmts c) eqn:Hs; [|discriminate].
      destruct (cbr c) as [[eb| | |]|] eqn:Hb; try discriminate.
      destruct (cond_targets b eb) as [[su' fa']|] eqn:Hb2; [|discriminate].
      destruct (su0 =? su')%Z eqn:E; [|discriminate]. apply Z.eqb_eq in E. inversion H; subst.
      eapply tc_or; eauto.
Qed.

(* split a statement list into its simple prefix and the rest *)
Fixpoint span_simple (ss : list stmt) : list stmt * list stmt :=
  match ss with
  | s :: r => if is_simple s then let '(a, b) := span_simple r in (s :: a, b) else ([], ss)
  | [] => ([], [])
  end.
Lemma span_simple_spec ss : let '(a, b) := span_simple ss in ss = a ++ b /\ Forall simple a /\
                            match b with s :: _ => is_simple s = false | [] => True end.
Proof.
  induction ss as [|s r IH]; cbn; auto.
  destruct (is_simple s) eqn:E.
  - destruct (span_simple r) as [a b]. destruct IH as (-> & F & T). repeat split; auto.
  - cbn. auto.
Qed.

Definition tag_is (m : tagmap) (tg : nat) (v : Z) : bool :=
  match tm_get m tg with Some d => (d =? v)%Z | None => false end.
Lemma tag_is_eq m tg v : tag_is m tg v = true -> tm_get m tg = Some v.
Proof. unfold tag_is. destruct (tm_get m tg); [|discriminate]. intros H. apply Z.eqb_eq in H. congruence. Qed.

(* last element split *)
Definition unsnoc {A} (l : list A) : option (list A * A) :=
  match rev l with [] => None | x :: r => Some (rev r, x) end.
Lemma unsnoc_spec {A} (l : list A) p x : unsnoc l = Some (p, x) -> l = p ++ [x].
Proof.
  unfold unsnoc. destruct (rev l) eqn:E; [discriminate|]. intros H. inversion H; subst.
  rewrite <- (rev_involutive l), E. reflexivity.
Qed.

Definition is_none_z (x : option Z) : bool := match x with None => true | Some _ => false end.
Definition is_nil_br (x : option brancher) : bool := match x with None => true | Some _ => false end.

(* switch: the branch cases must list exactly the non-default source cases, in order *)
Fixpoint nondefault (cs : list scase) : list scase :=
  match cs with [] => [] | c :: r => if sc_def c then nondefault r else c :: nondefault r end.
Fixpoint vals_eqb (a : list text) (b : list text) : bool :=
  match a, b with [], [] => true | x :: r, y :: s => text_eqb x y && vals_eqb r s | _, _ => false end.

(* the checker (switch statements are not handled by this prototype checker: it answers false) *)
Fixpoint chk_block (fuel : nat) (ss : list stmt) (p ret : Z) {struct fuel} : bool :=
  match fuel with O => false | S f =>
  match get_chunk G p with
  | None => false
  | Some c =>
      let '(pre, tail) := span_simple ss in
      match tail with
      | [] =>
          (simples_eqb (cstmts c) ss && is_nil_br (cbr c) && (cret c =? ret)%Z && negb (cend c))
          || match unsnoc ss with
             | Some (pre', SCmd e) =>
                 match is_endret (SCmd e) with
                 | Some b => simples_eqb (cstmts c) pre' && is_nil_br (cbr c) && (cret c =? -1)%Z && Bool.eqb (cend c) b
                 | None => false
                 end
             | _ => false
             end
      | s :: rest =>
          simples_eqb (cstmts c) pre &&
          match cbr c with
          | Some br =>
              let r := cret c in
              chk_ctrl f s br r &&
              match rest with
              | [] => (r =? ret)%Z
              | _ => chk_block f rest r ret
              end
          | None => false
          end
      end
  end
  end
with chk_ctrl (fuel : nat) (s : stmt) (br : brancher) (r : Z) {struct fuel} : bool :=
  match fuel with O => false | S f =>
  match s, br with
  | SIf ((e, b) :: more) els, BrJump en =>
      match cond_targets e en with
      | Some (cb, fl) => chk_block f b cb r && chk_chain f more els fl r
      | None => false
      end
  | SWhile tg c b, BrJump h =>
      match get_chunk G h with
      | Some ch =>
          match cstmts ch, cbr ch with
          | [], Some (BrJump en) =>
              match c with
              | Some e => match cond_targets e en with
                          | Some (bb, fl) => (fl =? r)%Z && chk_block f b bb h && tag_is brkT tg r && tag_is orgT tg h
                          | None => false
                          end
              | None => chk_block f b en h && tag_is brkT tg r && tag_is orgT tg h
              end
          | _, _ => false
          end
      | None => false
      end
  | SDoWhile tg b e, BrJump bb =>
      tag_is orgT tg bb && tag_is brkT tg r &&
      existsb (fun c0 =>
        match get_chunk G (cid c0) with
        | Some ch =>
            match cstmts ch, cbr ch with
            | [], Some (BrJump en) =>
                match cond_targets e en with
                | Some (bb2, fl) => (bb2 =? bb)%Z && (fl =? r)%Z && chk_block f b bb (cid c0)
                | None => false
                end
            | _, _ => false
            end
        | None => false
        end) G
  | SBreak tg, BrBreak d => tag_is brkT tg d
  | SContinue tg, BrBreak d => tag_is orgT tg d
  | SSwitch tg op ol cases, BrJump sid =>
      tag_is brkT tg r &&
      match get_chunk G sid with
      | Some c =>
          is_nil (cstmts c) &&
          match cbr c with
          | None => (cret c =? r)%Z && negb (cend c) && forallb (fun x : scase => is_nil (sc_body x)) cases
          | Some (BrSwitch op' _ bc def dest) =>
              text_eqb op' op &&
              chk_cases f cases bc (is_none_z def && (dest =? r)%Z) r &&
              chk_default f cases def dest r
          | _ => false
          end
      | None => false
      end
  | _, _ => false
  end
  end
(* walk the source cases and the branch cases in lock step *)
with chk_cases (fuel : nat) (cases : list scase) (bc : list (text * Z * Z)) (none_ok : bool) (r : Z) {struct fuel} : bool :=
  match fuel with O => false | S f =>
  match cases with
  | [] => is_nil bc
  | c :: rest =>
      if sc_def c then chk_cases f rest bc none_ok r
      else
        let skip := is_nil (next_body cases) && none_ok && chk_cases f rest bc none_ok r in
        match bc with
        | (v, _, d) :: bc' =>
            (text_eqb v (sc_val c) && chk_block f (next_body cases) d r && chk_cases f rest bc' none_ok r) || skip
        | [] => skip
        end
  end
  end
with chk_default (fuel : nat) (cases : list scase) (def : option Z) (dest r : Z) {struct fuel} : bool :=
  match fuel with O => false | S f =>
  match cases with
  | [] => match def with None => (dest =? r)%Z | Some _ => false end
  | c :: rest =>
      if sc_def c then
        match def with
        | Some dd => chk_block f (next_body cases) dd r
        | None => is_nil (next_body cases) && (dest =? r)%Z
        end
      else chk_default f rest def dest r
  end
  end
with chk_chain (fuel : nat) (conds : list (bexp * list stmt)) (els : option (list stmt)) (fl r : Z) {struct fuel} : bool :=
  match fuel with O => false | S f =>
  match conds, els with
  | [], None => (fl =? r)%Z
  | [], Some b => chk_block f b fl r
  | (e, b) :: more, _ =>
      match cond_targets e fl with
      | Some (cb, fl') => chk_block f b cb r && chk_chain f more els fl' r
      | None => false
      end
  end
  end.

(* ---------- soundness ---------- *)
Definition cases_ok (cases : list scase) (bc : list (text * Z * Z)) (none_ok : bool) (r : Z) : Prop :=
  forall m, match select_match cases m with
            | Some b => (exists d, first_case bc m = Some d /\ tr_block G brkT orgT b d r) \/
                        (b = [] /\ first_case bc m = None /\ none_ok = true)
            | None => first_case bc m = None
            end.
Definition default_ok (cases : list scase) (def : option Z) (dest r : Z) : Prop :=
  match select_default cases with
  | Some b => (exists dd, def = Some dd /\ tr_block G brkT orgT b dd r) \/ (def = None /\ b = [] /\ dest = r)
  | None => def = None /\ dest = r
  end.

Lemma all_empty_select cases m : forallb (fun x : scase => is_nil (sc_body x)) cases = true -> select_case cases m = [].
Proof.
  intros H.
  assert (NB : forall cs, forallb (fun x : scase => is_nil (sc_body x)) cs = true -> next_body cs = []).
  { induction cs as [|c r IH]; cbn [next_body forallb]; auto. rewrite andb_true_iff. intros [H1 H2]. destruct (sc_body c); [apply IH; exact H2|discriminate]. }
  unfold select_case.
  assert (A : forall cs, forallb (fun x : scase => is_nil (sc_body x)) cs = true ->
              match select_match cs m with Some b => b = [] | None => True end).
  { induction cs as [|c r IH]; cbn [select_match forallb]; auto. intros Hc. pose proof Hc as Hc'. rewrite andb_true_iff in Hc. destruct Hc as [H1 H2].
    destruct (negb (sc_def c) && m (sc_val c)); [apply (NB (c :: r)); exact Hc' | apply IH; exact H2]. }
  assert (B : forall cs, forallb (fun x : scase => is_nil (sc_body x)) cs = true ->
              match select_default cs with Some b => b = [] | None => True end).
  { induction cs as [|c r IH]; cbn [select_default forallb]; auto. intros Hc. pose proof Hc as Hc'. rewrite andb_true_iff in Hc. destruct Hc as [H1 H2].
    destruct (sc_def c); [apply (NB (c :: r)); exact Hc' | apply IH; exact H2]. }
  specialize (A _ H). specialize (B _ H).
  destruct (select_match cases m); auto. destruct (select_default cases); auto.
Qed.

Lemma chk_sound fuel :
  (forall ss p ret, chk_block fuel ss p ret = true -> tr_block G brkT orgT ss p ret) /\
  (forall s br r, chk_ctrl fuel s br r = true -> tr_ctrl G brkT orgT s br r) /\
  (forall conds els fl r, chk_chain fuel conds els fl r = true -> tr_chain G brkT orgT conds els fl r) /\
  (forall cases bc no r, chk_cases fuel cases bc no r = true -> cases_ok cases bc no r) /\
  (forall cases def dest r, chk_default fuel cases def dest r = true -> default_ok cases def dest r).
Proof.
  induction fuel as [|f [IHb [IHc [IHh [IHs IHd]]]]]; [repeat split; intros; discriminate|].
  repeat split.
  - (* block *)
    intros ss p ret H. cbn [chk_block] in H.
    destruct (get_chunk G p) as [c|] eqn:Hc; [|discriminate].
    pose proof (span_simple_spec ss) as SP. destruct (span_simple ss) as [pre tail].
    destruct SP as (Hss & Fpre & Htail).
    destruct tail as [|s rest].
    + rewrite app_nil_r in Hss. subst pre.
      apply orb_prop in H. destruct H as [H|H].
      * rewrite !andb_true_iff in H. destruct H as [[[H1 H2] H3] H4].
        apply simples_eqb_eq in H1. destruct H1 as [E F]. apply Z.eqb_eq in H3. apply negb_true_iff in H4.
        assert (Hbr : cbr c = None) by (destruct (cbr c); [discriminate|reflexivity]).
        rewrite E in F.
        apply tr_block_intro with (c := c); auto. rewrite E. apply ts_plain; auto.
      * destruct (unsnoc ss) as [[pre' x]|] eqn:U; [|discriminate].
        destruct x; try discriminate.
        destruct (is_endret (SCmd c0)) as [b|] eqn:ER; [|discriminate].
        rewrite !andb_true_iff in H. destruct H as [[[H1 H2] H3] H4].
        apply simples_eqb_eq in H1. destruct H1 as [E F]. apply Z.eqb_eq in H3. apply eqb_prop in H4.
        apply unsnoc_spec in U. subst ss.
        assert (Hbr : cbr c = None) by (destruct (cbr c); [discriminate|reflexivity]).
        rewrite E in F.
        apply tr_block_intro with (c := c); auto. rewrite E. eapply ts_endret; eauto.
    + rewrite andb_true_iff in H. destruct H as [H1 H2].
      apply simples_eqb_eq in H1. destruct H1 as [E F].
      destruct (cbr c) as [br|] eqn:Hbr; [|discriminate].
      rewrite andb_true_iff in H2. destruct H2 as [H2 H3].
      apply IHc in H2. subst ss. rewrite E in F.
      apply tr_block_intro with (c := c); auto. rewrite E.
      eapply ts_ctrl; eauto.
      destruct rest as [|s2 rest2].
      * apply Z.eqb_eq in H3. rewrite H3. constructor.
      * constructor. now apply IHb.
  - (* ctrl *)
    intros s br r H. cbn [chk_ctrl] in H.
    destruct s as [c0|n g tk|conds els|tg c b|tg b c|tg|tg|tg op ol cases];
      [destruct br; discriminate|destruct br; discriminate| | | | | | ].
    + (* if *)
      destruct conds as [|[e b] more]; [destruct br; discriminate|].
      destruct br as [d| | |]; try discriminate.
      destruct (cond_targets e d) as [[cb fl]|] eqn:CT; [|discriminate].
      rewrite andb_true_iff in H. destruct H as [H1 H2].
      apply cond_targets_sound in CT. econstructor; eauto.
    + (* while *)
      destruct br as [d| | |]; try discriminate.
      destruct (get_chunk G d) as [ch|] eqn:Hh; [|discriminate].
      destruct (cstmts ch) eqn:Hs; [|discriminate].
      destruct (cbr ch) as [[en| | |]|] eqn:Hb; try discriminate.
      constructor. destruct c as [e|].
      * destruct (cond_targets e en) as [[bb fl]|] eqn:CT; [|discriminate].
        rewrite !andb_true_iff in H. destruct H as [[[H1 H2] H3] H4].
        apply Z.eqb_eq in H1. subst fl. apply cond_targets_sound in CT.
        apply tag_is_eq in H3, H4. econstructor; eauto.
      * rewrite !andb_true_iff in H. destruct H as [[H2 H3] H4].
        apply tag_is_eq in H3, H4. econstructor; eauto.
    + (* do while *)
      destruct br as [d| | |]; try discriminate.
      rewrite !andb_true_iff in H. destruct H as [[H1 H2] H3].
      apply tag_is_eq in H1, H2. apply existsb_exists in H3. destruct H3 as (c0 & _ & H3).
      destruct (get_chunk G (cid c0)) as [ch|] eqn:Hh; [|discriminate].
      destruct (cstmts ch) eqn:Hs; [|discriminate].
      destruct (cbr ch) as [[en| | |]|] eqn:Hb; try discriminate.
      destruct (cond_targets c en) as [[bb2 fl]|] eqn:CT; [|discriminate].
      rewrite !andb_true_iff in H3. destruct H3 as [[H3 H4] H5].
      apply Z.eqb_eq in H3, H4. subst. apply cond_targets_sound in CT.
      econstructor. econstructor; eauto.
    + destruct br as [|d| |]; try discriminate. apply tag_is_eq in H. now constructor.
    + destruct br as [|d| |]; try discriminate. apply tag_is_eq in H. now constructor.
    + (* switch *)
      destruct br as [sid| | |]; try discriminate.
      rewrite andb_true_iff in H. destruct H as [Ht H]. apply tag_is_eq in Ht.
      destruct (get_chunk G sid) as [c|] eqn:Hc; [|discriminate].
      rewrite andb_true_iff in H. destruct H as [Hn H].
      assert (Hs : cstmts c = []) by (destruct (cstmts c); [reflexivity|discriminate]).
      destruct (cbr c) as [[| | |op' ol' bc def dest]|] eqn:Hb; try discriminate.
      * rewrite !andb_true_iff in H. destruct H as [[H1 H2] H3].
        apply text_eqb_eq in H1. subst op'. apply IHs in H2. apply IHd in H3.
        econstructor; eauto. eapply swi_switch; eauto. intros m.
        specialize (H2 m). unfold default_ok in H3. unfold select_case.
        destruct (select_match cases m) as [b|].
        -- destruct H2 as [(d & Hf & TB) | (-> & Hf & Hno)].
           ++ rewrite Hf. now apply sto_case.
           ++ rewrite Hf. rewrite andb_true_iff in Hno. destruct Hno as [Hd Hr].
              destruct def; [discriminate|]. apply Z.eqb_eq in Hr. now apply sto_none.
        -- rewrite H2. destruct (select_default cases) as [b|].
           ++ destruct H3 as [(dd & -> & TB) | (-> & -> & ->)]; [now apply sto_def|now apply sto_none].
           ++ destruct H3 as [-> ->]. now apply sto_none.
      * rewrite !andb_true_iff in H. destruct H as [[H1 H2] H3].
        apply Z.eqb_eq in H1. apply negb_true_iff in H2.
        econstructor; eauto. eapply swi_elided; eauto. intros m. now apply all_empty_select.
  - (* chain *)
    intros conds els fl r H. cbn [chk_chain] in H.
    destruct conds as [|[e b] more].
    + destruct els as [b|].
      * constructor. now apply IHb.
      * apply Z.eqb_eq in H. subst. constructor.
    + destruct (cond_targets e fl) as [[cb fl']|] eqn:CT; [|discriminate].
      rewrite andb_true_iff in H. destruct H as [H1 H2]. apply cond_targets_sound in CT.
      econstructor; eauto.
  - (* switch cases *)
    intros cases bc no r H. cbn [chk_cases] in H. unfold cases_ok. intros m.
    destruct cases as [|c rest].
    + destruct bc; [reflexivity|discriminate].
    + cbn [select_match]. destruct (sc_def c) eqn:Dc.
      * cbn. apply IHs in H. apply H.
      * cbn [negb andb].
        assert (SKIP : is_nil (next_body (c :: rest)) && no && chk_cases f rest bc no r = true ->
                       match (if m (sc_val c) then Some (next_body (c :: rest)) else select_match rest m) with
                       | Some b => (exists d, first_case bc m = Some d /\ tr_block G brkT orgT b d r) \/
                                   (b = [] /\ first_case bc m = None /\ no = true)
                       | None => first_case bc m = None
                       end).
        { rewrite !andb_true_iff. intros [[Hn Hno] Hrest]. apply IHs in Hrest. specialize (Hrest m).
          assert (NB : next_body (c :: rest) = []) by (destruct (next_body (c :: rest)); [reflexivity|discriminate]).
          destruct (m (sc_val c)); [|exact Hrest].
          rewrite NB.
          (* all remaining bodies are empty, so whatever rest selects is [] as well *)
          assert (NBr : forall cs, next_body cs = [] -> forall o, select_match cs m = Some o -> o = []).
          { induction cs as [|c1 r1 IH1]; cbn [select_match]; [discriminate|]. intros Hnb o.
            destruct (negb (sc_def c1) && m (sc_val c1)); [intros E; inversion E; subst; exact Hnb|].
            apply IH1. cbn [next_body] in Hnb. destruct (sc_body c1); [exact Hnb|discriminate]. }
          assert (NBrest : next_body rest = []).
          { cbn [next_body] in NB. destruct (sc_body c); [exact NB|discriminate]. }
          destruct (select_match rest m) as [o|] eqn:Es.
          - rewrite (NBr rest NBrest o Es) in Hrest. exact Hrest.
          - right. auto. }
        destruct bc as [|[[v vl] d] bc'].
        -- apply SKIP. exact H.
        -- apply orb_prop in H. destruct H as [H|H]; [|apply SKIP; exact H].
           rewrite !andb_true_iff in H. destruct H as [[H1 H2] H3].
           apply text_eqb_eq in H1. subst v. cbn [first_case].
           destruct (m (sc_val c)).
           ++ left. exists d. split; auto.
           ++ apply IHs in H3. apply H3.
  - (* switch default *)
    intros cases def dest r H. cbn [chk_default] in H. unfold default_ok.
    destruct cases as [|c rest].
    + cbn. destruct def; [discriminate|]. apply Z.eqb_eq in H. auto.
    + cbn [select_default]. destruct (sc_def c) eqn:Dc.
      * destruct def as [dd|].
        -- left. exists dd. split; auto.
        -- rewrite andb_true_iff in H. destruct H as [H1 H2]. apply Z.eqb_eq in H2. right.
           repeat split; auto. destruct (next_body (c :: rest)); [reflexivity|discriminate].
      * apply IHd in H. apply H.
Qed.

Theorem check_tr_sound fuel body : chk_block fuel body 0 (-1) = true -> tr_block G brkT orgT body 0 (-1).
Proof. apply (proj1 (chk_sound fuel)). Qed.

End CHK.
