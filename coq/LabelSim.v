(* C01: the two label-lookup facts.  The source semantics resumes a `goto L` at the state fl_body computes; this file shows
   that this state is well scoped and that it matches the position of the label in the chunk graph. *)
From Coq Require Import List String Ascii ZArith NArith Lia Bool.
From Pory Require Import Lexer Ast Emitter Sem2 SemTgt Tr Check C01Proofs SpecLemmas EmitProps RenderSim RenderCheck.
Import ListNotations.
Open Scope list_scope.

(* ---------- equations of fl_body / fl_stmt ---------- *)
Definition fls_local (l : text) :=
  fix fls (ss : list stmt) (k : cont) : option sstate :=
    match ss with
    | [] => None
    | x :: r =>
        match x with
        | SLabel n _ _ => if text_eqb n l then Some (enter r k) else fls r k
        | _ => match fl_stmt l x (kseq r k) with
               | Some a => Some a
               | None => fls r k
               end
        end
    end.

Lemma fls_local_eq l : forall ss k, fls_local l ss k = fl_body l ss k.
Proof.
  induction ss as [|x r IH]; intros k; [reflexivity|].
  destruct x; cbn [fls_local fl_body]; try rewrite IH; reflexivity.
Qed.

Fixpoint fl_conds (l : text) (cs : list (bexp * list stmt)) (els : option (list stmt)) (k : cont) : option sstate :=
  match cs with
  | [] => match els with Some b => fl_body l b k | None => None end
  | (_, b) :: r => match fl_body l b k with Some a => Some a | None => fl_conds l r els k end
  end.
Fixpoint fl_cases (l : text) (tg : nat) (cs : list scase) (k : cont) : option sstate :=
  match cs with
  | [] => None
  | c :: r => match fl_body l (sc_body c) (Kswitch tg k) with Some a => Some a | None => fl_cases l tg r k end
  end.

Lemma fl_stmt_if l conds els k : fl_stmt l (SIf conds els) k = fl_conds l conds els k.
Proof.
  change (fl_stmt l (SIf conds els) k) with
    ((fix goc (cs : list (bexp * list stmt)) : option sstate :=
         match cs with
         | [] => match els with Some b => fls_local l b k | None => None end
         | (_, b) :: r => match fls_local l b k with Some a => Some a | None => goc r end
         end) conds).
  induction conds as [|[e b] r IH]; cbn [fl_conds].
  - destruct els; [apply fls_local_eq|reflexivity].
  - rewrite fls_local_eq, IH. reflexivity.
Qed.
Lemma fl_stmt_while l tg c b k : fl_stmt l (SWhile tg c b) k = fl_body l b (Kwhile tg c b k).
Proof. change (fl_stmt l (SWhile tg c b) k) with (fls_local l b (Kwhile tg c b k)). apply fls_local_eq. Qed.
Lemma fl_stmt_dowhile l tg b c k : fl_stmt l (SDoWhile tg b c) k = fl_body l b (Kdowhile tg b c k).
Proof. change (fl_stmt l (SDoWhile tg b c) k) with (fls_local l b (Kdowhile tg b c k)). apply fls_local_eq. Qed.
Lemma fl_stmt_switch l tg o ol cases k : fl_stmt l (SSwitch tg o ol cases) k = fl_cases l tg cases k.
Proof.
  change (fl_stmt l (SSwitch tg o ol cases) k) with
    ((fix gos (cs : list scase) : option sstate :=
         match cs with
         | [] => None
         | c :: r => match fls_local l (sc_body c) (Kswitch tg k) with Some a => Some a | None => gos r end
         end) cases).
  induction cases as [|c r IH]; cbn [fl_cases]; [reflexivity|]. rewrite fls_local_eq, IH. reflexivity.
Qed.
Lemma fl_stmt_other l s k : is_simple s = true \/ (exists t, s = SBreak t) \/ (exists t, s = SContinue t) -> fl_stmt l s k = None.
Proof. intros [H|[[t ->]|[t ->]]]; [destruct s; try discriminate|..]; reflexivity. Qed.

Lemma fl_body_nil l k : fl_body l [] k = None. Proof. reflexivity. Qed.
Lemma fl_body_label l n g tk r k : fl_body l (SLabel n g tk :: r) k = if text_eqb n l then Some (enter r k) else fl_body l r k.
Proof. reflexivity. Qed.
Lemma fl_body_other l x r k : (forall n g tk, x <> SLabel n g tk) ->
  fl_body l (x :: r) k = match fl_stmt l x (kseq r k) with Some a => Some a | None => fl_body l r k end.
Proof. intros H. destruct x; try reflexivity. exfalso. eapply H; reflexivity. Qed.

(* ---------- an induction principle for the nested statement type ---------- *)
Section IND.
Variable P : stmt -> Prop.
Variable Q : list stmt -> Prop.
Hypothesis Hnil : Q [].
Hypothesis Hcons : forall s r, P s -> Q r -> Q (s :: r).
Hypothesis Hcmd : forall c, P (SCmd c).
Hypothesis Hlabel : forall n g tk, P (SLabel n g tk).
Hypothesis Hif : forall conds els, Forall (fun cb : bexp * list stmt => Q (snd cb)) conds ->
  match els with Some b => Q b | None => True end -> P (SIf conds els).
Hypothesis Hwhile : forall tg c b, Q b -> P (SWhile tg c b).
Hypothesis Hdowhile : forall tg b c, Q b -> P (SDoWhile tg b c).
Hypothesis Hbreak : forall tg, P (SBreak tg).
Hypothesis Hcontinue : forall tg, P (SContinue tg).
Hypothesis Hswitch : forall tg o ol cases, Forall (fun c : scase => Q (sc_body c)) cases -> P (SSwitch tg o ol cases).

Definition opt_ind (f : forall ss, Q ss) (els : option (list stmt)) : match els with Some b => Q b | None => True end :=
  match els with Some b => f b | None => I end.

Fixpoint stmt_ind2 (s : stmt) : P s :=
  let list_ind2 := fix list_ind2 (ss : list stmt) : Q ss :=
    match ss with [] => Hnil | x :: r => Hcons x r (stmt_ind2 x) (list_ind2 r) end in
  match s with
  | SCmd c => Hcmd c
  | SLabel n g tk => Hlabel n g tk
  | SIf conds els =>
      Hif conds els
        ((fix go (cs : list (bexp * list stmt)) : Forall (fun cb : bexp * list stmt => Q (snd cb)) cs :=
            match cs with [] => Forall_nil _ | cb :: r => Forall_cons cb (list_ind2 (snd cb)) (go r) end) conds)
        (opt_ind list_ind2 els)
  | SWhile tg c b => Hwhile tg c b (list_ind2 b)
  | SDoWhile tg b c => Hdowhile tg b c (list_ind2 b)
  | SBreak tg => Hbreak tg
  | SContinue tg => Hcontinue tg
  | SSwitch tg o ol cases =>
      Hswitch tg o ol cases
        ((fix go (cs : list scase) : Forall (fun c : scase => Q (sc_body c)) cs :=
            match cs with [] => Forall_nil _ | c :: r => Forall_cons c (list_ind2 (sc_body c)) (go r) end) cases)
  end.

Lemma stmts_ind2 : forall ss, Q ss.
Proof. induction ss as [|x r IH]; [exact Hnil|apply Hcons; [apply stmt_ind2|exact IH]]. Qed.
End IND.

(* ---------- (A) the state a goto resumes at is well scoped ---------- *)
Lemma scoped_cons_inv bt lt s r : scoped bt lt (s :: r) -> scoped1 bt lt s /\ scoped bt lt r.
Proof. intros H; inversion H; auto. Qed.

Lemma fl_scoped l :
  (forall s k A, scoped1 (kbt k) (klt k) s -> scoped_k k -> fl_stmt l s k = Some A -> scoped_state A) /\
  (forall ss k A, scoped (kbt k) (klt k) ss -> scoped_k k -> fl_body l ss k = Some A -> scoped_state A).
Proof.
  assert (ALL : forall s, (fun s => forall k A, scoped1 (kbt k) (klt k) s -> scoped_k k -> fl_stmt l s k = Some A -> scoped_state A) s).
  { apply (stmt_ind2 (fun s => forall k A, scoped1 (kbt k) (klt k) s -> scoped_k k -> fl_stmt l s k = Some A -> scoped_state A)
                     (fun ss => forall k A, scoped (kbt k) (klt k) ss -> scoped_k k -> fl_body l ss k = Some A -> scoped_state A)).
    - intros k A _ _ H. discriminate.
    - intros s r IHs IHr k A Hsc Hk H. apply scoped_cons_inv in Hsc. destruct Hsc as [S1 S2].
      destruct s as [cm|n g tk|conds els|tg c b|tg b c|tg|tg|tg o ol cases];
        try (rewrite fl_body_other in H by (intros; discriminate);
             destruct (fl_stmt l _ (kseq r k)) as [a|] eqn:E;
             [ inversion H; subst; eapply IHs; [| |exact E]; [rewrite kbt_kseq, klt_kseq; exact S1|apply scoped_k_kseq; assumption]
             | eapply IHr; eauto ]).
      rewrite fl_body_label in H. destruct (text_eqb n l).
      + inversion H; subst. apply scoped_enter; assumption.
      + eapply IHr; eauto.
    - intros c k A _ _ H. discriminate.
    - intros n g tk k A _ _ H. discriminate.
    - intros conds els Hc He k A Hsc Hk H. rewrite fl_stmt_if in H. inversion Hsc as [| | | |? ? ? ? SC SO| | |]; subst.
      clear Hsc. induction conds as [|[e b] r IH]; cbn [fl_conds] in H.
      + destruct els as [b|]; [|discriminate]. inversion SO; subst. eapply He; eauto.
      + inversion Hc as [|? ? Hb Hr]; subst. inversion SC; subst.
        destruct (fl_body l b k) as [a|] eqn:E; [inversion H; subst; eapply Hb; eauto|]. apply IH; assumption.
    - intros tg c b Hb k A Hsc Hk H. rewrite fl_stmt_while in H. inversion Hsc; subst.
      eapply (Hb (Kwhile tg c b k)); [cbn; assumption|constructor; assumption|exact H].
    - intros tg b c Hb k A Hsc Hk H. rewrite fl_stmt_dowhile in H. inversion Hsc; subst.
      eapply (Hb (Kdowhile tg b c k)); [cbn; assumption|constructor; assumption|exact H].
    - intros tg k A _ _ H. discriminate.
    - intros tg k A _ _ H. discriminate.
    - intros tg o ol cases Hc k A Hsc Hk H. rewrite fl_stmt_switch in H. inversion Hsc as [| | | | | | |? ? ? ? ? ? SC]; subst.
      clear Hsc. induction cases as [|c r IH]; cbn [fl_cases] in H; [discriminate|].
      inversion Hc as [|? ? Hb Hr]; subst. inversion SC; subst.
      destruct (fl_body l (sc_body c) (Kswitch tg k)) as [a|] eqn:E.
      + inversion H; subst. eapply (Hb (Kswitch tg k)); [cbn; assumption|constructor; assumption|exact E].
      + apply IH; assumption. }
  split; [exact ALL|].
  apply (stmts_ind2 (fun s => forall k A, scoped1 (kbt k) (klt k) s -> scoped_k k -> fl_stmt l s k = Some A -> scoped_state A)
                    (fun ss => forall k A, scoped (kbt k) (klt k) ss -> scoped_k k -> fl_body l ss k = Some A -> scoped_state A)).
  all: try (intros; discriminate).
  - intros s r IHs IHr k A Hsc Hk H. apply scoped_cons_inv in Hsc. destruct Hsc as [S1 S2].
    destruct s as [cm|n g tk|conds els|tg c b|tg b c|tg|tg|tg o ol cases];
      try (rewrite fl_body_other in H by (intros; discriminate);
           destruct (fl_stmt l _ (kseq r k)) as [a|] eqn:E;
           [ inversion H; subst; eapply IHs; [| |exact E]; [rewrite kbt_kseq, klt_kseq; exact S1|apply scoped_k_kseq; assumption]
           | eapply IHr; eauto ]).
    rewrite fl_body_label in H. destruct (text_eqb n l).
    + inversion H; subst. apply scoped_enter; assumption.
    + eapply IHr; eauto.
  - intros; eapply ALL; eauto.
  - intros; eapply ALL; eauto.
  - intros; eapply ALL; eauto.
  - intros; eapply ALL; eauto.
Qed.

Theorem label_lookup_scoped_holds body :
  scoped None None body -> label_lookup_scoped (fun l => fl_body l body Kstop).
Proof.
  intros H l A E. eapply (proj2 (fl_scoped l) body Kstop); [exact H|constructor|exact E].
Qed.

(* ---------- well-formed switches: case values distinct, at most one default (what the parser guarantees) ---------- *)
Definition case_values (cs : list scase) : list text := flat_map (fun c : scase => if sc_def c then [] else [sc_val c]) cs.
Definition wf_casesb (cs : list scase) : bool :=
  nodupt (case_values cs) && Nat.leb (List.length (filter (fun c : scase => sc_def c) cs)) 1.

Fixpoint swf1b (s : stmt) : bool :=
  let swfl := fix swfl (ss : list stmt) : bool := match ss with [] => true | x :: r => swf1b x && swfl r end in
  match s with
  | SIf conds els =>
      (fix go (cs : list (bexp * list stmt)) : bool := match cs with [] => true | (_, b) :: r => swfl b && go r end) conds &&
      match els with Some b => swfl b | None => true end
  | SWhile _ _ b => swfl b
  | SDoWhile _ b _ => swfl b
  | SSwitch _ _ _ cases =>
      wf_casesb cases && (fix go (cs : list scase) : bool := match cs with [] => true | c :: r => swfl (sc_body c) && go r end) cases
  | _ => true
  end.
Fixpoint swfb (ss : list stmt) : bool := match ss with [] => true | x :: r => swf1b x && swfb r end.

Definition swfl_local := fix swfl (ss : list stmt) : bool := match ss with [] => true | x :: r => swf1b x && swfl r end.
Lemma swfl_local_eq ss : swfl_local ss = swfb ss.
Proof. induction ss as [|x r IH]; [reflexivity|]. cbn. now rewrite IH. Qed.

Lemma swf_if conds els : swf1b (SIf conds els) = true ->
  Forall (fun cb : bexp * list stmt => swfb (snd cb) = true) conds /\ match els with Some b => swfb b = true | None => True end.
Proof.
  change (swf1b (SIf conds els)) with
    ((fix go (cs : list (bexp * list stmt)) : bool := match cs with [] => true | (_, b) :: r => swfl_local b && go r end) conds &&
     match els with Some b => swfl_local b | None => true end).
  intros H. apply andb_prop in H. destruct H as [H1 H2]. split.
  - induction conds as [|[e b] r IH]; [constructor|]. apply andb_prop in H1. destruct H1 as [A B]. constructor; [cbn; now rewrite <- swfl_local_eq|auto].
  - destruct els; [now rewrite <- swfl_local_eq|exact I].
Qed.
Lemma swf_while tg c b : swf1b (SWhile tg c b) = true -> swfb b = true.
Proof. change (swf1b (SWhile tg c b)) with (swfl_local b). now rewrite swfl_local_eq. Qed.
Lemma swf_dowhile tg b c : swf1b (SDoWhile tg b c) = true -> swfb b = true.
Proof. change (swf1b (SDoWhile tg b c)) with (swfl_local b). now rewrite swfl_local_eq. Qed.
Lemma swf_switch tg o ol cases : swf1b (SSwitch tg o ol cases) = true ->
  wf_casesb cases = true /\ Forall (fun c : scase => swfb (sc_body c) = true) cases.
Proof.
  change (swf1b (SSwitch tg o ol cases)) with
    (wf_casesb cases && (fix go (cs : list scase) : bool := match cs with [] => true | c :: r => swfl_local (sc_body c) && go r end) cases).
  intros H. apply andb_prop in H. destruct H as [H1 H2]. split; [exact H1|].
  clear H1. induction cases as [|c r IH]; [constructor|]. apply andb_prop in H2. destruct H2 as [A B]. constructor; [now rewrite <- swfl_local_eq|auto].
Qed.

(* every non-empty case body of a well-formed switch is the one selected by some value of the switched variable *)
Lemma text_eqb_true a b : text_eqb a b = true <-> a = b.
Proof. unfold text_eqb. destruct (list_eq_dec N.eq_dec a b); split; auto; discriminate. Qed.

Lemma selectable cases c : wf_casesb cases = true -> In c cases -> sc_body c <> [] ->
  exists m, select_case cases m = sc_body c.
Proof.
  intros W Hin Hb. apply andb_prop in W. destruct W as [W1 W2].
  destruct (in_split _ _ Hin) as (pre & post & E). subst cases.
  destruct (sc_def c) eqn:D.
  - (* the default: no value matches *)
    exists (fun _ => false).
    rewrite SpecLemmas.select_no_match by (intros x _; right; reflexivity).
    rewrite (SpecLemmas.select_default_spec pre c post).
    + cbn. destruct (sc_body c); [congruence|reflexivity].
    + intros x Hx. destruct (sc_def x) eqn:Dx; [|reflexivity]. exfalso.
      rewrite filter_app in W2. cbn in W2. rewrite D in W2. rewrite app_length in W2. cbn in W2.
      assert (L : (1 <= List.length (filter (fun c0 : scase => sc_def c0) pre))%nat).
      { clear - Hx Dx. induction pre as [|y r IH]; [destruct Hx|]. cbn. destruct Hx as [->|Hx]; [rewrite Dx; cbn; lia|].
        destruct (sc_def y); cbn; [lia|auto]. }
      apply Nat.leb_le in W2. lia.
    + exact D.
  - exists (fun v => text_eqb v (sc_val c)).
    rewrite (SpecLemmas.select_first_match pre c post).
    + cbn. destruct (sc_body c); [congruence|reflexivity].
    + intros x Hx. destruct (sc_def x) eqn:Dx; [now left|]. right.
      destruct (text_eqb (sc_val x) (sc_val c)) eqn:Q; [|reflexivity]. exfalso. apply text_eqb_true in Q.
      unfold case_values in W1. rewrite flat_map_app in W1. cbn in W1. rewrite D in W1. cbn in W1.
      assert (Ix : In (sc_val x) (flat_map (fun c0 : scase => if sc_def c0 then [] else [sc_val c0]) pre)).
      { apply in_flat_map. exists x. split; [exact Hx|]. rewrite Dx. now left. }
      clear - W1 Ix Q. induction (flat_map _ pre) as [|y r IH]; [destruct Ix|]. cbn in W1. apply andb_prop in W1. destruct W1 as [A B].
      destruct Ix as [->|Ix]; [|auto].
      apply negb_true_iff in A. assert (X : existsb (text_eqb (sc_val x)) (r ++ sc_val c :: flat_map (fun c0 : scase => if sc_def c0 then [] else [sc_val c0]) post) = true).
      { apply existsb_exists. exists (sc_val c). split; [apply in_or_app; right; now left|apply text_eqb_true; exact Q]. }
      congruence.
    + exact D.
    + apply text_eqb_true. reflexivity.
Qed.

(* ---------- (B) the resumed state matches the position of the label in the chunk graph ---------- *)
Section GRAPH.
Variable St : Type.
Variable exec : cmd -> St -> stepres St.
Variable flag_set trainer_beaten : text -> St -> bool.
Variable cmp_var cmp_var_value : text -> text -> St -> comparison.
Variable case_matches : text -> text -> St -> bool.
Variable G : list chunk.
Variable brkT orgT : tagmap.
Hypothesis G_ids : forall i c, get_chunk G i = Some c -> (0 <= i)%Z.
Variable l : text.

Notation gstep := (gstep St exec flag_set trainer_beaten cmp_var cmp_var_value case_matches G).
Notation gsteps := (steps (@gfinal) gstep).
Notation tr_stmts := (tr_stmts G brkT orgT).
Notation tr_block := (tr_block G brkT orgT).
Notation tr_rest := (tr_rest G brkT orgT).
Notation tr_ctrl := (tr_ctrl G brkT orgT).
Notation tr_chain := (tr_chain G brkT orgT).
Notation match_cont := (match_cont G brkT orgT).
Notation match_states := (match_states G brkT orgT).

Definition lands (A : sstate) : Prop :=
  exists c rem, In c G /\ after_label l (cstmts c) = Some rem /\
    forall s0 : St, exists j B', gsteps j (GAt c rem) s0 [] B' s0 /\ match_states A B'.

Definition Pst (s : stmt) : Prop := forall k br r A,
  swf1b s = true -> tr_ctrl s br r -> match_cont k r -> fl_stmt l s k = Some A -> lands A.
Definition Qst (ss : list stmt) : Prop := forall k c rem ret A,
  swfb ss = true -> In c G -> tr_stmts ss c rem ret -> match_cont k ret ->
  after_label l (cstmts c) = after_label l rem -> fl_body l ss k = Some A -> lands A.

Lemma get_chunk_in' i c : get_chunk G i = Some c -> In c G.
Proof. apply get_chunk_in. Qed.

Lemma Qblock ss : Qst ss -> forall k p ret A, swfb ss = true -> tr_block ss p ret -> match_cont k ret -> fl_body l ss k = Some A -> lands A.
Proof.
  intros HQ k p ret A W T M F. inversion T as [ss0 p0 c ret0 Hc Hs]; subst.
  eapply HQ; eauto. eapply get_chunk_in'; eauto.
Qed.

Lemma Q_cons s r : Pst s -> Qst r -> Qst (s :: r).
Proof.
  intros HP HQ k c rem ret A W Hin T M AL F. cbn [swfb] in W. apply andb_prop in W. destruct W as [W1 W2].
  destruct (is_simple s) eqn:SI.
  - destruct (tr_stmts_simple_head G brkT orgT s r c rem ret T SI)
      as [(rem' & -> & T')|(-> & -> & e & b & -> & _)].
    + destruct s as [cm|n g tk| | | | | | ]; try discriminate SI.
      * rewrite fl_body_other in F by (intros; discriminate). cbn [fl_stmt] in F.
        eapply HQ; eauto.
      * rewrite fl_body_label in F. destruct (text_eqb n l) eqn:Q.
        -- inversion F; subst A. exists c, rem'. split; [exact Hin|]. split; [rewrite AL; cbn; now rewrite Q|].
           intros s0. destruct (enter_sim St exec flag_set trainer_beaten cmp_var cmp_var_value case_matches G brkT orgT G_ids r c rem' ret k s0 T' M) as (j & B & S1 & M1).
           eauto.
        -- eapply HQ; eauto. rewrite AL. cbn. now rewrite Q.
    + rewrite fl_body_other in F by (intros; discriminate). cbn in F. discriminate.
  - destruct (tr_stmts_ctrl_head G brkT orgT s r c rem ret T SI)
      as (-> & br & r0 & Hb & Hc & Hr).
    rewrite fl_body_other in F by (intros n g tk X; subst s; discriminate SI).
    destruct (fl_stmt l s (kseq r k)) as [a|] eqn:E.
    + inversion F; subst a. eapply (HP (kseq r k) br r0); eauto.
      eapply match_cont_kseq; eauto.
    + inversion Hr as [ret0|s1 rest1 p1 ret1 TB]; subst.
      * discriminate.
      * eapply (Qblock _ HQ); eauto.
Qed.

Lemma chain_lands k A : forall more els f r,
  tr_chain more els f r ->
  Forall (fun cb : bexp * list stmt => Qst (snd cb)) more -> match els with Some b => Qst b | None => True end ->
  Forall (fun cb : bexp * list stmt => swfb (snd cb) = true) more -> match els with Some b => swfb b = true | None => True end ->
  match_cont k r -> fl_conds l more els k = Some A -> lands A.
Proof.
  intros more els f r T. induction T as [r|b p r TB|e b more els en cb f r TC TB TCH IH]; intros FQ EQ FW EW M F.
  - discriminate.
  - cbn in F. eapply (Qblock _ EQ); eauto.
  - cbn [fl_conds] in F. inversion FQ as [|? ? Qb Qr]; subst. inversion FW as [|? ? Wb Wr]; subst. cbn [snd] in *.
    destruct (fl_body l b k) as [a|] eqn:E.
    + inversion F; subst a. eapply (Qblock _ Qb); eauto.
    + apply IH; assumption.
Qed.

Lemma P_if conds els :
  Forall (fun cb : bexp * list stmt => Qst (snd cb)) conds -> match els with Some b => Qst b | None => True end -> Pst (SIf conds els).
Proof.
  intros FQ EQ k br r A W T M F. rewrite fl_stmt_if in F. destruct (swf_if _ _ W) as [FW EW].
  inversion T as [e b more els0 en cb f r0 TC TB TCH| | | | |]; subst.
  eapply (chain_lands k A ((e, b) :: more) els en r); eauto. eapply chain_cons; eauto.
Qed.

Lemma P_while tg c b : Qst b -> Pst (SWhile tg c b).
Proof.
  intros HQ k br r A W T M F. rewrite fl_stmt_while in F. apply swf_while in W.
  inversion T as [|tg0 c0 b0 h r0 TW| | | |]; subst. inversion TW as [tg0 c0 b0 h0 ch en bb r0 Hh Hs Hb Hc TB Hbrk Horg]; subst.
  eapply (Qblock _ HQ); eauto. eapply mc_while; eauto.
Qed.

Lemma P_dowhile tg b c : Qst b -> Pst (SDoWhile tg b c).
Proof.
  intros HQ k br r A W T M F. rewrite fl_stmt_dowhile in F. apply swf_dowhile in W.
  inversion T as [| |tg0 b0 c0 h bb r0 TW| | |]; subst. inversion TW as [tg0 b0 e h0 ch en bb0 r0 Hh Hs Hb Hc TB Hbrk Horg]; subst.
  eapply (Qblock _ HQ); eauto. eapply mc_dowhile; eauto.
Qed.

Lemma P_switch tg o ol cases : Forall (fun c : scase => Qst (sc_body c)) cases -> Pst (SSwitch tg o ol cases).
Proof.
  intros FQ k br r A W T M F. rewrite fl_stmt_switch in F. destruct (swf_switch _ _ _ _ W) as [WC FW].
  inversion T as [| | | | |tg0 op ol0 cases0 sid c r0 Hc Hs Hbrk SI]; subst.
  assert (MK : match_cont (Kswitch tg k) r) by (eapply mc_switch; eauto).
  (* the case body in which the label is found is selectable, hence implemented by a chunk that returns to r *)
  assert (BODY : forall ci, In ci cases -> sc_body ci <> [] -> exists d, tr_block (sc_body ci) d r).
  { intros ci Hi Hne. destruct (selectable cases ci WC Hi Hne) as [m Hm].
    inversion SI as [op0 cases1 c1 r1 _ _ _ EL|op0 ol1 cases1 c1 bc def dest r1 _ TG]; subst.
    - rewrite (EL m) in Hm. congruence.
    - specialize (TG m). rewrite Hm in TG. inversion TG as [b d def0 dest0 r2 TB|b dd dest0 r2 TB|dest0 r2 E]; subst; eauto.
      congruence. }
  clear SI T W WC. revert F. induction cases as [|ci rest IH]; cbn [fl_cases]; [discriminate|].
  inversion FQ as [|? ? Qi Qr]; subst. inversion FW as [|? ? Wi Wr]; subst.
  destruct (fl_body l (sc_body ci) (Kswitch tg k)) as [a|] eqn:E.
  - intros F. inversion F; subst a.
    destruct (sc_body ci) as [|x0 b0] eqn:EB; [discriminate E|].
    destruct (BODY ci (or_introl eq_refl)) as [d TB]; [rewrite EB; discriminate|]. rewrite EB in TB.
    eapply (Qblock _ Qi); eauto.
  - intros F. apply IH; auto.
    intros cj Hj. apply BODY. now right.
Qed.

Theorem all_lands : forall ss, Qst ss.
Proof.
  apply (stmts_ind2 Pst Qst).
  - intros k c rem ret A _ _ _ _ _ F. discriminate.
  - apply Q_cons.
  - intros c k br r A _ _ _ F. discriminate.
  - intros n g tk k br r A _ _ _ F. discriminate.
  - apply P_if.
  - apply P_while.
  - apply P_dowhile.
  - intros tg k br r A _ _ _ F. discriminate.
  - intros tg k br r A _ _ _ F. discriminate.
  - apply P_switch.
Qed.
End GRAPH.

(* labels of the chunks *)
Definition chunk_labels (G : list chunk) : list text := flat_map (fun c => map fst (user_labels (cstmts c))) G.

Lemma after_label_in l ss rest : after_label l ss = Some rest -> In l (map fst (user_labels ss)).
Proof.
  revert rest. induction ss as [|x r IH]; intros rest H; cbn in H; [discriminate|].
  destruct x as [cm|n g tk| | | | | | ]; cbn [user_labels flat_map app map]; try (eapply IH; eauto; fail).
  destruct (text_eqb n l) eqn:Q; [left; cbn; apply text_eqb_true; exact Q|right; eapply IH; eauto].
Qed.

Lemma gfl_unique l : forall G c rem, NoDup (chunk_labels G) -> In c G -> after_label l (cstmts c) = Some rem ->
  graph_find_label l G = Some (GAt c rem).
Proof.
  induction G as [|x r IH]; intros c rem ND Hin HA; [destruct Hin|]. cbn [graph_find_label].
  unfold chunk_labels in ND. cbn [flat_map] in ND.
  destruct Hin as [->|Hin].
  - rewrite HA. reflexivity.
  - destruct (after_label l (cstmts x)) as [r'|] eqn:AX.
    + exfalso. apply after_label_in in AX. apply after_label_in in HA.
      assert (I2 : In l (chunk_labels r)) by (unfold chunk_labels; apply in_flat_map; exists c; auto).
      clear - ND AX I2. induction (map fst (user_labels (cstmts x))) as [|y ys IHy]; [destruct AX|].
      cbn in ND. apply NoDup_cons_iff in ND. destruct ND as [N1 N2]. destruct AX as [->|AX]; [apply N1; apply in_or_app; now right|auto].
    + apply IH; auto. clear - ND. induction (map fst (user_labels (cstmts x))) as [|y ys IHy]; [exact ND|]. cbn in ND. apply NoDup_cons_iff in ND. tauto.
Qed.

Lemma gfl_none l : forall G, ~ In l (chunk_labels G) -> graph_find_label l G = None.
Proof.
  induction G as [|x r IH]; intros H; [reflexivity|]. cbn [graph_find_label].
  destruct (after_label l (cstmts x)) as [r'|] eqn:AX.
  - exfalso. apply H. unfold chunk_labels. cbn. apply in_or_app. left. eapply after_label_in; eauto.
  - apply IH. intros X. apply H. unfold chunk_labels. cbn. apply in_or_app. now right.
Qed.

Lemma gfl_some_shape l : forall G b, graph_find_label l G = Some b -> exists c rem, b = GAt c rem.
Proof.
  induction G as [|x r IH]; intros b H; cbn in H; [discriminate|].
  destruct (after_label l (cstmts x)); [inversion H; eauto|auto].
Qed.

(* THE THEOREM: both label-lookup facts hold for find_label := fl_body . body Kstop, for every graph that implements the body *)
Theorem label_lookup_agrees_holds
  (St : Type) (exec : cmd -> St -> stepres St) (flag_set trainer_beaten : text -> St -> bool)
  (cmp_var cmp_var_value : text -> text -> St -> comparison) (case_matches : text -> text -> St -> bool)
  (G : list chunk) (brkT orgT : tagmap) (body : list stmt) :
  (forall i c, get_chunk G i = Some c -> (0 <= i)%Z) ->
  tr_block G brkT orgT body 0 (-1) ->
  swfb body = true ->
  NoDup (chunk_labels G) ->
  (forall n, In n (chunk_labels G) -> fl_body n body Kstop <> None) ->
  label_lookup_agrees St exec flag_set trainer_beaten cmp_var cmp_var_value case_matches G brkT orgT (fun l => fl_body l body Kstop).
Proof.
  intros GI TB W ND COV l s.
  destruct (fl_body l body Kstop) as [A|] eqn:F.
  - pose proof (all_lands St exec flag_set trainer_beaten cmp_var cmp_var_value case_matches G brkT orgT GI l body) as HQ.
    assert (L : lands St exec flag_set trainer_beaten cmp_var cmp_var_value case_matches G brkT orgT l A).
    { eapply Qblock; [exact HQ|exact W|exact TB|apply mc_stop|exact F]. }
    destruct L as (c & rem & Hin & HA & ST).
    rewrite (gfl_unique l G c rem ND Hin HA). destruct (ST s) as (j & B' & S1 & M1). eauto.
  - rewrite gfl_none; [exact I|]. intros X. apply (COV l X). exact F.
Qed.
