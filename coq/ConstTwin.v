(* C13, the TWIN form for SITE 1 (command arguments: Parser.command_stmt / command_args; parser.go:581-644, tryReplaceWithConstant).

   ConstSites.v proves that the text RECORDED for an argument is the join of  creplace consts (tlit tk)  over its tokens.  This
   file proves the property's own wording: parsing a command whose arguments USE constants gives the same result as parsing
   the command in which the uses are REPLACED by the constants' values.  "Replaced" = the token keeps its type and all its
   position fields and gets the value as literal ([retok c tk] = Parser.set_lit tk (creplace c (tlit tk))).  "Same result" =
   the results of command_stmt are EQUAL: same command record (name, arguments, name token, command id = number of remaining
   tokens: the twin has as many tokens), same inline data (texts / movements with their argument positions), same remaining
   stream.  No position field of an argument token is recorded in the result, so nothing is "up to".

   Main statements (all about the model's own command_stmt, all constant tables, all selections of uses):
   A. grammar form - every argument list of the grammar of CmdArgs.v (wf_args + balanced: plain tokens, nested parentheses,
      strings, typed strings, format(...) and moves(...) blocks accepted context-independently), fuel > number of tokens:
      command_arguments_twin_rel    general: source list a under table c, twin list a' under table c', pieces pairwise either
                                    identical non-plain pieces or plain tokens of equal type with equal substituted text
      command_arguments_twin_all    EMPTY table: every plain argument token tk replaced by retok c tk; command_stmt [] on the
                                    twin = command_stmt c on the source.  NO side condition on the values.
      command_arguments_twin_some   SAME table: the tokens selected by an arbitrary [sel : token -> bool] (one use - tokens
                                    carry their position -, some, all) replaced; side condition: the value written is not
                                    itself rewritten by the table (creplace c (creplace c x) = creplace c x on selected tokens)
      command_arguments_twin_const  the brief's wording: assoc c x = Some v, assoc c v = None, selected tokens have literal x;
                                    then the twin token is set_lit tk v and the results are equal
   B. stream form - every token stream ending in EOF without FORMAT / MOVES tokens that command_stmt ACCEPTS (no grammar
      premise: CmdConverse.command_stmt_accepted_plain supplies it); the twin stream is computed by [retok_stream], which
      rewrites the selected plain tokens between the command's parentheses and nothing else (not the command name, not the
      tokens after the closing parenthesis, not strings / parentheses / commas):
      command_stmt_twin_stream_rel / _all / _const   as above; the twin is parsed with any fuel > number of tokens.
   Examples: ex_twin_hypotheses, ex_stream (hypotheses satisfiable on lexer output; the command NAME "FOO" is not rewritten),
      side_condition_necessary (const A = B, const B = 2: use of A records "B", the twin "B" under the same table records "2":
      the side condition of _some/_const is necessary), empty_table_twin_no_condition.
   C. SITE 3, comparison values (Parser.cond_var_operator; both forms: plain value up to ')' '&&' '||', and value( ... )):
      comparison_value_twin         every stream ending in EOF, every table, every fuel: if cond_var_operator c accepts ts then
                                    cond_var_operator [] returns the SAME result (operator, value text, strict flag, remaining
                                    stream) on [retok_cmp c ts] = ts with every token of the value rewritten to its substituted
                                    text (in the value( ) form also the inner parentheses, which the model substitutes too)
   D. SITE 2 (+3), operand of var() / flag() / defeated() (Parser.leaf_expr, the non-autovar leaves, with or without '!'):
      condition_operand_twin        if leaf_expr c accepts ts0 then leaf_expr [] returns the SAME leaf (kind, operand text, line,
                                    operator, value, strict flag), inline data and remaining stream on [retok_leaf c ts0]: operand
                                    tokens up to ')' rewritten, and for var() without '!' also the comparison value (C).
                                    Premise: the leaf is not an autovar command (peek_is_autovar = false; that leaf is a command:
                                    SITE 1).  leaf_body / leaf_expr_body are a proof device (leaf_expr IS leaf_body, by reflexivity).
   E. SITE 4, twin under the SAME table, premise [stable]: forall x, creplace c (creplace c x) = creplace c x  (necessary, see
      side_condition_necessary; satisfiable: SwitchExamples.cS_stable):
      switch_operand_twin_var       parse_switch on  switch ( var ( OPERAND... ) ) { ... }: operand tokens rewritten, same result
                                    (statement list with the SSwitch node: same tag - the twin has as many tokens -, same operand
                                    text and line, same cases; same inline data, same remaining stream)
      case_value_twin               parse_cases standing on a  case VALUE... :  - the value tokens up to ':' rewritten, same result
      (the empty-table twin of a whole switch would have to rewrite the case bodies too: program level, not proved)
   Loop level only (partial for SITES 4-5): collect_until_twin(_k,2), switch_operand_twin(2), value_parts_twin, ms_collect_twin
      (the collecting loop of map script table entries: same text, same remaining stream on the rewritten segment).
   Examples: ex_comparison_twin, ex_leaf_twin, ex_switch_twin (model runs on lexer output agree on source and twin).
   NOT proved here: the stream form for commands containing format()/moves() blocks (the grammar form A covers them only under
   CmdArgs.wf_piece's context-independence premise); "single-token value" is not needed at token level (it only says that
   set_lit tk v is a token the lexer can produce; a multi-token value such as "5 + 1" gives one twin token whose literal has
   spaces); autovar leaves and the autovar form of the switch operand; SITE 5 (ms_table: only its loop; note that the entry
   records teCond := the FIRST CONDITION TOKEN itself, so the twin's entry differs in that token's literal) and SITE 6 (parse_mart
   records the item tokens beside the substituted texts, so the twin differs in the recorded tokens' literals); whole switch /
   whole program (compile) twins. *)
From Coq Require Import List String Ascii ZArith NArith Lia Bool.
From Pory Require Import Lexer Ast Emitter EmitProps Parser Consume CmdArgs CmdConverse.
From Pory Require ConstSites.
Import ListNotations.
Open Scope list_scope.

(* ---------- two argument lists that differ only in how a plain token is written ---------- *)
(* [prel c c' p p']: the piece p read under the table c and the piece p' read under the table c' are "the same use":
   either both are the same non-substitutable piece (parenthesis, string, format(), moves()), or both are plain tokens of the
   same type whose substituted texts agree. *)
Definition is_tok (p : piece) : bool := match p with PTok _ => true | _ => false end.
Inductive prel (c c' : list (text * text)) : piece -> piece -> Prop :=
| prel_tok tk tk' : ttype tk' = ttype tk -> creplace c' (tlit tk') = creplace c (tlit tk) -> prel c c' (PTok tk) (PTok tk')
| prel_same p : is_tok p = false -> prel c c' p p.
Definition grel c c' : list piece -> list piece -> Prop := Forall2 (prel c c').
Definition crel c c' (cg cg' : token * list piece) : Prop := Datatypes.fst cg' = Datatypes.fst cg /\ grel c c' (Datatypes.snd cg) (Datatypes.snd cg').
Definition arel c c' (a a' : arglist) : Prop :=
  grel c c' (Datatypes.fst a) (Datatypes.fst a') /\ Forall2 (crel c c') (Datatypes.snd a) (Datatypes.snd a').

Section REL.
Variable switches : list (text * text).
Variable env_errors : bool.
Variable parse_format : toks -> res (token * text * text * toks).
Variables c c' : list (text * text).

Lemma prel_part p p' : prel c c' p p' -> part c' p' = part c p.
Proof. intros [tk tk' _ H|q Hq]; [exact H|]. destruct q; try reflexivity. discriminate. Qed.
Lemma grel_render g g' : grel c c' g g' -> render_group c' g' = render_group c g.
Proof.
  intros H. unfold render_group. f_equal. induction H as [|p p' g g' Hp _ IH]; [reflexivity|]. cbn [map]. now rewrite IH, (prel_part _ _ Hp).
Qed.
Lemma grel_nil g g' : grel c c' g g' -> (g = [] <-> g' = []).
Proof. intros H. inversion H; subst; split; intros; congruence. Qed.
Lemma groups_rel a a' : arel c c' a a' -> Forall2 (grel c c') (groups_of a) (groups_of a').
Proof.
  destruct a as [g m], a' as [g' m']. intros [H1 H2]. cbn [Datatypes.fst Datatypes.snd] in *. unfold groups_of. cbn [Datatypes.fst Datatypes.snd].
  constructor; [exact H1|]. induction H2 as [|x y l l' [_ Hxy] _ IH]; [constructor|]. cbn [map]. constructor; assumption.
Qed.
Lemma strip_render gs gs' : Forall2 (grel c c') gs gs' ->
  map (render_group c') (strip_last_empty gs') = map (render_group c) (strip_last_empty gs).
Proof.
  induction 1 as [|g g' l l' Hg Hl IH]; [reflexivity|].
  destruct Hl as [|g2 g2' l2 l2' Hg2 Hl2].
  - cbn [strip_last_empty]. pose proof (grel_nil _ _ Hg) as N. destruct g, g'; try reflexivity.
    + destruct N as [N _]. specialize (N eq_refl). discriminate.
    + destruct N as [_ N]. specialize (N eq_refl). discriminate.
    + cbn [map]. now rewrite (grel_render _ _ Hg).
  - change (strip_last_empty (g' :: g2' :: l2')) with (g' :: strip_last_empty (g2' :: l2')).
    change (strip_last_empty (g :: g2 :: l2)) with (g :: strip_last_empty (g2 :: l2)).
    cbn [map]. rewrite (grel_render _ _ Hg). f_equal. exact IH.
Qed.
Lemma prel_texts script n k p p' : prel c c' p p' -> piece_texts script n k p' = piece_texts script n k p.
Proof. intros [tk tk' _ _|q _]; reflexivity. Qed.
Lemma prel_movs script nm n k p p' : prel c c' p p' -> piece_movs script nm n k p' = piece_movs script nm n k p.
Proof. intros [tk tk' _ _|q _]; reflexivity. Qed.
Lemma groups_texts_rel script n gs gs' : Forall2 (grel c c') gs gs' -> forall k, groups_texts script n k gs' = groups_texts script n k gs.
Proof.
  induction 1 as [|g g' l l' Hg _ IH]; intros k; [reflexivity|]. cbn [groups_texts]. rewrite IH. f_equal.
  induction Hg as [|p p' g g' Hp _ IHg]; [reflexivity|]. cbn [flat_map]. now rewrite IHg, (prel_texts _ _ _ _ _ Hp).
Qed.
Lemma groups_movs_rel script nm n gs gs' : Forall2 (grel c c') gs gs' -> forall k, groups_movs script nm n k gs' = groups_movs script nm n k gs.
Proof.
  induction 1 as [|g g' l l' Hg _ IH]; intros k; [reflexivity|]. cbn [groups_movs]. rewrite IH. f_equal.
  induction Hg as [|p p' g g' Hp _ IHg]; [reflexivity|]. cbn [flat_map]. now rewrite IHg, (prel_movs _ _ _ _ _ _ Hp).
Qed.
Lemma prel_len p p' : prel c c' p p' -> List.length (piece_toks p') = List.length (piece_toks p).
Proof. intros [tk tk' _ _|q _]; reflexivity. Qed.
Lemma grel_len g g' : grel c c' g g' -> List.length (group_toks g') = List.length (group_toks g).
Proof.
  induction 1 as [|p p' g g' Hp _ IH]; [reflexivity|]. unfold group_toks in *. cbn [flat_map]. rewrite !app_length. now rewrite IH, (prel_len _ _ Hp).
Qed.
Lemma arel_len a a' : arel c c' a a' -> List.length (arg_tokens a') = List.length (arg_tokens a).
Proof.
  destruct a as [g m], a' as [g' m']. intros [H1 H2]. cbn [Datatypes.fst Datatypes.snd] in *. unfold arg_tokens. cbn [Datatypes.fst Datatypes.snd].
  rewrite !app_length, (grel_len _ _ H1). f_equal.
  induction H2 as [|x y l l' [_ Hxy] _ IH]; [reflexivity|]. unfold more_toks in *. cbn [flat_map]. rewrite !app_length. cbn [List.length].
  now rewrite IH, (grel_len _ _ Hxy).
Qed.
Lemma prel_wf p p' : prel c c' p p' -> wf_piece switches env_errors parse_format p -> wf_piece switches env_errors parse_format p'.
Proof. intros [tk tk' E _|q _]; [|auto]. cbn [wf_piece]. now rewrite E. Qed.
Lemma grel_wf g g' : grel c c' g g' -> Forall (wf_piece switches env_errors parse_format) g -> Forall (wf_piece switches env_errors parse_format) g'.
Proof. induction 1 as [|p p' g g' Hp _ IH]; intros F; [constructor|]. inversion F; subst. constructor; [eapply prel_wf; eassumption|auto]. Qed.
Lemma arel_wf a a' : arel c c' a a' -> wf_args switches env_errors parse_format a -> wf_args switches env_errors parse_format a'.
Proof.
  destruct a as [g m], a' as [g' m']. intros [H1 H2] [W1 W2]. cbn [Datatypes.fst Datatypes.snd] in *. split; cbn [Datatypes.fst Datatypes.snd].
  - eapply grel_wf; eassumption.
  - induction H2 as [|x y l l' [Hc Hxy] _ IH]; [constructor|]. inversion W2 as [|? ? [Wc Wg] Wl]; subst. constructor; [|auto].
    split; [now rewrite Hc|eapply grel_wf; eassumption].
Qed.
(* parenthesis depth *)
Inductive erel : elem -> elem -> Prop :=
| erel_p p p' : prel c c' p p' -> erel (EP p) (EP p')
| erel_c tk : erel (EComma tk) (EComma tk).
Lemma depth_rel es es' : Forall2 erel es es' -> forall d, depth_e d es' = depth_e d es.
Proof.
  induction 1 as [|e e' l l' He _ IH]; intros d; [reflexivity|].
  destruct He as [p p' [tk tk' _ _|q _]|tk]; cbn [depth_e]; try apply IH.
  destruct q; try apply IH. destruct d; [reflexivity|apply IH].
Qed.
Lemma flat_rel a a' : arel c c' a a' -> Forall2 erel (flat a) (flat a').
Proof.
  destruct a as [g m], a' as [g' m']. intros [H1 H2]. cbn [Datatypes.fst Datatypes.snd] in *. unfold flat. cbn [Datatypes.fst Datatypes.snd].
  assert (G : forall g g', grel c c' g g' -> Forall2 erel (map EP g) (map EP g')).
  { induction 1 as [|p p' l l' Hp _ IH]; [constructor|]. cbn [map]. constructor; [constructor; exact Hp|exact IH]. }
  apply Forall2_app; [auto|].
  induction H2 as [|x y l l' [Hc Hxy] _ IH]; [constructor|]. cbn [flat_map]. rewrite Hc. constructor; [constructor|]. apply Forall2_app; auto.
Qed.
Lemma arel_balanced a a' : arel c c' a a' -> balanced (flat a) -> balanced (flat a').
Proof. intros R B. apply balanced_iff_depth. rewrite (depth_rel _ _ (flat_rel _ _ R)). now apply balanced_iff_depth. Qed.

(* THE TWIN THEOREM, general form. *)
Theorem command_arguments_twin_rel f script name lp (a a' : arglist) rp rest :
  ttype lp = LPAREN -> ttype rp = RPAREN ->
  wf_args switches env_errors parse_format a -> balanced (flat a) ->
  (List.length (arg_tokens a) < f)%nat ->
  arel c c' a a' ->
  command_stmt switches env_errors parse_format c' f script (name :: lp :: arg_tokens a' ++ rp :: rest) =
  command_stmt switches env_errors parse_format c f script (name :: lp :: arg_tokens a ++ rp :: rest).
Proof.
  intros Hlp Hrp W B F R.
  rewrite (command_with_arguments switches env_errors parse_format c f script name lp a rp rest Hlp Hrp W B F).
  rewrite (command_with_arguments switches env_errors parse_format c' f script name lp a' rp rest Hlp Hrp (arel_wf _ _ R W) (arel_balanced _ _ R B)
             ltac:(rewrite (arel_len _ _ R); exact F)).
  pose proof (groups_rel _ _ R) as G.
  cbn [List.length]. rewrite !app_length, (arel_len _ _ R).
  rewrite (strip_render _ _ G), (groups_texts_rel _ _ _ _ G), (groups_movs_rel _ _ _ _ _ G). reflexivity.
Qed.
End REL.

(* ---------- rewriting the uses: the twin argument list ---------- *)
(* [retok_args c sel a]: every plain token of the argument list selected by [sel] is rewritten to carry the text the table
   [c] gives it (same type, same position fields: Parser.set_lit); every other token is kept. *)
Definition retok (c : list (text * text)) (tk : token) : token := set_lit tk (creplace c (tlit tk)).
Definition retok_piece c (sel : token -> bool) (p : piece) : piece :=
  match p with PTok tk => if sel tk then PTok (retok c tk) else p | _ => p end.
Definition retok_group c sel (g : list piece) : list piece := map (retok_piece c sel) g.
Definition retok_args c sel (a : arglist) : arglist :=
  (retok_group c sel (Datatypes.fst a), map (fun cg => (Datatypes.fst cg, retok_group c sel (Datatypes.snd cg))) (Datatypes.snd a)).

Lemma creplace_nil x : creplace [] x = x.
Proof. reflexivity. Qed.

Lemma arel_retok c c' sel (a : arglist) :
  (forall tk, sel tk = true -> creplace c' (creplace c (tlit tk)) = creplace c (tlit tk)) ->
  (forall tk, sel tk = false -> creplace c' (tlit tk) = creplace c (tlit tk)) ->
  arel c c' a (retok_args c sel a).
Proof.
  intros H1 H0.
  assert (P : forall p, prel c c' p (retok_piece c sel p)).
  { intros p. destruct p; try (apply prel_same; reflexivity). cbn [retok_piece]. destruct (sel tk) eqn:S.
    - apply prel_tok; [reflexivity|]. cbn [retok set_lit tlit]. auto.
    - apply prel_tok; [reflexivity|auto]. }
  assert (G : forall g, grel c c' g (retok_group c sel g)).
  { induction g as [|p g IH]; [constructor|]. constructor; [apply P|exact IH]. }
  destruct a as [g m]. split; cbn [Datatypes.fst Datatypes.snd retok_args]; [apply G|].
  induction m as [|x m IH]; [constructor|]. cbn [map]. constructor; [|exact IH]. split; [reflexivity|apply G].
Qed.

Section TWIN.
Variable switches : list (text * text).
Variable env_errors : bool.
Variable parse_format : toks -> res (token * text * text * toks).

(* SITE 1, twin with the EMPTY table: every use replaced by the constant's value, no table needed any more. *)
Theorem command_arguments_twin_all c f script name lp (a : arglist) rp rest :
  ttype lp = LPAREN -> ttype rp = RPAREN ->
  wf_args switches env_errors parse_format a -> balanced (flat a) ->
  (List.length (arg_tokens a) < f)%nat ->
  command_stmt switches env_errors parse_format [] f script (name :: lp :: arg_tokens (retok_args c (fun _ => true) a) ++ rp :: rest) =
  command_stmt switches env_errors parse_format c f script (name :: lp :: arg_tokens a ++ rp :: rest).
Proof.
  intros Hlp Hrp W B F. apply command_arguments_twin_rel; try assumption.
  apply arel_retok; [intros; apply creplace_nil|discriminate].
Qed.

(* SITE 1, twin under the SAME table: any selection of uses replaced (one use, some uses, all uses), provided the value
   written in place of a selected token is not itself rewritten by the table. *)
Theorem command_arguments_twin_some c sel f script name lp (a : arglist) rp rest :
  ttype lp = LPAREN -> ttype rp = RPAREN ->
  wf_args switches env_errors parse_format a -> balanced (flat a) ->
  (List.length (arg_tokens a) < f)%nat ->
  (forall tk, sel tk = true -> creplace c (creplace c (tlit tk)) = creplace c (tlit tk)) ->
  command_stmt switches env_errors parse_format c f script (name :: lp :: arg_tokens (retok_args c sel a) ++ rp :: rest) =
  command_stmt switches env_errors parse_format c f script (name :: lp :: arg_tokens a ++ rp :: rest).
Proof.
  intros Hlp Hrp W B F S. apply command_arguments_twin_rel; try assumption.
  apply arel_retok; [exact S|reflexivity].
Qed.

(* the wording of the property: x is a constant with value v, v is not itself a constant; the selected tokens are uses of x *)
Corollary command_arguments_twin_const c x v sel f script name lp (a : arglist) rp rest :
  assoc c x = Some v -> assoc c v = None ->
  (forall tk, sel tk = true -> tlit tk = x) ->
  ttype lp = LPAREN -> ttype rp = RPAREN ->
  wf_args switches env_errors parse_format a -> balanced (flat a) ->
  (List.length (arg_tokens a) < f)%nat ->
  command_stmt switches env_errors parse_format c f script (name :: lp :: arg_tokens (retok_args c sel a) ++ rp :: rest) =
  command_stmt switches env_errors parse_format c f script (name :: lp :: arg_tokens a ++ rp :: rest)
  /\ (forall tk, sel tk = true -> retok c tk = set_lit tk v).
Proof.
  intros Hx Hv S Hlp Hrp W B F. split.
  - apply command_arguments_twin_some; try assumption. intros tk St. rewrite (S tk St). unfold creplace at 2 3. rewrite Hx.
    unfold creplace. now rewrite Hv.
  - intros tk St. unfold retok, creplace. now rewrite (S tk St), Hx.
Qed.
End TWIN.

(* ---------- examples ---------- *)
Module TwinExamples.
Definition lex0 (s : string) : toks := lex (fun _ => false) (fun _ => false) (fun _ => false) (t s).
Definition pf0 : toks -> res (token * text * text * toks) := fun _ => Panic.
Definition T (ty : toktype) (s : string) : token :=
  {| ttype := ty; tlit := t s; tline := 1; tsb := 0; tsu := 0; teline := 1; teb := 0; teu := 0 |}.
Definition consts0 : list (text * text) := [(t "FOO", t "5"); (t "BAR", t "VAR_B")].
Definition args0 : arglist :=
  ([PTok (T IDENT "VAR_A")],
   [(T COMMA ",", [PTok (T IDENT "FOO"); PTok (T MUL "*"); POpen (T LPAREN "("); PTok (T IDENT "BAR"); PClose (T RPAREN ")")]);
    (T COMMA ",", [PStr (T STRING "hi")])]).
(* the hypotheses of the twin theorems are satisfiable, and the rewritten list is what one expects *)
Example ex_twin_hypotheses :
  wf_args [] false pf0 args0 /\ balanced (flat args0) /\
  map tlit (arg_tokens (retok_args consts0 (fun _ => true) args0)) = [t "VAR_A"; t ","; t "5"; t "*"; t "("; t "VAR_B"; t ")"; t ","; t "hi"] /\
  exists c imp, command_stmt [] false pf0 [] 20 (t "S") (T IDENT "setvar" :: T LPAREN "(" :: arg_tokens (retok_args consts0 (fun _ => true) args0) ++ [T RPAREN ")"; T EOF ""])
                = Ok (c, imp, [T RPAREN ")"; T EOF ""]) /\ cargs c = [t "VAR_A"; t "5 * ( VAR_B )"; []].
Proof.
  split; [|split; [|split]].
  - split; cbn [Datatypes.fst Datatypes.snd args0].
    + repeat constructor.
    + repeat (apply Forall_cons; [split; [reflexivity|cbn [Datatypes.snd]; repeat (apply Forall_cons; [reflexivity|]); apply Forall_nil]|]). apply Forall_nil.
  - apply balanced_iff_depth. reflexivity.
  - vm_compute. reflexivity.
  - eexists _, _. split; vm_compute; reflexivity.
Qed.

(* The side condition of command_arguments_twin_some / _const (the value is not itself rewritten by the table) is NECESSARY:
   "const A = B  const B = 2" records A -> "B" (B is not yet defined when A is), B -> "2".  A use of A yields "B", but the
   program in which that use is replaced by the value "B" yields "2". *)
Definition consts1 : list (text * text) := [(t "A", t "B"); (t "B", t "2")].
Example side_condition_necessary :
  exists c1 c2 i1 i2 r1 r2,
    command_stmt [] false pf0 consts1 20 (t "S") (lex0 "cmd(A)") = Ok (c1, i1, r1) /\
    command_stmt [] false pf0 consts1 20 (t "S") (map (fun tk => if text_eqb (tlit tk) (t "A") then retok consts1 tk else tk) (lex0 "cmd(A)")) = Ok (c2, i2, r2) /\
    cargs c1 = [t "B"] /\ cargs c2 = [t "2"].
Proof. eexists _, _, _, _, _, _. split; [vm_compute; reflexivity|]. split; [vm_compute; reflexivity|]. split; vm_compute; reflexivity. Qed.
(* ... whereas the twin with the EMPTY table needs no side condition (command_arguments_twin_all): *)
Example empty_table_twin_no_condition :
  exists c1 c2 i1 i2 r1 r2,
    command_stmt [] false pf0 consts1 20 (t "S") (lex0 "cmd(A)") = Ok (c1, i1, r1) /\
    command_stmt [] false pf0 [] 20 (t "S") (map (fun tk => if text_eqb (tlit tk) (t "A") then retok consts1 tk else tk) (lex0 "cmd(A)")) = Ok (c2, i2, r2) /\
    cargs c1 = [t "B"] /\ cargs c2 = [t "B"].
Proof. eexists _, _, _, _, _, _. split; [vm_compute; reflexivity|]. split; [vm_compute; reflexivity|]. split; vm_compute; reflexivity. Qed.
End TwinExamples.

(* ---------- the same at the level of the token STREAM, for every accepted command without format()/moves() ---------- *)
(* [retok_stream c sel d ts]: walk the tokens of the argument list at parenthesis depth [d] up to the closing parenthesis of
   the command; rewrite the selected plain tokens; keep everything else, and everything from the closing parenthesis on. *)
Fixpoint retok_stream (c : list (text * text)) (sel : token -> bool) (d : nat) (ts : list token) : list token :=
  match ts with
  | [] => []
  | tk :: r =>
     if is RPAREN tk then match d with O => ts | S d' => tk :: retok_stream c sel d' r end
     else if is LPAREN tk then tk :: retok_stream c sel (S d) r
     else if plain_type (ttype tk) && sel tk then retok c tk :: retok_stream c sel d r
     else tk :: retok_stream c sel d r
  end.

Section STREAM.
Variable switches : list (text * text).
Variable env_errors : bool.
Variable parse_format : toks -> res (token * text * text * toks).
Variable c : list (text * text).
Variable sel : token -> bool.
Notation wfp := (wf_piece switches env_errors parse_format).

Lemma retok_group_stream : forall g, Forall wfp g -> forallb no_subparser g = true ->
  forall d d' R, depth_g d g = Some d' ->
  retok_stream c sel d (group_toks g ++ R) = group_toks (retok_group c sel g) ++ retok_stream c sel d' R.
Proof.
  induction g as [|p g IH]; intros W NS d d' R D.
  - cbn in D. inversion D; subst. reflexivity.
  - inversion W as [|? ? Wp Wg]; subst. cbn [forallb] in NS. apply andb_true_iff in NS. destruct NS as [NSp NSg].
    unfold group_toks in *. cbn [flat_map retok_group map]. rewrite <- !app_assoc.
    destruct p as [tk|tk|tk|tk|ty tk|lt clo tk v sty|lt clo mv]; try discriminate; cbn [wf_piece] in Wp; cbn [depth_g] in D;
      cbn [piece_toks retok_piece app retok_stream].
    + destruct (plain_tests tk Wp) as (R1 & _ & _ & R2 & _). rewrite R1, R2, Wp. cbn [andb].
      destruct (sel tk); cbn [piece_toks app]; f_equal; apply IH; assumption.
    + rewrite (is_false RPAREN tk) by (rewrite Wp; discriminate). rewrite (is_true LPAREN tk Wp). f_equal. apply IH; assumption.
    + rewrite (is_true RPAREN tk Wp). destruct d as [|d0]; [discriminate|]. f_equal. apply IH; assumption.
    + rewrite (is_false RPAREN tk) by (rewrite Wp; discriminate). rewrite (is_false LPAREN tk) by (rewrite Wp; discriminate).
      rewrite Wp. cbn [plain_type andb]. f_equal. apply IH; assumption.
    + destruct Wp as [Wy Wk].
      rewrite (is_false RPAREN ty) by (rewrite Wy; discriminate). rewrite (is_false LPAREN ty) by (rewrite Wy; discriminate).
      rewrite (is_false RPAREN tk) by (rewrite Wk; discriminate). rewrite (is_false LPAREN tk) by (rewrite Wk; discriminate).
      rewrite Wy, Wk. cbn [plain_type andb]. f_equal. f_equal. apply IH; assumption.
Qed.

Lemma retok_more_stream rp rest : is RPAREN rp = true -> forall more,
  Forall (fun cg => ttype (Datatypes.fst cg) = COMMA /\ Forall wfp (Datatypes.snd cg)) more ->
  forallb no_subparser (flat_map (@Datatypes.snd _ _) more) = true ->
  forall d, depth_e d (flat_more more) = Some 0%nat ->
  retok_stream c sel d (more_toks more ++ rp :: rest) =
  more_toks (map (fun cg => (Datatypes.fst cg, retok_group c sel (Datatypes.snd cg))) more) ++ rp :: rest.
Proof.
  intros Hrp. induction more as [|[cm g] m IH]; intros W NS d D.
  - cbn in D. inversion D; subst. cbn [more_toks flat_map app retok_stream map]. now rewrite Hrp.
  - inversion W as [|? ? [Wc Wg] Wm]; subst. cbn [Datatypes.fst Datatypes.snd] in *.
    cbn [flat_map Datatypes.snd] in NS. rewrite forallb_app in NS. apply andb_true_iff in NS. destruct NS as [NSg NSm].
    change (flat_more ((cm, g) :: m)) with (EComma cm :: map EP g ++ flat_more m) in D. cbn [depth_e] in D. rewrite depth_e_app, depth_e_map in D.
    destruct (depth_g d g) as [d'|] eqn:Dg; [|discriminate].
    unfold more_toks in *. cbn [flat_map map Datatypes.fst Datatypes.snd]. rewrite <- !app_assoc. cbn [app retok_stream].
    rewrite (is_false RPAREN cm) by (rewrite Wc; discriminate). rewrite (is_false LPAREN cm) by (rewrite Wc; discriminate).
    rewrite Wc. cbn [plain_type andb]. f_equal.
    rewrite (retok_group_stream g Wg NSg d d' _ Dg). f_equal. apply IH; assumption.
Qed.

Lemma retok_args_stream (a : arglist) rp rest :
  wf_args switches env_errors parse_format a -> forallb no_subparser (args_pieces a) = true -> balanced (flat a) -> ttype rp = RPAREN ->
  retok_stream c sel 0 (arg_tokens a ++ rp :: rest) = arg_tokens (retok_args c sel a) ++ rp :: rest.
Proof.
  destruct a as [g m]. intros [W1 W2] NS B Hrp. cbn [Datatypes.fst Datatypes.snd] in *.
  unfold args_pieces in NS. cbn [Datatypes.fst Datatypes.snd] in NS. rewrite forallb_app in NS. apply andb_true_iff in NS. destruct NS as [NSg NSm].
  apply balanced_iff_depth in B. unfold flat in B. cbn [Datatypes.fst Datatypes.snd] in B. rewrite depth_e_app, depth_e_map in B.
  destruct (depth_g 0 g) as [d'|] eqn:Dg; [|discriminate].
  unfold arg_tokens, retok_args. cbn [Datatypes.fst Datatypes.snd]. rewrite <- !app_assoc.
  rewrite (retok_group_stream g W1 NSg 0%nat d' _ Dg). f_equal.
  apply retok_more_stream; [apply is_true; exact Hrp|exact W2|exact NSm|exact B].
Qed.
End STREAM.

Section STREAMTWIN.
Variable switches : list (text * text).
Variable env_errors : bool.
Variable parse_format : toks -> res (token * text * text * toks).
Hypothesis parse_format_advs : forall ts tk v sty ts', parse_format ts = Ok (tk, v, sty, ts') -> forall a, advs a ts -> advs a ts'.

(* general form: table c on the source, table c' on the twin *)
Theorem command_stmt_twin_stream_rel c c' sel f script name lp r cm imp ts' :
  eof_ended (name :: lp :: r) -> Forall no_subparser_tok (name :: lp :: r) -> ttype lp = LPAREN ->
  (forall tk, sel tk = true -> creplace c' (creplace c (tlit tk)) = creplace c (tlit tk)) ->
  (forall tk, sel tk = false -> creplace c' (tlit tk) = creplace c (tlit tk)) ->
  command_stmt switches env_errors parse_format c f script (name :: lp :: r) = Ok (cm, imp, ts') ->
  forall f', (List.length r < f')%nat ->
  command_stmt switches env_errors parse_format c' f' script (name :: lp :: retok_stream c sel 0 r) = Ok (cm, imp, ts').
Proof.
  intros EE NS Hlp H1 H0 H f' F.
  assert (P : peekis LPAREN (name :: lp :: r) = true) by (change (is LPAREN lp = true); apply is_true; exact Hlp).
  destruct (command_stmt_accepted_plain switches env_errors parse_format c parse_format_advs f script _ cm imp ts' EE NS P H)
    as (name0 & lp0 & a & rp & rest & E1 & E2 & _ & Hrp & W & B & Ec & Ei).
  inversion E1; subst name0 lp0 r. clear E1.
  assert (NSa : forallb no_subparser (args_pieces a) = true).
  { apply (args_no_sub switches env_errors parse_format a (rp :: rest)); [apply wf_args_at_of_wf_args; [exact W|discriminate]|].
    apply Forall_inv_tail, Forall_inv_tail, Forall_app in NS. exact (proj1 NS). }
  rewrite (retok_args_stream switches env_errors parse_format c sel a rp rest W NSa B Hrp).
  rewrite app_length in F. cbn [List.length] in F.
  rewrite (command_arguments_twin_rel switches env_errors parse_format c c' f' script name lp a (retok_args c sel a) rp rest Hlp Hrp W B ltac:(lia)
             (arel_retok c c' sel a H1 H0)).
  rewrite (command_with_arguments switches env_errors parse_format c f' script name lp a rp rest Hlp Hrp W B ltac:(lia)).
  subst cm imp ts'. reflexivity.
Qed.

(* SITE 1, every accepted command without format()/moves(): all uses replaced, EMPTY table *)
Theorem command_stmt_twin_stream_all c f script name lp r cm imp ts' :
  eof_ended (name :: lp :: r) -> Forall no_subparser_tok (name :: lp :: r) -> ttype lp = LPAREN ->
  command_stmt switches env_errors parse_format c f script (name :: lp :: r) = Ok (cm, imp, ts') ->
  forall f', (List.length r < f')%nat ->
  command_stmt switches env_errors parse_format [] f' script (name :: lp :: retok_stream c (fun _ => true) 0 r) = Ok (cm, imp, ts').
Proof.
  intros EE NS Hlp H f' F. eapply command_stmt_twin_stream_rel; try eassumption; [intros; apply creplace_nil|discriminate].
Qed.

(* SITE 1, every accepted command without format()/moves(): the selected uses of the constant x replaced by its value v, SAME table *)
Theorem command_stmt_twin_stream_const c x v sel f script name lp r cm imp ts' :
  assoc c x = Some v -> assoc c v = None ->
  (forall tk, sel tk = true -> tlit tk = x) ->
  eof_ended (name :: lp :: r) -> Forall no_subparser_tok (name :: lp :: r) -> ttype lp = LPAREN ->
  command_stmt switches env_errors parse_format c f script (name :: lp :: r) = Ok (cm, imp, ts') ->
  forall f', (List.length r < f')%nat ->
  command_stmt switches env_errors parse_format c f' script (name :: lp :: retok_stream c sel 0 r) = Ok (cm, imp, ts').
Proof.
  intros Hx Hv S EE NS Hlp H f' F. eapply command_stmt_twin_stream_rel; try eassumption; [|reflexivity].
  intros tk St. rewrite (S tk St). unfold creplace at 2 3. rewrite Hx. unfold creplace. now rewrite Hv.
Qed.
End STREAMTWIN.

Module StreamExamples.
Import TwinExamples.
Lemma pf0_advs : forall ts tk v sty ts', pf0 ts = Ok (tk, v, sty, ts') -> forall a, advs a ts -> advs a ts'.
Proof. discriminate. Qed.
Definition consts2 : list (text * text) := [(t "FOO", t "5"); (t "BAR", t "VAR_B")].
(* hypotheses of the stream theorems hold of a lexer output; the rewritten stream is the source with the values written out;
   the name "FOO" of the COMMAND (not an argument) is not rewritten; one use only (selected by its column) under the same table *)
Example ex_stream :
  let ts := lex0 "FOO(VAR_A, FOO, (BAR FOO), ""hi"") FOO" in
  exists name lp r, ts = name :: lp :: r /\ eof_ended ts /\ Forall no_subparser_tok ts /\ ttype lp = LPAREN /\
    map tlit (name :: lp :: retok_stream consts2 (fun _ => true) 0 r)
      = [t "FOO"; t "("; t "VAR_A"; t ","; t "5"; t ","; t "("; t "VAR_B"; t "5"; t ")"; t ","; t "hi"; t ")"; t "FOO"; []] /\
    map tlit (name :: lp :: retok_stream consts2 (fun tk => text_eqb (tlit tk) (t "FOO") && (tsb tk =? 11)%Z) 0 r)
      = [t "FOO"; t "("; t "VAR_A"; t ","; t "5"; t ","; t "("; t "BAR"; t "FOO"; t ")"; t ","; t "hi"; t ")"; t "FOO"; []] /\
    exists cm imp ts', command_stmt [] false pf0 consts2 30 (t "S") ts = Ok (cm, imp, ts') /\
                       cargs cm = [t "VAR_A"; t "5"; t "( VAR_B 5 )"; []].
Proof.
  intros ts. eexists _, _, _. split; [vm_compute; reflexivity|]. split; [split; [discriminate|vm_compute; reflexivity]|].
  split; [vm_compute; repeat constructor; discriminate|]. split; [reflexivity|]. split; [vm_compute; reflexivity|].
  split; [vm_compute; reflexivity|]. eexists _, _, _. split; vm_compute; reflexivity.
Qed.
End StreamExamples.

(* ================= SITES 2-4 (and the loop of SITE 5): the collecting loops ================= *)
(* [retok_until c stop ts]: rewrite every token up to (not including) the first token on which [stop] holds. *)
Fixpoint retok_until (c : list (text * text)) (stop : token -> bool) (ts : list token) : list token :=
  match ts with [] => [] | tk :: r => if stop tk then ts else retok c tk :: retok_until c stop r end.

Lemma is_retok c ty tk : is ty (retok c tk) = is ty tk.
Proof. reflexivity. Qed.
Lemma retok_until_ne c stop ts : ts <> [] -> retok_until c stop ts <> [].
Proof. destruct ts as [|tk r]; [congruence|]. intros _. cbn [retok_until]. destruct (stop tk); discriminate. Qed.
Lemma curis_retok_until c stop ty ts : curis ty (retok_until c stop ts) = curis ty ts.
Proof. destruct ts as [|tk r]; [reflexivity|]. cbn [retok_until]. destruct (stop tk); reflexivity. Qed.
Lemma eof_ended_tail x y r : eof_ended (x :: y :: r) -> eof_ended (y :: r).
Proof. intros [_ L]. split; [discriminate|exact L]. Qed.
Lemma eof_ended_single x : eof_ended [x] -> is EOF x = true.
Proof. intros [_ L]. apply is_true. exact L. Qed.

Section LOOPS.
Variable c : list (text * text).

Lemma collect_until_twin stop : (forall tk, stop (retok c tk) = stop tk) ->
  forall f ts parts res, eof_ended ts ->
  collect_until c f stop ts parts = Some res ->
  collect_until [] f stop (retok_until c stop ts) parts = Some res.
Proof.
  intros Hs. induction f as [|f IH]; intros ts parts res EE H; [discriminate|].
  destruct ts as [|tk r]; [destruct EE; congruence|]. cbn [collect_until retok_until cur hd] in *.
  destruct (stop tk) eqn:S; cbn [cur hd]; [rewrite S; exact H|]. rewrite Hs, S.
  destruct r as [|y r'].
  - exfalso. cbn [adv] in H. unfold curis in H. cbn [cur hd] in H. rewrite (eof_ended_single _ EE) in H. discriminate.
  - rewrite adv_cons by (apply retok_until_ne; discriminate). cbn [adv] in H. rewrite curis_retok_until.
    destruct (curis EOF (y :: r')); [discriminate|]. apply IH; [eapply eof_ended_tail; exact EE|exact H].
Qed.

Lemma ms_collect_twin stop : (forall tk, stop (retok c tk) = stop tk) ->
  forall f ts acc res, eof_ended ts ->
  ms_collect c f stop ts acc = Some res ->
  ms_collect [] f stop (retok_until c stop ts) acc = Some res.
Proof.
  intros Hs. induction f as [|f IH]; intros ts acc res EE H; [discriminate|].
  destruct ts as [|tk r]; [destruct EE; congruence|]. cbn [ms_collect retok_until cur hd] in *.
  destruct (stop tk) eqn:S; cbn [cur hd]; [rewrite S; exact H|]. rewrite Hs, S.
  destruct r as [|y r'].
  - exfalso. cbn [adv] in H. unfold curis in H. cbn [cur hd] in H. rewrite (eof_ended_single _ EE) in H. discriminate.
  - rewrite adv_cons by (apply retok_until_ne; discriminate). cbn [adv] in H. rewrite curis_retok_until.
    destruct (curis EOF (y :: r')); [discriminate|]. apply IH; [eapply eof_ended_tail; exact EE|exact H].
Qed.

Lemma switch_operand_twin : forall f orig ts parts res, eof_ended ts ->
  switch_operand c f orig ts parts = Ok res ->
  switch_operand [] f orig (retok_until c (is RPAREN) ts) parts = Ok res.
Proof.
  induction f as [|f IH]; intros orig ts parts res EE H; [discriminate|].
  destruct ts as [|tk r]; [destruct EE; congruence|]. cbn [switch_operand] in *. rewrite curis_retok_until. rewrite curis_retok_until.
  unfold curis in *. cbn [retok_until cur hd] in *.
  destruct (is RPAREN tk) eqn:S; [exact H|]. destruct (is EOF tk) eqn:E; [discriminate|]. cbn [cur hd].
  destruct r as [|y r'].
  - exfalso. rewrite (eof_ended_single _ EE) in E. discriminate.
  - rewrite adv_cons by (apply retok_until_ne; discriminate). cbn [adv] in H. apply IH; [eapply eof_ended_tail; exact EE|exact H].
Qed.
End LOOPS.

(* value( ... ): every token up to the parenthesis that closes the value is substituted (parentheses included) *)
Fixpoint retok_value (c : list (text * text)) (d : nat) (ts : list token) : list token :=
  match ts with
  | [] => []
  | tk :: r =>
      if is LPAREN tk then retok c tk :: retok_value c (S d) r
      else if is RPAREN tk then match d with O => ts | S d' => retok c tk :: retok_value c d' r end
      else retok c tk :: retok_value c d r
  end.
Lemma retok_value_ne c d ts : ts <> [] -> retok_value c d ts <> [].
Proof. destruct ts as [|tk r]; [congruence|]. intros _. cbn [retok_value]. destruct (is LPAREN tk); [discriminate|]. destruct (is RPAREN tk); [destruct d|]; discriminate. Qed.
Lemma curis_retok_value c d ty ts : curis ty (retok_value c d ts) = curis ty ts.
Proof. destruct ts as [|tk r]; [reflexivity|]. cbn [retok_value]. destruct (is LPAREN tk); [reflexivity|]. destruct (is RPAREN tk); [destruct d|]; reflexivity. Qed.

Lemma value_parts_twin c : forall f vtok ts depth parts res, eof_ended ts ->
  value_parts c f vtok ts depth parts = Ok res ->
  value_parts [] f vtok (retok_value c depth ts) depth parts = Ok res.
Proof.
  induction f as [|f IH]; intros vtok ts depth parts res EE H; [discriminate|].
  destruct ts as [|tk r]; [destruct EE; congruence|]. cbn [value_parts] in *. cbv zeta in *.
  rewrite !curis_retok_value. unfold curis in H |- *. cbn [cur hd] in H |- *.
  assert (GO : forall d, (if is EOF (cur (adv (tk :: r))) then err_tok vtok "missing ')' when evaluating 'value'"
                 else value_parts c f vtok (adv (tk :: r)) d (parts ++ [creplace c (tlit tk)])) = Ok res ->
           (if is EOF (cur (adv (retok c tk :: retok_value c d r))) then err_tok vtok "missing ')' when evaluating 'value'"
                 else value_parts [] f vtok (adv (retok c tk :: retok_value c d r)) d (parts ++ [creplace [] (tlit (cur (retok c tk :: retok_value c d r)))])) = Ok res).
  { intros d G. destruct r as [|y r'].
    - exfalso. cbn [adv cur hd] in G. rewrite (eof_ended_single _ EE) in G. discriminate.
    - rewrite adv_cons by (apply retok_value_ne; discriminate). cbn [adv] in G.
      change (is EOF (cur (retok_value c d (y :: r')))) with (curis EOF (retok_value c d (y :: r'))). rewrite curis_retok_value.
      change (curis EOF (y :: r')) with (is EOF (cur (y :: r'))).
      destruct (is EOF (cur (y :: r'))); [discriminate|]. apply IH; [eapply eof_ended_tail; exact EE|exact G]. }
  cbn [retok_value].
  destruct (is LPAREN tk) eqn:LP; [apply GO; exact H|].
  destruct (is RPAREN tk) eqn:RP; [|apply GO; exact H].
  destruct depth as [|d]; [exact H|apply GO; exact H].
Qed.

(* ================= SITE 3: comparison values (cond_var_operator) ================= *)
Definition cmp_stop (tk : token) : bool := is RPAREN tk || is AND tk || is OR tk.
(* the twin stream: cur = the comparison operator; the value after it is rewritten - up to ')' '&&' '||', or, in the
   value( ... ) form, everything between "value (" and its closing parenthesis *)
Definition retok_cmp (c : list (text * text)) (ts : list token) : list token :=
  match ts with
  | [] => []
  | otk :: ts1 =>
     match is_cmp_tok otk with
     | None => ts
     | Some _ => otk :: (if curis VALUE ts1 then match ts1 with v :: lp :: r => v :: lp :: retok_value c 0 r | _ => ts1 end
                         else retok_until c cmp_stop ts1)
     end
  end.

Theorem comparison_value_twin c f ts res : eof_ended ts ->
  cond_var_operator c f ts = Ok res -> cond_var_operator [] f (retok_cmp c ts) = Ok res.
Proof.
  intros EE H. destruct ts as [|otk ts1]; [destruct EE; congruence|].
  unfold cond_var_operator in *. cbv zeta in *. cbn [retok_cmp]. cbn [cur hd] in H.
  destruct (is_cmp_tok otk) as [o|] eqn:C.
  2:{ cbn [cur hd]. rewrite C. exact H. }
  cbn [cur hd]. rewrite C.
  destruct ts1 as [|y r].
  { exfalso. destruct EE as [_ L]. cbn in L. unfold is_cmp_tok in C. rewrite L in C. discriminate. }
  cbn [adv] in H.
  destruct (curis VALUE (y :: r)) eqn:V.
  - pose proof V as Vy. unfold curis in Vy. cbn [cur hd] in Vy. apply is_eq in Vy.
    destruct r as [|lp r2].
    { exfalso. unfold curis, expect_peek, peekis, pk in H. cbn [cur hd nth last] in H.
      rewrite (is_false RPAREN y), (is_false LPAREN y) in H by (rewrite Vy; discriminate). discriminate. }
    destruct r2 as [|z r3].
    { exfalso. destruct EE as [_ L]. cbn [last] in L. unfold curis, expect_peek, peekis, pk in H. cbn [cur hd nth last] in H.
      rewrite (is_false RPAREN y) in H by (rewrite Vy; discriminate). rewrite (is_false LPAREN lp) in H by (rewrite L; discriminate). discriminate. }
    rewrite adv_cons by discriminate. unfold curis in H |- *. cbn [cur hd] in H |- *. unfold curis in V. cbn [cur hd] in V.
    destruct (is RPAREN y); [discriminate|]. rewrite V.
    unfold expect_peek, peekis, pk in H |- *. cbn [nth] in H |- *. destruct (is LPAREN lp); [|exact H].
    rewrite adv_cons by discriminate. rewrite adv_cons by (apply retok_value_ne; discriminate). cbn [adv] in H.
    destruct (value_parts c f y (z :: r3) 0 []) as [[parts ts3]| | |] eqn:VP; try discriminate.
    rewrite (value_parts_twin c f y (z :: r3) 0%nat [] _ (eof_ended_tail _ _ _ (eof_ended_tail _ _ _ (eof_ended_tail _ _ _ EE))) VP). exact H.
  - rewrite adv_cons by (apply retok_until_ne; discriminate). rewrite !curis_retok_until. rewrite V.
    destruct (curis RPAREN (y :: r)); [discriminate|].
    change (fun tk : token => is RPAREN tk || is AND tk || is OR tk) with cmp_stop in H |- *.
    destruct (collect_until c f cmp_stop (y :: r) []) as [[parts ts2]|] eqn:CU; [|discriminate].
    rewrite (collect_until_twin c cmp_stop ltac:(reflexivity) f (y :: r) [] _ (eof_ended_tail _ _ _ EE) CU). exact H.
Qed.

Module CmpExamples.
Import TwinExamples.
Example ex_comparison_twin :
  let c := [(t "FOO", t "5"); (t "BAR", t "( 1 + FOO )")] in
  let ts1 := lex0 "== FOO BAR ) {" in
  let ts2 := lex0 "!= value(FOO (BAR)) ) {" in
  eof_ended ts1 /\ eof_ended ts2 /\
  map tlit (retok_cmp c ts1) = [t "=="; t "5"; t "( 1 + FOO )"; t ")"; t "{"; []] /\
  map tlit (retok_cmp c ts2) = [t "!="; t "value"; t "("; t "5"; t "("; t "( 1 + FOO )"; t ")"; t ")"; t ")"; t "{"; []] /\
  (exists r, cond_var_operator c 20 ts1 = Ok (OEq, t "5 ( 1 + FOO )", false, r) /\ cond_var_operator [] 20 (retok_cmp c ts1) = Ok (OEq, t "5 ( 1 + FOO )", false, r)) /\
  (exists r, cond_var_operator c 20 ts2 = Ok (ONe, t "( 5 ( ( 1 + FOO ) ) )", true, r) /\ cond_var_operator [] 20 (retok_cmp c ts2) = Ok (ONe, t "( 5 ( ( 1 + FOO ) ) )", true, r)).
Proof.
  intros c ts1 ts2. split; [split; [discriminate|vm_compute; reflexivity]|]. split; [split; [discriminate|vm_compute; reflexivity]|].
  split; [vm_compute; reflexivity|]. split; [vm_compute; reflexivity|].
  split; eexists; split; vm_compute; reflexivity.
Qed.
End CmpExamples.

(* ================= SITE 2: operand of var() / flag() / defeated() (leaf_expr), with its comparison value ================= *)
Fixpoint retok_until_k (c : list (text * text)) (stop : token -> bool) (k : list token -> list token) (ts : list token) : list token :=
  match ts with [] => [] | tk :: r => if stop tk then k ts else retok c tk :: retok_until_k c stop k r end.

Section LOOPK.
Variable c : list (text * text).
Variable stop : token -> bool.
Variable k : list token -> list token.
Hypothesis Hs : forall tk, stop (retok c tk) = stop tk.
Hypothesis K : forall tk r, stop tk = true -> exists r', k (tk :: r) = tk :: r'.

Lemma retok_until_k_ne ts : ts <> [] -> retok_until_k c stop k ts <> [].
Proof.
  destruct ts as [|tk r]; [congruence|]. intros _. cbn [retok_until_k]. destruct (stop tk) eqn:S; [|discriminate].
  destruct (K tk r S) as [r' E]. rewrite E. discriminate.
Qed.
Lemma curis_retok_until_k ty ts : curis ty (retok_until_k c stop k ts) = curis ty ts.
Proof.
  destruct ts as [|tk r]; [reflexivity|]. cbn [retok_until_k]. destruct (stop tk) eqn:S; [|reflexivity].
  destruct (K tk r S) as [r' E]. rewrite E. reflexivity.
Qed.
Lemma collect_until_twin_k : forall f ts parts p ts', eof_ended ts ->
  collect_until c f stop ts parts = Some (p, ts') ->
  collect_until [] f stop (retok_until_k c stop k ts) parts = Some (p, k ts').
Proof.
  induction f as [|f IH]; intros ts parts p ts' EE H; [discriminate|].
  destruct ts as [|tk r]; [destruct EE; congruence|]. cbn [collect_until retok_until_k cur hd] in *.
  destruct (stop tk) eqn:S.
  - inversion H; subst. destruct (K tk r S) as [r' E]. rewrite E. cbn [cur hd]. rewrite S. reflexivity.
  - cbn [cur hd]. rewrite Hs, S.
    destruct r as [|y r'].
    + exfalso. cbn [adv] in H. unfold curis in H. cbn [cur hd] in H. rewrite (eof_ended_single _ EE) in H. discriminate.
    + rewrite adv_cons by (apply retok_until_k_ne; discriminate). cbn [adv] in H. rewrite curis_retok_until_k.
      destruct (curis EOF (y :: r')); [discriminate|]. apply IH; [eapply eof_ended_tail; exact EE|exact H].
Qed.
End LOOPK.

Section LEAF.
Variable autovars : list (text * autovar).
Variable switches : list (text * text).
Variable env_errors : bool.
Variable parse_format : toks -> res (token * text * text * toks).

(* the body of Parser.leaf_expr after the optional '!' has been looked at (proof device: leaf_expr_body shows it IS leaf_expr) *)
Definition leaf_body (consts : list (text * text)) (fuel : nat) (script : text) (used_not : bool) (ts : toks) : res (leaf * impdata * toks) :=
  let isauto := peek_is_autovar autovars ts in
  if negb (peekis VAR ts) && negb isauto && negb (peekis FLAG ts) && negb (peekis DEFEATED ts) then
    err_tok (pk 1 ts) "left side of binary expression must be var(), flag(), defeated(), or autovar command"
  else
    do (kind, opnd, opline, pre, imp, ts3) <-
       (if negb isauto then
          let ts1 := adv ts in
          let otk := cur ts1 in
          let kind := if is VAR otk then KVar else if is FLAG otk then KFlag else KDefeated in
          match expect_peek LPAREN ts1 with
          | None => err_range otk (pk 1 ts1) "missing opening parenthesis for condition operator"
          | Some ts2 =>
              if peekis RPAREN ts2 then err_range otk (pk 1 ts2) "missing value for condition operator" else
              let ts3 := adv ts2 in
              match collect_until consts fuel (is RPAREN) ts3 [] with
              | None => err_tok otk "missing closing ')' for condition operator value"
              | Some (parts, ts4) => Ok (kind, join sp parts, tline (cur ts3), None, imp0, ts4)
              end
          end
        else
          do (r, imp, ts1) <- var_or_autovar autovars switches env_errors parse_format consts fuel script ts;
          match r with
          | Some (v, c) => Ok (KVar, v, tline (ctok c), Some c, imp, ts1)
          | None => Panic
          end);
    let ts4 := adv ts3 in
    if used_not then
      let v := match kind with KVar => t "0" | _ => t "FALSE" end in
      Ok ({| lk := kind; loperand := opnd; lline := opline; lop := OEq; lvalue := v; lstrict := false; lpre := pre |}, imp, ts4)
    else
      match kind with
      | KVar => do (o, v, strict, ts5) <- cond_var_operator consts fuel ts4;
                Ok ({| lk := kind; loperand := opnd; lline := opline; lop := o; lvalue := v; lstrict := strict; lpre := pre |}, imp, ts5)
      | KFlag => do (o, v, ts5) <- cond_flag_operator ts4 "flag";
                Ok ({| lk := kind; loperand := opnd; lline := opline; lop := o; lvalue := v; lstrict := false; lpre := pre |}, imp, ts5)
      | KDefeated => do (o, v, ts5) <- cond_flag_operator ts4 "defeated";
                Ok ({| lk := kind; loperand := opnd; lline := opline; lop := o; lvalue := v; lstrict := false; lpre := pre |}, imp, ts5)
      end.
Lemma leaf_expr_body consts fuel script ts0 :
  leaf_expr autovars switches env_errors parse_format consts fuel script ts0 =
  if peekis NOT ts0 then leaf_body consts fuel script true (adv ts0) else leaf_body consts fuel script false ts0.
Proof. unfold leaf_expr, leaf_body. destruct (peekis NOT ts0); reflexivity. Qed.

Definition kclose (c : list (text * text)) (cmp : bool) (s : list token) : list token :=
  match s with rp :: rest => rp :: (if cmp then retok_cmp c rest else rest) | [] => [] end.
(* ts = x kw ( operand ) [op value]: the operand tokens up to ')' are rewritten, and (cmp, kw = var) the comparison value after it *)
Definition retok_opnd (c : list (text * text)) (cmp : bool) (ts : list token) : list token :=
  match ts with
  | x :: kw :: lp :: r => x :: kw :: lp :: retok_until_k c (is RPAREN) (kclose c (cmp && is VAR kw)) r
  | _ => ts
  end.
Lemma retok_cmp_ne c ts : ts <> [] -> retok_cmp c ts <> [].
Proof. destruct ts as [|x r]; [congruence|]. intros _. cbn [retok_cmp]. destruct (is_cmp_tok x); discriminate. Qed.
Lemma pk1_retok_opnd c cmp ts : pk 1 (retok_opnd c cmp ts) = pk 1 ts.
Proof. destruct ts as [|x [|kw [|lp r]]]; reflexivity. Qed.
Lemma peekis_retok_opnd c cmp ty ts : peekis ty (retok_opnd c cmp ts) = peekis ty ts.
Proof. unfold peekis. now rewrite pk1_retok_opnd. Qed.
Lemma paa_retok_opnd c cmp ts : peek_is_autovar autovars (retok_opnd c cmp ts) = peek_is_autovar autovars ts.
Proof. unfold peek_is_autovar. now rewrite peekis_retok_opnd, pk1_retok_opnd. Qed.
Lemma kclose_K c cmp : forall tk r, is RPAREN tk = true -> exists r', kclose c cmp (tk :: r) = tk :: r'.
Proof. intros tk r _. eexists. reflexivity. Qed.

Lemma leaf_body_twin c f script used_not ts res : eof_ended ts -> peek_is_autovar autovars ts = false ->
  leaf_body c f script used_not ts = Ok res -> leaf_body [] f script used_not (retok_opnd c (negb used_not) ts) = Ok res.
Proof.
  intros EE PA H. unfold leaf_body in *. cbv zeta in *.
  rewrite !peekis_retok_opnd, paa_retok_opnd, PA. rewrite PA in H.
  destruct (negb (peekis VAR ts) && negb false && negb (peekis FLAG ts) && negb (peekis DEFEATED ts)); [discriminate|].
  cbn [negb] in H |- *.
  destruct ts as [|x [|kw [|lp [|z r']]]]; [destruct EE; congruence| | | |].
  1-3: exfalso; destruct EE as [_ L]; cbn [last] in L; cbn [adv] in H; unfold expect_peek, peekis, pk in H; cbn [nth last] in H;
       rewrite (is_false LPAREN _) in H by (rewrite L; discriminate); discriminate.
  cbn [retok_opnd]. set (k := kclose c (negb used_not && is VAR kw)).
  cbn [adv] in H |- *. unfold expect_peek, peekis, pk in H |- *. cbn [nth adv cur hd] in H |- *.
  destruct (is LPAREN lp) eqn:LP; [|discriminate]. cbv beta iota in H |- *. cbn [nth] in H.
  destruct (is RPAREN z) eqn:Rz; [discriminate|].
  assert (EZ : retok_until_k c (is RPAREN) k (z :: r') = retok c z :: retok_until_k c (is RPAREN) k r') by (cbn [retok_until_k]; now rewrite Rz).
  rewrite EZ. cbn [nth adv cur hd] in H |- *. rewrite is_retok, Rz. cbv beta iota in H |- *.
  assert (EE3 : eof_ended (z :: r')) by (apply (eof_ended_tail lp), (eof_ended_tail kw), (eof_ended_tail x); exact EE).
  destruct (collect_until c f (is RPAREN) (z :: r') []) as [[parts ts4]|] eqn:CU; [|discriminate].
  pose proof (collect_until_twin_k c (is RPAREN) k ltac:(reflexivity) (kclose_K c _) f (z :: r') [] parts ts4 EE3 CU) as CU'.
  rewrite EZ in CU'. rewrite CU'. cbv beta iota in H |- *. change (tline (retok c z)) with (tline z).
  destruct (ConstSites.collect_until_site c f (is RPAREN) (z :: r') [] parts ts4 CU EE3) as (seg & _ & _ & ST & EE4 & _).
  destruct ts4 as [|rp [|w rest]]; [destruct EE4; congruence| |].
  { exfalso. cbn [cur hd] in ST. apply is_eq in ST. destruct EE4 as [_ L]. cbn [last] in L. congruence. }
  assert (EEw : eof_ended (w :: rest)) by (apply (eof_ended_tail rp); exact EE4).
  unfold k. cbn [kclose]. destruct used_not.
  - cbn [negb andb]. exact H.
  - cbn [negb andb]. destruct (is VAR kw) eqn:VK; [|destruct (is FLAG kw); exact H].
    rewrite adv_cons by (apply retok_cmp_ne; discriminate). cbn [adv] in H.
    destruct (cond_var_operator c f (w :: rest)) as [[[[o v] st] ts5]| | |] eqn:CV; try discriminate.
    rewrite (comparison_value_twin c f _ _ EEw CV). exact H.
Qed.

(* the twin stream of a leaf: cur x, then optional '!', then  kw ( operand ) [op value] *)
Definition retok_leaf (c : list (text * text)) (ts0 : list token) : list token :=
  if peekis NOT ts0 then match ts0 with x :: r => x :: retok_opnd c false r | [] => [] end else retok_opnd c true ts0.

(* SITE 2 (+ SITE 3 behind it): var(...) / flag(...) / defeated(...) leaves *)
Theorem condition_operand_twin c f script ts0 res : eof_ended ts0 ->
  peek_is_autovar autovars (if peekis NOT ts0 then adv ts0 else ts0) = false ->
  leaf_expr autovars switches env_errors parse_format c f script ts0 = Ok res ->
  leaf_expr autovars switches env_errors parse_format [] f script (retok_leaf c ts0) = Ok res.
Proof.
  intros EE PA H. rewrite leaf_expr_body in H |- *. unfold retok_leaf.
  destruct (peekis NOT ts0) eqn:PN.
  - destruct ts0 as [|x [|n r]]; [destruct EE; congruence| |].
    { exfalso. unfold peekis, pk in PN. cbn [nth last] in PN. apply is_eq in PN. destruct EE as [_ L]. cbn [last] in L. congruence. }
    assert (PN' : peekis NOT (x :: retok_opnd c false (n :: r)) = true).
    { destruct r as [|a [|b r]]; exact PN. }
    rewrite PN'. rewrite adv_cons by (destruct r as [|a [|b r]]; discriminate). cbn [adv] in H, PA.
    apply (leaf_body_twin c f script true (n :: r) res (eof_ended_tail _ _ _ EE) PA H).
  - rewrite peekis_retok_opnd, PN. apply (leaf_body_twin c f script false ts0 res EE PA H).
Qed.
End LEAF.

Module LeafExamples.
Import TwinExamples.
Example ex_leaf_twin :
  let c := [(t "FOO", t "5"); (t "VAR_X", t "VAR_TEMP_1")] in
  let ts := lex0 "( var(VAR_X) == FOO ) {" in
  let ts' := lex0 "( !flag(FOO) ) {" in
  eof_ended ts /\ peek_is_autovar [] (if peekis NOT ts then adv ts else ts) = false /\
  map tlit (retok_leaf c ts) = [t "("; t "var"; t "("; t "VAR_TEMP_1"; t ")"; t "=="; t "5"; t ")"; t "{"; []] /\
  map tlit (retok_leaf c ts') = [t "("; t "!"; t "flag"; t "("; t "5"; t ")"; t ")"; t "{"; []] /\
  (exists l i r, leaf_expr [] [] false pf0 c 20 (t "S") ts = Ok (l, i, r) /\ leaf_expr [] [] false pf0 [] 20 (t "S") (retok_leaf c ts) = Ok (l, i, r) /\
                 loperand l = t "VAR_TEMP_1" /\ lvalue l = t "5") /\
  (exists l i r, leaf_expr [] [] false pf0 c 20 (t "S") ts' = Ok (l, i, r) /\ leaf_expr [] [] false pf0 [] 20 (t "S") (retok_leaf c ts') = Ok (l, i, r) /\
                 loperand l = t "5").
Proof.
  intros c ts ts'. split; [split; [discriminate|vm_compute; reflexivity]|]. split; [vm_compute; reflexivity|].
  split; [vm_compute; reflexivity|]. split; [vm_compute; reflexivity|].
  split; eexists _, _, _; repeat (split; [vm_compute; reflexivity|]); vm_compute; reflexivity.
Qed.
End LeafExamples.

(* ================= SITE 4: switch operand and case values, twin under the SAME table ================= *)
(* (under the empty table the bodies of the cases would have to be rewritten too: that is the program-level twin, not proved here) *)
Lemma length_retok_until c stop ts : List.length (retok_until c stop ts) = List.length ts.
Proof. induction ts as [|tk r IH]; [reflexivity|]. cbn [retok_until]. destruct (stop tk); [reflexivity|]. cbn [List.length]. now rewrite IH. Qed.
Lemma tline_cur_retok_until c stop ts : tline (cur (retok_until c stop ts)) = tline (cur ts).
Proof. destruct ts as [|tk r]; [reflexivity|]. cbn [retok_until]. destruct (stop tk); reflexivity. Qed.

Section LOOPS2.
Variables c c' : list (text * text).
Hypothesis Hcc : forall x, creplace c' (creplace c x) = creplace c x.

Lemma collect_until_twin2 stop : (forall tk, stop (retok c tk) = stop tk) ->
  forall f ts parts res, eof_ended ts ->
  collect_until c f stop ts parts = Some res ->
  collect_until c' f stop (retok_until c stop ts) parts = Some res.
Proof.
  intros Hs. induction f as [|f IH]; intros ts parts res EE H; [discriminate|].
  destruct ts as [|tk r]; [destruct EE; congruence|]. cbn [collect_until retok_until cur hd] in *.
  destruct (stop tk) eqn:S; cbn [cur hd]; [rewrite S; exact H|]. rewrite Hs, S.
  change (tlit (retok c tk)) with (creplace c (tlit tk)). rewrite Hcc.
  destruct r as [|y r'].
  - exfalso. cbn [adv] in H. unfold curis in H. cbn [cur hd] in H. rewrite (eof_ended_single _ EE) in H. discriminate.
  - rewrite adv_cons by (apply retok_until_ne; discriminate). cbn [adv] in H. rewrite curis_retok_until.
    destruct (curis EOF (y :: r')); [discriminate|]. apply IH; [eapply eof_ended_tail; exact EE|exact H].
Qed.

Lemma switch_operand_twin2 : forall f orig ts parts res, eof_ended ts ->
  switch_operand c f orig ts parts = Ok res ->
  switch_operand c' f orig (retok_until c (is RPAREN) ts) parts = Ok res.
Proof.
  induction f as [|f IH]; intros orig ts parts res EE H; [discriminate|].
  destruct ts as [|tk r]; [destruct EE; congruence|]. cbn [switch_operand] in *. rewrite curis_retok_until. rewrite curis_retok_until.
  unfold curis in *. cbn [retok_until cur hd] in *.
  destruct (is RPAREN tk) eqn:S; [exact H|]. destruct (is EOF tk) eqn:E; [discriminate|]. cbn [cur hd].
  change (tlit (retok c tk)) with (creplace c (tlit tk)). rewrite Hcc.
  destruct r as [|y r'].
  - exfalso. rewrite (eof_ended_single _ EE) in E. discriminate.
  - rewrite adv_cons by (apply retok_until_ne; discriminate). cbn [adv] in H. apply IH; [eapply eof_ended_tail; exact EE|exact H].
Qed.
End LOOPS2.

Section SWITCH.
Variable autovars : list (text * autovar).
Variable switches : list (text * text).
Variable env_errors : bool.
Variable parse_format : toks -> res (token * text * text * toks).
Variable c : list (text * text).
(* no constant's value is itself rewritten by the table (necessary: TwinExamples.side_condition_necessary) *)
Hypothesis stable : forall x, creplace c (creplace c x) = creplace c x.

(* one case value:  case V... :  *)
Theorem case_value_twin f script bs cs brace ts acc seen hasdef imp res :
  eof_ended ts -> curis CASE ts = true ->
  parse_cases autovars switches env_errors parse_format c (S f) script bs cs brace ts acc seen hasdef imp = Ok res ->
  parse_cases autovars switches env_errors parse_format c (S f) script bs cs brace (cur ts :: retok_until c (is COLON) (adv ts)) acc seen hasdef imp = Ok res.
Proof.
  intros EE CA H. rewrite parse_cases_unfold in H |- *. cbv zeta in H |- *.
  destruct ts as [|ctk [|y r']]; [destruct EE; congruence| |].
  { exfalso. unfold curis in CA. cbn [cur hd] in CA. apply is_eq in CA. destruct EE as [_ L]. cbn [last] in L. congruence. }
  change (adv (ctk :: y :: r')) with (y :: r') in H |- *. rewrite adv_cons by (apply retok_until_ne; discriminate).
  unfold curis in CA, H |- *. cbn [cur hd] in CA, H |- *.
  destruct (is RBRACE ctk) eqn:RB; [exfalso; apply is_eq in RB; pose proof (is_eq _ _ CA); congruence|]. rewrite CA in H |- *.
  destruct (collect_until c f (is COLON) (y :: r') []) as [[parts ts2]|] eqn:CU; [|discriminate].
  rewrite (collect_until_twin2 c c stable (is COLON) ltac:(reflexivity) f (y :: r') [] _ (eof_ended_tail _ _ _ EE) CU).
  change (hd eof0 (retok_until c (is COLON) (y :: r'))) with (cur (retok_until c (is COLON) (y :: r'))).
  rewrite tline_cur_retok_until. exact H.
Qed.

(* the operand of  switch ( var( OPERAND... ) )  *)
Theorem switch_operand_twin_var f script bs cs sw lp v lp2 r res :
  eof_ended (sw :: lp :: v :: lp2 :: r) -> ttype v = VAR ->
  parse_switch autovars switches env_errors parse_format c (S f) script bs cs (sw :: lp :: v :: lp2 :: r) = Ok res ->
  parse_switch autovars switches env_errors parse_format c (S f) script bs cs (sw :: lp :: v :: lp2 :: retok_until c (is RPAREN) r) = Ok res.
Proof.
  intros EE Hv H. rewrite parse_switch_unfold in H |- *. cbv zeta in H |- *.
  cbn [List.length] in H |- *. rewrite length_retok_until.
  unfold expect_peek at 1 in H. unfold expect_peek at 1. unfold peekis at 1 in H. unfold peekis at 1. unfold pk at 1 in H. unfold pk at 1.
  cbn [nth adv cur hd] in H |- *.
  destruct (is LPAREN lp); [|exact H].
  unfold var_or_autovar in H |- *. unfold peekis at 1 in H. unfold peekis at 1. unfold pk at 1 in H. unfold pk at 1.
  cbn [nth] in H |- *. rewrite (is_true VAR v Hv) in H |- *.
  cbn [adv] in H |- *.
  unfold expect_peek at 1 in H. unfold expect_peek at 1. unfold peekis at 1 in H. unfold peekis at 1. unfold pk at 1 in H. unfold pk at 1.
  cbn [nth adv] in H |- *.
  destruct (is LPAREN lp2) eqn:LP2; [|exact H]. cbv beta iota in H |- *.
  destruct r as [|y r'].
  { exfalso. destruct EE as [_ L]. cbn [last] in L. apply is_eq in LP2. congruence. }
  change (adv (lp2 :: y :: r')) with (y :: r') in H. rewrite adv_cons by (apply retok_until_ne; discriminate).
  assert (EEy : eof_ended (y :: r')) by (apply (eof_ended_tail lp2), (eof_ended_tail v), (eof_ended_tail lp), (eof_ended_tail sw); exact EE).
  destruct (switch_operand c f sw (y :: r') []) as [[parts tsx]| | |] eqn:SO; try discriminate.
  rewrite (switch_operand_twin2 c c stable f sw (y :: r') [] _ EEy SO). cbv beta iota in H |- *.
  rewrite tline_cur_retok_until. exact H.
Qed.
End SWITCH.

Module SwitchExamples.
Import TwinExamples.
Definition cS : list (text * text) := [(t "FOO", t "5"); (t "VAR_X", t "VAR_TEMP_1")].
Lemma cS_stable : forall x, creplace cS (creplace cS x) = creplace cS x.
Proof.
  intros x. unfold creplace. destruct (assoc cS x) as [v|] eqn:A; [|rewrite A; reflexivity]. cbn [assoc cS] in A.
  destruct (text_eqb (t "FOO") x); [inversion A; subst; vm_compute; reflexivity|].
  destruct (text_eqb (t "VAR_X") x); [inversion A; subst; vm_compute; reflexivity|discriminate].
Qed.
Example ex_switch_twin :
  let ts := lex0 "switch (var(VAR_X)) { case FOO: end }" in
  exists sw lp v lp2 r, ts = sw :: lp :: v :: lp2 :: r /\ eof_ended ts /\ ttype v = VAR /\
    map tlit (sw :: lp :: v :: lp2 :: retok_until cS (is RPAREN) r) =
      [t "switch"; t "("; t "var"; t "("; t "VAR_TEMP_1"; t ")"; t ")"; t "{"; t "case"; t "FOO"; t ":"; t "end"; t "}"; []] /\
    exists res, parse_switch [] [] false pf0 cS 30 (t "S") [] [] ts = Ok res /\
                parse_switch [] [] false pf0 cS 30 (t "S") [] [] (sw :: lp :: v :: lp2 :: retok_until cS (is RPAREN) r) = Ok res.
Proof.
  intros ts. eexists _, _, _, _, _. split; [vm_compute; reflexivity|]. split; [split; [discriminate|vm_compute; reflexivity]|].
  split; [reflexivity|]. split; [vm_compute; reflexivity|]. eexists. split; vm_compute; reflexivity.
Qed.
End SwitchExamples.
