(* C01, final form: the end-to-end theorem without the relation checker.  Lemma 1 (Worklist.v) shows that the FIFO worklist
   establishes tr_block on its own final chunk graph for every source that passes the executable source check src_okb
   (switches well formed, every 'if' has a first condition, loop / switch tags pairwise distinct - properties of the
   parser's output, independent of the emitter).  What remains validated at run time is the render check wf_render and the
   label check labels_okb. *)
From Coq Require Import List String Ascii ZArith NArith Lia Bool.
From Pory Require Import Lexer Ast Emitter Sem2 SemTgt Tr Check C01Proofs EmitProps RenderSim RenderCheck LabelSim C01Final Worklist.
Import ListNotations.
Open Scope list_scope.
Opaque work_fuel emit_graph work opt_order order_of render_chunks.

Fixpoint nodupnb (l : list nat) : bool :=
  match l with [] => true | x :: r => negb (existsb (Nat.eqb x) r) && nodupnb r end.
Lemma nodupnb_sound l : nodupnb l = true -> NoDup l.
Proof.
  induction l as [|x r IH]; [constructor|]. cbn. intros H. apply andb_prop in H. destruct H as [A B]. constructor; [|apply IH; exact B].
  intros I. apply negb_true_iff in A. assert (E : existsb (Nat.eqb x) r = true) by (apply existsb_exists; exists x; split; [exact I|apply Nat.eqb_refl]).
  congruence.
Qed.

(* the executable source check *)
Definition src_okb (body : list stmt) : bool := okb body && nodupnb (tags body).
Lemma src_okb_sound body : src_okb body = true -> src_ok body.
Proof. unfold src_okb, src_ok. intros H. apply andb_prop in H. destruct H as [A B]. split; [exact A|apply nodupnb_sound; exact B]. Qed.

Section S.
Variable St : Type.
Variable exec : cmd -> St -> stepres St.
Variable flag_set trainer_beaten : text -> St -> bool.
Variable cmp_var cmp_var_value : text -> text -> St -> comparison.
Variable case_matches : text -> text -> St -> bool.

Notation sstep fl := (sstep St exec flag_set trainer_beaten cmp_var cmp_var_value case_matches fl).
Notation tstep code := (tstep St exec flag_set trainer_beaten cmp_var cmp_var_value case_matches code).

(* THE THEOREM of C01: for every abstract game, every script body and both -optimize settings, the emitted instruction list
   started at the script's label and the structured source perform the same commands and finish the same way (two
   simulations).  No premise speaks about the chunk graph any more: Lemma 1 (worklist => tr_block), lemma 2 (graph_sim) and
   lemma 3 (render_step) are unconditional; the two remaining executable premises concern the rendered text (wf_render) and
   the user labels (labels_okb); src_okb and scoped are properties of the parser's output. *)
Theorem emit_script_correct_src
  (mp : option text) (tl : list text) (name : text) (glob optimize : bool) (body : list stmt)
  (w : wst) (code : list instr) :
  emit_graph body = Ok w ->
  emit_script mp tl name glob optimize body = Ok code ->
  src_ok body ->
  wf_render mp name (finals w) (order_of optimize (finals w)) code = true ->
  labels_okb body (finals w) = true ->
  scoped None None body ->
  (forall n s, exists m,
      run sfinal (sstep (fun l => fl_body l body Kstop)) n (enter body Kstop) s = run (@tfinal) (tstep code) m (jump code name) s) /\
  (forall m s, exists n,
      res_le (run (@tfinal) (tstep code) m (jump code name) s) (run sfinal (sstep (fun l => fl_body l body Kstop)) n (enter body Kstop) s)).
Proof.
  intros HW HE HS HR HL HSC.
  destruct (worklist_establishes_tr_block body w HW HS) as (TB & GI & _).
  unfold labels_okb in HL. apply andb_prop in HL. destruct HL as [HL L3]. apply andb_prop in HL. destruct HL as [L1 L2].
  assert (LA : label_lookup_agrees St exec flag_set trainer_beaten cmp_var cmp_var_value case_matches (finals w) (brk w) (org w) (fun l => fl_body l body Kstop)).
  { eapply label_lookup_agrees_holds; eauto.
    - apply nodupt_sound. exact L2.
    - intros n Hn. rewrite forallb_forall in L3. specialize (L3 n Hn). destruct (fl_body n body Kstop); [discriminate|discriminate L3]. }
  pose proof (label_lookup_scoped_holds body HSC) as LS.
  pose proof HE as HE'. unfold emit_script in HE'. rewrite HW in HE'.
  destruct (render_sim_checked St exec flag_set trainer_beaten cmp_var cmp_var_value case_matches _ _ _ _ _ _ _ HE' HR) as [FW BW].
  pose proof (tr_graph_sim St exec flag_set trainer_beaten cmp_var cmp_var_value case_matches (finals w) (brk w) (org w)
                (fun l => fl_body l body Kstop) body GI TB HSC LA LS) as GS.
  split.
  - intros n s. destruct (GS n s) as (m1 & _ & R1). destruct (FW m1 s) as (m2 & R2). exists m2. congruence.
  - intros m s. destruct (BW m s) as (n1 & R1). destruct (GS n1 s) as (m1 & LE & R2).
    exists n1. eapply res_le_trans; [exact R1|]. rewrite R2. apply run_mono. exact LE.
Qed.

Corollary emit_script_correct
  (mp : option text) (tl : list text) (name : text) (glob optimize : bool) (body : list stmt)
  (w : wst) (code : list instr) :
  emit_graph body = Ok w ->
  emit_script mp tl name glob optimize body = Ok code ->
  src_okb body = true ->
  wf_render mp name (finals w) (order_of optimize (finals w)) code = true ->
  labels_okb body (finals w) = true ->
  scoped None None body ->
  (forall n s, exists m,
      run sfinal (sstep (fun l => fl_body l body Kstop)) n (enter body Kstop) s = run (@tfinal) (tstep code) m (jump code name) s) /\
  (forall m s, exists n,
      res_le (run (@tfinal) (tstep code) m (jump code name) s) (run sfinal (sstep (fun l => fl_body l body Kstop)) n (enter body Kstop) s)).
Proof. intros HW HE HS HR HL HSC. eapply emit_script_correct_src; eauto. apply src_okb_sound. exact HS. Qed.

(* C05 (a): -optimize changes layout only *)
Corollary optimize_equiv
  (mp : option text) (tl : list text) (name : text) (glob : bool) (body : list stmt)
  (w : wst) (code0 code1 : list instr) :
  emit_graph body = Ok w ->
  emit_script mp tl name glob false body = Ok code0 ->
  emit_script mp tl name glob true body = Ok code1 ->
  src_okb body = true ->
  wf_render mp name (finals w) (order_of false (finals w)) code0 = true ->
  wf_render mp name (finals w) (order_of true (finals w)) code1 = true ->
  labels_okb body (finals w) = true ->
  scoped None None body ->
  (forall m s, exists m', res_le (run (@tfinal) (tstep code0) m (jump code0 name) s) (run (@tfinal) (tstep code1) m' (jump code1 name) s)) /\
  (forall m s, exists m', res_le (run (@tfinal) (tstep code1) m (jump code1 name) s) (run (@tfinal) (tstep code0) m' (jump code0 name) s)).
Proof.
  intros HW H0 H1 HS R0 R1 HL HSC.
  destruct (emit_script_correct mp tl name glob false body w code0 HW H0 HS R0 HL HSC) as [F0 B0].
  destruct (emit_script_correct mp tl name glob true body w code1 HW H1 HS R1 HL HSC) as [F1 B1].
  split; intros m s.
  - destruct (B0 m s) as (n & R). destruct (F1 n s) as (m' & E). exists m'. rewrite <- E. exact R.
  - destruct (B1 m s) as (n & R). destruct (F0 n s) as (m' & E). exists m'. rewrite <- E. exact R.
Qed.
End S.
