(* C10 (commands pass through verbatim, in order, with their argument tokens) - the switch-operand form of
   CmdConverse.v statement 5 (listed there as NOT proved): an AutoVar command written as the operand of a switch,
       switch ( NAME ( a1 , .. , an ) ) { case ... }
   Model functions: Parser.parse_stmt / parse_switch / command_stmt, Parser.pstmt / pcmd, Emitter.emit_graph (work),
   Emitter.render_bodies / render_chunks / emit_script.  Note: the model (like chunk.go) prints a switch as ONE line
   [switch VAR] followed by [case VALUE, LABEL] lines (instructions ISwitch / ICase), not as a chain of compare lines.

   1. PARSER
      switch_operand_statement     written form, through parse_stmt: the tokens  switch ( NAME ( args ) ) { R  with NAME configured
                                   give the statement list [SCmd c; SSwitch tag v line cases] where c = AutoVarParse.parsed_cmd =
                                   the command CmdArgs.command_with_arguments computes (name = literal of NAME, arguments = the
                                   comma separated groups in order, each rendered from its own tokens with constants substituted:
                                   parsed_cmd_fields) and v = AutoVarParse.compared_var (the configured variable name, or the
                                   argument at var_name_arg_position).  (All token streams: AutoVarParse.autovar_switch_statement.)
   2. HOISTING
      operand_pair_patched         map (pstmt ps) keeps  pre ; command ; switch ; rest  in this shape, the command becomes
                                   pcmd ps c (its arguments: CmdConverse.patched_arguments), the operand v is NOT touched
   3. CHUNK GRAPH
      switch_operand_block         any block the worklist translates (Tr.tr_block: body of the script, of a branch, loop or case)
                                   of the form  pre ; command c ; switch (v) {cases} ; rest  with pre made of commands / labels:
                                   ONE chunk holds exactly pre followed by the command as its LAST statement and jumps to a
                                   chunk without statements that is the switch on v (BrSwitch v ..), or - when no case can
                                   select anything - a plain chunk (the switch is elided, the command is kept)  [operand_chunks]
      switch_operand_graph         the same for the body of a script, from Emitter.emit_graph itself (premise: Worklist.src_ok)
   4. RENDERING / OUTPUT (any marker setting, both -optimize settings)
      command_chunk_body, switch_chunk_body, render_bodies_cons, render_bodies_in     the instructions of the two chunks
      switch_operand_emitted       emit_script on such a body = label of the script, the instructions of pre, [marker], ICmd c, Z
                                   where either no case can select anything, or Z starts with the lines of the switch on v
                                   (switch_lines: ISwitch v, the case lines, closing jump), optionally preceded by the label of
                                   the switch chunk, or Z = goto L ; blank line ; A ; L: ; the lines of the switch on v.
                                   So the command line is printed once at this place, directly before the switch on its
                                   configured variable, separated from it by at most a label or by one goto to that label.
   5. Examples compiled_operand_plain_order (the goto form), compiled_operand_optimized (adjacent), compiled_operand_elided,
      ex_emitted_hypotheses, and the FINDING operand_is_empty_for_inline_text_argument: when var_name_arg_position points at
      an inline string argument the operand of the switch is the EMPTY text (the Go parser reads Args[pos] before the label is
      patched in, parser.go:214); compare_operand_is_empty_for_inline_text_argument: the same for the compare of an if condition.
   NOT proved: that under -optimize the switch chunk always directly follows the command chunk (first two alternatives);
   that ICmd c occurs nowhere else in the code (uniqueness of the instruction needs distinct command ids; the chunk that
   holds it is unique by WorkShape / CmdConverse.chunks_are_source_stretches); the code-level theorem for a switch nested in
   another construct (switch_operand_block covers the graph at any depth, switch_operand_emitted only the script body). *)
From Coq Require Import List String Ascii ZArith NArith Lia Bool.
From Pory Require Import Lexer Ast Emitter EmitProps Sem2 Tr Worklist Parser Consume CmdArgs CmdConverse AutoVarParse.
From Pory Require Format Compile.
Import ListNotations.
Open Scope list_scope.

(* ================= 0. lists: the first statement that is not a command / label ================= *)
Lemma first_nonsimple (l1 l2 : list stmt) x y r1 r2 :
  Forall simple l1 -> Forall simple l2 -> is_simple x = false -> is_simple y = false ->
  l1 ++ x :: r1 = l2 ++ y :: r2 -> l1 = l2 /\ x = y /\ r1 = r2.
Proof.
  revert l2. induction l1 as [|a l1 IH]; intros l2 H1 H2 Hx Hy E.
  - destruct l2 as [|b l2]; cbn [app] in E.
    + injection E as -> ->. auto.
    + injection E as -> _. inversion H2 as [|? ? S _]; subst. unfold simple in S. congruence.
  - destruct l2 as [|b l2]; cbn [app] in E.
    + injection E as -> _. inversion H1 as [|? ? S _]; subst. unfold simple in S. congruence.
    + injection E as -> E. inversion H1; subst. inversion H2; subst.
      destruct (IH l2) as (-> & -> & ->); auto.
Qed.

Lemma simple_snoc_cmd pre c : Forall simple pre -> Forall simple (pre ++ [SCmd c]).
Proof. intros H. apply Forall_app. split; [exact H|]. constructor; [reflexivity|constructor]. Qed.

(* ================= 1. the statement parser on  switch ( NAME ( args ) ) { ================= *)
Section PARSE.
Variable autovars : list (text * autovar).
Variable switches : list (text * text).
Variable env_errors : bool.
Variable parse_format : toks -> Parser.res (token * text * text * toks).
Variable consts : list (text * text).
Variable script : text.

(* written form, through [parse_stmt]: the statement list is the command statement - name, arguments in order, each argument
   rendered from its own tokens with constants substituted ([parsed_cmd] = CmdArgs.command_with_arguments) - followed by the
   switch on the configured variable [compared_var] *)
Theorem switch_operand_statement f bs cs sw lp0 name lp a rp rp0 lb R av v :
  ttype sw = SWITCH -> ttype lp0 = LPAREN -> cmd_ok switches env_errors parse_format name lp a rp ->
  ttype rp0 = RPAREN -> ttype lb = LBRACE ->
  assoc autovars (tlit name) = Some av ->
  compared_var av (parsed_cmd consts name lp a rp (rp0 :: lb :: R)) = Some v ->
  (List.length (arg_tokens a) < f)%nat -> R <> [] ->
  let ts := sw :: lp0 :: name :: lp :: arg_tokens a ++ rp :: rp0 :: lb :: R in
  parse_stmt autovars switches env_errors parse_format consts (S (S f)) script bs cs ts =
    match parse_cases autovars switches env_errors parse_format consts f script (List.length ts :: bs) cs lb R [] [] false imp0 with
    | Parser.Ok ([], _, ts5) => err_range sw (cur ts5) "switch statement has no cases or default case"
    | Parser.Ok (cases, imp', ts5) =>
        Parser.Ok ([SCmd (parsed_cmd consts name lp a rp (rp0 :: lb :: R)); SSwitch (List.length ts) v (tline name) cases],
                   impadd (parsed_imp script name lp a rp (rp0 :: lb :: R)) imp', ts5)
    | Parser.Err e => Parser.Err e | Parser.Panic => Parser.Panic | Parser.Fuel => Parser.Fuel
    end.
Proof.
  intros Hsw Hlp0 Hok Hrp0 Hlb HA HV Hf HR ts.
  pose proof (autovar_switch_with_arguments autovars switches env_errors parse_format consts script f bs cs sw lp0 name lp a rp rp0 lb R av v Hlp0 Hok Hrp0 Hlb HA HV Hf HR) as P.
  cbv zeta in P. rewrite parse_stmt_unfold. change (cur ts) with sw. rewrite Hsw. unfold ts. rewrite P.
  destruct (parse_cases _ _ _ _ _ _ _ _ _ _ _ _ _ _ _) as [[[[|c1 cases] imp'] ts5]|e| |]; reflexivity.
Qed.

(* the fields of that command, as the property text names them *)
Lemma parsed_cmd_fields name lp a rp R :
  cname (parsed_cmd consts name lp a rp R) = tlit name /\ ctok (parsed_cmd consts name lp a rp R) = name /\
  cargs (parsed_cmd consts name lp a rp R) = map (render_group consts) (strip_last_empty (groups_of a)).
Proof. split; [reflexivity|split; reflexivity]. Qed.
End PARSE.

(* ================= 2. hoisting / patching keeps the pair together and does not touch the operand ================= *)
Lemma pstmt_simple ps s : simple s -> simple (pstmt ps s).
Proof. destruct s; cbn; auto. Qed.

Theorem operand_pair_patched ps pre c tg v ol cases rest :
  Forall simple pre ->
  exists cases', List.length cases' = List.length cases /\ map (pstmt ps) (pre ++ SCmd c :: SSwitch tg v ol cases :: rest) =
      map (pstmt ps) pre ++ SCmd (pcmd ps c) :: SSwitch tg v ol cases' :: map (pstmt ps) rest /\ Forall simple (map (pstmt ps) pre).
Proof.
  intros HP. eexists. split; [|split].
  2:{ rewrite map_app. cbn [map pstmt]. reflexivity. }
  - apply map_length.
  - induction HP as [|s l Hs _ IH]; cbn [map]; constructor; [apply pstmt_simple; exact Hs|exact IH].
Qed.

(* ================= 3. the chunk graph ================= *)
(* what the final graph holds for  "pre ; NAME args ; switch (v) {cases} ; rest"  in ANY block of the source (body of the script,
   of a branch, of a loop, of a case: every block the worklist translates satisfies [tr_block]) *)
Definition operand_chunks (G : list chunk) (p : Z) (pre : list stmt) (c : cmd) (v : text) (cases : list scase) : Prop :=
  exists ch sid sc,
    get_chunk G p = Some ch /\ cstmts ch = pre ++ [SCmd c] /\ cbr ch = Some (BrJump sid) /\
    get_chunk G sid = Some sc /\ cstmts sc = [] /\
    ((exists ol bc def dest, cbr sc = Some (BrSwitch v ol bc def dest)) \/
     (cbr sc = None /\ cend sc = false /\ forall m, select_case cases m = [])).

Theorem switch_operand_block G B O pre c tg v ol cases rest p ret :
  Forall simple pre ->
  tr_block G B O (pre ++ SCmd c :: SSwitch tg v ol cases :: rest) p ret ->
  operand_chunks G p pre c v cases.
Proof.
  intros HP H.
  assert (E0 : pre ++ SCmd c :: SSwitch tg v ol cases :: rest = (pre ++ [SCmd c]) ++ SSwitch tg v ol cases :: rest)
    by (rewrite <- app_assoc; reflexivity).
  assert (NS : ~ Forall simple (pre ++ SCmd c :: SSwitch tg v ol cases :: rest)).
  { intros F. rewrite E0 in F. apply Forall_app in F. destruct F as [_ F]. inversion F as [|? ? S _]. discriminate S. }
  remember (pre ++ SCmd c :: SSwitch tg v ol cases :: rest) as L eqn:EL.
  inversion H as [ss p' ch ret' GC TS Q1 Q2 Q3]. clear H.
  remember (cstmts ch) as K eqn:EK.
  inversion TS as [ss0 c0 ret0 F CB CR CE Q4 Q5 Q6 Q7|pre' e b c0 ret0 F IE CB CR CE Q4 Q5 Q6 Q7|pre' s rest' c0 br r ret0 F NSs CB TC TR Q4 Q5 Q6 Q7].
  - exfalso. apply NS. rewrite Q6. exact F.
  - exfalso. apply NS. rewrite <- Q4. apply Forall_app. split; [rewrite Q6; exact F|]. constructor; [reflexivity|constructor].
  - rewrite E0 in Q4. rewrite <- Q6 in F.
    destruct (first_nonsimple pre' (pre ++ [SCmd c]) s (SSwitch tg v ol cases) rest' rest F (simple_snoc_cmd pre c HP) NSs eq_refl Q4) as (E1 & E2 & E3).
    rewrite E2 in TC.
    inversion TC as [| | | | |tg' op' ol' cases' sid sc r' GS CS TB SI].
    exists ch, sid, sc. split; [exact GC|]. split; [rewrite <- EK, <- Q6; exact E1|]. split; [rewrite CB; f_equal; auto|]. split; [exact GS|]. split; [exact CS|].
    inversion SI as [op1 cs1 c1 r1 C1 C2 C3 C4|op1 ol1 cs1 c1 bc def dest r1 C1 C2].
    + right. split; [exact C1|]. split; [exact C3|exact C4].
    + left. exists ol1, bc, def, dest. exact C1.
Qed.

(* the same for the body of a script, from the emitter's own graph construction *)
Theorem switch_operand_graph body w pre c tg v ol cases rest :
  emit_graph body = Emitter.Ok w -> src_ok body ->
  body = pre ++ SCmd c :: SSwitch tg v ol cases :: rest -> Forall simple pre ->
  operand_chunks (finals w) 0 pre c v cases.
Proof.
  intros HW HS -> HP. destruct (worklist_establishes_tr_block _ w HW HS) as (TB & _ & _).
  exact (switch_operand_block _ _ _ _ _ _ _ _ _ _ _ _ HP TB).
Qed.

(* ================= 4. rendering ================= *)
Section RENDER.
Variable mp : option text.
Variable tl : list text.
Variable name : text.

(* the instructions of one chunk, as [render_bodies] builds them ([next] = the id of the chunk printed after it, -1 at the end) *)
Definition chunk_body (c : chunk) (next : Z) : list instr :=
  let '(b, regs, fall) := render_branch mp name c next in
  flat_map (render_stmt mp) (cstmts c) ++ b ++ (if fall then [] else [IBlank]).
Definition chunk_regs (c : chunk) (next : Z) : list Z := Datatypes.snd (Datatypes.fst (render_branch mp name c next)).
Definition next_of (r : list Z) : Z := match r with n :: _ => n | [] => (-1)%Z end.

Lemma render_bodies_cons fs labels i r c bodies regs :
  get_chunk fs i = Some c ->
  render_bodies mp tl name fs labels (i :: r) = Emitter.Ok (bodies, regs) ->
  exists B2 regs2, render_bodies mp tl name fs labels r = Emitter.Ok (B2, regs2) /\
    bodies = (i, chunk_body c (next_of r)) :: B2 /\ regs = chunk_regs c (next_of r) ++ regs2.
Proof.
  intros GC H. cbn [render_bodies] in H. rewrite GC in H.
  destruct (clash tl labels (cstmts c)) as [[tk b0]|]; [discriminate|].
  unfold chunk_body, chunk_regs, next_of.
  destruct (render_branch mp name c (match r with n :: _ => n | [] => (-1)%Z end)) as [[b regs0] fall].
  destruct (render_bodies mp tl name fs labels r) as [[rest regs']| | | |]; try discriminate.
  injection H as <- <-. exists rest, regs'. split; [reflexivity|]. split; reflexivity.
Qed.

(* the chunk that ends with the command: its statements, then nothing at all when the switch chunk is printed next,
   else one goto to the switch chunk *)
Lemma command_chunk_body ch pre c sid next :
  cstmts ch = pre ++ [SCmd c] -> cbr ch = Some (BrJump sid) ->
  chunk_body ch next = flat_map (render_stmt mp) pre ++ marker mp (tline (ctok c)) ++ ICmd c ::
                       (if Z.eqb sid next then [] else [IGoto (lbl name sid); IBlank]) /\
  chunk_regs ch next = if Z.eqb sid next then [] else [sid].
Proof.
  intros E B. unfold chunk_body, chunk_regs, render_branch. rewrite B, E. unfold goto_or_fall. cbn [andb].
  rewrite flat_map_app. cbn [flat_map render_stmt]. rewrite app_nil_r.
  destruct (Z.eqb sid next); cbn [Datatypes.fst Datatypes.snd]; (split; [|reflexivity]); rewrite <- !app_assoc; reflexivity.
Qed.

(* the switch chunk: "switch v", one "case" line per entry of its table, then the jump to the default / the continuation *)
Definition case_lines (bc : list (text * Z * Z)) : list instr :=
  flat_map (fun '(x, vl, d) => marker mp vl ++ [ICase x (lbl name d)]) bc.
Lemma switch_chunk_body sc v ol bc def dest next :
  cstmts sc = [] -> cbr sc = Some (BrSwitch v ol bc def dest) ->
  exists tail, chunk_body sc next = marker mp ol ++ ISwitch v :: case_lines bc ++ tail /\
    (tail = [] \/ tail = [IReturn; IBlank] \/ exists d, tail = [IGoto (lbl name d); IBlank]).
Proof.
  intros E B. unfold chunk_body, render_branch. rewrite B, E. cbn [flat_map app]. fold (case_lines bc).
  destruct def as [dd|].
  - destruct (Z.eqb dd next).
    + exists []. split; [rewrite <- !app_assoc; reflexivity|left; reflexivity].
    + exists [IGoto (lbl name dd); IBlank]. split; [rewrite <- !app_assoc; reflexivity|right; right; eexists; reflexivity].
  - destruct (Z.eqb dest next).
    + exists []. split; [rewrite <- !app_assoc; reflexivity|left; reflexivity].
    + destruct (Z.eqb dest (-1)).
      * exists [IReturn; IBlank]. split; [rewrite <- !app_assoc; reflexivity|right; left; reflexivity].
      * exists [IGoto (lbl name dest); IBlank]. split; [rewrite <- !app_assoc; reflexivity|right; right; eexists; reflexivity].
Qed.
End RENDER.

Lemma render_bodies_in mp tl name fs labels : forall order bodies regs,
  render_bodies mp tl name fs labels order = Emitter.Ok (bodies, regs) ->
  forall i c, In i order -> get_chunk fs i = Some c ->
  exists nx B1 B2, bodies = B1 ++ (i, chunk_body mp name c nx) :: B2.
Proof.
  induction order as [|j r IH]; intros bodies regs H i c Hi Hc; [destruct Hi|].
  destruct (get_chunk fs j) as [cj|] eqn:Gj.
  - destruct (render_bodies_cons mp tl name fs labels j r cj bodies regs Gj H) as (B2 & regs2 & R2 & -> & _).
    destruct Hi as [->|Hi].
    + rewrite Gj in Hc. injection Hc as <-. exists (next_of r), [], B2. reflexivity.
    + destruct (IH _ _ R2 i c Hi Hc) as (nx & B1 & B3 & ->). exists nx, ((j, chunk_body mp name cj (next_of r)) :: B1), B3. reflexivity.
  - cbn [render_bodies] in H. rewrite Gj in H. destruct Hi as [->|Hi]; [congruence|]. exact (IH _ _ H i c Hi Hc).
Qed.

Lemma order_head0 optimize G : OrderPerm.dense G -> G <> [] -> exists o2, order_of optimize G = 0%Z :: o2.
Proof.
  intros D NE. destruct optimize.
  - exact (OrderPerm.opt_order_head G D NE).
  - unfold order_of. destruct G as [|x G]; [congruence|]. cbn [List.length range]. eexists. reflexivity.
Qed.

(* the instructions of a switch on [v]: "switch v", the case lines, the closing jump (if any) *)
Definition switch_lines (mp : option text) (name v : text) (sw : list instr) : Prop :=
  exists ol bc tail, sw = marker mp ol ++ ISwitch v :: case_lines mp name bc ++ tail /\
    (tail = [] \/ tail = [IReturn; IBlank] \/ exists d, tail = [IGoto (lbl name d); IBlank]).

Local Opaque work_fuel work.
Theorem switch_operand_emitted mp tl name glob optimize body w code pre c tg v ol cases rest :
  emit_graph body = Emitter.Ok w -> src_ok body ->
  emit_script mp tl name glob optimize body = Emitter.Ok code ->
  body = pre ++ SCmd c :: SSwitch tg v ol cases :: rest -> Forall simple pre ->
  exists sid Z,
    code = ILabel name glob :: flat_map (render_stmt mp) pre ++ marker mp (tline (ctok c)) ++ ICmd c :: Z /\
    ((forall m, select_case cases m = []) \/
     exists sw Z', switch_lines mp name v sw /\
       (Z = sw ++ Z' \/
        Z = ILabel (lbl name sid) false :: sw ++ Z' \/
        exists A, Z = IGoto (lbl name sid) :: IBlank :: A ++ ILabel (lbl name sid) false :: sw ++ Z')).
Proof.
  intros HW HS HE EB HP.
  destruct (switch_operand_graph body w pre c tg v ol cases rest HW HS EB HP) as (ch & sid & sc & G0 & C0 & B0 & GS & CS & BS).
  destruct (WorkShape.final_graph_shape body w HW HS) as (DN & NE & _).
  assert (DN' : OrderPerm.dense (finals w)) by exact DN.
  destruct (order_head0 optimize (finals w) DN' NE) as (o2 & EO).
  pose proof (OrderPerm.order_of_perm optimize (finals w) DN' NE) as PERM.
  assert (S0 : sid <> 0%Z).
  { intros ->. rewrite G0 in GS. injection GS as <-. rewrite C0 in CS. destruct pre; discriminate CS. }
  assert (IS : In sid o2).
  { destruct (OrderPerm.get_chunk_in _ _ _ GS) as [I1 I2].
    assert (I3 : In sid (order_of optimize (finals w))).
    { apply (Permutation.Permutation_in _ (Permutation.Permutation_sym PERM)). rewrite <- I2. apply in_map. exact I1. }
    rewrite EO in I3. destruct I3 as [X|X]; [congruence|exact X]. }
  unfold emit_script in HE. rewrite HW in HE. unfold render_chunks in HE. rewrite EO in HE.
  destruct (render_bodies mp tl name (finals w) (map (chunk_label name) (finals w)) (0%Z :: o2)) as [[bodies regs]| | | |] eqn:RB; try discriminate.
  injection HE as <-.
  destruct (render_bodies_cons mp tl name _ _ _ _ _ _ _ G0 RB) as (B2 & regs2 & R2 & -> & ER).
  destruct (command_chunk_body mp name ch pre c sid (next_of o2) C0 B0) as [E1 E2]. rewrite E2 in ER.
  exists sid. cbn [flat_map]. change (0 =? 0)%Z with true. cbn iota. rewrite E1. cbn [app]. rewrite <- !app_assoc. cbn [app].
  eexists. split; [reflexivity|].
  destruct BS as [(ol' & bc & def & dest & BS)|(BN & _ & SEL)]; [|left; exact SEL]. right.
  destruct (Z.eqb_spec sid (next_of o2)) as [EN|NN].
  - destruct o2 as [|x o3]; [destruct IS|]. cbn [next_of] in EN. subst x.
    destruct (render_bodies_cons mp tl name _ _ _ _ _ _ _ GS R2) as (B3 & regs3 & R3 & -> & _).
    destruct (switch_chunk_body mp name sc v ol' bc def dest (next_of o3) CS BS) as (tail & ET & HT).
    cbn [flat_map app]. destruct (Z.eqb_spec sid 0) as [X|_]; [congruence|].
    match goal with |- context[flat_map ?F B3] => exists (chunk_body mp name sc (next_of o3)), (flat_map F B3) end.
    split; [exists ol', bc, tail; split; assumption|].
    destruct (zmem sid regs); [right; left|left]; cbn [app]; rewrite <- ?app_assoc; reflexivity.
  - destruct (render_bodies_in mp tl name _ _ _ _ _ R2 sid sc IS GS) as (nx & B1 & B3 & ->).
    destruct (switch_chunk_body mp name sc v ol' bc def dest nx CS BS) as (tail & ET & HT).
    rewrite flat_map_app. cbn [flat_map app]. destruct (Z.eqb_spec sid 0) as [X|_]; [congruence|].
    assert (ZM : zmem sid regs = true). { rewrite ER. cbn [app zmem existsb]. rewrite Z.eqb_refl. reflexivity. }
    rewrite ZM.
    match goal with |- context[flat_map ?F B3] => exists (chunk_body mp name sc nx), (flat_map F B3) end.
    split; [exists ol', bc, tail; split; assumption|].
    right; right. match goal with |- context[flat_map ?F B1] => exists (flat_map F B1) end.
    cbn [app]. rewrite <- ?app_assoc. cbn [app]. reflexivity.
Qed.

(* ================= 5. examples ================= *)
Section EXAMPLES.
Let avs : list (text * autovar) :=
  [(t "checkitem", {| avName := t "VAR_RESULT"; avPos := None |});      (* fixed result variable *)
   (t "specialvar", {| avName := []; avPos := Some 0%Z |})].            (* result variable = first argument *)
Let comp (o : bool) := Compile.compile (fun _ => false) (fun _ => false) (fun _ => false) avs [] false
              {| Format.fcDefault := []; Format.fcFonts := [] |} [] 0%Z o None.
Let src1 := t "script S { foo switch (specialvar(VAR_TEMP, GET_X)) { case 1: bar } baz }".

(* chunk order by ids: the command is the last line of its chunk, then ONE goto to the switch chunk (third alternative of
   switch_operand_emitted) *)
Example compiled_operand_plain_order : comp false src1 = Compile.OutText (t "S::
	foo
	specialvar VAR_TEMP, GET_X
	goto S_2

S_1:
	baz
	return

S_2:
	switch VAR_TEMP
	case 1, S_3
	goto S_1

S_3:
	bar
	goto S_1

").
Proof. vm_compute. reflexivity. Qed.
(* -optimize order: "switch VAR_TEMP" is the very next line (first alternative) *)
Example compiled_operand_optimized : comp true src1 = Compile.OutText (t "S::
	foo
	specialvar VAR_TEMP, GET_X
	switch VAR_TEMP
	case 1, S_3
S_1:
	baz
	return

S_3:
	bar
	goto S_1

").
Proof. vm_compute. reflexivity. Qed.
(* every case empty and no default: the switch is elided, the command is still emitted exactly once *)
Example compiled_operand_elided :
  comp false (t "script S { switch (checkitem(ITEM_X, 2)) { case 1: } }") = Compile.OutText (t "S::
	checkitem ITEM_X, 2
	return

").
Proof. vm_compute. reflexivity. Qed.
(* FINDING: the configured argument position holds an inline string.  The compared variable is read from the argument list at
   parse time, where an inline text is still the empty placeholder; the command line later receives the text label, the
   switch operand stays EMPTY ("switch " followed by nothing).  The Go parser does the same (parser.go:214 reads
   commandStmt.Args[pos], parser.go:~625 appends "" for a STRING argument). *)
Example operand_is_empty_for_inline_text_argument :
  comp false (t "script S { switch (specialvar(""hi"", GET_X)) { case 1: foo } }") = Compile.OutText (t "S::
	specialvar S_Text_0, GET_X
	switch 
	case 1, S_2
	return

S_2:
	foo
	return


S_Text_0:
	.string ""hi$""
").
Proof. vm_compute. reflexivity. Qed.

(* the same in an if condition: the compare instruction has an empty first operand *)
Example compare_operand_is_empty_for_inline_text_argument :
  comp false (t "script S { if (specialvar(""hi"", GET_X) == 1) { foo } }") = Compile.OutText (t "S::
	goto S_2

S_1:
	foo
	return

S_2:
	specialvar S_Text_0, GET_X
	compare , 1
	goto_if_eq S_1
	return


S_Text_0:
	.string ""hi$""
").
Proof. vm_compute. reflexivity. Qed.

(* the hypotheses of switch_operand_emitted hold on a concrete body (both orders) *)
Let tk0 := {| ttype := IDENT; tlit := t "specialvar"; tline := 1%Z; teline := 1%Z; tsb := 0%Z; tsu := 0%Z; teb := 0%Z; teu := 0%Z |}.
Let cm (n : string) (a : list text) : cmd := {| cname := t n; cargs := a; ctok := tk0; Ast.cid := 0 |}.
Let body1 : list stmt :=
  [SCmd (cm "foo" []); SCmd (cm "specialvar" [t "VAR_TEMP"; t "GET_X"]);
   SSwitch 7 (t "VAR_TEMP") 1%Z [(false, t "1", 1%Z, [SCmd (cm "bar" [])])]; SCmd (cm "baz" [])].
Example ex_emitted_hypotheses : forall optimize,
  (exists w, emit_graph body1 = Emitter.Ok w) /\ src_ok body1 /\
  (exists code, emit_script None [] (t "S") true optimize body1 = Emitter.Ok code) /\
  body1 = [SCmd (cm "foo" [])] ++ SCmd (cm "specialvar" [t "VAR_TEMP"; t "GET_X"]) ::
          SSwitch 7 (t "VAR_TEMP") 1%Z [(false, t "1", 1%Z, [SCmd (cm "bar" [])])] :: [SCmd (cm "baz" [])] /\
  Forall simple [SCmd (cm "foo" [])].
Proof.
  intros optimize. split; [|split; [|split; [|split]]].
  - assert (H : match emit_graph body1 with Emitter.Ok _ => True | _ => False end) by (vm_compute; exact I).
    destruct (emit_graph body1) as [w| | | |]; try contradiction. exists w. reflexivity.
  - split; [vm_compute; reflexivity|]. constructor; [intros []|constructor].
  - assert (H : match emit_script None [] (t "S") true optimize body1 with Emitter.Ok _ => True | _ => False end)
      by (destruct optimize; vm_compute; exact I).
    destruct (emit_script None [] (t "S") true optimize body1) as [w| | | |]; try contradiction. exists w. reflexivity.
  - reflexivity.
  - constructor; [reflexivity|constructor].
Qed.
End EXAMPLES.
