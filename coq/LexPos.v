(* C19, second half: every token's reported line and start column - in bytes and in characters - are those of its first
   character in the source; for tokens other than strings the literal stands verbatim at that place and the reported end is
   start + length. *)
From Coq Require Import List String Ascii ZArith NArith Lia Bool.
From Pory Require Import Lexer LexInv LexLayout.
Import ListNotations.
Open Scope list_scope.
Local Open Scope Z_scope.

(* column of the position after [pre]: bytes / characters since the last newline *)
Definition colb (pre : list N) : Z := fold_left (fun a c => if (c =? 10)%N then 0 else a + utf8_size c) pre 0.
Definition colu (pre : list N) : Z := fold_left (fun a c => if (c =? 10)%N then 0 else a + 1) pre 0.
Definition bytes (x : list N) : Z := fold_right (fun c a => utf8_size c + a) 0 x.

Lemma colb_snoc pre c : colb (pre ++ [c]) = if (c =? 10)%N then 0 else colb pre + utf8_size c.
Proof. unfold colb. rewrite fold_left_app. reflexivity. Qed.
Lemma colu_snoc pre c : colu (pre ++ [c]) = if (c =? 10)%N then 0 else colu pre + 1.
Proof. unfold colu. rewrite fold_left_app. reflexivity. Qed.
Lemma nl_app a b : nl (a ++ b) = nl a + nl b.
Proof. induction a as [|c r IH]; cbn; [reflexivity|]. rewrite IH. lia. Qed.
Lemma colb_app_line pre x : Forall (fun c => c <> 10%N) x -> colb (pre ++ x) = colb pre + bytes x.
Proof.
  revert pre. induction x as [|c r IH]; intros pre H; [rewrite app_nil_r; unfold bytes; cbn [fold_right]; lia|]. inversion H as [|? ? H1 H2]; subst.
  replace (pre ++ c :: r) with ((pre ++ [c]) ++ r) by (rewrite <- app_assoc; reflexivity). rewrite IH by exact H2. rewrite colb_snoc.
  apply N.eqb_neq in H1. rewrite H1. unfold bytes; cbn [fold_right]; lia.
Qed.
Lemma colu_app_line pre x : Forall (fun c => c <> 10%N) x -> colu (pre ++ x) = colu pre + Z.of_nat (List.length x).
Proof.
  revert pre. induction x as [|c r IH]; intros pre H; [rewrite app_nil_r; cbn [List.length Z.of_nat]; lia|]. inversion H as [|? ? H1 H2]; subst.
  replace (pre ++ c :: r) with ((pre ++ [c]) ++ r) by (rewrite <- app_assoc; reflexivity). rewrite IH by exact H2. rewrite colu_snoc.
  apply N.eqb_neq in H1. rewrite H1. cbn [List.length]. lia.
Qed.
Lemma nl_line x : Forall (fun c => c <> 10%N) x -> nl x = 0.
Proof. induction 1 as [|c r H _ IH]; cbn; [reflexivity|]. apply N.eqb_neq in H. rewrite H, IH. reflexivity. Qed.

Section P.
Variable is_letter_hi is_digit_hi is_space_hi : N -> bool.
Variable s : list N.       (* the whole source *)
Notation is_letter := (is_letter is_letter_hi).
Notation is_digit := (is_digit is_digit_hi).
Notation read_ident := (read_ident is_letter_hi is_digit_hi).
Notation nt_core := (nt_core is_letter_hi is_digit_hi is_space_hi).
Notation next_token_aux := (next_token_aux is_letter_hi is_digit_hi is_space_hi).
Notation lex_all := (lex_all is_letter_hi is_digit_hi is_space_hi).

(* the counters of a lexer state agree with the consumed prefix *)
Definition at_pre (pre : list N) (l : lx) : Prop :=
  s = pre ++ chs l /\ line l = 1 + nl pre /\ pcn l = colb pre /\ pun l = colu pre /\
  match chs l with [] => True | c :: _ => cn l = pcn l + utf8_size c /\ un l = pun l + 1 end.
Definition P (l : lx) : Prop := exists pre, at_pre pre l.
Definition PI (l : lx) : Prop := chs l = [] \/ P l.

Lemma P_init : P (init s).
Proof. exists []. unfold at_pre, init. cbn. repeat split; try lia. destruct s; [exact I|cbn; lia]. Qed.

Lemma at_pre_read_char pre l c rest : chs l = c :: rest -> at_pre pre l -> at_pre (pre ++ [c]) (read_char l).
Proof.
  intros E (A1 & A2 & A3 & A4 & A5). rewrite E in A5. destruct A5 as [A5 A6]. unfold at_pre, read_char, ch. rewrite E. cbn [tl].
  rewrite nl_app, colb_snoc, colu_snoc. cbn [nl].
  destruct (c =? 10)%N eqn:C; cbn [andb negb chs line pcn cn pun un].
  - split; [rewrite A1, E, <- app_assoc; reflexivity|]. split; [lia|]. split; [reflexivity|]. split; [reflexivity|]. destruct rest; [exact I|lia].
  - split; [rewrite A1, E, <- app_assoc; reflexivity|]. split; [lia|]. split; [lia|]. split; [lia|]. destruct rest; [exact I|lia].
Qed.
Lemma P_read_char l : chs l <> [] -> P l -> P (read_char l).
Proof. intros NE [pre H]. destruct (chs l) as [|c rest] eqn:E; [congruence|]. exists (pre ++ [c]). eapply at_pre_read_char; eassumption. Qed.
Lemma PI_read_char l : PI l -> PI (read_char l).
Proof.
  intros [E|H]; [left; rewrite chs_read_char, E; reflexivity|]. destruct (chs l) eqn:E; [left; rewrite chs_read_char, E; reflexivity|].
  right. apply P_read_char; [rewrite E; discriminate|exact H].
Qed.
Lemma P_PI l : P l -> PI l. Proof. intros H. right. exact H. Qed.
Lemma PI_P l : chs l <> [] -> PI l -> P l. Proof. intros NE [E|H]; [congruence|exact H]. Qed.

Lemma PI_skip_ws f : forall l, PI l -> PI (skip_ws f l).
Proof. induction f as [|f IH]; intros l H; cbn [skip_ws]; [exact H|]. destruct (is_ws (ch l) && _); [apply IH, PI_read_char, H|exact H]. Qed.
Lemma PI_skip_line f : forall l, PI l -> PI (skip_line f l).
Proof. induction f as [|f IH]; intros l H; cbn [skip_line]; [exact H|]. destruct (negb _ && negb _); [apply IH|]; apply PI_read_char, H. Qed.
Lemma PI_skip_comments f : forall l, PI l -> PI (skip_comments f l).
Proof.
  induction f as [|f IH]; intros l H; cbn [skip_comments]; [exact H|]. destruct (at_comment l); [|exact H]. apply IH, PI_skip_ws, PI_skip_line, H.
Qed.
Lemma PI_skipall l : PI l -> PI (skipall l).
Proof. intros H. unfold skipall. apply PI_skip_comments, PI_skip_ws, H. Qed.
Lemma PI_read_while f p : forall l acc, PI l -> PI (snd (read_while f p l acc)).
Proof.
  induction f as [|f IH]; intros l acc H; cbn [read_while snd]; [exact H|]. destruct (chs l) as [|c r] eqn:E; [exact H|].
  destruct (p c); [apply IH, PI_read_char, H|exact H].
Qed.
Lemma PI_skip_nl f : forall l b, PI l -> PI (fst (skip_nl f l b)).
Proof. induction f as [|f IH]; intros l b H; cbn [skip_nl fst]; [exact H|]. destruct (_ && _); [apply IH, PI_read_char, H|exact H]. Qed.
Lemma PI_read_str_part f : forall l acc, PI l -> PI (snd (read_str_part f l acc)).
Proof.
  induction f as [|f IH]; intros l acc H; cbn [read_str_part]; [exact H|].
  destruct ((ch l =? 34)%N || (ch l =? 0)%N); [exact H|].
  pose proof (PI_skip_nl (fuel_of l) l false H) as K. destruct (skip_nl (fuel_of l) l false) as [l1 sk]. cbn [fst] in K.
  destruct sk.
  - pose proof (PI_skip_ws (fuel_of l1) l1 K) as K2.
    destruct ((ch (skip_ws (fuel_of l1) l1) =? 34)%N || _); [exact K2|]. apply IH, PI_read_char, K2.
  - apply IH, PI_read_char, H.
Qed.
Lemma PI_read_string' f : forall l acc e, PI l -> PI (snd (read_string' f l acc e)).
Proof.
  induction f as [|f IH]; intros l acc e H; cbn [read_string']; [exact H|].
  destruct ((ch l =? 34)%N && _); [|exact H].
  pose proof (PI_read_str_part (fuel_of (read_char l)) (read_char l) (match acc with [] => acc | _ => acc ++ [10%N] end) (PI_read_char _ H)) as K.
  destruct (read_str_part _ _ _) as [acc1 l2]. cbn [snd] in K.
  apply IH. apply PI_skip_comments, PI_skip_ws, PI_read_char, K.
Qed.
Lemma PI_read_string_token l : PI l -> PI (snd (read_string_token l)).
Proof.
  intros H. unfold read_string_token. pose proof (PI_read_string' (fuel_of l) l [] (0, 0, 0) H) as K.
  destruct (read_string' (fuel_of l) l [] (0, 0, 0)) as [[lit [[el eb] eu]] l1]. exact K.
Qed.

(* what read_while consumed, exactly *)
Lemma read_while_spec f p : forall l acc pre, at_pre pre l ->
  exists x, fst (read_while f p l acc) = rev acc ++ x /\ Forall (fun c => p c = true) x /\ at_pre (pre ++ x) (snd (read_while f p l acc)).
Proof.
  induction f as [|f IH]; intros l acc pre H; cbn [read_while].
  - exists []. rewrite !app_nil_r. split; [reflexivity|split; [constructor|exact H]].
  - destruct (chs l) as [|c r] eqn:E.
    + exists []. rewrite !app_nil_r. split; [reflexivity|split; [constructor|exact H]].
    + destruct (p c) eqn:PC.
      * destruct (IH (read_char l) (c :: acc) (pre ++ [c]) (at_pre_read_char _ _ _ _ E H)) as (x & A & B & C).
        exists (c :: x). split; [rewrite A; cbn [rev]; rewrite <- app_assoc; reflexivity|]. split; [constructor; assumption|].
        rewrite <- app_assoc in C. exact C.
      * exists []. rewrite !app_nil_r. split; [reflexivity|split; [constructor|exact H]].
Qed.

(* ---------- what is claimed of a token ---------- *)
Definition is_strty (ty : toktype) : bool := match ty with STRING | RAWSTRING => true | _ => false end.
Definition located (tk : token) : Prop :=
  exists pre post, s = pre ++ post /\ post <> [] /\
    tline tk = 1 + nl pre /\ tsb tk = colb pre /\ tsu tk = colu pre /\
    if is_strty (ttype tk) then hd 0%N post = (match ttype tk with STRING => 34%N | _ => 96%N end)
    else (exists post', post = tlit tk ++ post') /\ teline tk = tline tk /\
         teb tk = tsb tk + bytes (tlit tk) /\ teu tk = tsu tk + Z.of_nat (List.length (tlit tk)).
Definition tok_claim (tk : token) : Prop := ttype tk = EOF \/ located tk.

Lemma size_ascii c : (c <? 128)%N = true -> utf8_size c = 1.
Proof. intros H. unfold utf8_size. rewrite H. reflexivity. Qed.

Lemma kw_plain id : is_strty (lookup_kw keywords id) = false /\ lookup_kw keywords id <> EOF.
Proof.
  unfold keywords. cbn [lookup_kw].
  repeat match goal with |- context[if text_eqb ?a ?b then _ else _] => destruct (text_eqb a b); [split; [reflexivity|discriminate]|] end.
  split; [reflexivity|discriminate].
Qed.

Lemma letter_not_nl c : is_letter c = true -> c <> 10%N.
Proof. intros H ->. discriminate H. Qed.
Lemma digit_not_nl c : is_digit c = true -> c <> 10%N.
Proof. intros H ->. discriminate H. Qed.
Lemma hex_not_nl c : is_hex c = true -> c <> 10%N.
Proof. intros H ->. discriminate H. Qed.

(* a token whose literal [x0 ++ x] stands at the position of state l (prefix pre), ending at a state with prefix pre ++ x0 ++ x *)
Lemma verbatim_claim pre l l3 (ty : toktype) (lit : text) tsb0 tsu0 post' :
  at_pre pre l -> chs l <> [] -> at_pre (pre ++ lit) l3 -> chs l = lit ++ post' -> Forall (fun c => c <> 10%N) lit ->
  is_strty ty = false -> tsb0 = pcn l -> tsu0 = pun l ->
  located {| ttype := ty; tlit := lit; tline := line l; tsb := tsb0; tsu := tsu0; teline := line l3; teb := pcn l3; teu := pun l3 |}.
Proof.
  intros (A1 & A2 & A3 & A4 & A5) NE (B1 & B2 & B3 & B4 & B5) E NL ST -> ->.
  exists pre, (chs l). split; [exact A1|]. split; [exact NE|]. cbn [tline tsb tsu ttype tlit teline teb teu]. split; [exact A2|]. split; [exact A3|]. split; [exact A4|].
  rewrite ST. split; [exists post'; exact E|]. rewrite B2, B3, B4, A2, A3, A4, nl_app, (nl_line lit NL), (colb_app_line pre lit NL), (colu_app_line pre lit NL). lia.
Qed.

Lemma nt_core_pos l : PI l -> Forall tok_claim (fst (fst (nt_core l))) /\ PI (snd (fst (nt_core l))).
Proof.
  intros HI. unfold LexLayout.nt_core. cbv zeta. cbn [fst snd].
  destruct (chs l) as [|c rest] eqn:E.
  { cbn [orb fst snd]. split; [constructor; [left; reflexivity|constructor]|apply PI_read_char, HI]. }
  assert (HP : P l) by (apply PI_P; [rewrite E; discriminate|exact HI]). destruct HP as [pre AP].
  pose proof AP as (A1 & A2 & A3 & A4 & A5). rewrite E in A5. destruct A5 as [A5 A6].
  assert (CH : ch l = c) by (unfold ch; rewrite E; reflexivity). rewrite CH. cbn [orb].
  assert (NE : chs l <> []) by (rewrite E; discriminate).
  pose proof (at_pre_read_char pre l c rest E AP) as AP1.
  destruct (c =? 0)%N eqn:C0.
  { cbn [fst snd]. split; [constructor; [left; reflexivity|constructor]|apply PI_read_char, HI]. }
  assert (ONE : forall ty, (c <? 128)%N = true -> is_strty ty = false ->
            Forall tok_claim (fst ([single ty l], read_char l)) /\ PI (snd ([single ty l], read_char l))).
  { intros ty CA ST. cbn [fst snd]. split; [|apply PI_read_char, HI]. constructor; [|constructor]. right.
    exists pre, (c :: rest). split; [rewrite A1, E; reflexivity|]. split; [discriminate|]. unfold single. cbn [tline tsb tsu ttype tlit teline teb teu]. rewrite ST, CH.
    rewrite (size_ascii c CA) in A5. split; [exact A2|]. split; [lia|]. split; [lia|]. split; [exists rest; reflexivity|].
    unfold bytes. cbn [fold_right List.length]. rewrite (size_ascii c CA). lia. }
  assert (TWO : forall ty c2, (c <? 128)%N = true -> c <> 10%N -> peek l = c2 -> c2 <> 0%N -> (c2 <? 128)%N = true -> is_strty ty = false ->
            Forall tok_claim (fst (let '(tk, l2) := double ty l in ([tk], l2))) /\ PI (snd (let '(tk, l2) := double ty l in ([tk], l2)))).
  { intros ty c2 CA CN PK C2 C2A ST. unfold double. cbn [fst snd]. split; [|apply PI_read_char, PI_read_char, HI]. constructor; [|constructor]. right.
    assert (R2 : exists rest2, rest = c2 :: rest2). { unfold peek in PK. rewrite E in PK. destruct rest as [|d rest2]; [congruence|]. exists rest2. congruence. }
    destruct R2 as [rest2 ->]. destruct AP1 as (B1 & B2 & B3 & B4 & B5). rewrite chs_read_char, E in B5. cbn [tl] in B5. destruct B5 as [B5 B6].
    exists pre, (c :: c2 :: rest2). split; [rewrite A1, E; reflexivity|]. split; [discriminate|]. cbn [tline tsb tsu ttype tlit teline teb teu]. rewrite ST, CH.
    assert (CH1 : ch (read_char l) = c2) by (unfold ch; rewrite chs_read_char, E; reflexivity). rewrite CH1.
    rewrite nl_app in B2. rewrite colb_snoc in B3. rewrite colu_snoc in B4. apply N.eqb_neq in CN. cbn [nl] in B2. rewrite CN in *.
    rewrite (size_ascii c CA) in *. rewrite (size_ascii c2 C2A) in *.
    split; [lia|]. split; [lia|]. split; [lia|]. split; [exists rest2; reflexivity|]. unfold bytes. cbn [fold_right List.length]. rewrite (size_ascii c CA), (size_ascii c2 C2A). lia. }
  clear CH.
  repeat match goal with
  | |- Forall tok_claim (fst (if (c =? ?k)%N then _ else _)) /\ _ =>
      destruct (c =? k)%N eqn:?; cbv iota;
      [ match goal with K : (c =? k)%N = true |- _ => apply N.eqb_eq in K end;
        first [ apply ONE; [subst c; reflexivity|reflexivity]
              | destruct (peek l =? _)%N eqn:PK; cbv iota;
                [ apply N.eqb_eq in PK; eapply TWO; [subst c; reflexivity|subst c; discriminate|exact PK|discriminate|reflexivity|reflexivity]
                | apply ONE; [subst c; reflexivity|reflexivity] ]
              | idtac ]
      | ]
  end.
  - (* string *)
    pose proof (PI_read_string_token l HI) as K. unfold read_string_token in *.
    destruct (read_string' (fuel_of l) l [] (0, 0, 0)) as [[lit [[el eb] eu]] l1]. cbn [fst snd] in *. split; [|exact K]. constructor; [|constructor]. right.
    exists pre, (chs l). split; [exact A1|]. split; [exact NE|]. cbn [tline tsb tsu ttype is_strty]. split; [exact A2|]. split; [exact A3|]. split; [exact A4|]. rewrite E. cbn [hd]. assumption.
  - (* raw string *)
    pose proof (PI_read_while (fuel_of (read_char l)) (fun x => negb (x =? 96)%N && negb (x =? 0)%N) (read_char l) [] (PI_read_char _ HI)) as K.
    destruct (read_while _ _ (read_char l) []) as [body l3]. cbn [fst snd] in *. split; [|apply PI_read_char, K]. constructor; [|constructor]. right.
    exists pre, (chs l). split; [exact A1|]. split; [exact NE|]. cbn [tline tsb tsu ttype is_strty]. rewrite E. cbn [hd].
    match goal with K96 : c = 96%N |- _ => subst c end. rewrite (size_ascii 96%N eq_refl) in A5. repeat split; lia.
  - (* 0x.. / 0.. *)
    match goal with K48 : c = 48%N |- _ => subst c end. rewrite (size_ascii 48%N eq_refl) in A5.
    destruct (peek l =? 120)%N eqn:PK.
    + apply N.eqb_eq in PK. assert (R2 : exists rest2, rest = 120%N :: rest2). { unfold peek in PK. rewrite E in PK. destruct rest as [|d rest2]; [discriminate|]. exists rest2. congruence. }
      destruct R2 as [rest2 ->].
      assert (E1 : chs (read_char l) = 120%N :: rest2) by (rewrite chs_read_char, E; reflexivity).
      pose proof (at_pre_read_char _ _ _ _ E1 AP1) as AP2.
      destruct (read_while_spec (fuel_of (read_char (read_char l))) is_hex _ [] _ AP2) as (x & X1 & X2 & X3).
      destruct (read_while _ is_hex (read_char (read_char l)) []) as [h l3]. cbn [fst snd rev app] in *. subst h.
      split; [|apply P_PI; eexists; exact X3]. constructor; [|constructor]. right.
      assert (E3 : chs l = (t "0x" ++ x) ++ chs l3).
      { destruct X3 as (Y1 & _). rewrite A1 in Y1. rewrite <- !app_assoc in Y1. apply app_inv_head in Y1. rewrite Y1. reflexivity. }
      assert (L := verbatim_claim pre l l3 INT (t "0x" ++ x) (cn l - 1) (un l - 1) (chs l3) AP NE).
      apply L; [replace (pre ++ t "0x" ++ x) with (((pre ++ [48%N]) ++ [120%N]) ++ x) by (rewrite <- !app_assoc; reflexivity); exact X3|exact E3| |reflexivity|lia|lia].
      constructor; [discriminate|]. constructor; [discriminate|]. eapply Forall_impl; [|exact X2]. apply hex_not_nl.
    + destruct (read_while_spec (fuel_of l) is_digit l [] pre AP) as (x & X1 & X2 & X3).
      destruct (read_while (fuel_of l) is_digit l []) as [d l3]. cbn [fst snd rev app] in *. subst d.
      split; [|apply P_PI; eexists; exact X3]. constructor; [|constructor]. right.
      assert (E3 : chs l = x ++ chs l3). { destruct X3 as (Y1 & _). rewrite A1 in Y1. rewrite <- app_assoc in Y1. apply app_inv_head in Y1. exact Y1. }
      apply (verbatim_claim pre l l3 INT x (cn l - 1) (un l - 1) (chs l3) AP NE X3 E3); [|reflexivity|lia|lia].
      eapply Forall_impl; [|exact X2]. apply digit_not_nl.
  - (* identifiers, keywords, string types; numbers; illegal characters *)
    destruct (is_letter c) eqn:LC.
    + unfold Lexer.read_ident. rewrite E, LC.
      destruct (read_while_spec (fuel_of l) (fun x => is_letter x || is_digit x) (read_char l) [] _ AP1) as (x & X1 & X2 & X3).
      destruct (read_while (fuel_of l) _ (read_char l) []) as [r1 l3]. cbn [fst snd rev app] in *. subst r1.
      assert (E3 : chs l = (c :: x) ++ chs l3). { destruct X3 as (Y1 & _). rewrite A1 in Y1. rewrite <- !app_assoc in Y1. apply app_inv_head in Y1. rewrite Y1. reflexivity. }
      assert (X3' : at_pre (pre ++ c :: x) l3) by (rewrite <- app_assoc in X3; exact X3).
      assert (NL : Forall (fun c0 => c0 <> 10%N) (c :: x)).
      { constructor; [apply letter_not_nl; exact LC|]. eapply Forall_impl; [|exact X2]. intros a Ha. apply orb_prop in Ha. destruct Ha; [apply letter_not_nl|apply digit_not_nl]; assumption. }
      destruct ((ch l3 =? 34)%N && negb (match chs l3 with [] => true | _ => false end)) eqn:Q.
      * assert (P3 : P l3) by (exists (pre ++ c :: x); exact X3').
        pose proof (PI_read_string_token l3 (P_PI _ P3)) as K. unfold read_string_token in *.
        destruct (read_string' (fuel_of l3) l3 [] (0, 0, 0)) as [[lit [[el eb] eu]] l4]. cbn [fst snd] in *. split; [|exact K].
        constructor; [right; apply (verbatim_claim pre l l3 STRINGTYPE (c :: x) (pcn l) (pun l) (chs l3) AP NE X3' E3 NL); reflexivity|].
        constructor; [|constructor]. right. apply andb_prop in Q. destruct Q as [Q1 Q2]. apply N.eqb_eq in Q1.
        destruct X3' as (Y1 & Y2 & Y3 & Y4 & _). exists (pre ++ c :: x), (chs l3). split; [exact Y1|]. split; [destruct (chs l3); [discriminate|discriminate]|].
        cbn [tline tsb tsu ttype is_strty]. repeat split; assumption.
      * cbn [fst snd]. split; [|apply P_PI; eexists; exact X3']. constructor; [|constructor]. right.
        destruct (kw_plain (c :: x)) as [KP _].
        apply (verbatim_claim pre l l3 _ (c :: x) (pcn l) (pun l) (chs l3) AP NE X3' E3 NL KP); reflexivity.
    + destruct (is_digit c || (c =? 45)%N && is_digit (peek l)) eqn:DC.
      * destruct (c =? 45)%N eqn:NEG.
        -- apply N.eqb_eq in NEG. subst c.
           destruct (read_while_spec (fuel_of (read_char l)) is_digit (read_char l) [] _ AP1) as (x & X1 & X2 & X3).
           destruct (read_while _ is_digit (read_char l) []) as [d l3]. cbn [fst snd rev app] in *. subst d.
           split; [|apply P_PI; eexists; exact X3]. constructor; [|constructor]. right.
           assert (E3 : chs l = (45%N :: x) ++ chs l3). { destruct X3 as (Y1 & _). rewrite A1 in Y1. rewrite <- !app_assoc in Y1. apply app_inv_head in Y1. rewrite Y1. reflexivity. }
           assert (X3' : at_pre (pre ++ 45%N :: x) l3) by (rewrite <- app_assoc in X3; exact X3).
           apply (verbatim_claim pre l l3 INT (45%N :: x) (pcn l) (pun l) (chs l3) AP NE X3' E3); [|reflexivity|reflexivity|reflexivity].
           constructor; [discriminate|]. eapply Forall_impl; [|exact X2]. apply digit_not_nl.
        -- destruct (read_while_spec (fuel_of l) is_digit l [] pre AP) as (x & X1 & X2 & X3).
           destruct (read_while (fuel_of l) is_digit l []) as [d l3]. cbn [fst snd rev app] in *. subst d.
           split; [|apply P_PI; eexists; exact X3]. constructor; [|constructor]. right.
           assert (E3 : chs l = x ++ chs l3). { destruct X3 as (Y1 & _). rewrite A1 in Y1. rewrite <- app_assoc in Y1. apply app_inv_head in Y1. exact Y1. }
           apply (verbatim_claim pre l l3 INT x (pcn l) (pun l) (chs l3) AP NE X3 E3); [|reflexivity|reflexivity|reflexivity].
           eapply Forall_impl; [|exact X2]. apply digit_not_nl.
      * cbn [fst snd]. split; [|apply PI_read_char, HI]. constructor; [|constructor]. right.
        exists pre, (c :: rest). split; [rewrite A1, E; reflexivity|]. split; [discriminate|]. cbn [tline tsb tsu ttype tlit teline teb teu is_strty].
        split; [exact A2|]. split; [exact A3|]. split; [lia|]. split; [exists rest; reflexivity|]. unfold bytes. cbn [fold_right List.length]. lia.
Qed.

Lemma next_token_pos l : PI l -> Forall tok_claim (fst (fst (next_token_aux l))) /\ PI (snd (fst (next_token_aux l))).
Proof. intros H. rewrite next_token_aux_core. apply nt_core_pos, PI_skipall, H. Qed.

Lemma lex_all_pos f : forall l, PI l -> Forall tok_claim (lex_all f l).
Proof.
  induction f as [|f IH]; intros l H; cbn [Lexer.lex_all]; [constructor|].
  pose proof (next_token_pos l H) as K. destruct (next_token_aux l) as [[ts l'] e]. cbn [fst snd] in K.
  destruct K as [K1 K2]. destruct e; [exact K1|]. apply Forall_app. split; [exact K1|apply IH, K2].
Qed.
End P.

(* THE THEOREM (C19, positions): for every source and every classification of non-ASCII code points, every token of the
   stream that is not an EOF token is located: the source splits as pre ++ post with post non-empty, the token's line is
   1 + the number of newlines in pre, its start column in bytes / in characters is the number of bytes / characters of pre
   after its last newline; a string starts at its opening quote, a raw string at its back quote; every other token's literal
   stands verbatim at the beginning of post, it ends on its start line, and its end columns are start + length. *)
Theorem tokens_are_located is_letter_hi is_digit_hi is_space_hi (s : text) :
  Forall (fun tk => ttype tk = EOF \/ located s tk) (lex is_letter_hi is_digit_hi is_space_hi s).
Proof.
  unfold lex. apply (lex_all_pos is_letter_hi is_digit_hi is_space_hi s). right. apply P_init.
Qed.
