(* C20 - Ill-formed control flow and name clashes are rejected at the offending line. *)
From Coq Require Import List ZArith Bool.
From Pory Require Import Lexer Ast Parser Emitter Sem2 Tr ParseWf ProgWf C20Proofs C13Proofs.
Import ListNotations.

(* "It is never compiled into something else": whatever the parser accepts has, in every script body (script statements
   and inline map scripts), every break annotated with its nearest enclosing loop/switch and every continue with its
   nearest enclosing loop - for every token sequence, switch assignment, command config and format() implementation *)
Theorem parse_program_scoped :
  forall autovars switches env_errors parse_format ts p,
    parse_program autovars switches env_errors parse_format ts = Parser.Ok p -> all_scoped (bodies_of (tops p)).
Proof. exact ProgWf.parse_program_scoped. Qed.
Print Assumptions parse_program_scoped.

(* the rejections, in whatever context the statement parser meets the construct ([bs]/[cs] = stacks of enclosing
   breakable / continuable constructs): the error carries the line and columns of the offending token *)
Theorem break_outside_rejected :
  forall autovars switches env_errors parse_format consts f script cs ts,
    ttype (cur ts) = BREAK ->
    rejected_at (parse_stmt autovars switches env_errors parse_format consts (S f) script [] cs ts) (cur ts).
Proof. exact C20Proofs.break_outside_rejected. Qed.
Print Assumptions break_outside_rejected.

Theorem continue_outside_rejected :
  forall autovars switches env_errors parse_format consts f script bs ts,
    ttype (cur ts) = CONTINUE ->
    rejected_at (parse_stmt autovars switches env_errors parse_format consts (S f) script bs [] ts) (cur ts).
Proof. exact C20Proofs.continue_outside_rejected. Qed.
Print Assumptions continue_outside_rejected.

Theorem continue_not_last_rejected :
  forall autovars switches env_errors parse_format consts f script bs tg cs ts,
    ttype (cur ts) = CONTINUE -> peekis RBRACE ts = false ->
    rejected_at (parse_stmt autovars switches env_errors parse_format consts (S f) script bs (tg :: cs) ts) (cur ts).
Proof. exact C20Proofs.continue_not_last_rejected. Qed.
Print Assumptions continue_not_last_rejected.

Theorem two_defaults_rejected :
  forall autovars switches env_errors parse_format consts f script bs cs brace ts acc seen imp,
    curis RBRACE ts = false -> curis CASE ts = false -> curis DEFAULT ts = true ->
    rejected_at (parse_cases autovars switches env_errors parse_format consts (S f) script bs cs brace ts acc seen true imp) (cur ts).
Proof. exact C20Proofs.two_defaults_rejected. Qed.
Print Assumptions two_defaults_rejected.

(* duplicates are detected on the constant-expanded value of the case *)
Theorem duplicate_case_rejected :
  forall autovars switches env_errors parse_format consts f script bs cs brace ts acc seen hasdef imp parts ts2,
    curis RBRACE ts = false -> curis CASE ts = true ->
    collect_until consts f (is COLON) (adv ts) [] = Some (parts, ts2) ->
    existsb (text_eqb (join sp parts)) seen = true ->
    rejected_at (parse_cases autovars switches env_errors parse_format consts (S f) script bs cs brace ts acc seen hasdef imp) (cur ts).
Proof. exact C20Proofs.duplicate_case_rejected. Qed.
Print Assumptions duplicate_case_rejected.

Theorem const_redefinition_rejected :
  forall fuel consts ts ts1 v,
    expect_peek IDENT ts = Some ts1 -> assoc consts (tlit (cur ts1)) = Some v ->
    exists e, parse_const fuel consts ts = Err e /\ els e = tline (cur ts1) /\ ecs e = tsb (cur ts1).
Proof. exact C13Proofs.const_redefinition_rejected. Qed.
Print Assumptions const_redefinition_rejected.

(* ---------- name clashes (NameClash.v) ---------- *)
(* Parser: a program is accepted exactly when the names of all texts (user statements and hoisted) and of all movements are
   pairwise distinct; otherwise the answer is "duplicate text label" located at the LATER text of the first repeated pair, or
   "duplicate movement label" at the EARLIER movement statement - always a `text` / `movement` statement the author wrote
   (duplicate_*_reports_statement).  Emitter: a script is rejected exactly when one of its labels (at any depth) equals a
   generated chunk label of that script or the name of a text, and the error carries the token of such a label
   (emit_script_rejects_iff, emit_script_error_token); through compile: every position field of that token
   (compile_label_error_located).  What the compiler does NOT detect (two scripts of one name, a label equal to another script's
   generated label, the same label twice in one script) is shown by the `not_detected_*` examples of NameClash.v. *)
From Pory Require Import Format WorkLabels NameClash.
Theorem dup_text_reports_later :
  forall (l : list textdef) (x : textdef),
  dup_text [] l = Some x <-> (exists l1 l2 : list textdef, l = l1 ++ x :: l2 /\ NoDup (map xname l1) /\ In (xname x) (map xname l1)).
Proof. exact NameClash.dup_text_reports_later. Qed.
Print Assumptions dup_text_reports_later.

Theorem dup_text_none_nodup :
  forall l : list textdef, dup_text [] l = None <-> NoDup (map xname l).
Proof. exact NameClash.dup_text_none_nodup. Qed.
Print Assumptions dup_text_none_nodup.

Theorem dup_mov_reports_earlier :
  forall (l : list top) (tk0 : token),
  dup_mov [] l = Some tk0 <->
  (exists (e1 : list (text * token)) (n : text) (tk : token) (e2 : list (text * token)),
     mov_entries l = e1 ++ (n, tk) :: e2 /\ NoDup (map Datatypes.fst e1) /\ In (n, tk0) e1).
Proof. exact NameClash.dup_mov_reports_earlier. Qed.
Print Assumptions dup_mov_reports_earlier.

Theorem dup_mov_none_nodup :
  forall l : list top, dup_mov [] l = None <-> NoDup (mov_names l).
Proof. exact NameClash.dup_mov_none_nodup. Qed.
Print Assumptions dup_mov_none_nodup.

Theorem accepted_names_distinct :
  forall (autovars : list (text * autovar)) (switches : list (text * text)) (ee : bool) (pf : toks -> Parser.res (token * text * text * toks))
    (ts : toks) (p : program),
  ee = true -> parse_program autovars switches ee pf ts = Parser.Ok p -> NoDup (map xname (texts p)) /\ NoDup (mov_names (tops p)).
Proof. exact NameClash.accepted_names_distinct. Qed.
Print Assumptions accepted_names_distinct.

Theorem parse_program_name_check :
  forall (autovars : list (text * autovar)) (switches : list (text * text)) (ee : bool) (pf : toks -> Parser.res (token * text * text * toks))
    (ts : list token) (st : pstate),
  parse_tops autovars switches ee pf (5 * length ts + 4) pst0 ts = Parser.Ok st ->
  (exists (l1 : list textdef) (x : textdef) (l2 : list textdef),
     checked_texts ee st = l1 ++ x :: l2 /\
     NoDup (map xname l1) /\
     In (xname x) (map xname l1) /\
     parse_program autovars switches ee pf ts =
     err_tok (xtok x)
       (String.String (Ascii.Ascii false false true false false true true false)
          (String.String (Ascii.Ascii true false true false true true true false)
             (String.String (Ascii.Ascii false false false false true true true false)
                (String.String (Ascii.Ascii false false true true false true true false)
                   (String.String (Ascii.Ascii true false false true false true true false)
                      (String.String (Ascii.Ascii true true false false false true true false)
                         (String.String (Ascii.Ascii true false false false false true true false)
                            (String.String (Ascii.Ascii false false true false true true true false)
                               (String.String (Ascii.Ascii true false true false false true true false)
                                  (String.String (Ascii.Ascii false false false false false true false false)
                                     (String.String (Ascii.Ascii false false true false true true true false)
                                        (String.String (Ascii.Ascii true false true false false true true false)
                                           (String.String (Ascii.Ascii false false false true true true true false)
                                              (String.String (Ascii.Ascii false false true false true true true false)
                                                 (String.String (Ascii.Ascii false false false false false true false false)
                                                    (String.String (Ascii.Ascii false false true true false true true false)
                                                       (String.String (Ascii.Ascii true false false false false true true false)
                                                          (String.String (Ascii.Ascii false true false false false true true false)
                                                             (String.String (Ascii.Ascii true false true false false true true false)
                                                                (String.String (Ascii.Ascii false false true true false true true false)
                                                                   String.EmptyString))))))))))))))))))))) \/
  NoDup (map xname (checked_texts ee st)) /\
  (exists (e1 : list (text * token)) (n : text) (tk : token) (e2 : list (text * token)) (tk0 : token),
     mov_entries (checked_tops ee st) = e1 ++ (n, tk) :: e2 /\
     NoDup (map Datatypes.fst e1) /\
     In (n, tk0) e1 /\
     parse_program autovars switches ee pf ts =
     err_tok tk0
       (String.String (Ascii.Ascii false false true false false true true false)
          (String.String (Ascii.Ascii true false true false true true true false)
             (String.String (Ascii.Ascii false false false false true true true false)
                (String.String (Ascii.Ascii false false true true false true true false)
                   (String.String (Ascii.Ascii true false false true false true true false)
                      (String.String (Ascii.Ascii true true false false false true true false)
                         (String.String (Ascii.Ascii true false false false false true true false)
                            (String.String (Ascii.Ascii false false true false true true true false)
                               (String.String (Ascii.Ascii true false true false false true true false)
                                  (String.String (Ascii.Ascii false false false false false true false false)
                                     (String.String (Ascii.Ascii true false true true false true true false)
                                        (String.String (Ascii.Ascii true true true true false true true false)
                                           (String.String (Ascii.Ascii false true true false true true true false)
                                              (String.String (Ascii.Ascii true false true false false true true false)
                                                 (String.String (Ascii.Ascii true false true true false true true false)
                                                    (String.String (Ascii.Ascii true false true false false true true false)
                                                       (String.String (Ascii.Ascii false true true true false true true false)
                                                          (String.String (Ascii.Ascii false false true false true true true false)
                                                             (String.String (Ascii.Ascii false false false false false true false false)
                                                                (String.String (Ascii.Ascii false false true true false true true false)
                                                                   (String.String (Ascii.Ascii true false false false false true true false)
                                                                      (String.String (Ascii.Ascii false true false false false true true false)
                                                                         (String.String
                                                                            (Ascii.Ascii true false true false false true true false)
                                                                            (String.String
                                                                               (Ascii.Ascii false false true true false true true false)
                                                                               String.EmptyString))))))))))))))))))))))))) \/
  NoDup (map xname (checked_texts ee st)) /\
  NoDup (mov_names (checked_tops ee st)) /\
  parse_program autovars switches ee pf ts = Parser.Ok {| tops := all_tops st; texts := all_texts st |}.
Proof. exact NameClash.parse_program_name_check. Qed.
Print Assumptions parse_program_name_check.

Theorem duplicate_text_label_iff :
  forall (autovars : list (text * autovar)) (switches : list (text * text)) (ee : bool) (pf : toks -> Parser.res (token * text * text * toks))
    (ts : list token) (st : pstate),
  parse_tops autovars switches ee pf (5 * length ts + 4) pst0 ts = Parser.Ok st ->
  ~ NoDup (map xname (checked_texts ee st)) <->
  (exists x : textdef,
     In x (checked_texts ee st) /\
     parse_program autovars switches ee pf ts =
     err_tok (xtok x)
       (String.String (Ascii.Ascii false false true false false true true false)
          (String.String (Ascii.Ascii true false true false true true true false)
             (String.String (Ascii.Ascii false false false false true true true false)
                (String.String (Ascii.Ascii false false true true false true true false)
                   (String.String (Ascii.Ascii true false false true false true true false)
                      (String.String (Ascii.Ascii true true false false false true true false)
                         (String.String (Ascii.Ascii true false false false false true true false)
                            (String.String (Ascii.Ascii false false true false true true true false)
                               (String.String (Ascii.Ascii true false true false false true true false)
                                  (String.String (Ascii.Ascii false false false false false true false false)
                                     (String.String (Ascii.Ascii false false true false true true true false)
                                        (String.String (Ascii.Ascii true false true false false true true false)
                                           (String.String (Ascii.Ascii false false false true true true true false)
                                              (String.String (Ascii.Ascii false false true false true true true false)
                                                 (String.String (Ascii.Ascii false false false false false true false false)
                                                    (String.String (Ascii.Ascii false false true true false true true false)
                                                       (String.String (Ascii.Ascii true false false false false true true false)
                                                          (String.String (Ascii.Ascii false true false false false true true false)
                                                             (String.String (Ascii.Ascii true false true false false true true false)
                                                                (String.String (Ascii.Ascii false false true true false true true false)
                                                                   String.EmptyString))))))))))))))))))))).
Proof. exact NameClash.duplicate_text_label_iff. Qed.
Print Assumptions duplicate_text_label_iff.

Theorem duplicate_movement_label_iff :
  forall (autovars : list (text * autovar)) (switches : list (text * text)) (ee : bool) (pf : toks -> Parser.res (token * text * text * toks))
    (ts : list token) (st : pstate),
  parse_tops autovars switches ee pf (5 * length ts + 4) pst0 ts = Parser.Ok st ->
  NoDup (map xname (checked_texts ee st)) /\ ~ NoDup (mov_names (checked_tops ee st)) <->
  (exists (n : text) (tk0 : token),
     In (n, tk0) (mov_entries (checked_tops ee st)) /\
     parse_program autovars switches ee pf ts =
     err_tok tk0
       (String.String (Ascii.Ascii false false true false false true true false)
          (String.String (Ascii.Ascii true false true false true true true false)
             (String.String (Ascii.Ascii false false false false true true true false)
                (String.String (Ascii.Ascii false false true true false true true false)
                   (String.String (Ascii.Ascii true false false true false true true false)
                      (String.String (Ascii.Ascii true true false false false true true false)
                         (String.String (Ascii.Ascii true false false false false true true false)
                            (String.String (Ascii.Ascii false false true false true true true false)
                               (String.String (Ascii.Ascii true false true false false true true false)
                                  (String.String (Ascii.Ascii false false false false false true false false)
                                     (String.String (Ascii.Ascii true false true true false true true false)
                                        (String.String (Ascii.Ascii true true true true false true true false)
                                           (String.String (Ascii.Ascii false true true false true true true false)
                                              (String.String (Ascii.Ascii true false true false false true true false)
                                                 (String.String (Ascii.Ascii true false true true false true true false)
                                                    (String.String (Ascii.Ascii true false true false false true true false)
                                                       (String.String (Ascii.Ascii false true true true false true true false)
                                                          (String.String (Ascii.Ascii false false true false true true true false)
                                                             (String.String (Ascii.Ascii false false false false false true false false)
                                                                (String.String (Ascii.Ascii false false true true false true true false)
                                                                   (String.String (Ascii.Ascii true false false false false true true false)
                                                                      (String.String (Ascii.Ascii false true false false false true true false)
                                                                         (String.String
                                                                            (Ascii.Ascii true false true false false true true false)
                                                                            (String.String
                                                                               (Ascii.Ascii false false true true false true true false)
                                                                               String.EmptyString))))))))))))))))))))))))).
Proof. exact NameClash.duplicate_movement_label_iff. Qed.
Print Assumptions duplicate_movement_label_iff.

Theorem accepted_iff :
  forall (autovars : list (text * autovar)) (switches : list (text * text)) (ee : bool) (pf : toks -> Parser.res (token * text * text * toks))
    (ts : list token) (st : pstate),
  parse_tops autovars switches ee pf (5 * length ts + 4) pst0 ts = Parser.Ok st ->
  NoDup (map xname (checked_texts ee st)) /\ NoDup (mov_names (checked_tops ee st)) <->
  parse_program autovars switches ee pf ts = Parser.Ok {| tops := all_tops st; texts := all_texts st |}.
Proof. exact NameClash.accepted_iff. Qed.
Print Assumptions accepted_iff.

Theorem duplicate_text_reports_statement :
  forall (autovars : list (text * autovar)) (switches : list (text * text)) (ee : bool) (pf : toks -> Parser.res (token * text * text * toks))
    (f : nat) (ts : toks) (st : pstate) (x : textdef),
  parse_tops autovars switches ee pf f pst0 ts = Parser.Ok st ->
  (N.of_nat (length (htexts (ph st))) <= 10 ^ 40)%N ->
  (N.of_nat (length (hmovs (ph st))) <= 10 ^ 40)%N ->
  dup_text [] (all_texts st) = Some x ->
  exists p1 p2 : list textdef,
    ptexts st = p1 ++ x :: p2 /\
    ttype (xtok x) = TEXT /\ NoDup (map xname (htexts (ph st) ++ p1)) /\ In (xname x) (map xname (htexts (ph st) ++ p1)).
Proof. exact NameClash.duplicate_text_reports_statement. Qed.
Print Assumptions duplicate_text_reports_statement.

Theorem duplicate_movement_reports_statement :
  forall (autovars : list (text * autovar)) (switches : list (text * text)) (ee : bool) (pf : toks -> Parser.res (token * text * text * toks))
    (f : nat) (ts : toks) (st : pstate) (tk0 : token),
  parse_tops autovars switches ee pf f pst0 ts = Parser.Ok st ->
  (N.of_nat (length (htexts (ph st))) <= 10 ^ 40)%N ->
  (N.of_nat (length (hmovs (ph st))) <= 10 ^ 40)%N ->
  dup_mov [] (all_tops st) = Some tk0 ->
  exists n : text,
    In (n, tk0) (mov_entries (ptops st)) /\
    ttype tk0 = MOVEMENT /\
    (exists (e1 : list (text * token)) (tk : token) (e2 : list (text * token)),
       mov_entries (all_tops st) = e1 ++ (n, tk) :: e2 /\ In (n, tk0) e1 /\ NoDup (map Datatypes.fst e1)).
Proof. exact NameClash.duplicate_movement_reports_statement. Qed.
Print Assumptions duplicate_movement_reports_statement.

Theorem render_chunks_cases :
  forall (mp : option text) (tl : list text) (name : text) (glob : bool) (G : list chunk) (order : list Z),
  let gen := map (chunk_label name) G in
  (exists code : list instr, render_chunks mp tl name glob G order = Ok code) /\ Forall (chunk_ok tl gen) (LabelsUnique.rchunks G order) \/
  (exists (o1 : list Z) (i : Z) (o2 : list Z) (c : chunk) (tk : token) (b : bool),
     order = o1 ++ i :: o2 /\
     get_chunk G i = Some c /\
     Forall (chunk_ok tl gen) (LabelsUnique.rchunks G o1) /\
     clash tl gen (cstmts c) = Some (tk, b) /\ render_chunks mp tl name glob G order = ErrLabel tk b).
Proof. exact NameClash.render_chunks_cases. Qed.
Print Assumptions render_chunks_cases.

Theorem generated_labels_spec :
  forall (name : text) (body : list stmt) (w : wst),
  emit_graph body = Ok w ->
  Worklist.src_ok body ->
  forall n : text,
  In n (map (chunk_label name) (finals w)) <-> n = name \/ (exists k : Z, (0 < k < Z.of_nat (length (finals w)))%Z /\ n = lbl name k).
Proof. exact NameClash.generated_labels_spec. Qed.
Print Assumptions generated_labels_spec.

Theorem emit_script_label_check :
  forall (mp : option text) (tl : list text) (name : text) (glob optimize : bool) (body : list stmt) (w : wst),
  emit_graph body = Ok w ->
  Worklist.src_ok body ->
  (exists code : list instr, emit_script mp tl name glob optimize body = Ok code) /\
  (forall n : text, In n (dlabs body) -> ~ In n (map (chunk_label name) (finals w)) /\ ~ In n tl) \/
  (exists (n : text) (tk : token) (b : bool),
     emit_script mp tl name glob optimize body = ErrLabel tk b /\
     In (n, tk) (dlts body) /\
     (b = false /\ In n (map (chunk_label name) (finals w)) \/ b = true /\ ~ In n (map (chunk_label name) (finals w)) /\ In n tl)).
Proof. exact NameClash.emit_script_label_check. Qed.
Print Assumptions emit_script_label_check.

Theorem emit_script_accepts_iff :
  forall (mp : option text) (tl : list text) (name : text) (glob optimize : bool) (body : list stmt) (w : wst),
  emit_graph body = Ok w ->
  Worklist.src_ok body ->
  (exists code : list instr, emit_script mp tl name glob optimize body = Ok code) <->
  (forall n : text, In n (dlabs body) -> ~ In n (map (chunk_label name) (finals w)) /\ ~ In n tl).
Proof. exact NameClash.emit_script_accepts_iff. Qed.
Print Assumptions emit_script_accepts_iff.

Theorem emit_script_rejects_iff :
  forall (mp : option text) (tl : list text) (name : text) (glob optimize : bool) (body : list stmt) (w : wst),
  emit_graph body = Ok w ->
  Worklist.src_ok body ->
  (exists (tk : token) (b : bool), emit_script mp tl name glob optimize body = ErrLabel tk b) <->
  (exists n : text, In n (dlabs body) /\ (In n (map (chunk_label name) (finals w)) \/ In n tl)).
Proof. exact NameClash.emit_script_rejects_iff. Qed.
Print Assumptions emit_script_rejects_iff.

Theorem emit_script_error_token :
  forall (mp : option text) (tl : list text) (name : text) (glob optimize : bool) (body : list stmt) (w : wst),
  emit_graph body = Ok w ->
  Worklist.src_ok body ->
  forall (tk : token) (b : bool),
  emit_script mp tl name glob optimize body = ErrLabel tk b ->
  exists n : text,
    In (n, tk) (dlts body) /\
    (b = false /\ In n (map (chunk_label name) (finals w)) \/ b = true /\ ~ In n (map (chunk_label name) (finals w)) /\ In n tl).
Proof. exact NameClash.emit_script_error_token. Qed.
Print Assumptions emit_script_error_token.

Theorem emit_program_accepts_iff :
  forall (optimize : bool) (mp : option text) (p : program),
  Forall Worklist.src_ok (bodies_of (tops p)) ->
  (exists out : text, emit_program optimize mp p = Ok out) <-> Forall (script_clean (map xname (texts p))) (scripts_of (tops p)).
Proof. exact NameClash.emit_program_accepts_iff. Qed.
Print Assumptions emit_program_accepts_iff.

Theorem emit_program_label_error :
  forall (optimize : bool) (mp : option text) (p : program) (tk : token) (b : bool),
  Forall Worklist.src_ok (bodies_of (tops p)) ->
  emit_program optimize mp p = ErrLabel tk b ->
  exists (s1 : list script) (s : script) (s2 : list script) (w : wst) (lab : text),
    scripts_of (tops p) = s1 ++ s :: s2 /\
    Forall (script_clean (map xname (texts p))) s1 /\
    emit_graph (snd s) = Ok w /\
    In (lab, tk) (dlts (snd s)) /\
    (let gen := map (chunk_label (Datatypes.fst (Datatypes.fst s))) (finals w) in
     b = false /\ In lab gen \/ b = true /\ ~ In lab gen /\ In lab (map xname (texts p))).
Proof. exact NameClash.emit_program_label_error. Qed.
Print Assumptions emit_program_label_error.

Theorem emit_program_rejects_iff :
  forall (optimize : bool) (mp : option text) (p : program),
  Forall Worklist.src_ok (bodies_of (tops p)) ->
  (forall s : script, In s (scripts_of (tops p)) -> exists w : wst, emit_graph (snd s) = Ok w) ->
  (exists (tk : token) (b : bool), emit_program optimize mp p = ErrLabel tk b) <->
  (exists (s : script) (w : wst) (lab : text),
     In s (scripts_of (tops p)) /\
     emit_graph (snd s) = Ok w /\
     In lab (dlabs (snd s)) /\ (In lab (map (chunk_label (Datatypes.fst (Datatypes.fst s))) (finals w)) \/ In lab (map xname (texts p)))).
Proof. exact NameClash.emit_program_rejects_iff. Qed.
Print Assumptions emit_program_rejects_iff.

Theorem compiled_without_name_clash :
  forall (hl hd hs : N -> bool) (autovars : list (text * autovar)) (switches : list (text * text)) (ee : bool) (fc : fontcfg) 
    (cli_font : text) (cli_maxlen : Z) (optimize : bool) (mpath : option text) (src out : text),
  ee = true ->
  Compile.compile hl hd hs autovars switches ee fc cli_font cli_maxlen optimize mpath src = Compile.OutText out ->
  exists p : program,
    parse_program autovars switches ee (parse_format fc cli_font cli_maxlen ee) (lex hl hd hs src) = Parser.Ok p /\
    NoDup (map xname (texts p)) /\ NoDup (mov_names (tops p)) /\ Forall (script_clean (map xname (texts p))) (scripts_of (tops p)).
Proof. exact NameClash.compiled_without_name_clash. Qed.
Print Assumptions compiled_without_name_clash.

Theorem compile_label_error_located :
  forall (hl hd hs : N -> bool) (autovars : list (text * autovar)) (switches : list (text * text)) (ee : bool) (fc : fontcfg) 
    (cli_font : text) (cli_maxlen : Z) (optimize : bool) (mpath : option text) (src : text) (p : program) (e : perr),
  parse_program autovars switches ee (parse_format fc cli_font cli_maxlen ee) (lex hl hd hs src) = Parser.Ok p ->
  Compile.compile hl hd hs autovars switches ee fc cli_font cli_maxlen optimize mpath src = Compile.OutErr e ->
  exists (s : script) (w : wst) (lab : text) (tk : token),
    In s (scripts_of (tops p)) /\
    emit_graph (snd s) = Ok w /\
    In (lab, tk) (dlts (snd s)) /\
    (In lab (map (chunk_label (Datatypes.fst (Datatypes.fst s))) (finals w)) \/ In lab (map xname (texts p))) /\
    els e = tline tk /\ ele e = teline tk /\ ecs e = tsb tk /\ eus e = tsu tk /\ ece e = teb tk /\ eue e = teu tk.
Proof. exact NameClash.compile_label_error_located. Qed.
Print Assumptions compile_label_error_located.

Theorem compile_duplicate_text_located :
  forall (hl hd hs : N -> bool) (autovars : list (text * autovar)) (switches : list (text * text)) (ee : bool) (fc : fontcfg) 
    (cli_font : text) (cli_maxlen : Z) (optimize : bool) (mpath : option text) (src : text) (st : pstate) (x : textdef),
  parse_tops autovars switches ee (parse_format fc cli_font cli_maxlen ee) (5 * length (lex hl hd hs src) + 4) pst0 (lex hl hd hs src) =
  Parser.Ok st ->
  dup_text [] (checked_texts ee st) = Some x ->
  Compile.compile hl hd hs autovars switches ee fc cli_font cli_maxlen optimize mpath src =
  Compile.OutErr
    {|
      els := tline (xtok x);
      ele := teline (xtok x);
      ecs := tsb (xtok x);
      eus := tsu (xtok x);
      ece := teb (xtok x);
      eue := teu (xtok x);
      emsg :=
        t
          (String.String (Ascii.Ascii false false true false false true true false)
             (String.String (Ascii.Ascii true false true false true true true false)
                (String.String (Ascii.Ascii false false false false true true true false)
                   (String.String (Ascii.Ascii false false true true false true true false)
                      (String.String (Ascii.Ascii true false false true false true true false)
                         (String.String (Ascii.Ascii true true false false false true true false)
                            (String.String (Ascii.Ascii true false false false false true true false)
                               (String.String (Ascii.Ascii false false true false true true true false)
                                  (String.String (Ascii.Ascii true false true false false true true false)
                                     (String.String (Ascii.Ascii false false false false false true false false)
                                        (String.String (Ascii.Ascii false false true false true true true false)
                                           (String.String (Ascii.Ascii true false true false false true true false)
                                              (String.String (Ascii.Ascii false false false true true true true false)
                                                 (String.String (Ascii.Ascii false false true false true true true false)
                                                    (String.String (Ascii.Ascii false false false false false true false false)
                                                       (String.String (Ascii.Ascii false false true true false true true false)
                                                          (String.String (Ascii.Ascii true false false false false true true false)
                                                             (String.String (Ascii.Ascii false true false false false true true false)
                                                                (String.String (Ascii.Ascii true false true false false true true false)
                                                                   (String.String (Ascii.Ascii false false true true false true true false)
                                                                      String.EmptyString))))))))))))))))))))
    |}.
Proof. exact NameClash.compile_duplicate_text_located. Qed.
Print Assumptions compile_duplicate_text_located.

Theorem compile_duplicate_movement_located :
  forall (hl hd hs : N -> bool) (autovars : list (text * autovar)) (switches : list (text * text)) (ee : bool) (fc : fontcfg) 
    (cli_font : text) (cli_maxlen : Z) (optimize : bool) (mpath : option text) (src : text) (st : pstate) (tk : token),
  parse_tops autovars switches ee (parse_format fc cli_font cli_maxlen ee) (5 * length (lex hl hd hs src) + 4) pst0 (lex hl hd hs src) =
  Parser.Ok st ->
  dup_text [] (checked_texts ee st) = None ->
  dup_mov [] (checked_tops ee st) = Some tk ->
  Compile.compile hl hd hs autovars switches ee fc cli_font cli_maxlen optimize mpath src =
  Compile.OutErr
    {|
      els := tline tk;
      ele := teline tk;
      ecs := tsb tk;
      eus := tsu tk;
      ece := teb tk;
      eue := teu tk;
      emsg :=
        t
          (String.String (Ascii.Ascii false false true false false true true false)
             (String.String (Ascii.Ascii true false true false true true true false)
                (String.String (Ascii.Ascii false false false false true true true false)
                   (String.String (Ascii.Ascii false false true true false true true false)
                      (String.String (Ascii.Ascii true false false true false true true false)
                         (String.String (Ascii.Ascii true true false false false true true false)
                            (String.String (Ascii.Ascii true false false false false true true false)
                               (String.String (Ascii.Ascii false false true false true true true false)
                                  (String.String (Ascii.Ascii true false true false false true true false)
                                     (String.String (Ascii.Ascii false false false false false true false false)
                                        (String.String (Ascii.Ascii true false true true false true true false)
                                           (String.String (Ascii.Ascii true true true true false true true false)
                                              (String.String (Ascii.Ascii false true true false true true true false)
                                                 (String.String (Ascii.Ascii true false true false false true true false)
                                                    (String.String (Ascii.Ascii true false true true false true true false)
                                                       (String.String (Ascii.Ascii true false true false false true true false)
                                                          (String.String (Ascii.Ascii false true true true false true true false)
                                                             (String.String (Ascii.Ascii false false true false true true true false)
                                                                (String.String (Ascii.Ascii false false false false false true false false)
                                                                   (String.String (Ascii.Ascii false false true true false true true false)
                                                                      (String.String (Ascii.Ascii true false false false false true true false)
                                                                         (String.String
                                                                            (Ascii.Ascii false true false false false true true false)
                                                                            (String.String
                                                                               (Ascii.Ascii true false true false false true true false)
                                                                               (String.String
                                                                                  (Ascii.Ascii false false true true false true true false)
                                                                                  String.EmptyString))))))))))))))))))))))))
    |}.
Proof. exact NameClash.compile_duplicate_movement_located. Qed.
Print Assumptions compile_duplicate_movement_located.

