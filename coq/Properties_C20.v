(* C20 - Ill-formed control flow and name clashes are rejected at the offending line. *)
From Coq Require Import List ZArith Bool.
From Pory Require Import Lexer Ast Parser Emitter Sem2 Tr ParseWf ProgWf C20Proofs C13Proofs.
Import ListNotations.

(* "It is never compiled into something else": whatever the parser accepts has, in every script body (script statements
   and inline map scripts), every break annotated with its nearest enclosing loop/switch and every continue with its
   nearest enclosing loop - for every token sequence, switch assignment, command config and format() implementation *)
Theorem parse_program_scoped :
  forall autovars switches env_errors parse_format ts p,
    parse_program autovars switches env_errors parse_format ts = Parser.Ok p -> all_scoped (bodies_of (tops p)).
Proof. exact ProgWf.parse_program_scoped. Qed.
Print Assumptions parse_program_scoped.

(* the rejections, in whatever context the statement parser meets the construct ([bs]/[cs] = stacks of enclosing
   breakable / continuable constructs): the error carries the line and columns of the offending token *)
Theorem break_outside_rejected :
  forall autovars switches env_errors parse_format consts f script cs ts,
    ttype (cur ts) = BREAK ->
    rejected_at (parse_stmt autovars switches env_errors parse_format consts (S f) script [] cs ts) (cur ts).
Proof. exact C20Proofs.break_outside_rejected. Qed.
Print Assumptions break_outside_rejected.

Theorem continue_outside_rejected :
  forall autovars switches env_errors parse_format consts f script bs ts,
    ttype (cur ts) = CONTINUE ->
    rejected_at (parse_stmt autovars switches env_errors parse_format consts (S f) script bs [] ts) (cur ts).
Proof. exact C20Proofs.continue_outside_rejected. Qed.
Print Assumptions continue_outside_rejected.

Theorem continue_not_last_rejected :
  forall autovars switches env_errors parse_format consts f script bs tg cs ts,
    ttype (cur ts) = CONTINUE -> peekis RBRACE ts = false ->
    rejected_at (parse_stmt autovars switches env_errors parse_format consts (S f) script bs (tg :: cs) ts) (cur ts).
Proof. exact C20Proofs.continue_not_last_rejected. Qed.
Print Assumptions continue_not_last_rejected.

Theorem two_defaults_rejected :
  forall autovars switches env_errors parse_format consts f script bs cs brace ts acc seen imp,
    curis RBRACE ts = false -> curis CASE ts = false -> curis DEFAULT ts = true ->
    rejected_at (parse_cases autovars switches env_errors parse_format consts (S f) script bs cs brace ts acc seen true imp) (cur ts).
Proof. exact C20Proofs.two_defaults_rejected. Qed.
Print Assumptions two_defaults_rejected.

(* duplicates are detected on the constant-expanded value of the case *)
Theorem duplicate_case_rejected :
  forall autovars switches env_errors parse_format consts f script bs cs brace ts acc seen hasdef imp parts ts2,
    curis RBRACE ts = false -> curis CASE ts = true ->
    collect_until consts f (is COLON) (adv ts) [] = Some (parts, ts2) ->
    existsb (text_eqb (join sp parts)) seen = true ->
    rejected_at (parse_cases autovars switches env_errors parse_format consts (S f) script bs cs brace ts acc seen hasdef imp) (cur ts).
Proof. exact C20Proofs.duplicate_case_rejected. Qed.
Print Assumptions duplicate_case_rejected.

Theorem const_redefinition_rejected :
  forall fuel consts ts ts1 v,
    expect_peek IDENT ts = Some ts1 -> assoc consts (tlit (cur ts1)) = Some v ->
    exists e, parse_const fuel consts ts = Err e /\ els e = tline (cur ts1) /\ ecs e = tsb (cur ts1).
Proof. exact C13Proofs.const_redefinition_rejected. Qed.
Print Assumptions const_redefinition_rejected.
