(* C08 - mapscripts emit complete, ordered, terminated tables whose entries resolve. *)
From Coq Require Import List ZArith Bool String.
From Pory Require Import Lexer Ast Emitter C08Proofs ParseWf.
Import ListNotations.
Open Scope string_scope.
Open Scope list_scope.

(* header: the label, one map_script line per plain/inline entry in source order, then one per table in source order,
   then .byte 0; then the inline scripts in order; then for each table: its local label, one map_script_2 per entry in
   order, .2byte 0, and its inline scripts *)
Theorem mapscripts_shape :
  forall tl opt name glob plain tables,
    emit_mapscripts None tl opt name glob plain tables =
      bind_i (emit_scripts None tl opt (map (fun m => (msName m, msScript m)) plain)) (fun inl =>
      bind_i (tables_code tl opt tables) (fun tt =>
        Ok ([ILabel name glob] ++ map (fun m => ms_line (msType m) (msName m)) plain
                               ++ map (fun tb => ms_line (tmType tb) (tmName tb)) tables
                               ++ [ILine (tab ++ t ".byte 0"); IBlank] ++ inl ++ tt))).
Proof. exact C08Proofs.mapscripts_shape. Qed.
Print Assumptions mapscripts_shape.

(* every inline script is emitted exactly once, by the very function that emits script statements, as a local label *)
Theorem inline_script_is_a_script :
  forall tl opt n b r,
    emit_scripts None tl opt ((n, Some b) :: r) =
      bind_i (emit_script None tl n false opt b) (fun x => bind_i (emit_scripts None tl opt r) (fun y => Ok (x ++ y))).
Proof. exact inline_scripts_are_scripts. Qed.
Print Assumptions inline_script_is_a_script.

Theorem label_entry_emits_no_code : forall tl opt n r, emit_scripts None tl opt ((n, None) :: r) = emit_scripts None tl opt r.
Proof. exact label_entries_emit_nothing. Qed.
Print Assumptions label_entry_emits_no_code.
