(* C08 - mapscripts emit complete, ordered, terminated tables whose entries resolve. *)
From Coq Require Import List ZArith Bool String.
From Pory Require Import Lexer Ast Emitter C08Proofs ParseWf.
Import ListNotations.
Open Scope string_scope.
Open Scope list_scope.

(* header: the label, one map_script line per plain/inline entry in source order, then one per table in source order,
   then .byte 0; then the inline scripts in order; then for each table: its local label, one map_script_2 per entry in
   order, .2byte 0, and its inline scripts *)
Theorem mapscripts_shape :
  forall tl opt name glob plain tables,
    emit_mapscripts None tl opt name glob plain tables =
      bind_i (emit_scripts None tl opt (map (fun m => (msName m, msScript m)) plain)) (fun inl =>
      bind_i (tables_code tl opt tables) (fun tt =>
        Ok ([ILabel name glob] ++ map (fun m => ms_line (msType m) (msName m)) plain
                               ++ map (fun tb => ms_line (tmType tb) (tmName tb)) tables
                               ++ [ILine (tab ++ t ".byte 0"); IBlank] ++ inl ++ tt))).
Proof. exact C08Proofs.mapscripts_shape. Qed.
Print Assumptions mapscripts_shape.

(* every inline script is emitted exactly once, by the very function that emits script statements, as a local label *)
Theorem inline_script_is_a_script :
  forall tl opt n b r,
    emit_scripts None tl opt ((n, Some b) :: r) =
      bind_i (emit_script None tl n false opt b) (fun x => bind_i (emit_scripts None tl opt r) (fun y => Ok (x ++ y))).
Proof. exact inline_scripts_are_scripts. Qed.
Print Assumptions inline_script_is_a_script.

Theorem label_entry_emits_no_code : forall tl opt n r, emit_scripts None tl opt ((n, None) :: r) = emit_scripts None tl opt r.
Proof. exact label_entries_emit_nothing. Qed.
Print Assumptions label_entry_emits_no_code.

(* ---------- the parser side (MapScriptsParse.v) ---------- *)
(* Source grammar: statement ::= MAPSCRIPTS [scope] NAME '{' entry* '}'; entry ::= TYPE ':' LABEL | TYPE '{' body '}' |
   TYPE '[' row* ']'; row ::= cond ',' value ':' LABEL | cond ',' value '{' body '}'. The parser accepts exactly the
   statements of this grammar and returns the AST of the tree: plain entries in source order, tables in source order, the rows of
   a table in source order, inline scripts named <map>_<TYPE> and <map>_<TYPE>_<row index>; combined with mapscripts_shape:
   from tokens to the printed lines. *)
From Pory Require Import Parser Format Consume MapScriptsParse.
Theorem parse_mapscripts_sound :
  forall (autovars : list (text * autovar)) (switches : list (text * text)) (env_errors : bool)
    (parse_format : toks -> res (token * text * text * toks)),
  (forall (ts : toks) (tk : token) (v sty : text) (ts' : toks),
   parse_format ts = Ok (tk, v, sty, ts') -> forall a : toks, advs a ts -> advs a ts') ->
  forall (consts : list (text * text)) (f : nat) (ts : toks) (tp : top) (imp : impdata) (ts' : toks),
  eof_ended ts ->
  parse_mapscripts autovars switches env_errors parse_format consts f ts = Ok (tp, imp, ts') ->
  exists (g : bool) (name : text) (es : list entry) (rb : token) (rest : toks),
    mapscripts_src consts (body_parsed autovars switches env_errors parse_format consts) ts g name es rb rest /\
    ts' = rb :: rest /\ eof_ended rest /\ tp = TMapScripts name g (plain_of name es) (tables_of consts name es) /\ imp_eq imp (entries_imp es).
Proof. exact MapScriptsParse.parse_mapscripts_sound. Qed.
Print Assumptions parse_mapscripts_sound.

Theorem parse_mapscripts_sound_real :
  forall (autovars : list (text * autovar)) (switches : list (text * text)) (ee : bool) (fc : fontcfg) (cli_font : text) 
    (cli_maxlen : Z) (consts : list (text * text)) (f : nat) (ts : toks) (tp : top) (imp : impdata) (ts' : toks),
  eof_ended ts ->
  parse_mapscripts autovars switches ee (parse_format fc cli_font cli_maxlen ee) consts f ts = Ok (tp, imp, ts') ->
  exists (g : bool) (name : text) (es : list entry) (rb : token) (rest : toks),
    mapscripts_src consts (body_parsed autovars switches ee (parse_format fc cli_font cli_maxlen ee) consts) ts g name es rb rest /\
    ts' = rb :: rest /\ eof_ended rest /\ tp = TMapScripts name g (plain_of name es) (tables_of consts name es) /\ imp_eq imp (entries_imp es).
Proof. exact MapScriptsParse.parse_mapscripts_sound_real. Qed.
Print Assumptions parse_mapscripts_sound_real.

Theorem parse_mapscripts_complete :
  forall (autovars : list (text * autovar)) (switches : list (text * text)) (env_errors : bool)
    (parse_format : toks -> res (token * text * text * toks)) (consts : list (text * text)) (F0 : nat) (ts : toks) (g : bool) 
    (name : text) (es : list entry) (rb : token) (rest : toks) (f : nat),
  mapscripts_src consts (body_parses autovars switches env_errors parse_format consts F0) ts g name es rb rest ->
  F0 + Datatypes.length ts <= f ->
  exists imp : impdata,
    parse_mapscripts autovars switches env_errors parse_format consts f ts =
    Ok (TMapScripts name g (plain_of name es) (tables_of consts name es), imp, rb :: rest) /\ imp_eq imp (entries_imp es).
Proof. exact MapScriptsParse.parse_mapscripts_complete. Qed.
Print Assumptions parse_mapscripts_complete.

Theorem inline_body_is_script_body :
  forall (autovars : list (text * autovar)) (switches : list (text * text)) (env_errors : bool)
    (parse_format : toks -> res (token * text * text * toks)) (consts : list (text * text)) (sname : text) (lb : token) 
    (ts : toks) (b : list stmt) (imp : impdata) (ts' : toks),
  body_parsed autovars switches env_errors parse_format consts sname lb ts b imp ts' ->
  ttype lb = LBRACE ->
  ts <> [] ->
  forall stok ntok : token,
  ttype ntok = IDENT ->
  tlit ntok = sname ->
  exists fb : nat, parse_script autovars switches env_errors parse_format consts fb (stok :: ntok :: lb :: ts) = Ok (sname, true, b, imp, ts').
Proof. exact MapScriptsParse.inline_body_is_script_body. Qed.
Print Assumptions inline_body_is_script_body.

Theorem tree_lines :
  forall (consts : list (text * text)) (tl : list text) (opt : bool) (name : text) (g : bool) (es : list entry),
  emit_mapscripts None tl opt name g (plain_of name es) (tables_of consts name es) =
  bind_i (emit_scripts None tl opt (plain_scripts name es))
    (fun inl : list instr =>
     bind_i (table_blocks consts tl opt name es)
       (fun tt : list instr =>
        Emitter.Ok ([ILabel name g] ++ plain_lines name es ++ table_lines name es ++ [ILine (tab ++ t ".byte 0"); IBlank] ++ inl ++ tt))).
Proof. exact MapScriptsParse.tree_lines. Qed.
Print Assumptions tree_lines.

Theorem mapscripts_tokens_to_lines :
  forall (autovars : list (text * autovar)) (switches : list (text * text)) (env_errors : bool)
    (parse_format : toks -> res (token * text * text * toks)),
  (forall (ts : toks) (tk : token) (v sty : text) (ts' : toks),
   parse_format ts = Ok (tk, v, sty, ts') -> forall a : toks, advs a ts -> advs a ts') ->
  forall (consts : list (text * text)) (tl : list text) (opt : bool) (f : nat) (ts : toks) (name : text) (g : bool) 
    (plain : list mapscript) (tables : list tablems) (imp : impdata) (ts' : toks),
  eof_ended ts ->
  parse_mapscripts autovars switches env_errors parse_format consts f ts = Ok (TMapScripts name g plain tables, imp, ts') ->
  exists (es : list entry) (rb : token) (rest : toks),
    mapscripts_src consts (body_parsed autovars switches env_errors parse_format consts) ts g name es rb rest /\
    ts' = rb :: rest /\
    emit_mapscripts None tl opt name g plain tables =
    bind_i (emit_scripts None tl opt (plain_scripts name es))
      (fun inl : list instr =>
       bind_i (table_blocks consts tl opt name es)
         (fun tt : list instr =>
          Emitter.Ok ([ILabel name g] ++ plain_lines name es ++ table_lines name es ++ [ILine (tab ++ t ".byte 0"); IBlank] ++ inl ++ tt))).
Proof. exact MapScriptsParse.mapscripts_tokens_to_lines. Qed.
Print Assumptions mapscripts_tokens_to_lines.

Theorem mapscripts_source_to_lines :
  forall (hl hd hs : N -> bool) (autovars : list (text * autovar)) (switches : list (text * text)) (ee : bool) (fc : fontcfg) 
    (cli_font : text) (cli_maxlen : Z) (consts : list (text * text)) (tl : list text) (opt : bool) (f : nat) (s name : text) 
    (g : bool) (plain : list mapscript) (tables : list tablems) (imp : impdata) (ts' : toks),
  parse_mapscripts autovars switches ee (parse_format fc cli_font cli_maxlen ee) consts f (lex hl hd hs s) =
  Ok (TMapScripts name g plain tables, imp, ts') ->
  exists (es : list entry) (rb : token) (rest : toks),
    mapscripts_src consts (body_parsed autovars switches ee (parse_format fc cli_font cli_maxlen ee) consts) (lex hl hd hs s) g name es rb rest /\
    ts' = rb :: rest /\
    emit_mapscripts None tl opt name g plain tables =
    bind_i (emit_scripts None tl opt (plain_scripts name es))
      (fun inl : list instr =>
       bind_i (table_blocks consts tl opt name es)
         (fun tt : list instr =>
          Emitter.Ok ([ILabel name g] ++ plain_lines name es ++ table_lines name es ++ [ILine (tab ++ t ".byte 0"); IBlank] ++ inl ++ tt))).
Proof. exact MapScriptsParse.mapscripts_source_to_lines. Qed.
Print Assumptions mapscripts_source_to_lines.

Theorem statement_to_lines :
  forall (autovars : list (text * autovar)) (switches : list (text * text)) (env_errors : bool)
    (parse_format : toks -> res (token * text * text * toks)) (consts : list (text * text)) (F0 : nat) (tl : list text) 
    (opt : bool) (ts : toks) (g : bool) (name : text) (es : list entry) (rb : token) (rest : toks) (f : nat),
  mapscripts_src consts (body_parses autovars switches env_errors parse_format consts F0) ts g name es rb rest ->
  F0 + Datatypes.length ts <= f ->
  exists (plain : list mapscript) (tables : list tablems) (imp : impdata),
    parse_mapscripts autovars switches env_errors parse_format consts f ts = Ok (TMapScripts name g plain tables, imp, rb :: rest) /\
    emit_mapscripts None tl opt name g plain tables =
    bind_i (emit_scripts None tl opt (plain_scripts name es))
      (fun inl : list instr =>
       bind_i (table_blocks consts tl opt name es)
         (fun tt : list instr =>
          Emitter.Ok ([ILabel name g] ++ plain_lines name es ++ table_lines name es ++ [ILine (tab ++ t ".byte 0"); IBlank] ++ inl ++ tt))).
Proof. exact MapScriptsParse.statement_to_lines. Qed.
Print Assumptions statement_to_lines.

Theorem parse_tops_mapscripts_real :
  forall (autovars : list (text * autovar)) (switches : list (text * text)) (ee : bool) (fc : fontcfg) (cli_font : text) 
    (cli_maxlen : Z) (f : nat) (st : pstate) (ts : toks) (st' : pstate),
  eof_ended ts ->
  ttype (cur ts) = MAPSCRIPTS ->
  parse_tops autovars switches ee (parse_format fc cli_font cli_maxlen ee) (S f) st ts = Ok st' ->
  exists (g : bool) (name : text) (es : list entry) (rb : token) (rest : toks) (imp : impdata) (h' : hst) (ps : list patch),
    mapscripts_src (pconsts st) (body_parsed autovars switches ee (parse_format fc cli_font cli_maxlen ee) (pconsts st)) ts g name es rb rest /\
    imp_eq imp (entries_imp es) /\
    add_implicit imp (ph st) = (h', ps) /\
    parse_tops autovars switches ee (parse_format fc cli_font cli_maxlen ee) f
      {|
        pconsts := pconsts st;
        ph := h';
        ptops :=
          ptops st ++ [TMapScripts name g (plain_of name (map (patch_entry ps) es)) (tables_of (pconsts st) name (map (patch_entry ps) es))];
        ptexts := ptexts st
      |} rest = Ok st'.
Proof. exact MapScriptsParse.parse_tops_mapscripts_real. Qed.
Print Assumptions parse_tops_mapscripts_real.

Theorem rows_ast_nth :
  forall (consts : list (text * text)) (name ty : text) (rows : list row) (k : nat),
  nth_error (rows_ast consts name ty 0 rows) k = option_map (row_ast consts name ty k) (nth_error rows k).
Proof. exact MapScriptsParse.rows_ast_nth. Qed.
Print Assumptions rows_ast_nth.

Theorem rows_ast_length :
  forall (consts : list (text * text)) (name ty : text) (i : nat) (rows : list row),
  Datatypes.length (rows_ast consts name ty i rows) = Datatypes.length rows.
Proof. exact MapScriptsParse.rows_ast_length. Qed.
Print Assumptions rows_ast_length.

Theorem entry_count :
  forall (consts : list (text * text)) (name : text) (es : list entry),
  Datatypes.length (plain_of name es) + Datatypes.length (tables_of consts name es) = Datatypes.length es.
Proof. exact MapScriptsParse.entry_count. Qed.
Print Assumptions entry_count.

Theorem inline_row_name :
  forall (consts : list (text * text)) (name ty : text) (rows : list row) (k : nat) (c v : list token) (b : list stmt) (imp : impdata),
  nth_error rows k = Some (RInline c v b imp) ->
  exists e : tableentry, nth_error (rows_ast consts name ty 0 rows) k = Some e /\ teName e = row_name name ty k /\ teScript e = Some b.
Proof. exact MapScriptsParse.inline_row_name. Qed.
Print Assumptions inline_row_name.

Theorem label_row_name :
  forall (consts : list (text * text)) (name ty : text) (rows : list row) (k : nat) (c v : list token) (lbl : token),
  nth_error rows k = Some (RLabel c v lbl) ->
  exists e : tableentry, nth_error (rows_ast consts name ty 0 rows) k = Some e /\ teName e = tlit lbl /\ teScript e = None.
Proof. exact MapScriptsParse.label_row_name. Qed.
Print Assumptions label_row_name.

Theorem row_names_distinct :
  forall (name ty : text) (i j : nat),
  (N.of_nat i < 10 ^ 40)%N -> (N.of_nat j < 10 ^ 40)%N -> i <> j -> row_name name ty i <> row_name name ty j.
Proof. exact MapScriptsParse.row_names_distinct. Qed.
Print Assumptions row_names_distinct.

Theorem table_inline_names_nodup :
  forall (consts : list (text * text)) (name ty : text) (rows : list row),
  (N.of_nat (Datatypes.length rows) <= 10 ^ 40)%N -> NoDup (map teName (filter has_script (rows_ast consts name ty 0 rows))).
Proof. exact MapScriptsParse.table_inline_names_nodup. Qed.
Print Assumptions table_inline_names_nodup.

Theorem plain_names_distinct :
  forall (name : text) (ty1 ty2 : token), tlit ty1 <> tlit ty2 -> plain_name name ty1 <> plain_name name ty2.
Proof. exact MapScriptsParse.plain_names_distinct. Qed.
Print Assumptions plain_names_distinct.

