(* C04 / C05: shape invariants of the worklist that the render check needs: chunk ids are dense (0 .. n-1), strict targets
   (gotos, condition success edges, case / default entries) are real chunks, no branch refers to chunk 0, and a switch chunk
   with a case table is never the last chunk of an order (its first body chunk comes later). *)
From Coq Require Import List String Ascii ZArith NArith Lia Bool Permutation.
From Pory Require Import Lexer Ast Emitter Sem2 Tr Worklist WorkRefs.
Import ListNotations.
Open Scope list_scope.

(* ---------- notions ---------- *)
Definition stargets (c : chunk) : list Z :=
  match cbr c with
  | Some (BrJump d) => [d]
  | Some (BrLeaf _ tr _) => [tr]
  | Some (BrSwitch _ _ cases def _) => map (fun x : text * Z * Z => snd x) cases ++ match def with Some dd => [dd] | None => [] end
  | _ => []
  end.
Definition noswitch (c : chunk) : Prop := match cbr c with Some (BrSwitch _ _ _ _ _) => False | _ => True end.
Definition cnt (cn c' : Z) (news : list chunk) : Prop := Z.of_nat (List.length news) = (c' - cn)%Z.
Definition srefs (A : Z -> Prop) (cs : list chunk) : Prop := forall c, In c cs -> forall d, In d (stargets c) -> A d.
Lemma srefs_nil (A : Z -> Prop) : srefs A []. Proof. intros c []. Qed.
Lemma srefs_app (A : Z -> Prop) a b : srefs A a -> srefs A b -> srefs A (a ++ b).
Proof. intros H1 H2 c I. apply in_app_or in I. destruct I as [I|I]; [apply H1|apply H2]; exact I. Qed.
Lemma srefs_cons (A : Z -> Prop) c cs : (forall d, In d (stargets c) -> A d) -> srefs A cs -> srefs A (c :: cs).
Proof. intros H1 H2 x [<-|I]; [exact H1|apply H2; exact I]. Qed.
Lemma srefs_weaken (A A' : Z -> Prop) cs : (forall d, A d -> A' d) -> srefs A cs -> srefs A' cs.
Proof. intros H R c I d J. apply H. eapply R; eassumption. Qed.
Lemma srefs_plain (A : Z -> Prop) cs : Forall plainchunk cs -> srefs A cs.
Proof. intros F c I d J. rewrite Forall_forall in F. destruct (F c I) as [_ B]. unfold stargets in J. rewrite B in J. destruct J. Qed.
Lemma noswitch_plain cs : Forall plainchunk cs -> Forall noswitch cs.
Proof. intros F. eapply Forall_impl; [|exact F]. intros c [_ B]. unfold noswitch. rewrite B. exact Logic.I. Qed.
Lemma cnt_nil cn : cnt cn cn []. Proof. unfold cnt. cbn. lia. Qed.
Lemma cnt_app cn c1 c2 a b : cnt cn c1 a -> cnt c1 c2 b -> cnt cn c2 (a ++ b).
Proof. unfold cnt. rewrite app_length. lia. Qed.
Lemma cnt_one cn c : cnt cn (cn + 1) [c]. Proof. unfold cnt. cbn. lia. Qed.

(* ---------- conditions ---------- *)
Lemma split_bexp_shape : forall e cn su fa fi cs en f2 c2,
  split_bexp e cn su fa fi = (cs, en, f2, c2) -> (0 <= cn)%Z ->
  cnt cn c2 cs /\ srefs (fun d => (cn < d)%Z \/ d = su) cs /\ Forall noswitch cs.
Proof.
  induction e as [l|o a IHa b IHb]; intros cn su fa fi cs en f2 c2 H Hc.
  - cbn in H. inversion H; subst. split; [apply cnt_one|]. split; [|repeat constructor].
    apply srefs_cons; [|apply srefs_nil]. cbn. intros d [<-|[]]. right. reflexivity.
  - destruct o; cbn [split_bexp] in H.
    + destruct (split_bexp a (cn + 1) (cn + 1) fa fi) as [[[ra la] f1] c1] eqn:Ea.
      destruct (split_bexp b c1 su fa f1) as [[[rb lb] f2x] c2x] eqn:Eb. inversion H; subst.
      destruct (split_bexp_ids _ _ _ _ _ _ _ _ _ Ea ltac:(lia)) as (A1 & _).
      destruct (split_bexp_ids _ _ _ _ _ _ _ _ _ Eb ltac:(lia)) as (B1 & _).
      destruct (IHa _ _ _ _ _ _ _ _ Ea ltac:(lia)) as (CA & SA & NA). destruct (IHb _ _ _ _ _ _ _ _ Eb ltac:(lia)) as (CB & SB & NB).
      split; [|split].
      * unfold cnt in *. rewrite !app_length. cbn. lia.
      * apply srefs_app; [|apply srefs_app].
        -- eapply srefs_weaken; [|exact SA]. cbn. intros d [Q|Q]; left; lia.
        -- eapply srefs_weaken; [|exact SB]. cbn. intros d [Q|Q]; [left; lia|right; exact Q].
        -- apply srefs_cons; [|apply srefs_nil]. cbn. intros d [<-|[]]. left. lia.
      * apply Forall_app. split; [exact NA|]. apply Forall_app. split; [exact NB|]. repeat constructor.
    + destruct (split_bexp a (cn + 1) su (cn + 1) fi) as [[[ra la] f1] c1] eqn:Ea.
      destruct (split_bexp b c1 su fa f1) as [[[rb lb] f2x] c2x] eqn:Eb. inversion H; subst.
      destruct (split_bexp_ids _ _ _ _ _ _ _ _ _ Ea ltac:(lia)) as (A1 & _).
      destruct (split_bexp_ids _ _ _ _ _ _ _ _ _ Eb ltac:(lia)) as (B1 & _).
      destruct (IHa _ _ _ _ _ _ _ _ Ea ltac:(lia)) as (CA & SA & NA). destruct (IHb _ _ _ _ _ _ _ _ Eb ltac:(lia)) as (CB & SB & NB).
      split; [|split].
      * unfold cnt in *. rewrite !app_length. cbn. lia.
      * apply srefs_app; [|apply srefs_app].
        -- eapply srefs_weaken; [|exact SA]. cbn. intros d [Q|Q]; [left; lia|right; exact Q].
        -- eapply srefs_weaken; [|exact SB]. cbn. intros d [Q|Q]; [left; lia|right; exact Q].
        -- apply srefs_cons; [|apply srefs_nil]. cbn. intros d [<-|[]]. left. lia.
      * apply Forall_app. split; [exact NA|]. apply Forall_app. split; [exact NB|]. repeat constructor.
Qed.

Lemma sfb_shape cur pre s rest' cn post ret c0 :
  cstmts cur = pre ++ s :: rest' -> split_for_branch cur (List.length pre) cn = (post, ret, c0) ->
  cnt cn c0 post /\ Forall plainchunk post /\ (cn <= c0)%Z.
Proof.
  intros E H. destruct (sfb_spec _ _ _ _ _ _ _ _ E H) as [(-> & -> & -> & ->)|(N & -> & -> & ->)].
  - split; [apply cnt_nil|]. split; [constructor|lia].
  - split; [apply cnt_one|]. split; [repeat constructor|lia].
Qed.

Lemma bodies_cnt : forall bodies cn ret cs c', mk_body_chunks bodies cn ret = (cs, c') -> cnt cn c' cs.
Proof.
  induction bodies as [|b r IH]; intros cn ret cs c' H; cbn in H.
  - inversion H; subst. apply cnt_nil.
  - destruct (mk_body_chunks r (cn + 1) ret) as [cs1 c1] eqn:E. inversion H; subst. pose proof (IH _ _ _ _ E) as C.
    unfold cnt in *. cbn [List.length]. lia.
Qed.

Lemma stitch_shape : forall rl cn fail cs entry c',
  stitch_elifs rl cn fail = (cs, entry, c') -> (0 <= cn)%Z ->
  cnt cn c' cs /\ srefs (fun d => (cn < d)%Z \/ In d (map snd rl)) cs /\ Forall noswitch cs.
Proof.
  induction rl as [|[e id] r IH]; intros cn fail cs entry c' H Hc; cbn in H.
  - inversion H; subst. split; [apply cnt_nil|]. split; [apply srefs_nil|constructor].
  - destruct (split_bexp e cn id fail (-1)) as [[[cs0 x] first] c1] eqn:E0.
    destruct (stitch_elifs r c1 first) as [[cs2 entry2] c2] eqn:E2. inversion H; subst.
    destruct (split_bexp_ids _ _ _ _ _ _ _ _ _ E0 Hc) as (A1 & _).
    destruct (split_bexp_shape _ _ _ _ _ _ _ _ _ E0 Hc) as (C0 & S0 & N0).
    destruct (IH _ _ _ _ _ E2 ltac:(lia)) as (C2 & S2 & N2). split; [eapply cnt_app; eassumption|]. split.
    + apply srefs_app.
      * eapply srefs_weaken; [|exact S0]. cbn. intros d [Q|Q]; [left; exact Q|right; left; symmetry; exact Q].
      * eapply srefs_weaken; [|exact S2]. cbn. intros d [Q|Q]; [left; lia|right; right; exact Q].
    + apply Forall_app. split; assumption.
Qed.

Lemma in_combine_snd' {A C} (a : list A) (b : list C) x : In x (map snd (combine a b)) -> In x b.
Proof. revert b. induction a as [|y a IH]; intros [|z b] H; cbn in *; try contradiction. destruct H as [<-|H]; auto. Qed.

(* ---------- if ---------- *)
Lemma create_if_shape e b more els cur pre rest' cn news br ret c' :
  cstmts cur = pre ++ SIf ((e, b) :: more) els :: rest' ->
  create_if ((e, b) :: more) els cur (List.length pre) cn = (news, br, ret, c') -> (0 <= cn)%Z ->
  cnt cn c' news /\ srefs (fun d => (cn < d)%Z) (fin_of cur pre ret br :: news) /\ Forall noswitch (fin_of cur pre ret br :: news).
Proof.
  intros E H Hc. rewrite create_if_unfold in H.
  destruct (split_for_branch cur (List.length pre) cn) as [[post ret0] c0] eqn:ES.
  destruct (mk_body_chunks (b :: map snd more) c0 ret0) as [bodychunks c1] eqn:EB.
  destruct (sfb_shape _ _ _ _ _ _ _ _ E ES) as (CP & PP & C0).
  destruct (mk_body_chunks_spec _ _ _ _ _ EB) as (B1 & B2 & _ & B4 & _ & B6). pose proof (bodies_cnt _ _ _ _ _ EB) as CB.
  set (EL := match els with Some eb => let c := (c1 + 1)%Z in ([mk c ret0 eb None], c, c) | None => ([], c1, ret0) end) in H.
  assert (NE : cnt c1 (snd (fst EL)) (fst (fst EL)) /\ Forall plainchunk (fst (fst EL)) /\ (c1 <= snd (fst EL))%Z).
  { subst EL. destruct els as [eb|]; cbn.
    - split; [apply cnt_one|]. split; [repeat constructor|lia].
    - split; [apply cnt_nil|]. split; [constructor|lia]. }
  destruct EL as [[elsechunk c2] finalfail]. cbn [fst snd] in NE. destruct NE as (CE & PE & C2).
  destruct (stitch_elifs (rev (combine (map fst more) (tl (map cid bodychunks)))) c2 finalfail) as [[cs entryfail] c3] eqn:EST.
  destruct (stitch_news _ _ _ _ _ _ EST ltac:(lia)) as [S1 _]. assert (C3 : (c2 <= c3)%Z) by (destruct S1; assumption).
  destruct (stitch_shape _ _ _ _ _ _ EST ltac:(lia)) as (CS & SS & NS).
  destruct (split_bexp e c3 (hd 0%Z (map cid bodychunks)) entryfail (-1)) as [[[cs1 x] entry] c4] eqn:EX.
  destruct (split_bexp_ids _ _ _ _ _ _ _ _ _ EX ltac:(lia)) as (X1 & _ & _ & _ & X5). cbn in X5. subst entry.
  destruct (split_bexp_shape _ _ _ _ _ _ _ _ _ EX ltac:(lia)) as (CX & SX & NX).
  inversion H; subst. clear H.
  assert (BID : forall d, In d (map cid bodychunks) -> (cn < d)%Z).
  { intros d Hd. pose proof (ids_in_In _ _ _ _ B2 Hd). lia. }
  split; [|split].
  - eapply cnt_app; [exact CP|]. eapply cnt_app; [exact CB|]. eapply cnt_app; [exact CE|]. eapply cnt_app; [exact CS|exact CX].
  - apply srefs_cons; [cbn; intros d [<-|[]]; lia|].
    apply srefs_app; [apply srefs_plain; exact PP|]. apply srefs_app; [apply srefs_plain; exact B4|].
    apply srefs_app; [apply srefs_plain; exact PE|]. apply srefs_app.
    + eapply srefs_weaken; [|exact SS]. cbn. intros d [Q|Q]; [lia|]. apply BID. rewrite map_rev in Q. apply in_rev in Q.
      apply in_combine_snd' in Q. destruct (map cid bodychunks); [destruct Q|right; exact Q].
    + eapply srefs_weaken; [|exact SX]. cbn. intros d [Q|Q]; [lia|]. subst d. apply BID.
      destruct bodychunks as [|bc0 bcs]; [cbn in B6; discriminate|left; reflexivity].
  - constructor; [exact Logic.I|]. apply Forall_app. split; [apply noswitch_plain; exact PP|].
    apply Forall_app. split; [apply noswitch_plain; exact B4|]. apply Forall_app. split; [apply noswitch_plain; exact PE|].
    apply Forall_app. split; assumption.
Qed.

(* ---------- loops ---------- *)
Lemma loop_shape cur pre post cs (ret0 c0 cn c1 : Z) body entry :
  cnt cn c0 post -> Forall plainchunk post -> (cn <= c0)%Z -> cnt (c0 + 2) c1 cs ->
  srefs (fun d => (c0 + 2 < d)%Z \/ d = (c0 + 2)%Z) cs -> Forall noswitch cs -> (c0 + 2 <= entry)%Z ->
  forall j, (j = c0 + 1 \/ j = c0 + 2)%Z ->
  let news := post ++ cs ++ [mk (c0 + 2) (c0 + 1) body None; mk (c0 + 1) ret0 [] (Some (BrJump entry))] in
  cnt cn c1 news /\ srefs (fun d => (cn < d)%Z) (fin_of cur pre ret0 (BrJump j) :: news) /\
  Forall noswitch (fin_of cur pre ret0 (BrJump j) :: news).
Proof.
  intros CP PP C0 CC SC NC EN j Hj news. split; [|split].
  - unfold news, cnt in *. rewrite !app_length. cbn [List.length]. lia.
  - apply srefs_cons; [cbn; intros d [<-|[]]; lia|].
    apply srefs_app; [apply srefs_plain; exact PP|]. apply srefs_app.
    + eapply srefs_weaken; [|exact SC]. cbn. intros; lia.
    + apply srefs_cons; [cbn; intros d []|]. apply srefs_cons; [cbn; intros d [<-|[]]; lia|apply srefs_nil].
  - constructor; [exact Logic.I|]. apply Forall_app. split; [apply noswitch_plain; exact PP|]. apply Forall_app. split; [exact NC|].
    repeat constructor.
Qed.

Lemma create_while_shape tg c body cur pre rest' cn news br ret c' :
  cstmts cur = pre ++ SWhile tg c body :: rest' ->
  create_while c body cur (List.length pre) cn = (news, br, ret, c') -> (0 <= cn)%Z ->
  cnt cn c' news /\ srefs (fun d => (cn < d)%Z) (fin_of cur pre ret br :: news) /\ Forall noswitch (fin_of cur pre ret br :: news).
Proof.
  intros E H Hc. unfold create_while in H.
  destruct (split_for_branch cur (List.length pre) cn) as [[post ret0] c0] eqn:ES.
  destruct (sfb_shape _ _ _ _ _ _ _ _ E ES) as (CP & PP & C0).
  destruct c as [e|].
  - destruct (split_bexp e (c0 + 2) (c0 + 2) ret0 (-1)) as [[[cs x] entry] c1] eqn:EX.
    destruct (split_bexp_ids _ _ _ _ _ _ _ _ _ EX ltac:(lia)) as (X1 & _ & _ & _ & X5). cbn in X5. subst entry.
    destruct (split_bexp_shape _ _ _ _ _ _ _ _ _ EX ltac:(lia)) as (CX & SX & NX).
    inversion H; subst. eapply loop_shape; eauto; lia.
  - inversion H; subst. apply (loop_shape cur pre post [] ret c0 cn (c0 + 2) body (c0 + 2)); auto; try lia.
    + apply cnt_nil.
    + apply srefs_nil.
Qed.
Lemma create_dowhile_shape tg body e cur pre rest' cn news br ret c' :
  cstmts cur = pre ++ SDoWhile tg body e :: rest' ->
  create_dowhile body e cur (List.length pre) cn = (news, br, ret, c') -> (0 <= cn)%Z ->
  cnt cn c' news /\ srefs (fun d => (cn < d)%Z) (fin_of cur pre ret br :: news) /\ Forall noswitch (fin_of cur pre ret br :: news).
Proof.
  intros E H Hc. unfold create_dowhile in H.
  destruct (split_for_branch cur (List.length pre) cn) as [[post ret0] c0] eqn:ES.
  destruct (sfb_shape _ _ _ _ _ _ _ _ E ES) as (CP & PP & C0).
  destruct (split_bexp e (c0 + 2) (c0 + 2) ret0 (-1)) as [[[cs x] entry] c1] eqn:EX.
  destruct (split_bexp_ids _ _ _ _ _ _ _ _ _ EX ltac:(lia)) as (X1 & _ & _ & _ & X5). cbn in X5. subst entry.
  destruct (split_bexp_shape _ _ _ _ _ _ _ _ _ EX ltac:(lia)) as (CX & SX & NX).
  inversion H; subst. eapply loop_shape; eauto; lia.
Qed.

(* ---------- switch ---------- *)
Lemma sw_suf_cnt ret : forall f S st st' el,
  sw_suf f S ret st = (st', el) -> (List.length S < f)%nat ->
  exists extra, sw_new st' = sw_new st ++ extra /\ cnt (sw_counter st) (sw_counter st') extra.
Proof.
  induction f as [|f IH]; intros S st st' el H L; [lia|].
  assert (ONE : forall st1 S1 b, sw_suf f S1 ret st1 = (st', el) -> (List.length S1 < f)%nat ->
                 sw_new st1 = sw_new st ++ [mk (sw_counter st + 1) ret b None] -> sw_counter st1 = (sw_counter st + 1)%Z ->
                 exists extra, sw_new st' = sw_new st ++ extra /\ cnt (sw_counter st) (sw_counter st') extra).
  { intros st1 S1 b H1 L1 N1 C1. destruct (IH _ _ _ _ H1 L1) as (ex & A1 & A2). rewrite C1 in *.
    exists (mk (sw_counter st + 1) ret b None :: ex). split; [rewrite A1, N1, <- app_assoc; reflexivity|].
    unfold cnt in *. cbn [List.length]. lia. }
  destruct S as [|c r].
  - cbn in H. inversion H; subst. exists []. rewrite app_nil_r. split; [reflexivity|apply cnt_nil].
  - cbn [sw_suf] in H. cbn [List.length] in L. destruct (sc_body c) as [|s0 b0] eqn:Bc.
    + destruct (find_bodied r 0) as [[k cj]|] eqn:FB.
      * destruct (find_bodied_some _ _ _ FB) as (E & r' & -> & HE & N & LEN).
        assert (F2 : skipn (S k) (E ++ cj :: r') = r') by (rewrite <- LEN; apply skipn_app_here). rewrite F2 in H.
        apply (ONE _ _ (sc_body cj) H); [rewrite app_length in L; cbn in L; lia|reflexivity|reflexivity].
      * destruct (sw_def st) as [dd|].
        -- assert (H' : ({| sw_new := sw_new st ++ [mk (sw_counter st + 1) ret [] None];
                           sw_cases := sw_cases st ++ flat_map (case_entry (sw_counter st + 1)) (c :: r);
                           sw_def := Some dd; sw_counter := (sw_counter st + 1)%Z |}, false) = (st', el)) by (destruct (sw_cases st); exact H).
           inversion H'; subst. cbn. exists [mk (sw_counter st + 1) ret [] None]. split; [reflexivity|apply cnt_one].
        -- assert (H' : st' = st) by (destruct (sw_cases st); inversion H; reflexivity). subst st'.
           exists []. rewrite app_nil_r. split; [reflexivity|apply cnt_nil].
    + apply (ONE _ _ (sc_body c) H); [lia|rewrite Bc; reflexivity|reflexivity].
Qed.

(* the first chunk the case loop creates, if any, gets the id right after the current counter *)
Lemma sw_suf_first ret f S st st' el :
  sw_suf f S ret st = (st', el) -> (List.length S < f)%nat ->
  sw_new st' = sw_new st \/ exists b rest, sw_new st' = sw_new st ++ mk (sw_counter st + 1) ret b None :: rest.
Proof.
  intros H L. destruct f as [|f]; [lia|]. destruct S as [|c r]; [cbn in H; inversion H; subst; left; reflexivity|]. cbn [sw_suf] in H. cbn [List.length] in L.
  destruct (sc_body c) as [|s0 b0] eqn:Bc.
  - destruct (find_bodied r 0) as [[k cj]|] eqn:FB.
    + destruct (find_bodied_some _ _ _ FB) as (E & r' & -> & HE & N & LEN).
      assert (F2 : skipn (S k) (E ++ cj :: r') = r') by (rewrite <- LEN; apply skipn_app_here). rewrite F2 in H.
      destruct (sw_suf_cnt ret _ _ _ _ _ H) as (ex & A1 & _); [rewrite app_length in L; cbn in L; lia|]. cbn [sw_new] in A1.
      right. exists (sc_body cj), ex. rewrite A1, <- app_assoc. reflexivity.
    + destruct (sw_def st) as [dd|].
      * assert (H' : ({| sw_new := sw_new st ++ [mk (sw_counter st + 1) ret [] None];
                         sw_cases := sw_cases st ++ flat_map (case_entry (sw_counter st + 1)) (c :: r);
                         sw_def := Some dd; sw_counter := (sw_counter st + 1)%Z |}, false) = (st', el)) by (destruct (sw_cases st); exact H).
        inversion H'; subst. cbn. right. exists [], []. reflexivity.
      * assert (H' : st' = st) by (destruct (sw_cases st); inversion H; reflexivity). subst st'. left. reflexivity.
  - destruct (sw_suf_cnt ret _ _ _ _ _ H) as (ex & A1 & _); [lia|]. cbn [sw_new] in A1.
    right. exists (s0 :: b0), ex. rewrite A1, <- app_assoc. reflexivity.
Qed.

(* a non-elided switch with at least one case has a case entry or a default *)
Definition tbl (st : swst) : Prop := sw_cases st <> [] \/ sw_def st <> None.
Lemma tbl_group st id Grp b : (tbl st \/ Grp <> []) ->
  tbl {| sw_new := sw_new st ++ [mk id 0 b None]; sw_cases := sw_cases st ++ flat_map (case_entry id) Grp;
         sw_def := if existsb sc_def Grp then Some id else sw_def st; sw_counter := id |}.
Proof.
  intros [[T|T]|NE]; unfold tbl; cbn [sw_cases sw_def].
  - left. intros E. apply app_eq_nil in E. destruct E as [E _]. exact (T E).
  - right. destruct (existsb sc_def Grp); [discriminate|exact T].
  - destruct Grp as [|c r]; [congruence|]. cbn [existsb flat_map]. unfold case_entry at 1. destruct (sc_def c); cbn [orb].
    + right. discriminate.
    + left. intros E. apply app_eq_nil in E. destruct E as [_ E]. discriminate E.
Qed.
Lemma sw_suf_tbl ret : forall f S st st' el, sw_suf f S ret st = (st', el) -> tbl st -> tbl st'.
Proof.
  induction f as [|f IH]; intros S st st' el H T; [cbn in H; inversion H; subst; exact T|].
  destruct S as [|c r]; [cbn in H; inversion H; subst; exact T|]. cbn [sw_suf] in H.
  destruct (sc_body c) as [|s0 b0] eqn:Bc.
  - destruct (find_bodied r 0) as [[k cj]|].
    + eapply IH; [exact H|]. destruct T as [T|T]; unfold tbl; cbn [sw_cases sw_def].
      * left. intros E. apply app_eq_nil in E. destruct E as [E _]. exact (T E).
      * right. destruct (sc_def cj || existsb sc_def (c :: firstn k r)); [discriminate|exact T].
    + destruct (sw_def st) as [dd|] eqn:DS.
      * assert (H' : ({| sw_new := sw_new st ++ [mk (sw_counter st + 1) ret [] None];
                         sw_cases := sw_cases st ++ flat_map (case_entry (sw_counter st + 1)) (c :: r);
                         sw_def := Some dd; sw_counter := (sw_counter st + 1)%Z |}, false) = (st', el)) by (destruct (sw_cases st); exact H).
        inversion H'; subst. right. cbn. discriminate.
      * assert (H' : st' = st) by (destruct (sw_cases st); inversion H; reflexivity). subst st'. exact T.
  - eapply IH; [exact H|]. destruct T as [T|T]; unfold tbl; cbn [sw_cases sw_def].
    + left. intros E. apply app_eq_nil in E. destruct E as [E _]. exact (T E).
    + right. destruct (sc_def c); [discriminate|exact T].
Qed.
Lemma sw_suf_nonempty ret f S st st' :
  sw_suf f S ret st = (st', false) -> (List.length S < f)%nat -> S <> [] -> tbl st'.
Proof.
  intros H L NE. destruct f as [|f]; [lia|]. destruct S as [|c r]; [congruence|]. cbn [sw_suf] in H.
  destruct (sc_body c) as [|s0 b0] eqn:Bc.
  - destruct (find_bodied r 0) as [[k cj]|] eqn:FB.
    + eapply sw_suf_tbl; [exact H|]. unfold tbl; cbn [sw_cases sw_def].
      unfold case_entry at 1. cbn [flat_map]. unfold case_entry at 1. destruct (sc_def c) eqn:DC.
      * right. rewrite orb_comm. cbn [existsb]. rewrite DC. cbn [orb]. discriminate.
      * left. intros E. apply app_eq_nil in E. destruct E as [_ E]. discriminate E.
    + destruct (sw_def st) as [dd|] eqn:DS.
      * assert (H' : ({| sw_new := sw_new st ++ [mk (sw_counter st + 1) ret [] None];
                         sw_cases := sw_cases st ++ flat_map (case_entry (sw_counter st + 1)) (c :: r);
                         sw_def := Some dd; sw_counter := (sw_counter st + 1)%Z |}, false) = (st', false)) by (destruct (sw_cases st); exact H).
        inversion H'; subst. right. cbn. discriminate.
      * destruct (sw_cases st) as [|x xs] eqn:CS; [discriminate|]. inversion H; subst. left. rewrite CS. discriminate.
  - eapply sw_suf_tbl; [exact H|]. unfold tbl; cbn [sw_cases sw_def]. unfold case_entry. destruct (sc_def c).
    + right. discriminate.
    + left. intros E. apply app_eq_nil in E. destruct E as [_ E]. discriminate E.
Qed.

Definition nonempty_switch (c : chunk) : Prop := match cbr c with Some (BrSwitch _ _ [] None _) => False | _ => True end.

(* a switch chunk with a non-empty case table and no default *)
Definition is_table (c : chunk) : Prop := match cbr c with Some (BrSwitch _ _ (_ :: _) None _) => True | _ => False end.

Lemma create_switch_shape tg op ol cases cur pre rest' cn news br ret c' :
  cstmts cur = pre ++ SSwitch tg op ol cases :: rest' ->
  create_switch op ol cases cur (List.length pre) cn = (news, br, ret, c') -> (0 <= cn)%Z ->
  cnt cn c' news /\ srefs (fun d => (cn < d)%Z) (fin_of cur pre ret br :: news) /\
  (* the only chunk with a switch branch is the switch chunk; when it has a table without default and the switch has a case,
     the next id is a chunk, and no chunk created here falls through to it *)
  exists post sid swc bodies, news = post ++ swc :: bodies /\ Forall plainchunk post /\ Forall plainchunk bodies /\ cid swc = sid /\ (cn < sid)%Z /\
    br = BrJump sid /\ cstmts swc = [] /\
    Forall (fun c => tail_of c = ret) bodies /\ Forall (fun c => tail_of c = cret cur) post /\ (ret = cret cur \/ (cn < ret < sid)%Z) /\
    (is_table swc -> tail_of swc = ret /\ In (sid + 1)%Z (ids bodies)) /\ (cases <> [] -> nonempty_switch swc).
Proof.
  intros E H Hc. unfold create_switch in H.
  destruct (split_for_branch cur (List.length pre) cn) as [[post ret0] c0] eqn:ES.
  destruct (sfb_shape _ _ _ _ _ _ _ _ E ES) as (CP & PP & C0).
  cbv zeta in H. rewrite sw_loop_suf in H. change (skipn 0 cases) with cases in H.
  match type of H with context[sw_suf ?a ?b ?c ?d] => destruct (sw_suf a b c d) as [st el] eqn:SW end.
  assert (LL : (List.length cases < S (List.length cases))%nat) by lia.
  destruct (sw_suf_news _ _ _ _ _ _ SW LL) as (ex & A1 & A2 & A3 & A4 & A5 & _). cbn in A1, A2, A3. subst ex.
  destruct (sw_suf_cnt _ _ _ _ _ _ SW LL) as (ex & B1 & B2). cbn in B1, B2. subst ex.
  assert (J0 : swJ ret0 {| sw_new := []; sw_cases := []; sw_def := None; sw_counter := (c0 + 1)%Z |}).
  { unfold swJ. cbn. split; [intros x []|split; [discriminate|apply refs_nil]]. }
  destruct (sw_suf_refs ret0 _ _ _ _ _ SW J0) as (J1 & J2 & J3). inversion H; subst. clear H.
  assert (NEWID : forall d, In d (ids (sw_new st)) -> (cn < d)%Z) by (intros d Hd; pose proof (ids_in_In _ _ _ _ A3 Hd); lia).
  split; [|split].
  - eapply cnt_app; [exact CP|]. change (cnt c0 (sw_counter st) ([mk (c0 + 1) ret [] (if el then None else Some (BrSwitch op ol (sw_cases st) (sw_def st) match sw_def st with Some _ => 0%Z | None => ret end))] ++ sw_new st)).
    eapply cnt_app; [apply cnt_one|exact B2].
  - apply srefs_cons; [cbn; intros d [<-|[]]; lia|]. apply srefs_app; [apply srefs_plain; exact PP|].
    apply srefs_cons; [|apply srefs_plain; exact A5].
    unfold stargets. cbn [cbr mk]. destruct el; [intros d []|]. intros d Hd. apply in_app_or in Hd. destruct Hd as [Hd|Hd].
    + apply in_map_iff in Hd. destruct Hd as (x & <- & Hx). apply NEWID, J1. exact Hx.
    + destruct (sw_def st) as [dd|] eqn:DS; [destruct Hd as [<-|[]]; apply NEWID, J2; reflexivity|destruct Hd].
  - eexists post, (c0 + 1)%Z, _, (sw_new st). split; [reflexivity|]. split; [exact PP|]. split; [exact A5|]. split; [reflexivity|]. split; [lia|].
    split; [reflexivity|]. split; [reflexivity|]. split; [|split; [|split; [|split]]].
    + rewrite Forall_forall. intros c Hc'. rewrite Forall_forall in A5. destruct (A5 c Hc') as [_ PB]. unfold tail_of. rewrite PB.
      apply (J3 c Hc'). unfold targets. rewrite PB. left. reflexivity.
    + destruct (sfb_spec _ _ _ _ _ _ _ _ E ES) as [(_ & -> & _ & _)|(_ & -> & _ & _)]; repeat constructor.
    + destruct (sfb_spec _ _ _ _ _ _ _ _ E ES) as [(_ & _ & -> & _)|(_ & _ & -> & ->)]; [left; reflexivity|right; lia].
    + unfold is_table, tail_of. cbn [cbr mk]. destruct el; [intros []|]. destruct (sw_cases st) as [|x0 xs] eqn:SCs; [intros []|].
      destruct (sw_def st) as [dd|] eqn:DS; [intros []|]. intros _. split; [reflexivity|].
      destruct (sw_suf_first _ _ _ _ _ _ SW LL) as [Q|(b & rest & Q)]; cbn in Q.
      * exfalso. assert (I0 : In (snd x0) (ids (sw_new st))) by (apply J1; left; reflexivity). rewrite Q in I0. destruct I0.
      * rewrite Q. left. reflexivity.
    + intros NEC. unfold nonempty_switch. cbn [cbr mk]. destruct el; [exact Logic.I|].
      destruct (sw_suf_nonempty _ _ _ _ _ SW LL NEC) as [T|T].
      * destruct (sw_cases st); [congruence|exact Logic.I].
      * destruct (sw_cases st); [|exact Logic.I]. destruct (sw_def st); [exact Logic.I|congruence].
Qed.

(* ---------- one step: count and strict targets ---------- *)
Lemma wstep_shape w cur rest fin news c' nt :
  Inv w -> remaining w = cur :: rest -> wstep w = SNext fin news c' nt ->
  cnt (counter w) c' news /\ srefs (fun d => (counter w < d)%Z) news /\
  (forall d, In d (stargets fin) -> (counter w < d)%Z \/ In d (stargets cur)).
Proof.
  intros I R H. unfold wstep in H. rewrite R in H. pose proof (inv_cnt w I) as CN.
  assert (OKB : okb (cstmts cur) = true) by (pose proof (inv_ok w I) as F; rewrite R in F; inversion F; assumption).
  pose proof (scan_ok (cstmts cur) 0 (List.length (cstmts cur)) eq_refl) as SC.
  destruct (scan (cstmts cur) 0 (List.length (cstmts cur))) as [i er]. inversion SC as [pre c e E F ER Q1|F Q1|pre s rest' E F NS Q1]; subst.
  - cbn [Nat.add] in H. inversion H; subst. split; [apply cnt_nil|]. split; [apply srefs_nil|]. cbn. intros d [].
  - cbn [Nat.add] in H. rewrite Nat.eqb_refl in H. inversion H; subst. split; [apply cnt_nil|]. split; [apply srefs_nil|]. intros d Hd. right. exact Hd.
  - cbn [Nat.add] in H.
    assert (NE : Nat.eqb (List.length pre) (List.length (cstmts cur)) = false) by (apply Nat.eqb_neq; rewrite E, app_length; cbn; lia).
    rewrite NE in H. rewrite E in H at 1. rewrite nth_error_app_here in H.
    assert (FN : firstn (List.length pre) (cstmts cur) = pre) by (rewrite E; apply firstn_app_here). rewrite FN in H.
    rewrite E in OKB. apply okb_app in OKB. destruct OKB as [_ OKB]. apply okb_cons in OKB. destruct OKB as (W1 & W2 & _).
    assert (FROM : forall br ret, srefs (fun d => (counter w < d)%Z) (fin_of cur pre ret br :: news) ->
                   srefs (fun d => (counter w < d)%Z) news /\
                   (forall d, In d (stargets (fin_of cur pre ret br)) -> (counter w < d)%Z \/ In d (stargets cur))).
    { intros br ret S. split; [intros c Hc; apply S; right; exact Hc|]. intros d Hd. left. apply (S _ (or_introl eq_refl) d Hd). }
    destruct s as [c|nm g tk|conds els|tag c body|tag body c|tag|tag|tag op ol cases]; try discriminate NS.
    + destruct conds as [|[e b] more]; [apply ifok1_if in W2; congruence|].
      destruct (create_if ((e, b) :: more) els cur (List.length pre) (counter w)) as [[[news0 br] ret] c0] eqn:CR0. inversion H; subst.
      destruct (create_if_shape _ _ _ _ _ _ _ _ _ _ _ _ E CR0 CN) as (A & B & _). split; [exact A|]. exact (FROM _ _ B).
    + destruct (create_while c body cur (List.length pre) (counter w)) as [[[news0 br] ret] c0] eqn:CR0. inversion H; subst.
      destruct (create_while_shape _ _ _ _ _ _ _ _ _ _ _ E CR0 CN) as (A & B & _). split; [exact A|]. exact (FROM _ _ B).
    + destruct (create_dowhile body c cur (List.length pre) (counter w)) as [[[news0 br] ret] c0] eqn:CR0. inversion H; subst.
      destruct (create_dowhile_shape _ _ _ _ _ _ _ _ _ _ _ E CR0 CN) as (A & B & _). split; [exact A|]. exact (FROM _ _ B).
    + destruct (tm_get (brk w) tag) as [d|] eqn:TB; [|discriminate].
      destruct (split_for_branch cur (List.length pre) (counter w)) as [[post ret] c0] eqn:ES. inversion H; subst.
      destruct (sfb_shape _ _ _ _ _ _ _ _ E ES) as (A & B & _). split; [exact A|]. split; [apply srefs_plain; exact B|]. cbn. intros x [].
    + destruct (tm_get (org w) tag) as [d|] eqn:TB; [|discriminate].
      destruct (split_for_branch cur (List.length pre) (counter w)) as [[post ret] c0] eqn:ES. inversion H; subst.
      destruct (sfb_shape _ _ _ _ _ _ _ _ E ES) as (A & B & _). split; [exact A|]. split; [apply srefs_plain; exact B|]. cbn. intros x [].
    + destruct (create_switch op ol cases cur (List.length pre) (counter w)) as [[[news0 br] ret] c0] eqn:CR0. inversion H; subst.
      destruct (create_switch_shape _ _ _ _ _ _ _ _ _ _ _ _ E CR0 CN) as (A & B & _). split; [exact A|]. exact (FROM _ _ B).
Qed.

(* ---------- invariant: ids dense, strict targets positive ---------- *)
Definition DInv (w : wst) : Prop :=
  let all := remaining w ++ finals w in
  Z.of_nat (List.length all) = (counter w + 1)%Z /\ srefs (fun d => (0 < d)%Z) all.

Lemma wstep_dinv w cur rest fin news c' nt :
  Inv w -> DInv w -> remaining w = cur :: rest -> wstep w = SNext fin news c' nt -> DInv (wnext w fin news c' nt).
Proof.
  intros I (D1 & D2) R H.
  destruct (wstep_inv _ _ _ _ _ _ _ I R H) as (_ & SF & _ & _).
  destruct (wstep_shape _ _ _ _ _ _ _ I R H) as (C & S & SFIN). pose proof (inv_cnt w I) as CN.
  unfold DInv. rewrite SF. unfold wnext. cbn [remaining counter]. rewrite R in *. cbn [tl]. split.
  - unfold cnt in C. rewrite !app_length in *. cbn [List.length] in *. rewrite ?app_length. lia.
  - intros c Hc d Hd. rewrite <- app_assoc in Hc. apply in_app_or in Hc. destruct Hc as [Hc|Hc].
    + apply (D2 c); [right; apply in_or_app; left; exact Hc|exact Hd].
    + apply in_app_or in Hc. destruct Hc as [Hc|[<-|Hc]].
      * pose proof (S c Hc d Hd) as Q. cbv beta in *. lia.
      * cbv beta. destruct (SFIN d Hd) as [Q|Q]; [lia|]. apply (D2 cur); [left; reflexivity|exact Q].
      * apply (D2 c); [right; apply in_or_app; right; exact Hc|exact Hd].
Qed.

Theorem work_dinv : forall f w w', Inv w -> DInv w -> work f w = Ok w' -> DInv w'.
Proof.
  induction f as [|f IH]; intros w w' I DI H; [discriminate|]. rewrite work_S in H.
  destruct (wstep w) as [|fin news c' nt| |] eqn:WS; try discriminate.
  - inversion H; subst. exact DI.
  - destruct (remaining w) as [|cur rest] eqn:R; [unfold wstep in WS; rewrite R in WS; discriminate|].
    destruct (wstep_inv _ _ _ _ _ _ _ I R WS) as (I1 & _).
    eapply IH; [exact I1| |exact H]. eapply wstep_dinv; eassumption.
Qed.

(* ---------- provenance of every target created in a step ---------- *)
Definition prov (w : wst) (cur : chunk) (news : list chunk) (d : Z) : Prop :=
  In d (ids news) \/ In d (targets cur) \/ d = (-1)%Z \/ (exists tg, tm_get (brk w) tg = Some d) \/ (exists tg, tm_get (org w) tg = Some d).

Lemma wstep_prov w cur rest fin news c' nt :
  Inv w -> remaining w = cur :: rest -> wstep w = SNext fin news c' nt ->
  refs (prov w cur news) (fin :: news) /\
  match nt with Some (tg, r, d) => prov w cur news r /\ In d (ids news) | None => True end.
Proof.
  intros I R H. unfold wstep in H. rewrite R in H.
  assert (FR : fresh cur) by (pose proof (inv_fresh w I) as F; rewrite R in F; inversion F; assumption).
  assert (OKB : okb (cstmts cur) = true) by (pose proof (inv_ok w I) as F; rewrite R in F; inversion F; assumption).
  pose proof (inv_cnt w I) as CN.
  pose proof (scan_ok (cstmts cur) 0 (List.length (cstmts cur)) eq_refl) as SCN.
  destruct (scan (cstmts cur) 0 (List.length (cstmts cur))) as [i er]. inversion SCN as [pre c e E F ER Q1|F Q1|pre s rest' E F NS Q1]; subst.
  - cbn [Nat.add] in H. inversion H; subst. split; [|exact Logic.I]. apply refs_cons; [|apply refs_nil]. cbn. intros d [<-|[]]. right. right. left. reflexivity.
  - cbn [Nat.add] in H. rewrite Nat.eqb_refl in H. inversion H; subst. split; [|exact Logic.I]. apply refs_cons; [|apply refs_nil]. intros d Hd. right. left. exact Hd.
  - cbn [Nat.add] in H.
    assert (NE : Nat.eqb (List.length pre) (List.length (cstmts cur)) = false) by (apply Nat.eqb_neq; rewrite E, app_length; cbn; lia).
    rewrite NE in H. rewrite E in H at 1. rewrite nth_error_app_here in H.
    assert (FN : firstn (List.length pre) (cstmts cur) = pre) by (rewrite E; apply firstn_app_here). rewrite FN in H.
    assert (PL : plainchunk cur). { destruct FR as [(E0 & _)|P]; [rewrite E0 in E; destruct pre; discriminate|exact P]. }
    destruct PL as [PE PB].
    assert (ACC : forall nw d, Acc nw cur d -> prov w cur nw d).
    { intros nw d [Q|Q]; [left; exact Q|]. right. left. unfold targets. rewrite PB. left. symmetry. exact Q. }
    rewrite E in OKB. apply okb_app in OKB. destruct OKB as [_ OKB]. apply okb_cons in OKB. destruct OKB as (W1 & W2 & _).
    destruct s as [c|nm g tk|conds els|tag c body|tag body c|tag|tag|tag op ol cases]; try discriminate NS.
    + destruct conds as [|[e b] more]; [apply ifok1_if in W2; congruence|].
      destruct (create_if ((e, b) :: more) els cur (List.length pre) (counter w)) as [[[news0 br] ret] c0] eqn:CR0. inversion H; subst.
      destruct (create_if_refs _ _ _ _ _ _ _ _ _ _ _ _ E CR0 CN) as [RF AR]. split; [|exact Logic.I]. eapply refs_weaken; [apply ACC|exact RF].
    + destruct (create_while c body cur (List.length pre) (counter w)) as [[[news0 br] ret] c0] eqn:CR0. inversion H; subst.
      destruct (create_while_refs _ _ _ _ _ _ _ _ _ _ _ E CR0 CN) as (RF & AR & JN). split; [eapply refs_weaken; [apply ACC|exact RF]|].
      split; [apply ACC; exact AR|exact JN].
    + destruct (create_dowhile body c cur (List.length pre) (counter w)) as [[[news0 br] ret] c0] eqn:CR0. inversion H; subst.
      destruct (create_dowhile_refs _ _ _ _ _ _ _ _ _ _ _ E CR0 CN) as (RF & AR & JN). split; [eapply refs_weaken; [apply ACC|exact RF]|].
      split; [apply ACC; exact AR|exact JN].
    + destruct (tm_get (brk w) tag) as [d|] eqn:TB; [|discriminate].
      destruct (split_for_branch cur (List.length pre) (counter w)) as [[post ret] c0] eqn:ES. inversion H; subst.
      destruct (sfb_refs _ _ _ _ _ _ _ _ E ES) as [RP AR]. split; [|exact Logic.I]. apply refs_cons; [|eapply refs_weaken; [apply ACC|exact RP]].
      cbn. intros x [<-|[]]. right. right. right. left. exists tag. exact TB.
    + destruct (tm_get (org w) tag) as [d|] eqn:TB; [|discriminate].
      destruct (split_for_branch cur (List.length pre) (counter w)) as [[post ret] c0] eqn:ES. inversion H; subst.
      destruct (sfb_refs _ _ _ _ _ _ _ _ E ES) as [RP AR]. split; [|exact Logic.I]. apply refs_cons; [|eapply refs_weaken; [apply ACC|exact RP]].
      cbn. intros x [<-|[]]. right. right. right. right. exists tag. exact TB.
    + destruct (create_switch op ol cases cur (List.length pre) (counter w)) as [[[news0 br] ret] c0] eqn:CR0. inversion H; subst.
      destruct (create_switch_refs _ _ _ _ _ _ _ _ _ _ _ _ E CR0 CN) as (RF & AR & JN). split; [eapply refs_weaken; [apply ACC|exact RF]|].
      split; [apply ACC; exact AR|exact JN].
Qed.

(* ---------- invariant: no branch refers to chunk 0 (every target is -1 or positive) ---------- *)
Definition pos (d : Z) : Prop := d = (-1)%Z \/ (0 < d)%Z.
Definition map_pos (m : tagmap) : Prop := forall tg d, tm_get m tg = Some d -> pos d.
Definition PInv (w : wst) : Prop := refs pos (remaining w ++ finals w) /\ map_pos (brk w) /\ map_pos (org w).

Lemma map_pos_cons m tg v : pos v -> map_pos m -> map_pos ((tg, v) :: m).
Proof. intros V M k d H. cbn in H. destruct (Nat.eqb k tg); [inversion H; subst; exact V|eapply M; exact H]. Qed.

Lemma wstep_pinv w cur rest fin news c' nt :
  Inv w -> PInv w -> remaining w = cur :: rest -> wstep w = SNext fin news c' nt -> PInv (wnext w fin news c' nt).
Proof.
  intros I (P1 & P2 & P3) R H.
  destruct (wstep_inv _ _ _ _ _ _ _ I R H) as (_ & SF & _ & _).
  pose proof (wstep_facts _ _ _ _ _ _ _ I R H) as [_ (_ & N2 & _ & _) _ _ _].
  destruct (wstep_prov _ _ _ _ _ _ _ I R H) as [PR PN]. pose proof (inv_cnt w I) as CN.
  assert (PP : forall d, prov w cur news d -> pos d).
  { intros d [Q|[Q|[Q|[(tg & Q)|(tg & Q)]]]].
    - right. pose proof (ids_in_In _ _ _ _ N2 Q). lia.
    - apply (P1 cur); [rewrite R; left; reflexivity|exact Q].
    - left. exact Q.
    - eapply P2; exact Q.
    - eapply P3; exact Q. }
  unfold PInv. rewrite SF. unfold wnext. cbn [remaining brk org]. rewrite R in *. cbn [tl]. split; [|split].
  - intros c Hc d Hd. rewrite <- app_assoc in Hc. apply in_app_or in Hc. destruct Hc as [Hc|Hc].
    + apply (P1 c); [right; apply in_or_app; left; exact Hc|exact Hd].
    + apply in_app_or in Hc. destruct Hc as [Hc|[<-|Hc]].
      * apply PP. apply (PR c); [right; exact Hc|exact Hd].
      * apply PP. apply (PR fin); [left; reflexivity|exact Hd].
      * apply (P1 c); [right; apply in_or_app; right; exact Hc|exact Hd].
  - destruct nt as [[[tg r] d]|]; [|exact P2]. apply map_pos_cons; [apply PP; apply PN|exact P2].
  - destruct nt as [[[tg r] d]|]; [|exact P3]. apply map_pos_cons; [|exact P3]. right. destruct PN as [_ Q]. pose proof (ids_in_In _ _ _ _ N2 Q). lia.
Qed.

Theorem work_pinv : forall f w w', Inv w -> PInv w -> work f w = Ok w' -> PInv w'.
Proof.
  induction f as [|f IH]; intros w w' I PI H; [discriminate|]. rewrite work_S in H.
  destruct (wstep w) as [|fin news c' nt| |] eqn:WS; try discriminate.
  - inversion H; subst. exact PI.
  - destruct (remaining w) as [|cur rest] eqn:R; [unfold wstep in WS; rewrite R in WS; discriminate|].
    destruct (wstep_inv _ _ _ _ _ _ _ I R WS) as (I1 & _).
    eapply IH; [exact I1| |exact H]. eapply wstep_pinv; eassumption.
Qed.

(* ---------- tables: the first body chunk of a switch chunk is never a fall-through successor ---------- *)
Lemma tail_in_targets c : In (tail_of c) (targets c).
Proof.
  unfold tail_of, targets. destruct (cbr c) as [[d|d|l tr fa|op ol cases [dd|] dest]|]; cbn; auto.
  - apply in_or_app. right. left. reflexivity.
  - apply in_or_app. right. left. reflexivity.
Qed.

Lemma wstep_prebranched w cur rest fin news c' nt :
  remaining w = cur :: rest -> wstep w = SNext fin news c' nt -> cstmts cur = [] -> fin = cur /\ news = [] /\ nt = None.
Proof. intros R H E. unfold wstep in H. rewrite R, E in H. cbn in H. inversion H; subst. auto. Qed.

Lemma wstep_tables w cur rest fin news c' nt :
  Inv w -> remaining w = cur :: rest -> wstep w = SNext fin news c' nt -> (cbr cur = None -> (cret cur <= counter w)%Z) ->
  (is_table fin -> fin = cur) /\
  (forall S, In S news -> is_table S ->
     (counter w < cid S)%Z /\ In (cid S + 1)%Z (ids news) /\ (forall c, In c (fin :: news) -> tail_of c <> (cid S + 1)%Z) /\
     match nt with Some (_, r, d) => r <> (cid S + 1)%Z /\ d <> (cid S + 1)%Z | None => True end).
Proof.
  intros I R H CB0. unfold wstep in H. rewrite R in H. pose proof (inv_cnt w I) as CN.
  assert (FR : fresh cur) by (pose proof (inv_fresh w I) as F; rewrite R in F; inversion F; assumption).
  assert (OKB : okb (cstmts cur) = true) by (pose proof (inv_ok w I) as F; rewrite R in F; inversion F; assumption).
  pose proof (scan_ok (cstmts cur) 0 (List.length (cstmts cur)) eq_refl) as SC.
  destruct (scan (cstmts cur) 0 (List.length (cstmts cur))) as [i er]. inversion SC as [pre c e E F ER Q1|F Q1|pre s rest' E F NS Q1]; subst.
  - cbn [Nat.add] in H. inversion H; subst. split; [intros []|intros S []].
  - cbn [Nat.add] in H. rewrite Nat.eqb_refl in H. inversion H; subst. split; [reflexivity|intros S []].
  - cbn [Nat.add] in H.
    assert (NE : Nat.eqb (List.length pre) (List.length (cstmts cur)) = false) by (apply Nat.eqb_neq; rewrite E, app_length; cbn; lia).
    rewrite NE in H. rewrite E in H at 1. rewrite nth_error_app_here in H.
    assert (FN : firstn (List.length pre) (cstmts cur) = pre) by (rewrite E; apply firstn_app_here). rewrite FN in H.
    assert (CB : (cret cur <= counter w)%Z). { apply CB0. destruct FR as [(E0 & _)|[_ P]]; [rewrite E0 in E; destruct pre; discriminate|exact P]. }
    rewrite E in OKB. apply okb_app in OKB. destruct OKB as [_ OKB]. apply okb_cons in OKB. destruct OKB as (W1 & W2 & _).
    assert (NOT : forall nw br ret, Forall noswitch (fin_of cur pre ret br :: nw) -> forall S, In S nw -> is_table S -> False).
    { intros nw br ret FN' S HS TS. inversion FN' as [|? ? _ F2]; subst. rewrite Forall_forall in F2. specialize (F2 S HS).
      unfold noswitch in F2. unfold is_table in TS. destruct (cbr S) as [[| | |? ? [|] [|] ?]|]; auto. }
    assert (PLN : forall nw, Forall plainchunk nw -> forall S, In S nw -> is_table S -> False).
    { intros nw FP S HS TS. rewrite Forall_forall in FP. destruct (FP S HS) as [_ PB]. unfold is_table in TS. rewrite PB in TS. exact TS. }
    destruct s as [c|nm g tk|conds els|tag c body|tag body c|tag|tag|tag op ol cases]; try discriminate NS.
    + destruct conds as [|[e b] more]; [apply ifok1_if in W2; congruence|].
      destruct (create_if ((e, b) :: more) els cur (List.length pre) (counter w)) as [[[news0 br] ret] c0] eqn:CR0. inversion H; subst.
      destruct (create_if_shape _ _ _ _ _ _ _ _ _ _ _ _ E CR0 CN) as (_ & _ & NSW). split.
      * unfold create_if in CR0. intros T. exfalso. inversion NSW as [|? ? N1 _]; subst. unfold noswitch, fin_of in N1. unfold is_table in T. cbn [cbr] in *.
        destruct br as [| | |? ? [|] [|] ?]; auto.
      * intros S HS TS. exfalso. eapply NOT; eassumption.
    + destruct (create_while c body cur (List.length pre) (counter w)) as [[[news0 br] ret] c0] eqn:CR0. inversion H; subst.
      destruct (create_while_shape _ _ _ _ _ _ _ _ _ _ _ E CR0 CN) as (_ & _ & NSW). split.
      * intros T. exfalso. inversion NSW as [|? ? N1 _]; subst. unfold noswitch, fin_of in N1. unfold is_table in T. cbn [cbr] in *.
        destruct br as [| | |? ? [|] [|] ?]; auto.
      * intros S HS TS. exfalso. eapply NOT; eassumption.
    + destruct (create_dowhile body c cur (List.length pre) (counter w)) as [[[news0 br] ret] c0] eqn:CR0. inversion H; subst.
      destruct (create_dowhile_shape _ _ _ _ _ _ _ _ _ _ _ E CR0 CN) as (_ & _ & NSW). split.
      * intros T. exfalso. inversion NSW as [|? ? N1 _]; subst. unfold noswitch, fin_of in N1. unfold is_table in T. cbn [cbr] in *.
        destruct br as [| | |? ? [|] [|] ?]; auto.
      * intros S HS TS. exfalso. eapply NOT; eassumption.
    + destruct (tm_get (brk w) tag) as [d|] eqn:TB; [|discriminate].
      destruct (split_for_branch cur (List.length pre) (counter w)) as [[post ret] c0] eqn:ES. inversion H; subst.
      destruct (sfb_shape _ _ _ _ _ _ _ _ E ES) as (_ & PP & _). split; [intros []|]. intros S HS TS. exfalso. eapply PLN; eassumption.
    + destruct (tm_get (org w) tag) as [d|] eqn:TB; [|discriminate].
      destruct (split_for_branch cur (List.length pre) (counter w)) as [[post ret] c0] eqn:ES. inversion H; subst.
      destruct (sfb_shape _ _ _ _ _ _ _ _ E ES) as (_ & PP & _). split; [intros []|]. intros S HS TS. exfalso. eapply PLN; eassumption.
    + destruct (create_switch op ol cases cur (List.length pre) (counter w)) as [[[news0 br] ret] c0] eqn:CR0. inversion H; subst.
      destruct (create_switch_shape _ _ _ _ _ _ _ _ _ _ _ _ E CR0 CN) as (_ & _ & post & sid & swc & bodies & -> & PP & PBD & SID & LT & -> & ES & TB & TP & RR & TT & TNE).
      split; [intros []|]. intros S HS TS. apply in_app_or in HS. destruct HS as [HS|[<-|HS]]; [exfalso; exact (PLN _ PP S HS TS)| |exfalso; exact (PLN _ PBD S HS TS)].
      destruct (TT TS) as [T1 T2]. rewrite SID. split; [exact LT|]. split; [rewrite ids_app; apply in_or_app; right; right; exact T2|]. split.
      * intros c [<-|Hc].
        -- unfold tail_of, fin_of. cbn [cbr]. lia.
        -- apply in_app_or in Hc. destruct Hc as [Hc|[<-|Hc]].
           ++ rewrite Forall_forall in TP. rewrite (TP c Hc). lia.
           ++ rewrite T1. destruct RR as [->|RR]; lia.
           ++ rewrite Forall_forall in TB. rewrite (TB c Hc). destruct RR as [->|RR]; lia.
      * split; [destruct RR as [->|RR]; lia|lia].
Qed.

Lemma noswitch_nonempty c : noswitch c -> nonempty_switch c.
Proof. unfold noswitch, nonempty_switch. destruct (cbr c) as [[| | |]|]; tauto. Qed.
Lemma plain_nonempty cs : Forall plainchunk cs -> Forall nonempty_switch cs.
Proof. intros F. eapply Forall_impl; [|exact F]. intros c [_ B]. unfold nonempty_switch. rewrite B. exact Logic.I. Qed.

(* no step creates a switch chunk with an empty table and no default (the parser rejects a switch without cases) *)
Lemma wstep_nonempty w cur rest fin news c' nt :
  Inv w -> remaining w = cur :: rest -> wstep w = SNext fin news c' nt ->
  Forall nonempty_switch news /\ (nonempty_switch cur -> nonempty_switch fin).
Proof.
  intros I R H. unfold wstep in H. rewrite R in H. pose proof (inv_cnt w I) as CN.
  assert (OKB : okb (cstmts cur) = true) by (pose proof (inv_ok w I) as F; rewrite R in F; inversion F; assumption).
  pose proof (scan_ok (cstmts cur) 0 (List.length (cstmts cur)) eq_refl) as SC.
  destruct (scan (cstmts cur) 0 (List.length (cstmts cur))) as [i er]. inversion SC as [pre c e E F ER Q1|F Q1|pre s rest' E F NS Q1]; subst.
  - cbn [Nat.add] in H. inversion H; subst. split; [constructor|intros _; exact Logic.I].
  - cbn [Nat.add] in H. rewrite Nat.eqb_refl in H. inversion H; subst. split; [constructor|tauto].
  - cbn [Nat.add] in H.
    assert (NE : Nat.eqb (List.length pre) (List.length (cstmts cur)) = false) by (apply Nat.eqb_neq; rewrite E, app_length; cbn; lia).
    rewrite NE in H. rewrite E in H at 1. rewrite nth_error_app_here in H.
    assert (FN : firstn (List.length pre) (cstmts cur) = pre) by (rewrite E; apply firstn_app_here). rewrite FN in H.
    rewrite E in OKB. apply okb_app in OKB. destruct OKB as [_ OKB]. apply okb_cons in OKB. destruct OKB as (W1 & W2 & _).
    assert (FROM : forall nw br ret, Forall noswitch (fin_of cur pre ret br :: nw) ->
                   Forall nonempty_switch nw /\ (nonempty_switch cur -> nonempty_switch (fin_of cur pre ret br))).
    { intros nw br ret FN'. inversion FN' as [|? ? N1 N2]; subst. split; [eapply Forall_impl; [|exact N2]; apply noswitch_nonempty|].
      intros _. apply noswitch_nonempty. exact N1. }
    destruct s as [c|nm g tk|conds els|tag c body|tag body c|tag|tag|tag op ol cases]; try discriminate NS.
    + destruct conds as [|[e b] more]; [apply ifok1_if in W2; congruence|].
      destruct (create_if ((e, b) :: more) els cur (List.length pre) (counter w)) as [[[news0 br] ret] c0] eqn:CR0. inversion H; subst.
      destruct (create_if_shape _ _ _ _ _ _ _ _ _ _ _ _ E CR0 CN) as (_ & _ & NSW). exact (FROM _ _ _ NSW).
    + destruct (create_while c body cur (List.length pre) (counter w)) as [[[news0 br] ret] c0] eqn:CR0. inversion H; subst.
      destruct (create_while_shape _ _ _ _ _ _ _ _ _ _ _ E CR0 CN) as (_ & _ & NSW). exact (FROM _ _ _ NSW).
    + destruct (create_dowhile body c cur (List.length pre) (counter w)) as [[[news0 br] ret] c0] eqn:CR0. inversion H; subst.
      destruct (create_dowhile_shape _ _ _ _ _ _ _ _ _ _ _ E CR0 CN) as (_ & _ & NSW). exact (FROM _ _ _ NSW).
    + destruct (tm_get (brk w) tag) as [d|] eqn:TB; [|discriminate].
      destruct (split_for_branch cur (List.length pre) (counter w)) as [[post ret] c0] eqn:ES. inversion H; subst.
      destruct (sfb_shape _ _ _ _ _ _ _ _ E ES) as (_ & PP & _). split; [apply plain_nonempty; exact PP|intros _; exact Logic.I].
    + destruct (tm_get (org w) tag) as [d|] eqn:TB; [|discriminate].
      destruct (split_for_branch cur (List.length pre) (counter w)) as [[post ret] c0] eqn:ES. inversion H; subst.
      destruct (sfb_shape _ _ _ _ _ _ _ _ E ES) as (_ & PP & _). split; [apply plain_nonempty; exact PP|intros _; exact Logic.I].
    + destruct (create_switch op ol cases cur (List.length pre) (counter w)) as [[[news0 br] ret] c0] eqn:CR0. inversion H; subst.
      destruct (create_switch_shape _ _ _ _ _ _ _ _ _ _ _ _ E CR0 CN) as (_ & _ & post & sid & swc & bodies & -> & PP & PBD & _ & _ & -> & _ & _ & _ & _ & _ & TNE).
      split; [|intros _; exact Logic.I]. apply Forall_app. split; [apply plain_nonempty; exact PP|].
      constructor; [apply TNE; eapply ifok1_switch; exact W2|apply plain_nonempty; exact PBD].
Qed.

Definition NInv (w : wst) : Prop := Forall nonempty_switch (remaining w ++ finals w).
Lemma wstep_ninv w cur rest fin news c' nt :
  Inv w -> NInv w -> remaining w = cur :: rest -> wstep w = SNext fin news c' nt -> NInv (wnext w fin news c' nt).
Proof.
  intros I N R H. destruct (wstep_inv _ _ _ _ _ _ _ I R H) as (_ & SF & _ & _).
  destruct (wstep_nonempty _ _ _ _ _ _ _ I R H) as [NN NF].
  unfold NInv in *. rewrite SF. unfold wnext. cbn [remaining]. rewrite R in *. cbn [tl]. cbn [app] in N. inversion N as [|? ? NC NR]; subst.
  apply Forall_app in NR. destruct NR as [N1 N2]. apply Forall_app. split; [apply Forall_app; split; assumption|]. constructor; [apply NF; exact NC|exact N2].
Qed.
Theorem work_ninv : forall f w w', Inv w -> NInv w -> work f w = Ok w' -> NInv w'.
Proof.
  induction f as [|f IH]; intros w w' I NI H; [discriminate|]. rewrite work_S in H.
  destruct (wstep w) as [|fin news c' nt| |] eqn:WS; try discriminate.
  - inversion H; subst. exact NI.
  - destruct (remaining w) as [|cur rest] eqn:R; [unfold wstep in WS; rewrite R in WS; discriminate|].
    destruct (wstep_inv _ _ _ _ _ _ _ I R WS) as (I1 & _).
    eapply IH; [exact I1| |exact H]. eapply wstep_ninv; eassumption.
Qed.

Definition TInv (w : wst) : Prop :=
  let all := remaining w ++ finals w in
  forall S, In S all -> is_table S ->
    (0 < cid S)%Z /\
    In (cid S + 1)%Z (ids all) /\
    (forall c, In c all -> tail_of c <> (cid S + 1)%Z) /\
    (forall tg d, tm_get (brk w) tg = Some d -> d <> (cid S + 1)%Z) /\
    (forall tg d, tm_get (org w) tg = Some d -> d <> (cid S + 1)%Z).

Lemma tm_get_cons_inv m tg v k d : tm_get ((tg, v) :: m) k = Some d -> d = v \/ tm_get m k = Some d.
Proof. cbn. destruct (Nat.eqb k tg); [intros H; inversion H; left; reflexivity|right; assumption]. Qed.

Lemma wstep_tinv w cur rest fin news c' nt :
  Inv w -> RInv w -> TInv w -> remaining w = cur :: rest -> wstep w = SNext fin news c' nt -> TInv (wnext w fin news c' nt).
Proof.
  intros I (R1 & R2 & R3) T R H.
  destruct (wstep_inv _ _ _ _ _ _ _ I R H) as (_ & SF & _ & _).
  pose proof (wstep_facts _ _ _ _ _ _ _ I R H) as [SC (_ & N2 & _ & _) _ _ _].
  destruct (wstep_prov _ _ _ _ _ _ _ I R H) as [PR PN]. pose proof (inv_cnt w I) as CN.
  pose proof (inv_range w I) as RG. rewrite Forall_forall in RG.
  set (all := remaining w ++ finals w) in *.
  assert (OKLE : forall d, okid all d -> (d <= counter w)%Z).
  { intros d [->|Q]; [lia|]. unfold ids in Q. apply in_map_iff in Q. destruct Q as (c & <- & Hc). specialize (RG c Hc). cbn in RG. lia. }
  assert (CURIN : In cur all) by (unfold all; rewrite R; left; reflexivity).
  assert (CB : cbr cur = None -> (cret cur <= counter w)%Z).
  { intros PB. apply OKLE. apply (R1 cur CURIN). unfold targets. rewrite PB. left. reflexivity. }
  destruct (wstep_tables _ _ _ _ _ _ _ I R H CB) as [TF TN].
  (* the tail of a chunk of this step: new id, tail of cur, -1, or a recorded break / continue target *)
  assert (TAIL : forall c, In c (fin :: news) -> In (tail_of c) (ids news) \/ tail_of c = tail_of cur \/ tail_of c = (-1)%Z \/
                   (exists tg, tm_get (brk w) tg = Some (tail_of c)) \/ (exists tg, tm_get (org w) tg = Some (tail_of c))).
  { intros c Hc. destruct (cbr cur) as [b|] eqn:PB.
    - assert (E0 : cstmts cur = []).
      { pose proof (inv_fresh w I) as F. rewrite R in F. inversion F as [|? ? FC _]; subst. destruct FC as [(E0 & _)|[_ P]]; [exact E0|congruence]. }
      destruct (wstep_prebranched _ _ _ _ _ _ _ R H E0) as (-> & -> & _). destruct Hc as [<-|[]]. right. left. reflexivity.
    - destruct (PR c Hc _ (tail_in_targets c)) as [Q|[Q|[Q|[Q|Q]]]]; auto.
      right. left. unfold targets in Q. rewrite PB in Q. destruct Q as [<-|[]]. unfold tail_of. rewrite PB. reflexivity. }
  set (all1 := remaining (wnext w fin news c' nt) ++ finals (wnext w fin news c' nt)).
  assert (A1 : all1 = (rest ++ news) ++ fin :: finals w) by (unfold all1; rewrite SF; unfold wnext; cbn [remaining]; rewrite R; reflexivity).
  assert (SUB : forall x, In x (ids all) -> In x (ids all1)).
  { intros x Hx. unfold all in Hx. rewrite R in Hx. rewrite A1. unfold ids in *. rewrite !map_app in *. cbn [map app] in *. rewrite SC.
    destruct Hx as [Hx|Hx]; [apply in_or_app; right; left; exact Hx|]. apply in_app_or in Hx. destruct Hx as [Hx|Hx].
    - apply in_or_app. left. apply in_or_app. left. exact Hx.
    - apply in_or_app. right. right. exact Hx. }
  assert (NEWS : forall x, In x (ids news) -> In x (ids all1)).
  { intros x Hx. rewrite A1. unfold ids in *. rewrite !map_app. apply in_or_app. left. apply in_or_app. right. exact Hx. }
  assert (NEWGT : forall x, In x (ids news) -> (counter w < x)%Z) by (intros x Hx; pose proof (ids_in_In _ _ _ _ N2 Hx); lia).
  assert (SPLIT : forall c, In c all1 -> (In c all /\ c <> cur) \/ In c (fin :: news)).
  { intros c Hc. rewrite A1 in Hc. rewrite in_app_iff in Hc. cbn [In] in Hc. rewrite in_app_iff in Hc. unfold all. rewrite R.
    pose proof (inv_nodup w I) as ND. rewrite R in ND. cbn [app ids map] in ND. inversion ND as [|? ? NI _]; subst.
    assert (NC : forall c0, In c0 (rest ++ finals w) -> c0 <> cur).
    { intros c0 H0 ->. apply NI. apply in_map. exact H0. }
    destruct Hc as [[Hc|Hc]|[Hc|Hc]].
    - left. split; [right; apply in_or_app; left; exact Hc|apply NC; apply in_or_app; left; exact Hc].
    - right. right. exact Hc.
    - right. left. exact Hc.
    - left. split; [right; apply in_or_app; right; exact Hc|apply NC; apply in_or_app; right; exact Hc]. }
  (* an old table keeps its guarantees *)
  assert (OLD : forall S, In S all -> is_table S ->
                  (0 < cid S)%Z /\ In (cid S + 1)%Z (ids all1) /\ (forall c, In c all1 -> tail_of c <> (cid S + 1)%Z) /\
                  (forall tg d, tm_get (brk (wnext w fin news c' nt)) tg = Some d -> d <> (cid S + 1)%Z) /\
                  (forall tg d, tm_get (org (wnext w fin news c' nt)) tg = Some d -> d <> (cid S + 1)%Z)).
  { intros S HS TS. destruct (T S HS TS) as (TP0 & T1 & T2 & T3 & T4).
    assert (LE : (cid S + 1 <= counter w)%Z) by (apply OKLE; right; exact T1).
    assert (GE : (0 <= cid S)%Z) by (specialize (RG S HS); cbn in RG; lia).
    assert (PV : forall d, prov w cur news d -> (cbr cur = None) -> d <> (cid S + 1)%Z).
    { intros d [Q|[Q|[Q|[(tg & Q)|(tg & Q)]]]] PB.
      - pose proof (NEWGT _ Q). lia.
      - unfold targets in Q. rewrite PB in Q. destruct Q as [<-|[]]. pose proof (T2 cur CURIN) as X. unfold tail_of in X. rewrite PB in X. exact X.
      - lia.
      - eapply T3; exact Q.
      - eapply T4; exact Q. }
    split; [exact TP0|]. split; [apply SUB; exact T1|]. split; [|split].
    - intros c Hc. destruct (SPLIT c Hc) as [[Hc' _]|Hc']; [apply T2; exact Hc'|].
      destruct (TAIL c Hc') as [Q|[Q|[Q|[(tg & Q)|(tg & Q)]]]].
      + pose proof (NEWGT _ Q). lia.
      + rewrite Q. apply T2. exact CURIN.
      + lia.
      + eapply T3; exact Q.
      + eapply T4; exact Q.
    - unfold wnext. cbn [brk]. destruct nt as [[[tg0 r] d0]|]; [|exact T3]. intros tg d Hd. apply tm_get_cons_inv in Hd. destruct Hd as [->|Hd]; [|eapply T3; exact Hd].
      destruct (cbr cur) as [b|] eqn:PB.
      + exfalso. assert (E0 : cstmts cur = []).
        { pose proof (inv_fresh w I) as F. rewrite R in F. inversion F as [|? ? FC _]; subst. destruct FC as [(E0 & _)|[_ P]]; [exact E0|congruence]. }
        destruct (wstep_prebranched _ _ _ _ _ _ _ R H E0) as (_ & _ & Q). discriminate Q.
      + apply PV; [apply PN|reflexivity].
    - unfold wnext. cbn [org]. destruct nt as [[[tg0 r] d0]|]; [|exact T4]. intros tg d Hd. apply tm_get_cons_inv in Hd. destruct Hd as [->|Hd]; [|eapply T4; exact Hd].
      destruct PN as [_ Q]. pose proof (NEWGT _ Q). lia. }
  unfold TInv. fold all1. intros S HS TS. destruct (SPLIT S HS) as [[HS' _]|[<-|HS']].
  - apply OLD; assumption.
  - pose proof (TF TS) as EQ. rewrite EQ in TS. rewrite EQ. apply OLD; [exact CURIN|exact TS].
  - destruct (TN S HS' TS) as (N1 & N3 & N4 & N5). split; [lia|]. split; [apply NEWS; exact N3|]. split; [|split].
    + intros c Hc. destruct (SPLIT c Hc) as [[Hc' _]|Hc']; [|apply N4; exact Hc'].
      assert (LE : (tail_of c <= counter w)%Z) by (apply OKLE; apply (R1 c Hc'); apply tail_in_targets). lia.
    + unfold wnext. cbn [brk]. intros tg d Hd. destruct nt as [[[tg0 r] d0]|].
      * apply tm_get_cons_inv in Hd. destruct Hd as [->|Hd]; [apply N5|]. assert (LE : (d <= counter w)%Z) by (apply OKLE; eapply R2; exact Hd). lia.
      * assert (LE : (d <= counter w)%Z) by (apply OKLE; eapply R2; exact Hd). lia.
    + unfold wnext. cbn [org]. intros tg d Hd. destruct nt as [[[tg0 r] d0]|].
      * apply tm_get_cons_inv in Hd. destruct Hd as [->|Hd]; [apply N5|]. assert (LE : (d <= counter w)%Z) by (apply OKLE; eapply R3; exact Hd). lia.
      * assert (LE : (d <= counter w)%Z) by (apply OKLE; eapply R3; exact Hd). lia.
Qed.

Theorem work_tinv : forall f w w', Inv w -> RInv w -> TInv w -> work f w = Ok w' -> TInv w'.
Proof.
  induction f as [|f IH]; intros w w' I RI TI H; [discriminate|]. rewrite work_S in H.
  destruct (wstep w) as [|fin news c' nt| |] eqn:WS; try discriminate.
  - inversion H; subst. exact TI.
  - destruct (remaining w) as [|cur rest] eqn:R; [unfold wstep in WS; rewrite R in WS; discriminate|].
    destruct (wstep_inv _ _ _ _ _ _ _ I R WS) as (I1 & _).
    eapply IH; [exact I1| | |exact H]; [eapply wstep_rinv; eassumption|eapply wstep_tinv; eassumption].
Qed.

(* ---------- the shape of the final graph of every script body that passes the source check ---------- *)
Definition dense (G : list chunk) : Prop :=
  NoDup (map cid G) /\ Forall (fun c => (0 <= cid c < Z.of_nat (List.length G))%Z) G.

Local Opaque work_fuel work.
Theorem final_graph_shape body w :
  emit_graph body = Ok w -> src_ok body ->
  let G := finals w in
  dense G /\ G <> [] /\
  (* strict targets - gotos, success edges of conditions, case and default entries - are chunks of the graph, never chunk 0 *)
  (forall c, In c G -> forall d, In d (stargets c) -> (0 < d)%Z /\ In d (ids G)) /\
  (* every other target is -1 or such a chunk *)
  (forall c, In c G -> forall d, In d (targets c) -> d = (-1)%Z \/ ((0 < d)%Z /\ In d (ids G))) /\
  (* the chunk after a switch chunk with a case table is its first body chunk; nothing falls through to it *)
  (forall S, In S G -> is_table S -> (0 < cid S)%Z /\ In (cid S + 1)%Z (ids G) /\ forall c, In c G -> tail_of c <> (cid S + 1)%Z) /\
  Forall nonempty_switch G.
Proof.
  intros H [OK ND]. unfold emit_graph in H.
  set (w0 := {| remaining := [mk 0 (-1) body None]; finals := []; counter := 0; brk := []; org := [] |}) in H.
  assert (I0 : Inv w0).
  { constructor; cbn.
    - lia.
    - repeat constructor. intros [].
    - repeat constructor; cbn; lia.
    - constructor; [right; split; reflexivity|constructor].
    - constructor; [exact OK|constructor].
    - unfold tags_rem. cbn. rewrite !app_nil_r. exact ND.
    - reflexivity. }
  assert (R0 : RInv w0).
  { unfold RInv. cbn. split; [|split; intros tg x Hx; discriminate]. apply refs_cons; [|apply refs_nil]. cbn. intros x [<-|[]]. left. reflexivity. }
  assert (D0 : DInv w0). { unfold DInv. cbn. split; [reflexivity|]. intros c [<-|[]] d []. }
  assert (P0 : PInv w0).
  { unfold PInv. cbn. split; [|split; intros tg x Hx; discriminate]. apply refs_cons; [|apply refs_nil]. cbn. intros x [<-|[]]. left. reflexivity. }
  assert (T0 : TInv w0). { unfold TInv. cbn. intros S [<-|[]] []. }
  assert (NI0 : NInv w0). { unfold NInv. cbn. repeat constructor. }
  destruct (work_establishes_obligations _ _ _ I0 H) as (I' & RE & _).
  pose proof (work_refs _ _ _ I0 R0 H) as (RR & _). pose proof (work_dinv _ _ _ I0 D0 H) as (DD1 & DD2).
  pose proof (work_pinv _ _ _ I0 P0 H) as (PP & _). pose proof (work_tinv _ _ _ I0 R0 T0 H) as TT. pose proof (work_ninv _ _ _ I0 NI0 H) as NN.
  unfold TInv in TT. unfold NInv in NN. rewrite RE in *. cbn [app] in *.
  pose proof (inv_nodup w I') as N. rewrite RE in N. cbn [app] in N.
  pose proof (inv_range w I') as RG. rewrite RE in RG. cbn [app] in RG.
  cbv zeta. split; [|split; [|split; [|split; [|split]]]].
  - split; [exact N|]. eapply Forall_impl; [|exact RG]. cbn. intros c Hc. lia.
  - intros E. rewrite E in DD1. cbn in DD1. pose proof (inv_cnt w I'). lia.
  - intros c Hc d Hd. split; [exact (DD2 c Hc d Hd)|].
    assert (T : In d (targets c)).
    { unfold stargets in Hd. unfold targets. destruct (cbr c) as [[x|x|l tr fa|op ol cases dd dest]|]; cbn in *; try tauto.
      apply in_or_app. apply in_app_or in Hd. destruct Hd as [Hd|Hd]; [left; exact Hd|right]. destruct dd; [exact Hd|destruct Hd]. }
    destruct (RR c Hc d T) as [->|Q]; [|exact Q]. pose proof (DD2 c Hc _ Hd). cbv beta in *. lia.
  - intros c Hc d Hd. destruct (RR c Hc d Hd) as [->|Q]; [left; reflexivity|]. right. split; [|exact Q].
    destruct (PP c Hc d Hd) as [->|P]; [|exact P]. exfalso. unfold ids in Q. apply in_map_iff in Q. destruct Q as (x & E & Hx).
    rewrite Forall_forall in RG. specialize (RG x Hx). cbn in RG. lia.
  - intros S HS TS. destruct (TT S HS TS) as (Z0 & A & B & _). split; [exact Z0|split; assumption].
  - exact NN.
Qed.
