(* C10 (commands pass through verbatim, in order, with their argument tokens) - continuation of CmdArgs.v.
   CmdArgs.v proves "a command of the argument grammar is accepted, with these arguments".  This file proves:

   1. THE CONVERSE (what [command_stmt] / [command_args] accept is a command of the grammar)
      command_stmt_accepted        no premise on the tokens except the lexer's shape (the stream ends in EOF) and that the
                                   format() parser only moves forward (Consume.v's hypothesis, true of Format.parse_format):
                                   if [command_stmt] returns Ok it has read either the bare NAME (next token is not '(') or
                                   NAME ( group , ... , group ) for an argument list [a] of the grammar - balanced as a whole,
                                   every comma a separator, format()/moves() blocks as their parsers accept them IN PLACE
                                   ([wf_args_at]) -, it stops on the closing parenthesis, and the command / inline data are
                                   [cmd_of] / [imp_of] = exactly what CmdArgs.command_with_arguments computes.
      wf_args_at_of_wf_args, wf_args_of_wf_args_at      the in-place grammar contains CmdArgs.wf_args, and equals it for
                                   argument lists without format()/moves() blocks
      command_stmt_accepted_plain, plain_command_exact   streams without format / moves tokens (C10's quantifier, plus inline
                                   strings): accepted (with some fuel) <=> NAME ( args ) with [wf_args] and [balanced]
      balanced_iff_depth           the grammar's parenthesis condition = the model's depth counter returns to 0, never below
   2. HOISTING / PATCHING FOR EVERY ARGUMENT LIST (B5 / B10 as theorems, not exclusions)
      patched_arguments            any argument list, any number of inline pieces per argument: after [add_implicit] + [pcmd]
                                   the command keeps name and argument count, and each argument is [final_arg]: the label of
                                   the LAST moves() of its group if any, else the label of its LAST inline text / format(),
                                   else its own tokens (constants substituted, joined by single spaces).  Plain tokens written
                                   beside an inline piece in the same argument are dropped.
      final_arg_pure, final_arg_simple     = CmdArgs.render_group / CmdArgs.arg_of on the groups CmdArgs.v covered
      stretch_hoisted_gen          CmdArgs.stretch_hoisted without [simple_cmdsrc] and without well-formedness premises
   3. THE EMITTER ON A BODY OF COMMANDS
      emit_script_cmds (_nomarkers)   ONE chunk: script label, one instruction per command in order, terminator, blank line;
                                   a final end / return command becomes the terminator ([kept_cmds], [terminator])
      script_text_cmds             printed text: label line, [render_cmd] of every command in order, "return" unless the last
                                   command is end / return, empty line (premise: that final end / return has no arguments)
   4. END TO END, STRAIGHT-LINE SCRIPT
      straight_line_script         script NAME { commands of the grammar }: [parse_script] -> [add_implicit]/[pstmt] (as
                                   [parse_tops] does) -> [emit_script], markers off, both -optimize settings: label, one ICmd per
                                   source command in source order with the source name and [final_arg] arguments, terminator
      straight_line_script_text    for the commands of C10's quantifier: the exact output text, line by line ([src_line])
   5. COMMANDS INSIDE CONDITIONS
      condition_command            an AutoVar command written as a condition leaf: the leaf carries [cmd_of] of the same
                                   argument list, the same inline data, is patched to the same [final_arg]s and is printed by the
                                   same instruction ICmd / [render_cmd] as a statement
   6. STRETCHES INSIDE CONTROL CONSTRUCTS (every body that passes the source check, any marker setting, both orders)
      chunks_are_source_stretches  each chunk of the final graph holds only commands / labels, and they are consecutive
                                   statements of ONE block of the source (body of the script, of a branch, loop, case), in order
      stretch_rendered_in_order    ... and the chunk is printed: its statements appear as consecutive instructions of the output
   7. Examples ex_accepted, mixed_argument_becomes_last_label, ex_script_hypotheses, ex_script_run, and the COUNTEREXAMPLE
      final_end_arguments_kept: "end(FOO, 1)" / "return(...)" as LAST statement of a chunk keeps its arguments (repair D22; found here).
   NOT proved: the converse of 6 (every source stretch is the statement list of some chunk; only the label multiset is
   conserved, WorkLabels.v); the in-place grammar => accepted direction for format()/moves() blocks (CmdArgs.v has it under
   its context-independent [wf_piece]); the switch-operand form of 5 (AutoVarParse.autovar_switch_with_arguments has the parser
   half). *)
From Coq Require Import List String Ascii ZArith NArith Lia Bool.
From Pory Require Import Lexer Ast Emitter EmitProps Parser Consume CmdArgs.
Import ListNotations.
Open Scope list_scope.

(* ================= 1. the converse: every accepted token sequence is a command of the argument grammar ================= *)

(* ---------- token streams ---------- *)
Lemma advs_suffix a b : advs a b -> exists pre, a = pre ++ b.
Proof.
  induction 1 as [ts|ts ts' _ [pre E]]; [exists []; reflexivity|].
  destruct ts as [|x [|y r]]; cbn [adv] in E.
  - exists pre. exact E.
  - exists pre. exact E.
  - exists (x :: pre). cbn [app]. rewrite <- E. reflexivity.
Qed.

Lemma is_eq ty x : is ty x = true -> ttype x = ty.
Proof. unfold is, tt_eqb. destruct (toktype_eq_dec (ttype x) ty); [auto|discriminate]. Qed.
Lemma is_neq ty x : is ty x = false -> ttype x <> ty.
Proof. unfold is, tt_eqb. destruct (toktype_eq_dec (ttype x) ty); [discriminate|auto]. Qed.

(* a stream as the lexer produces it, at a token that is not the end of file: there is a next token *)
Lemma eof_ended_step ts : eof_ended ts -> ttype (cur ts) <> EOF ->
  exists x r, ts = x :: r /\ r <> [] /\ adv ts = r /\ eof_ended r.
Proof.
  intros [N E] C. destruct ts as [|x [|y r]]; [congruence|exfalso; apply C; exact E|].
  exists x, (y :: r). split; [reflexivity|]. split; [discriminate|]. split; [reflexivity|]. split; [discriminate|exact E].
Qed.

Lemma last_app_ne {A} (pre ts : list A) d : ts <> [] -> last (pre ++ ts) d = last ts d.
Proof.
  intros N. induction pre as [|x pre IH]; [reflexivity|]. cbn [app]. rewrite <- IH.
  destruct (pre ++ ts) eqn:E; [|reflexivity]. destruct pre; cbn in E; [congruence|discriminate].
Qed.
Lemma eof_ended_app pre ts : eof_ended (pre ++ ts) -> ts <> [] -> eof_ended ts.
Proof.
  intros [_ E] N. split; [exact N|]. rewrite (last_app_ne pre ts eof0 N) in E. exact E.
Qed.

(* ---------- balanced = the depth counter of the model returns to zero and never goes below ---------- *)
Lemma depth_e_shift : forall b k m r, depth_e m b = Some r -> depth_e (k + m) b = Some (k + r)%nat.
Proof.
  induction b as [|e b IHb]; intros k m r H; [cbn in *; inversion H; reflexivity|].
  destruct e as [p|c]; [destruct p|]; cbn [depth_e] in *; try (apply IHb; exact H).
  - replace (S (k + m)) with (k + S m)%nat by lia. apply IHb. exact H.
  - destruct m as [|m]; [discriminate|]. replace (k + S m)%nat with (S (k + m)) by lia. apply IHb. exact H.
Qed.

Lemma depth_e_close : forall n es, (List.length es <= n)%nat -> forall d, depth_e (S d) es = Some 0%nat ->
  exists body c es', es = body ++ EP (PClose c) :: es' /\ depth_e 0 body = Some 0%nat /\ depth_e d es' = Some 0%nat.
Proof.
  induction n as [|n IH]; intros es L d H.
  - destruct es; [discriminate|cbn in L; lia].
  - destruct es as [|e es]; [discriminate|]. cbn [List.length] in L.
    assert (Other : depth_e (S d) es = Some 0%nat -> is_paren e = false -> depth_e 0 [e] = Some 0%nat ->
              exists body c es', e :: es = body ++ EP (PClose c) :: es' /\ depth_e 0 body = Some 0%nat /\ depth_e d es' = Some 0%nat).
    { intros H' _ He. destruct (IH es ltac:(lia) d H') as (b1 & c1 & e1 & -> & B1 & E1).
      exists (e :: b1), c1, e1. split; [reflexivity|]. split; [|exact E1].
      change (e :: b1) with ([e] ++ b1). rewrite depth_e_app, He. exact B1. }
    destruct e as [p|k]; [destruct p as [tk|tk|tk|tk|ty tk|lt clo tk v sty|lt clo mv]|]; cbn [depth_e] in H;
      try (apply Other; [exact H|reflexivity|reflexivity]).
    + (* ( *)
      destruct (IH es ltac:(lia) (S d) H) as (b1 & c1 & e1 & -> & B1 & E1).
      rewrite app_length in L. cbn [List.length] in L.
      destruct (IH e1 ltac:(lia) d E1) as (b2 & c2 & e2 & -> & B2 & E2).
      exists (EP (POpen tk) :: b1 ++ EP (PClose c1) :: b2), c2, e2. split; [cbn [app]; rewrite <- app_assoc; reflexivity|].
      split; [|exact E2]. cbn [depth_e]. rewrite depth_e_app.
      pose proof (depth_e_shift b1 1 0 0 B1) as X. cbn [Nat.add] in X. rewrite X. cbn [depth_e]. exact B2.
    + (* ) *)
      exists [], tk, es. split; [reflexivity|]. split; [reflexivity|exact H].
Qed.

Lemma depth_balanced : forall n es, (List.length es <= n)%nat -> depth_e 0 es = Some 0%nat -> balanced es.
Proof.
  induction n as [|n IH]; intros es L H.
  - destruct es; [constructor|cbn in L; lia].
  - destruct es as [|e es]; [constructor|]. cbn [List.length] in L.
    destruct e as [p|k]; [destruct p as [tk|tk|tk|tk|ty tk|lt clo tk v sty|lt clo mv]|]; cbn [depth_e] in H;
      try (apply bal_other; [reflexivity|apply IH; [lia|exact H]]).
    + destruct (depth_e_close (List.length es) es (le_n _) 0%nat H) as (body & c & es' & -> & B & E).
      rewrite app_length in L. cbn [List.length] in L.
      apply bal_paren; apply IH; try assumption; lia.
    + discriminate.
Qed.

(* the parenthesis condition of the grammar, in the form the model computes it *)
Theorem balanced_iff_depth es : balanced es <-> depth_e 0 es = Some 0%nat.
Proof. split; [intros H; exact (balanced_depth es H 0%nat)|apply (depth_balanced (List.length es)); apply le_n]. Qed.

(* ---------- the grammar, with the two sub-parsers (format(), moves()) read in place ---------- *)
Section CONV.
Variable switches : list (text * text).
Variable env_errors : bool.
Variable parse_format : toks -> res (token * text * text * toks).
Variable consts : list (text * text).
(* the format() parser only moves forward in the token stream (true of Format.parse_format: ProgSrc.parse_format_advs) *)
Hypothesis parse_format_advs : forall ts tk v sty ts', parse_format ts = Ok (tk, v, sty, ts') -> forall a, advs a ts -> advs a ts'.

Notation command_args := (command_args switches env_errors parse_format consts).
Notation command_stmt := (command_stmt switches env_errors parse_format consts).
Notation moves_operator := (moves_operator switches env_errors).
Notation wf_piece := (wf_piece switches env_errors parse_format).
Notation wf_args := (wf_args switches env_errors parse_format).
Notation part := (part consts).
Notation render_group := (render_group consts).
Notation finish := (finish consts).

(* [wf_piece_at p R]: p is a legal piece when the tokens R follow it.  For tokens, parentheses and strings this is
   [CmdArgs.wf_piece]; a format(...) / moves(...) block is a block the respective parser accepts at this place, ending at
   its closing token [clo] (CmdArgs.wf_piece asks the same for every continuation R). *)
Definition wf_piece_at (p : piece) (R : list token) : Prop :=
  match p with
  | PFormat lt clo tk v sty =>
      (exists x r, lt = x :: r /\ ttype x = FORMAT) /\ parse_format (lt ++ R) = Ok (tk, v, sty, clo :: R)
  | PMoves lt clo mv =>
      (exists x r, lt = x :: r /\ ttype x = MOVES) /\ exists f, moves_operator f (lt ++ R) = Ok (mv, clo :: R)
  | _ => wf_piece p
  end.
Fixpoint wf_group_at (g : list piece) (R : list token) : Prop :=
  match g with [] => True | p :: g' => wf_piece_at p (group_toks g' ++ R) /\ wf_group_at g' R end.
Fixpoint wf_more_at (more : list (token * list piece)) (R : list token) : Prop :=
  match more with
  | [] => True
  | (c, g) :: m => ttype c = COMMA /\ wf_group_at g (more_toks m ++ R) /\ wf_more_at m R
  end.
Definition wf_args_at (a : arglist) (R : list token) : Prop :=
  wf_group_at (Datatypes.fst a) (more_toks (Datatypes.snd a) ++ R) /\ wf_more_at (Datatypes.snd a) R.

Definition no_subparser (p : piece) : bool := match p with PFormat _ _ _ _ _ | PMoves _ _ _ => false | _ => true end.
Definition args_pieces (a : arglist) : list piece := Datatypes.fst a ++ flat_map (@Datatypes.snd _ _) (Datatypes.snd a).

(* the grammar of CmdArgs.v is the in-place grammar at every place ... *)
Lemma wf_piece_at_of_wf p R : wf_piece p -> R <> [] -> wf_piece_at p R.
Proof.
  destruct p as [tk|tk|tk|tk|ty tk|lt clo tk v sty|lt clo mv]; cbn [CmdArgs.wf_piece wf_piece_at]; intros W N; try exact W.
  - destruct W as [H W]. split; [exact H|apply W; exact N].
  - destruct W as [H W]. split; [exact H|]. exists (List.length lt). apply W; [apply le_n|exact N].
Qed.
Lemma wf_group_at_of_wf g R : Forall wf_piece g -> R <> [] -> wf_group_at g R.
Proof.
  induction 1 as [|p g Wp _ IH]; intros N; [exact I|]. cbn [wf_group_at]. split; [|apply IH; exact N].
  apply wf_piece_at_of_wf; [exact Wp|]. destruct (group_toks g); [exact N|discriminate].
Qed.
Lemma wf_more_at_of_wf more R :
  Forall (fun cg => ttype (Datatypes.fst cg) = COMMA /\ Forall wf_piece (Datatypes.snd cg)) more -> R <> [] -> wf_more_at more R.
Proof.
  induction 1 as [|[c g] m [Wc Wg] _ IH]; intros N; [exact I|]. cbn [wf_more_at Datatypes.fst Datatypes.snd] in *.
  split; [exact Wc|]. split; [|apply IH; exact N]. apply wf_group_at_of_wf; [exact Wg|]. destruct (more_toks m); [exact N|discriminate].
Qed.
Theorem wf_args_at_of_wf_args a R : wf_args a -> R <> [] -> wf_args_at a R.
Proof.
  intros [W0 Wm] N. split; [|apply wf_more_at_of_wf; assumption].
  apply wf_group_at_of_wf; [exact W0|]. destruct (more_toks (Datatypes.snd a)); [exact N|discriminate].
Qed.

(* ... and the two coincide for argument lists without format() / moves() blocks *)
Lemma wf_piece_of_at p R : no_subparser p = true -> wf_piece_at p R -> wf_piece p.
Proof. destruct p; cbn; intros H W; try discriminate; exact W. Qed.
Lemma wf_group_of_at g R : forallb no_subparser g = true -> wf_group_at g R -> Forall wf_piece g.
Proof.
  induction g as [|p g IH]; intros H W; [constructor|]. cbn [forallb] in H. apply andb_prop in H. destruct H as [H1 H2].
  destruct W as [W1 W2]. constructor; [eapply wf_piece_of_at; eassumption|apply IH; assumption].
Qed.
Theorem wf_args_of_wf_args_at a R : forallb no_subparser (args_pieces a) = true -> wf_args_at a R -> wf_args a.
Proof.
  destruct a as [g0 more]. unfold args_pieces, wf_args_at, CmdArgs.wf_args. cbn [Datatypes.fst Datatypes.snd].
  rewrite forallb_app. intros H [W0 Wm]. apply andb_prop in H. destruct H as [H0 Hm].
  split; [eapply wf_group_of_at; eassumption|]. clear W0 H0 g0.
  induction more as [|[c g] m IH]; [constructor|]. cbn [flat_map Datatypes.snd] in Hm. rewrite forallb_app in Hm.
  apply andb_prop in Hm. destruct Hm as [Hg Hm]. destruct Wm as (Wc & Wg & Wm). constructor; [|apply IH; assumption].
  cbn [Datatypes.fst Datatypes.snd]. split; [exact Wc|eapply wf_group_of_at; eassumption].
Qed.


(* ---------- the loop, read backwards ---------- *)
Lemma command_args_eof script cmdtok cidv f x depth parts args imp r :
  ttype x = EOF -> command_args f script cmdtok cidv [x] depth parts args imp <> Ok r.
Proof.
  intros E. destruct f as [|f]; [discriminate|]. rewrite command_args_unfold, !curis_cons.
  rewrite (is_false RPAREN x), (is_true EOF x E) by (rewrite E; discriminate). discriminate.
Qed.

Lemma plain_of_tests x :
  is RPAREN x = false -> is EOF x = false -> is COMMA x = false -> is LPAREN x = false -> is FORMAT x = false ->
  is STRING x = false -> is STRINGTYPE x = false -> is MOVES x = false -> plain_type (ttype x) = true.
Proof.
  intros H1 H2 H3 H4 H5 H6 H7 H8. apply is_neq in H1, H2, H3, H4, H5, H6, H7, H8.
  destruct (ttype x); try reflexivity; congruence.
Qed.

Lemma command_args_inv script cmdtok cidv : forall f ts depth parts args T M r i ts',
  eof_ended ts ->
  command_args f script cmdtok cidv ts depth parts args {| idT := T; idM := M |} = Ok (r, i, ts') ->
  exists g more rp rest,
    ts = group_toks g ++ more_toks more ++ rp :: rest /\ ts' = rp :: rest /\ ttype rp = RPAREN /\
    wf_group_at g (more_toks more ++ rp :: rest) /\ wf_more_at more (rp :: rest) /\
    depth_e depth (map EP g ++ flat_more more) = Some 0%nat /\
    r = args ++ finish (parts ++ map part g) more /\
    i = {| idT := T ++ flat_map (piece_texts script cidv (List.length args)) g ++
                  groups_texts script cidv (S (List.length args)) (map (@Datatypes.snd _ _) more);
           idM := M ++ flat_map (piece_movs script cmdtok cidv (List.length args)) g ++
                  groups_movs script cmdtok cidv (S (List.length args)) (map (@Datatypes.snd _ _) more) |}.
Proof.
  induction f as [|f IH]; intros ts depth parts args T M r i ts' EE H; [discriminate|].
  rewrite command_args_unfold in H. cbv zeta in H. cbn [idT idM] in H.
  destruct (curis RPAREN ts && Nat.eqb depth 0) eqn:E0.
  { (* the closing parenthesis *)
    apply andb_prop in E0. destruct E0 as [E1 E2]. apply Nat.eqb_eq in E2. subst depth.
    destruct ts as [|x rest]; [destruct EE; congruence|]. rewrite curis_cons in E1. apply is_eq in E1.
    inversion H; subst. exists [], [], x, rest. cbn [group_toks more_toks flat_map app map flat_more depth_e wf_group_at wf_more_at groups_texts groups_movs].
    rewrite !app_nil_r. repeat (split; [first [reflexivity|exact I|exact E1]|]).
    split; [|reflexivity]. destruct parts; [rewrite app_nil_r|]; reflexivity. }
  destruct (curis EOF ts) eqn:E1; [discriminate|].
  assert (NE : ttype (cur ts) <> EOF) by (apply is_neq; exact E1).
  destruct (eof_ended_step ts EE NE) as (x & r0 & -> & Nr & Ea & EEr).
  rewrite Ea in H. rewrite !curis_cons in *. rewrite ?cur_cons in H.
  destruct (is COMMA x) eqn:E2.
  { (* a comma: a new group *)
    destruct (IH _ _ _ _ _ _ _ _ _ EEr H) as (g & more & rp & rest & Ets & Ets' & Hrp & Wg & Wm & Hd & Er & Ei).
    exists [], ((x, g) :: more), rp, rest.
    split; [cbn; rewrite Ets, <- app_assoc; reflexivity|]. split; [exact Ets'|]. split; [exact Hrp|].
    split; [exact I|]. split; [cbn [wf_more_at]; split; [apply is_eq; exact E2|split; assumption]|].
    split; [exact Hd|]. unfold flush_arg in Er, Ei. rewrite app_length in Ei. cbn [List.length] in Ei. rewrite Nat.add_1_r in Ei.
    split.
    - rewrite Er. cbn [map app]. rewrite app_nil_r, <- app_assoc. reflexivity.
    - rewrite Ei. reflexivity. }
  destruct (is LPAREN x) eqn:E3.
  { destruct (IH _ _ _ _ _ _ _ _ _ EEr H) as (g & more & rp & rest & Ets & Ets' & Hrp & Wg & Wm & Hd & Er & Ei).
    exists (POpen x :: g), more, rp, rest.
    split; [cbn; rewrite Ets; reflexivity|]. split; [exact Ets'|]. split; [exact Hrp|].
    split; [split; [apply is_eq; exact E3|exact Wg]|]. split; [exact Wm|]. split; [exact Hd|].
    split; [rewrite Er, <- app_assoc; reflexivity|exact Ei]. }
  destruct (is RPAREN x) eqn:E4.
  { destruct depth as [|d]; [cbn in E0; discriminate|]. cbn [pred] in H.
    destruct (IH _ _ _ _ _ _ _ _ _ EEr H) as (g & more & rp & rest & Ets & Ets' & Hrp & Wg & Wm & Hd & Er & Ei).
    exists (PClose x :: g), more, rp, rest.
    split; [cbn; rewrite Ets; reflexivity|]. split; [exact Ets'|]. split; [exact Hrp|].
    split; [split; [apply is_eq; exact E4|exact Wg]|]. split; [exact Wm|]. split; [exact Hd|].
    split; [rewrite Er, <- app_assoc; reflexivity|exact Ei]. }
  destruct (is FORMAT x) eqn:E5.
  { destruct (parse_format (x :: r0)) as [[[[tk v] sty] ts1]| | |] eqn:PF; try discriminate. cbn beta iota in H.
    pose proof (parse_format_advs _ _ _ _ _ PF _ (advs_refl _)) as A1.
    destruct (advs_suffix _ _ A1) as [pre Epre].
    pose proof (advs_eof _ _ A1 EE) as EE1.
    destruct ts1 as [|clo R]; [destruct EE1; congruence|].
    destruct R as [|y R'].
    { exfalso. cbn [adv] in H. destruct EE1 as [_ EL]. cbn in EL. exact (command_args_eof _ _ _ _ _ _ _ _ _ _ EL H). }
    set (R := y :: R') in *. change (adv (clo :: R)) with R in H.
    assert (EER : eof_ended R) by (apply (eof_ended_app [clo]); [exact EE1|discriminate]).
    destruct (IH _ _ _ _ _ _ _ _ _ EER H) as (g & more & rp & rest & Ets & Ets' & Hrp & Wg & Wm & Hd & Er & Ei).
    exists (PFormat (pre ++ [clo]) clo tk v sty :: g), more, rp, rest.
    assert (EL : (pre ++ [clo]) ++ R = x :: r0) by (rewrite <- app_assoc; symmetry; exact Epre).
    split; [match goal with |- _ = group_toks (?P :: g) ++ _ => change (group_toks (P :: g)) with (piece_toks P ++ group_toks g) end; cbn [piece_toks]; rewrite <- app_assoc, <- Ets; symmetry; exact EL|]. split; [exact Ets'|]. split; [exact Hrp|].
    split.
    { split; [|exact Wg]. cbn [wf_piece_at]. rewrite <- Ets. split; [|rewrite EL; exact PF].
      destruct pre as [|x' pre']; cbn [app] in EL |- *; inversion EL; subst; eexists _, _; (split; [reflexivity|apply is_eq; exact E5]). }
    split; [exact Wm|]. split; [exact Hd|].
    split; [rewrite Er, <- app_assoc; reflexivity|]. rewrite Ei. cbn [flat_map piece_texts piece_movs app]. rewrite <- !app_assoc. reflexivity. }
  destruct (is STRING x) eqn:E6.
  { destruct (IH _ _ _ _ _ _ _ _ _ EEr H) as (g & more & rp & rest & Ets & Ets' & Hrp & Wg & Wm & Hd & Er & Ei).
    exists (PStr x :: g), more, rp, rest.
    split; [cbn; rewrite Ets; reflexivity|]. split; [exact Ets'|]. split; [exact Hrp|].
    split; [split; [apply is_eq; exact E6|exact Wg]|]. split; [exact Wm|]. split; [exact Hd|].
    split; [rewrite Er, <- app_assoc; reflexivity|]. rewrite Ei. cbn [flat_map piece_texts piece_movs app]. rewrite <- !app_assoc. reflexivity. }
  destruct (is STRINGTYPE x) eqn:E7.
  { destruct r0 as [|s r1]; [congruence|]. rewrite curis_cons, cur_cons in H.
    destruct (is STRING s) eqn:E8; cbn [negb] in H; [|discriminate].
    assert (NS : ttype (cur (s :: r1)) <> EOF) by (cbn; rewrite (is_eq _ _ E8); discriminate).
    destruct (eof_ended_step _ EEr NS) as (s' & r2 & Es & Nr2 & Ea2 & EEr2). injection Es as <- <-. rewrite Ea2 in H.
    destruct (IH _ _ _ _ _ _ _ _ _ EEr2 H) as (g & more & rp & rest & Ets & Ets' & Hrp & Wg & Wm & Hd & Er & Ei).
    exists (PTyped x s :: g), more, rp, rest.
    split; [cbn; rewrite Ets; reflexivity|]. split; [exact Ets'|]. split; [exact Hrp|].
    split; [split; [split; apply is_eq; assumption|exact Wg]|]. split; [exact Wm|]. split; [exact Hd|].
    split; [rewrite Er, <- app_assoc; reflexivity|]. rewrite Ei. cbn [flat_map piece_texts piece_movs app]. rewrite <- !app_assoc. reflexivity. }
  destruct (is MOVES x) eqn:E8.
  { destruct (moves_operator f (x :: r0)) as [[mv ts1]| | |] eqn:PM; try discriminate. cbn beta iota in H.
    pose proof (moves_operator_advs _ _ _ _ _ _ PM _ (advs_refl _)) as A1.
    destruct (advs_suffix _ _ A1) as [pre Epre].
    pose proof (advs_eof _ _ A1 EE) as EE1.
    destruct ts1 as [|clo R]; [destruct EE1; congruence|].
    destruct R as [|y R'].
    { exfalso. cbn [adv] in H. destruct EE1 as [_ EL]. cbn in EL. exact (command_args_eof _ _ _ _ _ _ _ _ _ _ EL H). }
    set (R := y :: R') in *. change (adv (clo :: R)) with R in H.
    assert (EER : eof_ended R) by (apply (eof_ended_app [clo]); [exact EE1|discriminate]).
    destruct (IH _ _ _ _ _ _ _ _ _ EER H) as (g & more & rp & rest & Ets & Ets' & Hrp & Wg & Wm & Hd & Er & Ei).
    exists (PMoves (pre ++ [clo]) clo mv :: g), more, rp, rest.
    assert (EL : (pre ++ [clo]) ++ R = x :: r0) by (rewrite <- app_assoc; symmetry; exact Epre).
    split; [match goal with |- _ = group_toks (?P :: g) ++ _ => change (group_toks (P :: g)) with (piece_toks P ++ group_toks g) end; cbn [piece_toks]; rewrite <- app_assoc, <- Ets; symmetry; exact EL|]. split; [exact Ets'|]. split; [exact Hrp|].
    split.
    { split; [|exact Wg]. cbn [wf_piece_at]. rewrite <- Ets. split; [|exists f; rewrite EL; exact PM].
      destruct pre as [|x' pre']; cbn [app] in EL |- *; inversion EL; subst; eexists _, _; (split; [reflexivity|apply is_eq; exact E8]). }
    split; [exact Wm|]. split; [exact Hd|].
    split; [rewrite Er, <- app_assoc; reflexivity|]. rewrite Ei. cbn [flat_map piece_texts piece_movs app]. rewrite <- !app_assoc. reflexivity. }
  (* any other token *)
  destruct (IH _ _ _ _ _ _ _ _ _ EEr H) as (g & more & rp & rest & Ets & Ets' & Hrp & Wg & Wm & Hd & Er & Ei).
  exists (PTok x :: g), more, rp, rest.
  split; [cbn; rewrite Ets; reflexivity|]. split; [exact Ets'|]. split; [exact Hrp|].
  split; [split; [|exact Wg]|].
  { cbn [wf_piece_at CmdArgs.wf_piece]. apply plain_of_tests; assumption. }
  split; [exact Wm|]. split; [exact Hd|].
  split; [rewrite Er, <- app_assoc; reflexivity|exact Ei].
Qed.

(* ---------- main theorem of part 1: what [command_stmt] accepts ---------- *)
(* the command and the inline data that CmdArgs.command_with_arguments computes from an argument list *)
Definition cmd_of (name : token) (a : arglist) (n : nat) : cmd :=
  {| cname := tlit name; cargs := map render_group (strip_last_empty (groups_of a)); ctok := name; Ast.cid := n |}.
Definition imp_of (script : text) (name : token) (a : arglist) (n : nat) : impdata :=
  {| idT := groups_texts script n 0 (groups_of a); idM := groups_movs script name n 0 (groups_of a) |}.

(* Whatever token stream (ending in EOF, as the lexer produces it) [command_stmt] accepts, it has consumed either the bare
   name, or  NAME ( group , ... , group )  for an argument list of the grammar (balanced as a whole; format()/moves() blocks
   as their parsers accept them in place), it stops on the closing parenthesis, and it returns the command and inline data
   described in CmdArgs.v.  No premise on the tokens. *)
Theorem command_stmt_accepted f script ts c imp ts' :
  eof_ended ts ->
  command_stmt f script ts = Ok (c, imp, ts') ->
  (peekis LPAREN ts = false /\ ts' = ts /\ imp = imp0 /\
   c = {| cname := tlit (cur ts); cargs := []; ctok := cur ts; Ast.cid := List.length ts |})
  \/
  exists name lp a rp rest,
    ts = name :: lp :: arg_tokens a ++ rp :: rest /\ ts' = rp :: rest /\
    ttype lp = LPAREN /\ ttype rp = RPAREN /\ wf_args_at a (rp :: rest) /\ balanced (flat a) /\
    c = cmd_of name a (List.length ts) /\ imp = imp_of script name a (List.length ts).
Proof.
  intros EE H. unfold Parser.command_stmt in H. destruct (peekis LPAREN ts) eqn:P.
  2:{ left. inversion H; subst. auto. }
  right.
  destruct ts as [|name [|lp r']]; [destruct EE; congruence| |].
  { exfalso. destruct EE as [_ EL]. cbn in EL. unfold peekis, pk in P. cbn in P. apply is_eq in P. congruence. }
  rewrite peekis_cons in P. apply is_eq in P.
  assert (Nr : r' <> []).
  { intros ->. destruct EE as [_ EL]. cbn in EL. congruence. }
  assert (EEr : eof_ended r') by (apply (eof_ended_app [name; lp]); assumption).
  rewrite cur_cons in H. rewrite (adv_cons name) in H by discriminate. rewrite (adv_cons lp r' Nr) in H.
  set (n := List.length (name :: lp :: r')) in *. unfold imp0 in H.
  destruct (command_args f script name n r' 0 [] [] {| idT := []; idM := [] |}) as [[[args i] ts1]| | |] eqn:E; try discriminate.
  inversion H; subst c imp ts'. clear H.
  destruct (command_args_inv _ _ _ _ _ _ _ _ _ _ _ _ _ EEr E) as (g & more & rp & rest & Ets & Ets' & Hrp & Wg & Wm & Hd & Er & Ei).
  exists name, lp, (g, more), rp, rest. unfold arg_tokens, wf_args_at, flat, cmd_of, imp_of, groups_of. cbn [Datatypes.fst Datatypes.snd].
  split; [rewrite <- app_assoc, <- Ets; reflexivity|]. split; [exact Ets'|]. split; [exact P|]. split; [exact Hrp|].
  split; [split; assumption|]. split; [apply balanced_iff_depth; exact Hd|].
  cbn [app List.length] in Er, Ei. rewrite finish_groups in Er. rewrite Er, Ei. split; reflexivity.
Qed.

(* the C10 class, and beyond: no format() / moves() token in the stream.  Then the accepted commands are exactly those of the
   grammar of CmdArgs.v. *)
Definition no_subparser_tok (tk : token) : Prop := ttype tk <> FORMAT /\ ttype tk <> MOVES.

Lemma group_no_sub g R : wf_group_at g R -> Forall no_subparser_tok (group_toks g) -> forallb no_subparser g = true.
Proof.
  induction g as [|p g IH]; intros W F; [reflexivity|]. destruct W as [Wp Wg].
  change (group_toks (p :: g)) with (piece_toks p ++ group_toks g) in F. apply Forall_app in F. destruct F as [Fp Fg].
  cbn [forallb]. rewrite (IH Wg Fg), andb_true_r.
  destruct p as [tk|tk|tk|tk|ty tk|lt clo tk v sty|lt clo mv]; try reflexivity; exfalso; cbn [wf_piece_at piece_toks] in *.
  - destruct Wp as [(x & r & -> & Hx) _]. apply Forall_inv in Fp. destruct Fp; congruence.
  - destruct Wp as [(x & r & -> & Hx) _]. apply Forall_inv in Fp. destruct Fp; congruence.
Qed.

Lemma args_no_sub (a : arglist) R : wf_args_at a R -> Forall no_subparser_tok (arg_tokens a) -> forallb no_subparser (args_pieces a) = true.
Proof.
  destruct a as [g0 more]. unfold wf_args_at, arg_tokens, args_pieces. cbn [Datatypes.fst Datatypes.snd]. intros [W0 Wm] F.
  apply Forall_app in F. destruct F as [F0 Fm]. rewrite forallb_app, (group_no_sub _ _ W0 F0). cbn [andb].
  clear W0 F0. induction more as [|[c g] m IH]; [reflexivity|]. destruct Wm as (_ & Wg & Wm).
  change (more_toks ((c, g) :: m)) with ((c :: group_toks g) ++ more_toks m) in Fm. apply Forall_app in Fm. destruct Fm as [Fg Fm].
  cbn [flat_map Datatypes.snd]. rewrite forallb_app, (group_no_sub _ _ Wg (Forall_inv_tail Fg)), (IH Wm Fm). reflexivity.
Qed.

Theorem command_stmt_accepted_plain f script ts c imp ts' :
  eof_ended ts -> Forall no_subparser_tok ts -> peekis LPAREN ts = true ->
  command_stmt f script ts = Ok (c, imp, ts') ->
  exists name lp a rp rest,
    ts = name :: lp :: arg_tokens a ++ rp :: rest /\ ts' = rp :: rest /\
    ttype lp = LPAREN /\ ttype rp = RPAREN /\ wf_args a /\ balanced (flat a) /\
    c = cmd_of name a (List.length ts) /\ imp = imp_of script name a (List.length ts).
Proof.
  intros EE NS P H. destruct (command_stmt_accepted f script ts c imp ts' EE H) as [[P' _]|(name & lp & a & rp & rest & E1 & E2 & Hlp & Hrp & W & B & Ec & Ei)]; [congruence|].
  exists name, lp, a, rp, rest. repeat (split; [assumption|]). split; [|split; [exact B|split; assumption]].
  apply (wf_args_of_wf_args_at a (rp :: rest)); [|exact W]. apply (args_no_sub a (rp :: rest) W).
  rewrite E1 in NS. apply Forall_inv_tail, Forall_inv_tail, Forall_app in NS. exact (proj1 NS).
Qed.

(* exactness for such streams: accepted (with some fuel) <=> of the grammar *)
Theorem plain_command_exact script ts :
  eof_ended ts -> Forall no_subparser_tok ts -> peekis LPAREN ts = true ->
  ((exists f c imp ts', command_stmt f script ts = Ok (c, imp, ts')) <->
   (exists name lp a rp rest, ts = name :: lp :: arg_tokens a ++ rp :: rest /\
      ttype lp = LPAREN /\ ttype rp = RPAREN /\ wf_args a /\ balanced (flat a))).
Proof.
  intros EE NS P. split.
  - intros (f & c & imp & ts' & H).
    destruct (command_stmt_accepted_plain f script ts c imp ts' EE NS P H) as (name & lp & a & rp & rest & E1 & _ & Hlp & Hrp & W & B & _).
    exists name, lp, a, rp, rest. auto.
  - intros (name & lp & a & rp & rest & -> & Hlp & Hrp & W & B).
    eexists (S (List.length (arg_tokens a))), _, _, _.
    apply (command_with_arguments switches env_errors parse_format consts _ script name lp a rp rest Hlp Hrp W B). apply Nat.lt_succ_diag_r.
Qed.

End CONV.

(* ================= 2. hoisting and patching for EVERY argument list (no restriction on inline pieces) ================= *)
(* B5 / B10 as a theorem.  The parser leaves an empty placeholder for each inline piece and records the piece under the
   argument's position; patching overwrites the WHOLE argument with the label, one patch after the other: all texts of the
   script first (in source order), then all movements.  So an argument that contains inline pieces ends up as the label of
   its last moves() block if it has one, else of its last inline text; the plain tokens written beside it in the same
   argument are dropped; an argument without inline pieces keeps its tokens. *)
Definition group_texts (g : list piece) : list (text * text) :=
  flat_map (fun p => match inline_text p with Some x => [x] | None => [] end) g.
Definition group_movs (g : list piece) : list (list token) :=
  flat_map (fun p => match p with PMoves _ _ mv => [mv] | _ => [] end) g.

Definition final_arg (consts : list (text * text)) (h' : hst) (g : list piece) (x : text) : Prop :=
  match rev (group_movs g) with
  | mv :: _ => assoc (hmset h') (mov_key mv) = Some x
  | [] => match rev (group_texts g) with
          | (v, sty) :: _ => find_text (hset h') v sty = Some x
          | [] => x = render_group consts g
          end
  end.

Lemma overwrite_last (a : text) ls : overwrite (Some a) ls = Some (hd a (rev ls)).
Proof.
  unfold overwrite. induction ls as [|x l IH] using rev_ind; [reflexivity|].
  rewrite fold_left_app, rev_app_distr. reflexivity.
Qed.
Lemma Forall2_rev' {A B} (P : A -> B -> Prop) l1 l2 : Forall2 P l1 l2 -> Forall2 P (rev l1) (rev l2).
Proof.
  induction 1 as [|a b l1 l2 Hab _ IH]; [constructor|]. cbn [rev]. apply Forall2_app; [exact IH|]. constructor; [exact Hab|constructor].
Qed.
Lemma piece_texts_keys script n k g :
  map (fun it => (tlit (itTok it), itType it)) (flat_map (piece_texts script n k) g) = group_texts g.
Proof.
  induction g as [|p g IH]; [reflexivity|]. cbn [flat_map]. rewrite map_app, IH. unfold group_texts at 2. cbn [flat_map].
  fold (group_texts g). destruct p; reflexivity.
Qed.
Lemma piece_movs_keys script cmdtok n k g : map imToks (flat_map (piece_movs script cmdtok n k) g) = group_movs g.
Proof.
  induction g as [|p g IH]; [reflexivity|]. cbn [flat_map]. rewrite map_app, IH. unfold group_movs at 2. cbn [flat_map].
  fold (group_movs g). destruct p; reflexivity.
Qed.

Section PATCH.
Variable consts : list (text * text).
Notation render_group := (render_group consts).
Notation cmd_of := (cmd_of consts).
Notation final_arg := (final_arg consts).

(* [impB]/[impA]: the inline data of the other commands of the script, recorded before/after this command's *)
Theorem patched_arguments script name (a : arglist) n impB impA h h' ps :
  (forall it, In it (idT impB ++ idT impA) -> itCid it <> n) ->
  (forall im, In im (idM impB ++ idM impA) -> imCid im <> n) ->
  add_implicit (impadd impB (impadd (imp_of script name a n) impA)) h = (h', ps) ->
  exists args',
    pcmd ps (cmd_of name a n) = {| cname := tlit name; cargs := args'; ctok := name; Ast.cid := n |} /\
    Forall2 (final_arg h') (strip_last_empty (groups_of a)) args'.
Proof.
  intros FT FM HA. unfold imp_of in HA.
  set (gs := groups_of a) in *.
  set (TC := groups_texts script n 0 gs) in *. set (MC := groups_movs script name n 0 gs) in *.
  destruct (add_implicit_patches _ _ _ _ HA) as (pt & pm & -> & Ft & Fm).
  cbn [impadd idT idM] in Ft, Fm.
  set (c := cmd_of name a n).
  destruct (apply_patches_spec (pt ++ pm) c) as (args' & EA & LA & NA).
  { intros i a0 l Hin Hi. cbn [c CmdConverse.cmd_of Ast.cid cargs] in *. rewrite map_length. apply in_app_or in Hin. destruct Hin as [Hin|Hin].
    - destruct (text_patch_in _ _ _ Ft _ _ _ Hin) as (it & Hit & H1 & H2).
      apply in_app_or in Hit. destruct Hit as [Hit|Hit]; [exfalso; apply (FT it); [apply in_or_app; now left|congruence]|].
      apply in_app_or in Hit. destruct Hit as [Hit|Hit]; [|exfalso; apply (FT it); [apply in_or_app; now right|congruence]].
      destruct (groups_texts_in _ _ _ _ _ Hit) as [_ H3]. fold gs. lia.
    - destruct (mov_patch_in _ _ _ Fm _ _ _ Hin) as (im & Him & H1 & H2).
      apply in_app_or in Him. destruct Him as [Him|Him]; [exfalso; apply (FM im); [apply in_or_app; now left|congruence]|].
      apply in_app_or in Him. destruct Him as [Him|Him]; [|exfalso; apply (FM im); [apply in_or_app; now right|congruence]].
      destruct (groups_movs_in _ _ _ _ _ _ Him) as [_ H3]. fold gs. lia. }
  exists args'. split; [unfold pcmd; rewrite EA; reflexivity|].
  cbn [c CmdConverse.cmd_of cargs cname ctok Ast.cid] in *. fold gs in LA, NA. rewrite map_length in LA.
  apply Forall2_nth; [symmetry; exact LA|]. intros k g y Hg Hy.
  rewrite NA, (map_nth_error render_group _ _ Hg) in Hy.
  pose proof (strip_nth _ _ _ Hg) as Hg'.
  rewrite labels_for_app in Hy.
  pose proof (labels_for_texts _ _ _ n k Ft) as LT. pose proof (labels_for_movs _ _ _ n k Fm) as LM.
  rewrite !filter_app in LT, LM.
  rewrite (filter_none (addr_T n k) (idT impB)) in LT
    by (intros it Hit; unfold addr_T; destruct (Nat.eqb_spec (itCid it) n) as [X|X]; [exfalso; apply (FT it); [apply in_or_app; now left|exact X]|reflexivity]).
  rewrite (filter_none (addr_T n k) (idT impA)) in LT
    by (intros it Hit; unfold addr_T; destruct (Nat.eqb_spec (itCid it) n) as [X|X]; [exfalso; apply (FT it); [apply in_or_app; now right|exact X]|reflexivity]).
  rewrite (filter_none (addr_M n k) (idM impB)) in LM
    by (intros im Him; unfold addr_M; destruct (Nat.eqb_spec (imCid im) n) as [X|X]; [exfalso; apply (FM im); [apply in_or_app; now left|exact X]|reflexivity]).
  rewrite (filter_none (addr_M n k) (idM impA)) in LM
    by (intros im Him; unfold addr_M; destruct (Nat.eqb_spec (imCid im) n) as [X|X]; [exfalso; apply (FM im); [apply in_or_app; now right|exact X]|reflexivity]).
  cbn [app] in LT, LM. rewrite app_nil_r in LT, LM.
  unfold TC in LT. unfold MC in LM.
  pose proof (filter_groups_texts script n gs 0 k) as XT. pose proof (filter_groups_movs script name n gs 0 k) as XM.
  cbn [Nat.add] in XT, XM. rewrite XT in LT. rewrite XM in LM. clear XT XM.
  rewrite Hg' in LT, LM.
  (* the last patch wins *)
  rewrite overwrite_last, rev_app_distr in Hy. inversion Hy as [Ey]. clear Hy.
  apply Forall2_rev' in LT, LM.
  unfold final_arg. rewrite <- (piece_movs_keys script name n k g), <- (piece_texts_keys script n k g), <- !map_rev.
  destruct LM as [|im lm ims lms Him _].
  - cbn [map app]. destruct LT as [|it lt its lts Hit _]; [reflexivity|]. cbn [map hd]. exact Hit.
  - cbn [map app hd]. exact Him.
Qed.
End PATCH.

Lemma pure_group_texts g : pure g -> group_texts g = [].
Proof. induction 1 as [|p g Hp _ IH]; [reflexivity|]. unfold group_texts in *. cbn [flat_map]. rewrite IH. destruct p; try discriminate; reflexivity. Qed.
Lemma pure_group_movs g : pure g -> group_movs g = [].
Proof. induction 1 as [|p g Hp _ IH]; [reflexivity|]. unfold group_movs in *. cbn [flat_map]. rewrite IH. destruct p; try discriminate; reflexivity. Qed.
(* an argument made of tokens and parentheses only is left as written *)
Lemma final_arg_pure consts h' g x : pure g -> (final_arg consts h' g x <-> x = render_group consts g).
Proof. intros P. unfold final_arg. rewrite (pure_group_movs g P), (pure_group_texts g P). reflexivity. Qed.
(* with at most one inline piece this is CmdArgs.arg_of *)
Lemma final_arg_simple consts h' g x : simple_group g -> final_arg consts h' g x -> arg_of consts h' g x.
Proof.
  intros [P|(g1 & p & g2 & -> & P1 & P2 & Hp)] H.
  - apply (final_arg_pure consts h' g x P) in H. subst x. apply arg_plain. exact P.
  - unfold final_arg, group_movs, group_texts in H. rewrite !flat_map_app in H. cbn [flat_map] in H.
    fold (group_movs g1) (group_movs g2) (group_texts g1) (group_texts g2) in H.
    rewrite (pure_group_movs g1 P1), (pure_group_movs g2 P2), (pure_group_texts g1 P1), (pure_group_texts g2 P2) in H.
    cbn [app] in H. rewrite !app_nil_r in H.
    destruct p as [tk|tk|tk|tk|ty tk|lt clo tk v sty|lt clo mv]; try discriminate; cbn [inline_text rev app] in H.
    + eapply arg_text; [exact P1|exact P2|reflexivity|exact H].
    + eapply arg_text; [exact P1|exact P2|reflexivity|exact H].
    + eapply arg_text; [exact P1|exact P2|reflexivity|exact H].
    + eapply arg_moves; [exact P1|exact P2|exact H].
Qed.

(* ---------- a stretch of commands after hoisting and patching, any argument lists ---------- *)
Section STRETCH.
Variable consts : list (text * text).
Notation parsed_cmd := (parsed_cmd consts).
Notation block_cmds := (block_cmds consts).
Notation final_arg := (final_arg consts).

(* what a source command has become: same name, same token, one final argument per written argument *)
Definition final_command (h' : hst) (src : cmdsrc) (c : cmd) : Prop :=
  cname c = tlit (cs_name src) /\ ctok c = cs_name src /\ Forall2 (final_arg h') (cmd_groups src) (cargs c).

Theorem stretch_hoisted_gen : forall script l K impB impA h h' ps,
    (forall it, In it (idT impB) -> (List.length (flat_map cmd_tokens l ++ K) < itCid it)%nat) ->
    (forall im, In im (idM impB) -> (List.length (flat_map cmd_tokens l ++ K) < imCid im)%nat) ->
    (forall it, In it (idT impA) -> (itCid it <= List.length K)%nat) ->
    (forall im, In im (idM impA) -> (imCid im <= List.length K)%nat) ->
    add_implicit (impadd (block_imp script l K impB) impA) h = (h', ps) ->
    exists cs, map (pstmt ps) (block_cmds l K) = map SCmd cs /\ Forall2 (final_command h') l cs.
Proof.
  intros script l K. induction l as [|c r IH]; intros impB impA h h' ps BT BM AT AM HA; [exists []; split; constructor|].
  cbn [flat_map] in BT, BM. rewrite <- app_assoc in BT, BM.
  cbn [CmdArgs.block_cmds map block_imp] in *.
  set (n := List.length (cmd_tokens c ++ flat_map cmd_tokens r ++ K)) in *.
  assert (Hn : (List.length (flat_map cmd_tokens r ++ K) < n)%nat).
  { unfold n. rewrite (app_length (cmd_tokens c)).
    assert (1 <= List.length (cmd_tokens c))%nat by (unfold cmd_tokens; cbn [List.length]; lia). lia. }
  assert (HK : (List.length K < n)%nat) by (rewrite app_length in Hn; lia).
  (* the rest of the stretch *)
  destruct (IH (impadd impB (cmd_imp script c n)) impA h h' ps) as (cs & Ecs & Fcs); try assumption.
  { intros it H. cbn [impadd idT] in H. apply in_app_or in H. destruct H as [H|H]; [pose proof (BT it H); lia|].
    rewrite (cmd_imp_T _ _ _ _ H). exact Hn. }
  { intros im H. cbn [impadd idM] in H. apply in_app_or in H. destruct H as [H|H]; [pose proof (BM im H); lia|].
    rewrite (cmd_imp_M _ _ _ _ H). exact Hn. }
  (* the head command *)
  set (impA' := impadd (block_imp script r K imp0) impA).
  assert (HA' : add_implicit (impadd impB (impadd (cmd_imp script c n) impA')) h = (h', ps)).
  { rewrite <- HA. apply add_implicit_ext; unfold impA'; cbn [impadd idT idM].
    - rewrite (block_imp_T script r K (impadd _ _)). cbn [impadd idT]. now rewrite <- !app_assoc.
    - rewrite (block_imp_M script r K (impadd _ _)). cbn [impadd idM]. now rewrite <- !app_assoc. }
  assert (FT : forall it, In it (idT impB ++ idT impA') -> itCid it <> n).
  { intros it H. apply in_app_or in H. destruct H as [H|H]; [pose proof (BT it H); lia|].
    unfold impA' in H. cbn [impadd idT] in H. apply in_app_or in H. destruct H as [H|H].
    - pose proof (block_imp_T_le _ _ _ _ H). lia.
    - pose proof (AT it H). lia. }
  assert (FM : forall im, In im (idM impB ++ idM impA') -> imCid im <> n).
  { intros im H. apply in_app_or in H. destruct H as [H|H]; [pose proof (BM im H); lia|].
    unfold impA' in H. cbn [impadd idM] in H. apply in_app_or in H. destruct H as [H|H].
    - pose proof (block_imp_M_le _ _ _ _ H). lia.
    - pose proof (AM im H). lia. }
  destruct c as [name [[[lp a] rp]|]]; unfold final_command, cmd_groups in *; cbn [cs_name cs_args pstmt] in *.
  - destruct (patched_arguments consts script name a n impB impA' h h' ps FT FM HA') as (args' & EP' & F2).
    exists ({| cname := tlit name; cargs := args'; ctok := name; Ast.cid := n |} :: cs). split.
    + cbn [map]. rewrite <- Ecs. f_equal. f_equal. exact EP'.
    + constructor; [|exact Fcs]. cbn [cname ctok cargs cs_name cs_args]. auto.
  - exists ({| cname := tlit name; cargs := []; ctok := name; Ast.cid := n |} :: cs). split.
    + cbn [map]. rewrite <- Ecs. f_equal. f_equal. unfold pcmd.
      rewrite apply_patches_foreign; [reflexivity|]. cbn [Ast.cid CmdArgs.parsed_cmd].
      destruct (add_implicit_patches _ _ _ _ HA') as (pt & pm & -> & Ft & Fm). cbn [impadd idT idM cmd_imp cs_args imp0 app] in Ft, Fm.
      intros i a0 l0 Hin. apply in_app_or in Hin. destruct Hin as [Hin|Hin].
      * destruct (text_patch_in _ _ _ Ft _ _ _ Hin) as (it & Hit & <- & _). apply FT. exact Hit.
      * destruct (mov_patch_in _ _ _ Fm _ _ _ Hin) as (im & Him & <- & _). apply FM. exact Him.
    + constructor; [|exact Fcs]. cbn [cname ctok cargs cs_name cs_args]. split; [reflexivity|]. split; [reflexivity|constructor].
Qed.
End STRETCH.

(* ================= 3. the emitter on a body of command statements ================= *)
From Pory Require Worklist.

(* [Some true]: the last command is named "end", [Some false]: "return", [None]: anything else / no command *)
Definition last_endret (cs : list cmd) : option bool :=
  match rev cs with c :: _ => is_endret (SCmd c) | [] => None end.

Lemma scan_cmds : forall cs i n, n = (i + List.length cs)%nat ->
  scan (map SCmd cs) i n = match last_endret cs with Some e => ((n - 1)%nat, Some e) | None => (n, None) end.
Proof.
  induction cs as [|c r IH]; intros i n En.
  - cbn. rewrite En, Nat.add_0_r. reflexivity.
  - cbn [map scan]. cbn [List.length] in En. destruct r as [|c2 r2].
    + cbn [List.length] in En. replace (n - 1)%nat with i by lia. rewrite Nat.eqb_refl. unfold last_endret. cbn [rev app map scan].
      destruct (is_endret (SCmd c)); [reflexivity|]. f_equal. lia.
    + destruct (Nat.eqb_spec i (n - 1)) as [X|_]; [cbn [List.length] in En; lia|].
      rewrite (IH (S i) n) by (cbn [List.length] in *; lia).
      unfold last_endret. cbn [rev]. destruct (rev r2 ++ [c2]) as [|z zs] eqn:EZ; [destruct (rev r2); discriminate|]. reflexivity.
Qed.

(* the commands that are printed as command lines, and the terminator line *)
Definition kept_cmds (cs : list cmd) : list cmd := match last_endret cs with Some _ => removelast cs | None => cs end.
Definition terminator (cs : list cmd) : instr := match last_endret cs with Some true => IEnd | _ => IReturn end.

Lemma firstn_removelast {A} (l : list A) : firstn (List.length l - 1) l = removelast l.
Proof.
  induction l as [|x l IH]; [reflexivity|]. destruct l as [|y l]; [reflexivity|].
  cbn [List.length] in *. replace (S (S (List.length l)) - 1)%nat with (S (S (List.length l) - 1)) by lia.
  cbn [firstn]. rewrite IH. reflexivity.
Qed.

Lemma clash_cmds tl labels cs : clash tl labels (map SCmd cs) = None.
Proof. induction cs as [|c r IH]; [reflexivity|exact IH]. Qed.

Lemma work_fuel_two : work_fuel = S (S (work_fuel - 2)).
Proof. vm_compute. reflexivity. Qed.

Lemma map_removelast_SCmd (cs : list cmd) : map SCmd (removelast cs) = removelast (map SCmd cs).
Proof. induction cs as [|c r IH]; [reflexivity|]. destruct r; [reflexivity|]. cbn [removelast map] in *. rewrite IH. reflexivity. Qed.

(* the chunk graph of a body of commands is ONE chunk *)
Lemma emit_graph_cmds cs :
  emit_graph (map SCmd cs) =
  Emitter.Ok {| remaining := [];
        finals := [{| Emitter.cid := 0; cret := (-1)%Z; cend := match last_endret cs with Some e => e | None => false end;
                      cstmts := map SCmd (kept_cmds cs); cbr := None |}];
        counter := 0; brk := []; org := [] |}.
Proof.
  unfold emit_graph. rewrite work_fuel_two. generalize (work_fuel - 2)%nat. intros f.
  rewrite Worklist.work_S. unfold Worklist.wstep. cbn [remaining mk cstmts].
  rewrite (scan_cmds cs 0 (List.length (map SCmd cs))) by (rewrite map_length; reflexivity).
  unfold kept_cmds. rewrite map_length. destruct (last_endret cs) as [e|].
  - unfold Worklist.wnext. cbn [remaining tl app finals counter brk org set_final filter Emitter.cid cret].
    rewrite Worklist.work_S. unfold Worklist.wstep. cbn [remaining].
    rewrite <- (map_length SCmd cs), firstn_removelast, <- map_removelast_SCmd. reflexivity.
  - rewrite Nat.eqb_refl.
    unfold Worklist.wnext. cbn [remaining tl app finals counter brk org set_final filter Emitter.cid cret].
    rewrite Worklist.work_S. unfold Worklist.wstep. cbn [remaining]. reflexivity.
Qed.

Lemma order_of_one optimize (c : chunk) : order_of optimize [c] = [0%Z].
Proof. destruct optimize; reflexivity. Qed.

(* a script whose body consists of command statements: the script label, one instruction per command in order (all but a
   final end / return, which becomes the terminator), the terminator, a blank line - for both settings of -optimize *)
Theorem emit_script_cmds mp tl name glob optimize cs :
  emit_script mp tl name glob optimize (map SCmd cs) =
    Emitter.Ok (ILabel name glob :: flat_map (render_stmt mp) (map SCmd (kept_cmds cs)) ++ [terminator cs; IBlank]).
Proof.
  unfold emit_script. rewrite emit_graph_cmds. cbn [finals]. rewrite order_of_one.
  unfold render_chunks. cbn [render_bodies get_chunk Emitter.cid Z.eqb cstmts]. rewrite clash_cmds.
  unfold render_branch. cbn [cbr cret cend Z.eqb Pos.eqb flat_map app].
  unfold terminator. destruct (last_endret cs) as [[|]|]; cbn [app]; rewrite ?app_nil_r, <- ?app_assoc; reflexivity.
Qed.

Lemma render_cmds_nomarkers cs : flat_map (render_stmt None) (map SCmd cs) = map ICmd cs.
Proof. induction cs as [|c r IH]; [reflexivity|]. cbn [map flat_map]. rewrite IH. reflexivity. Qed.

Corollary emit_script_cmds_nomarkers tl name glob optimize cs :
  emit_script None tl name glob optimize (map SCmd cs) =
    Emitter.Ok (ILabel name glob :: map ICmd (kept_cmds cs) ++ [terminator cs; IBlank]).
Proof. rewrite emit_script_cmds, render_cmds_nomarkers. reflexivity. Qed.

(* ---------- the printed text ---------- *)
Lemma last_endret_split cs e : last_endret cs = Some e ->
  exists c, cs = removelast cs ++ [c] /\ is_endret (SCmd c) = Some e.
Proof.
  unfold last_endret. intros H. destruct cs as [|c0 r _] using rev_ind; [discriminate|].
  rewrite rev_app_distr in H. cbn [rev app] in H. exists c0. rewrite removelast_last. split; [reflexivity|exact H].
Qed.
Lemma is_endret_name c e : is_endret (SCmd c) = Some e -> cname c = if e then t "end" else t "return".
Proof.
  cbn [is_endret]. destruct (cargs c) as [|? ?]; [|discriminate]. destruct (text_eqb (cname c) (t "end")) eqn:E1.
  - intros H. inversion H; subst. apply text_eqb_true. exact E1.
  - destruct (text_eqb (cname c) (t "return")) eqn:E2; [|discriminate]. intros H. inversion H; subst. apply text_eqb_true. exact E2.
Qed.

(* the final end / return is written without arguments (it always is in real scripts; since repair D22 this is a theorem: endret_bare, final_bare) *)
Definition final_endret_bare (cs : list cmd) : Prop :=
  forall pre c, cs = pre ++ [c] -> is_endret (SCmd c) <> None -> cargs c = [].

Lemma print_app mp a b : print_instrs mp (a ++ b) = print_instrs mp a ++ print_instrs mp b.
Proof. unfold print_instrs. apply flat_map_app. Qed.
Lemma print_cmds mp cs : print_instrs mp (map ICmd cs) = flat_map render_cmd cs.
Proof. unfold print_instrs. induction cs as [|c r IH]; [reflexivity|]. cbn [map flat_map print_instr]. rewrite IH. reflexivity. Qed.

(* Text of a script whose body is a list of commands: the label line, one line per command in order - each printed by
   [render_cmd] (Properties_C10.command_line_with_args) -, then "return" unless the last command is end / return, then an
   empty line.  Nothing dropped, duplicated, merged or reordered. *)
Theorem script_text_cmds tl name glob optimize cs :
  final_endret_bare cs ->
  exists is, emit_script None tl name glob optimize (map SCmd cs) = Emitter.Ok is /\
    print_instrs None is =
      name ++ (if glob then t "::" else t ":") ++ nl ++
      flat_map render_cmd cs ++
      (match last_endret cs with Some _ => [] | None => tab ++ t "return" ++ nl end) ++ nl.
Proof.
  intros HB. eexists. split; [apply emit_script_cmds_nomarkers|].
  change (ILabel name glob :: map ICmd (kept_cmds cs) ++ [terminator cs; IBlank])
    with ([ILabel name glob] ++ map ICmd (kept_cmds cs) ++ [terminator cs] ++ [IBlank]).
  rewrite !print_app, print_cmds. unfold print_instrs at 1. cbn [flat_map print_instr]. rewrite app_nil_r, <- !app_assoc.
  do 3 f_equal. unfold kept_cmds, terminator.
  destruct (last_endret cs) as [e|] eqn:LE.
  - destruct (last_endret_split cs e LE) as (c & Ecs & Hc).
    rewrite Ecs at 2. rewrite flat_map_app. cbn [flat_map]. rewrite app_nil_r, <- app_assoc. f_equal.
    assert (Ha : cargs c = []) by (apply (HB _ _ Ecs); rewrite Hc; discriminate).
    rewrite (render_cmd_noargs c Ha), (is_endret_name c e Hc). unfold print_instrs.
    destruct e; cbn [flat_map print_instr app]; rewrite !app_nil_r; cbn [app]; reflexivity.
  - unfold print_instrs. cbn [flat_map print_instr]. rewrite !app_nil_r, <- !app_assoc. reflexivity.
Qed.

(* ================= 4. end to end: a script that is a block of commands ================= *)
(* the tokens before the script's name:  script   or   script ( global )   /   script ( local ) *)
Inductive script_head : list token -> bool -> Prop :=
| head_plain sc : script_head [sc] true
| head_scope sc lp kw rp : ttype lp = LPAREN -> ttype kw = GLOBAL \/ ttype kw = LOCAL -> ttype rp = RPAREN ->
    script_head [sc; lp; kw; rp] (is GLOBAL kw).

Section E2E.
Variable autovars : list (text * autovar).
Variable switches : list (text * text).
Variable env_errors : bool.
Variable parse_format : toks -> res (token * text * text * toks).
Variable consts : list (text * text).
Notation parse_script := (parse_script autovars switches env_errors parse_format consts).
Notation wf_cmdsrc := (wf_cmdsrc switches env_errors parse_format).
Notation block_cmds := (block_cmds consts).
Notation final_command := (final_command consts).

Lemma parse_script_commands l : Forall wf_cmdsrc l ->
  forall F hd g name lb rb rest,
    script_head hd g -> ttype name = IDENT -> ttype lb = LBRACE -> ttype rb = RBRACE ->
    (List.length (flat_map cmd_tokens l) + 2 < F)%nat ->
    parse_script F (hd ++ name :: lb :: flat_map cmd_tokens l ++ rb :: rest) =
      Ok (tlit name, g, block_cmds l (rb :: rest), block_imp (tlit name) l (rb :: rest) imp0, rb :: rest).
Proof.
  intros W F hd g name lb rb rest Hh Hn Hlb Hrb HF.
  assert (NE : flat_map cmd_tokens l ++ rb :: rest <> []) by (destruct (flat_map cmd_tokens l); discriminate).
  assert (TAIL : forall pre ts2, ts2 = pre :: name :: lb :: flat_map cmd_tokens l ++ rb :: rest ->
            match expect_peek IDENT ts2 with
            | None => err_range (cur ts2) (pk 1 ts2) "missing name for script"
            | Some ts2' =>
                let nm := tlit (cur ts2') in
                match expect_peek LBRACE ts2' with
                | None => err_range (cur hd) (pk 1 ts2') "missing opening curly brace for script"
                | Some ts3 =>
                    do (b, imp, ts4) <- parse_block autovars switches env_errors parse_format consts F nm [] [] (cur ts3) (adv ts3) [] imp0;
                    Ok (nm, g, b, imp, ts4)
                end
            end = Ok (tlit name, g, block_cmds l (rb :: rest), block_imp (tlit name) l (rb :: rest) imp0, rb :: rest)).
  { intros pre ts2 ->. unfold expect_peek. rewrite peekis_cons, (is_true IDENT name Hn). rewrite (adv_cons pre) by discriminate.
    cbv zeta. rewrite peekis_cons, (is_true LBRACE lb Hlb), cur_cons. rewrite (adv_cons name) by discriminate.
    rewrite cur_cons, (adv_cons lb _ NE).
    rewrite (block_of_commands autovars switches env_errors parse_format consts l W F (tlit name) [] [] lb rb rest Hrb HF). reflexivity. }
  unfold Parser.parse_script. destruct Hh as [sc|sc lp kw rp Hlp Hkw Hrp]; cbn [app].
  - unfold scope_modifier. rewrite peekis_cons, (is_false LPAREN name) by (rewrite Hn; discriminate). cbn [negb].
    cbn beta iota. rewrite cur_cons. apply (TAIL sc). reflexivity.
  - unfold scope_modifier. rewrite peekis_cons, (is_true LPAREN lp Hlp). cbn [negb]. cbv zeta.
    rewrite (adv_cons sc) by discriminate. rewrite !peekis_cons.
    assert (K : negb (is GLOBAL kw) && negb (is LOCAL kw) = false).
    { destruct Hkw as [E|E]; [rewrite (is_true GLOBAL kw E)|rewrite (is_true LOCAL kw E)]; cbn; [reflexivity|apply andb_false_r]. }
    rewrite K. rewrite (adv_cons lp) by discriminate. rewrite peekis_cons, (is_true RPAREN rp Hrp). cbn [negb].
    rewrite curis_cons. rewrite (adv_cons kw) by discriminate. cbn beta iota. rewrite cur_cons. apply (TAIL rp). reflexivity.
Qed.
(* MAIN THEOREM (straight-line script).  Source:  script NAME { cmd_1 ... cmd_n }  with commands of the grammar of CmdArgs.v
   (any pieces: tokens, nested parentheses, inline texts, format(), moves(); empty arguments allowed).
   [parse_script] returns the name, the scope and one command statement per source command; after hoisting and patching
   (what [parse_tops] does with the result) the body is a list [cs] of commands, one per source command in source order,
   each with the source name and one final argument per written argument ([final_arg]); and [emit_script] (markers off,
   both -optimize settings) gives: the script label, one ICmd per command in order, the terminator, a blank line. *)
Theorem straight_line_script l : Forall wf_cmdsrc l ->
  forall F hd g name lb rb rest,
    script_head hd g -> ttype name = IDENT -> ttype lb = LBRACE -> ttype rb = RBRACE ->
    (List.length (flat_map cmd_tokens l) + 2 < F)%nat ->
    exists b imp,
      parse_script F (hd ++ name :: lb :: flat_map cmd_tokens l ++ rb :: rest) = Ok (tlit name, g, b, imp, rb :: rest) /\
      forall h h' ps, add_implicit imp h = (h', ps) ->
        exists cs, map (pstmt ps) b = map SCmd cs /\ Forall2 (final_command h') l cs /\
          forall tl optimize,
            emit_script None tl (tlit name) g optimize (map (pstmt ps) b) =
              Emitter.Ok (ILabel (tlit name) g :: map ICmd (kept_cmds cs) ++ [terminator cs; IBlank]).
Proof.
  intros W F hd g name lb rb rest Hh Hn Hlb Hrb HF.
  eexists _, _. split; [apply (parse_script_commands l W F hd g name lb rb rest Hh Hn Hlb Hrb HF)|].
  intros h h' ps HA.
  destruct (stretch_hoisted_gen consts (tlit name) l (rb :: rest) imp0 imp0 h h' ps) as (cs & Ecs & Fcs); try (intros ? []).
  { rewrite <- HA. apply add_implicit_ext; cbn [impadd idT idM imp0]; apply app_nil_r. }
  exists cs. split; [exact Ecs|]. split; [exact Fcs|]. intros tl optimize. rewrite Ecs. apply emit_script_cmds_nomarkers.
Qed.

(* ---------- the same, down to the printed text, for the commands of C10's quantifier ---------- *)
(* arguments made of identifiers, numbers, operators, keywords and nested parentheses, none empty; or no argument: NAME, NAME() *)
Definition plain_cmdsrc (c : cmdsrc) : Prop :=
  match cs_args c with
  | None => True
  | Some (_, a, _) => a = ([], []) \/ Forall (fun g => g <> [] /\ pure g) (groups_of a)
  end.
(* the line of a source command: tab, name, and if there are arguments a space and the argument tokens in order, constants
   substituted token by token, one space before each token except a comma and the first (CmdArgs.line_of) *)
Definition src_line (c : cmdsrc) : text :=
  tab ++ tlit (cs_name c) ++
  (match cs_args c with
   | None => []
   | Some (_, a, _) => match cmd_groups c with [] => [] | _ => t " " ++ line_of consts (flat a) end
   end) ++ nl.
Definition src_endret (c : cmdsrc) : bool :=
  text_eqb (tlit (cs_name c)) (t "end") || text_eqb (tlit (cs_name c)) (t "return").

Lemma final_plain_line h' src c : plain_cmdsrc src -> final_command h' src c -> render_cmd c = src_line src.
Proof.
  unfold plain_cmdsrc, CmdConverse.final_command, src_line, cmd_groups. intros P (Hn & _ & Fa).
  destruct (cs_args src) as [[[lp a] rp]|].
  2:{ inversion Fa as [E0 E|]. rewrite (render_cmd_noargs c (eq_sym E)), Hn. reflexivity. }
  destruct P as [->|P].
  - cbn [groups_of strip_last_empty Datatypes.fst Datatypes.snd map] in *. inversion Fa as [E0 E|].
    rewrite (render_cmd_noargs c (eq_sym E)), Hn. reflexivity.
  - assert (Hne : Forall (fun g : list piece => g <> []) (groups_of a)) by (eapply Forall_impl; [|exact P]; intros g [H _]; exact H).
    assert (Hp : Forall pure (groups_of a)) by (eapply Forall_impl; [|exact P]; intros g [_ H]; exact H).
    rewrite (strip_nonempty _ Hne) in *.
    assert (EA : cargs c = map (render_group consts) (groups_of a)).
    { clear - Fa Hp. induction Fa as [|g x gs xs Hgx _ IH]; [reflexivity|]. cbn [map].
      rewrite (proj1 (final_arg_pure consts h' g x (Forall_inv Hp)) Hgx), (IH (Forall_inv_tail Hp)). reflexivity. }
    unfold groups_of in EA at 1. cbn [map] in EA. rewrite (render_cmd_args c _ _ EA), Hn, ejoin_eq.
    change (render_group consts (Datatypes.fst a) :: map (render_group consts) (map (@Datatypes.snd _ _) (Datatypes.snd a)))
      with (map (render_group consts) (groups_of a)).
    rewrite (line_groups consts a Hne). unfold groups_of at 1. reflexivity.
Qed.

Lemma final_endret h' src c : final_command h' src c -> (src_endret src = true -> cargs c = []) ->
  is_endret (SCmd c) = if text_eqb (tlit (cs_name src)) (t "end") then Some true
                       else if text_eqb (tlit (cs_name src)) (t "return") then Some false else None.
Proof.
  intros (Hn & _) HB. cbn [is_endret]. rewrite Hn. unfold src_endret in HB. destruct (cargs c) as [|x xs]; [reflexivity|].
  destruct (text_eqb (tlit (cs_name src)) (t "end")); [discriminate (HB eq_refl)|].
  destruct (text_eqb (tlit (cs_name src)) (t "return")); [discriminate (HB eq_refl)|reflexivity].
Qed.

Lemma final_lines h' l cs : Forall plain_cmdsrc l -> Forall2 (final_command h') l cs -> flat_map render_cmd cs = flat_map src_line l.
Proof.
  intros P F. induction F as [|src c l cs H _ IH]; [reflexivity|]. cbn [flat_map].
  rewrite (final_plain_line h' src c (Forall_inv P) H), (IH (Forall_inv_tail P)). reflexivity.
Qed.

(* the last command of the source, if it is end / return, is written without arguments *)
Definition src_final_bare (l : list cmdsrc) : Prop := forall pre c, l = pre ++ [c] -> src_endret c = true -> cmd_groups c = [].
Definition src_needs_return (l : list cmdsrc) : bool := match rev l with c :: _ => negb (src_endret c) | [] => true end.

(* since repair D22 a command counts as the final end / return only when it is written without arguments *)
Lemma endret_bare c : is_endret (SCmd c) <> None -> cargs c = [].
Proof. cbn [is_endret]. destruct (cargs c); [reflexivity|congruence]. Qed.

Lemma final_bare h' l cs : Forall2 (final_command h') l cs -> src_final_bare l -> final_endret_bare cs.
Proof. intros _ _ pre c _ Hc. exact (endret_bare c Hc). Qed.

Lemma final_needs_return h' l cs : Forall2 (final_command h') l cs -> src_final_bare l ->
  (match last_endret cs with Some _ => false | None => true end) = src_needs_return l.
Proof.
  intros F HB. unfold last_endret, src_needs_return. apply Forall2_rev' in F.
  remember (rev l) as a eqn:Ea. remember (rev cs) as b eqn:Eb.
  destruct F as [|src c rl rcs H _]; [reflexivity|].
  assert (Hbare : src_endret src = true -> cargs c = []).
  { intros Hs. assert (EL : exists l1, l = l1 ++ [src]).
    { exists (rev rl). rewrite <- (rev_involutive l), <- Ea. reflexivity. }
    destruct EL as [l1 EL]. pose proof (HB l1 src EL Hs) as G. destruct H as (_ & _ & Fa). rewrite G in Fa. inversion Fa. reflexivity. }
  rewrite (final_endret h' src c H Hbare). unfold src_endret.
  destruct (text_eqb (tlit (cs_name src)) (t "end")); [reflexivity|].
  destruct (text_eqb (tlit (cs_name src)) (t "return")); reflexivity.
Qed.

(* MAIN THEOREM, text level.  For a script whose body consists of commands of C10's quantifier the compiler prints exactly:
   the label line, the line of each source command in source order (name unchanged, argument tokens in order, commas kept,
   spacing normalised, constants substituted), a "return" line unless the last command is end / return, an empty line. *)
Theorem straight_line_script_text l : Forall wf_cmdsrc l -> Forall plain_cmdsrc l -> src_final_bare l ->
  forall F hd g name lb rb rest,
    script_head hd g -> ttype name = IDENT -> ttype lb = LBRACE -> ttype rb = RBRACE ->
    (List.length (flat_map cmd_tokens l) + 2 < F)%nat ->
    exists b imp,
      parse_script F (hd ++ name :: lb :: flat_map cmd_tokens l ++ rb :: rest) = Ok (tlit name, g, b, imp, rb :: rest) /\
      forall h h' ps tl optimize, add_implicit imp h = (h', ps) ->
        exists is, emit_script None tl (tlit name) g optimize (map (pstmt ps) b) = Emitter.Ok is /\
          print_instrs None is =
            tlit name ++ (if g then t "::" else t ":") ++ nl ++
            flat_map src_line l ++
            (if src_needs_return l then tab ++ t "return" ++ nl else []) ++ nl.
Proof.
  intros W P HB F hd g name lb rb rest Hh Hn Hlb Hrb HF.
  destruct (straight_line_script l W F hd g name lb rb rest Hh Hn Hlb Hrb HF) as (b & imp & E & K).
  exists b, imp. split; [exact E|]. intros h h' ps tl optimize HA.
  destruct (K h h' ps HA) as (cs & Ecs & Fcs & _). rewrite Ecs.
  destruct (script_text_cmds tl (tlit name) g optimize cs (final_bare h' l cs Fcs HB)) as (is & E1 & E2).
  exists is. split; [exact E1|]. rewrite E2, (final_lines h' l cs P Fcs), <- (final_needs_return h' l cs Fcs HB).
  destruct (last_endret cs); reflexivity.
Qed.

End E2E.

(* ================= 5. commands inside conditions (AutoVar commands) ================= *)
From Pory Require AutoVarParse.

Section COND.
Variable autovars : list (text * autovar).
Variable switches : list (text * text).
Variable env_errors : bool.
Variable parse_format : toks -> res (token * text * text * toks).
Variable consts : list (text * text).
Variable script : text.
Notation leaf_expr := (leaf_expr autovars switches env_errors parse_format consts).

(* A condition leaf written  NAME ( args )  [comparison]  on a configured AutoVar command of the grammar: the command the
   leaf carries is the command a statement with the same tokens gives ([cmd_of]), with the same inline data; after hoisting
   and patching its arguments are the same [final_arg]s; and the emitter prints it by the instruction of a command
   statement, [ICmd], i.e. by the same [render_cmd] - in front of the comparison. *)
Theorem condition_command f pre name lp (a : arglist) rp R av v l imp rest :
  AutoVarParse.cmd_ok switches env_errors parse_format name lp a rp ->
  assoc autovars (tlit name) = Some av ->
  AutoVarParse.compared_var av (AutoVarParse.parsed_cmd consts name lp a rp R) = Some v ->
  (List.length (arg_tokens a) < f)%nat -> R <> [] ->
  leaf_expr f script (pre :: name :: lp :: arg_tokens a ++ rp :: R) = Ok (l, imp, rest) ->
  let n := List.length (name :: lp :: arg_tokens a ++ rp :: R) in
  lpre l = Some (cmd_of consts name a n) /\ imp = imp_of script name a n /\
  forall impB impA h h' ps,
    (forall it, In it (idT impB ++ idT impA) -> itCid it <> n) ->
    (forall im, In im (idM impB ++ idM impA) -> imCid im <> n) ->
    add_implicit (impadd impB (impadd imp impA)) h = (h', ps) ->
    exists args',
      let c' := {| cname := tlit name; cargs := args'; ctok := name; Ast.cid := n |} in
      lpre (pleaf ps l) = Some c' /\
      Forall2 (final_arg consts h') (strip_last_empty (groups_of a)) args' /\
      forall mp nm ch next tr fa, cbr ch = Some (BrLeaf (pleaf ps l) tr fa) ->
        exists more, Datatypes.fst (Datatypes.fst (render_branch mp nm ch next)) = ICmd c' :: more /\
                     print_instr [] (ICmd c') = render_cmd c'.
Proof.
  intros OK HA HV Hf HR H n.
  rewrite (AutoVarParse.autovar_leaf_head autovars switches env_errors parse_format consts script f pre name lp a rp R av v OK HA HV Hf HR) in H.
  destruct (cond_var_operator consts f R) as [[[[o val] strict] ts5]| | |]; try discriminate.
  cbn beta iota in H. inversion H; subst l imp rest. clear H.
  split; [reflexivity|]. split; [reflexivity|]. intros impB impA h h' ps FT FM HP.
  destruct (patched_arguments consts script name a n impB impA h h' ps FT FM HP) as (args' & EP & FA).
  exists args'. cbv zeta. split; [|split; [exact FA|]].
  - unfold pleaf. cbn [lpre AutoVarParse.autovar_leaf]. f_equal. exact EP.
  - intros mp nm ch next tr fa HB.
    assert (HL : lpre (pleaf ps (AutoVarParse.autovar_leaf (AutoVarParse.parsed_cmd consts name lp a rp R) v o val strict)) =
                 Some {| cname := tlit name; cargs := args'; ctok := name; Ast.cid := n |}).
    { unfold pleaf. cbn [lpre AutoVarParse.autovar_leaf]. f_equal. exact EP. }
    destruct (AutoVarParse.preamble_rendered_as_statement mp nm ch next _ tr fa _ HB HL) as ((more & E) & _ & P).
    exists more. split; [exact E|apply P].
Qed.
End COND.

(* ================= 6. straight-line stretches inside control constructs ================= *)
From Coq Require Import Permutation.
From Pory Require Import Tr Worklist.
From Pory Require WorkLabels.

(* the blocks of a script body: the body itself and, recursively, the bodies of its if / elif / else branches, loops and
   switch cases *)
Inductive nested (body : list stmt) : list stmt -> Prop :=
| nested_top : nested body body
| nested_sub B pre s post b : nested body B -> B = pre ++ s :: post -> In b (subblocks s) -> nested body b.

(* [ss] is a run of consecutive statements of one block *)
Definition stretch_of (body ss : list stmt) : Prop := ss = [] \/ exists B pre post, nested body B /\ B = pre ++ ss ++ post.
Definition suffix_of (body ss : list stmt) : Prop := ss = [] \/ exists B pre, nested body B /\ B = pre ++ ss.

Definition blk (ss : list stmt) : list (list stmt) := match ss with [] => [] | _ => [ss] end.
Lemma in_blk x ss : In x (blk ss) -> x = ss.
Proof. destruct ss; [intros []|]. intros [E|[]]. symmetry. exact E. Qed.
Lemma chunk_in_Mrem c cs : In c cs -> cstmts c = [] \/ In (cstmts c) (WorkLabels.Mrem _ blk cs).
Proof.
  intros H. destruct (cstmts c) as [|s r] eqn:E; [left; reflexivity|right]. unfold WorkLabels.Mrem. apply in_concat.
  exists (blk (cstmts c)). split; [apply in_map_iff; exists c; auto|]. rewrite E. left. reflexivity.
Qed.
Lemma in_Msub x s : In x (WorkLabels.Msub _ blk s) -> In x (subblocks s).
Proof.
  unfold WorkLabels.Msub. intros H. apply in_concat in H. destruct H as (l & Hl & Hx). apply in_map_iff in Hl.
  destruct Hl as (b & <- & Hb). apply in_blk in Hx. subst x. exact Hb.
Qed.

Lemma news_suffix body B pre s rest' news :
  nested body B -> (exists P0, B = P0 ++ pre ++ s :: rest') ->
  Permutation (WorkLabels.Mrem _ blk news) (WorkLabels.Msub _ blk s ++ blk rest') ->
  Forall (fun c => suffix_of body (cstmts c)) news.
Proof.
  intros NB (P0 & EB) P. apply Forall_forall. intros c Hc. destruct (chunk_in_Mrem c news Hc) as [E|Hin]; [left; exact E|].
  right. apply (Permutation_in _ P) in Hin. apply in_app_or in Hin. destruct Hin as [Hin|Hin].
  - apply in_Msub in Hin. exists (cstmts c), []. split; [|reflexivity].
    apply (nested_sub body B (P0 ++ pre) s rest' (cstmts c) NB); [rewrite EB, <- app_assoc; reflexivity|exact Hin].
  - apply in_blk in Hin. exists B, (P0 ++ pre ++ [s]). split; [exact NB|]. rewrite Hin, EB, <- !app_assoc. reflexivity.
Qed.

Lemma wstep_stretch body w cur rest fin news c' nt :
  Inv w -> remaining w = cur :: rest -> wstep w = SNext fin news c' nt ->
  suffix_of body (cstmts cur) ->
  stretch_of body (cstmts fin) /\ Forall simple (cstmts fin) /\ Forall (fun c => suffix_of body (cstmts c)) news.
Proof.
  intros I R H SU. unfold wstep in H. rewrite R in H. pose proof (inv_cnt w I) as CN.
  pose proof (scan_ok (cstmts cur) 0 (List.length (cstmts cur)) eq_refl) as SC.
  destruct (scan (cstmts cur) 0 (List.length (cstmts cur))) as [i er]. inversion SC as [pre c e E F ER Q1|F Q1|pre s rest' E F NS Q1]; subst.
  - cbn [Nat.add] in H. inversion H; subst. clear H. cbn [cstmts]. rewrite E, firstn_app_here. split; [|split; [exact F|constructor]].
    destruct SU as [SU|(B & P0 & NB & EB)]; [rewrite E in SU; destruct pre; discriminate|].
    right. exists B, P0, [SCmd c]. split; [exact NB|]. rewrite EB, E. reflexivity.
  - cbn [Nat.add] in H. rewrite Nat.eqb_refl in H. inversion H; subst. split; [|split; [exact F|constructor]].
    destruct SU as [SU|(B & P0 & NB & EB)]; [left; exact SU|]. right. exists B, P0, []. split; [exact NB|]. rewrite app_nil_r. exact EB.
  - cbn [Nat.add] in H.
    assert (NE : Nat.eqb (List.length pre) (List.length (cstmts cur)) = false).
    { apply Nat.eqb_neq. rewrite E, app_length. cbn. lia. }
    rewrite NE in H. rewrite E in H at 1. rewrite nth_error_app_here in H.
    assert (FN : firstn (List.length pre) (cstmts cur) = pre) by (rewrite E; apply firstn_app_here).
    destruct SU as [SU|(B & P0 & NB & EB)]; [rewrite E in SU; destruct pre; discriminate|].
    assert (ST : stretch_of body pre) by (right; exists B, P0, (s :: rest'); split; [exact NB|rewrite EB, E; reflexivity]).
    assert (EX : exists P0', B = P0' ++ pre ++ s :: rest') by (exists P0; rewrite EB, E; reflexivity).
    destruct s as [c|nm g tk|conds els|tag c body0|tag body0 c|tag|tag|tag op ol cases]; try discriminate NS.
    + destruct conds as [|[e b] more].
      * exfalso. pose proof (inv_ok w I) as OKs. rewrite R in OKs. inversion OKs as [|? ? OK1 _]; subst. rewrite E in OK1.
        apply okb_app in OK1. destruct OK1 as [_ OK1]. apply okb_cons in OK1. destruct OK1 as (_ & IF1 & _). exact (ifok1_if _ _ IF1 eq_refl).
      * destruct (create_if ((e, b) :: more) els cur (List.length pre) (counter w)) as [[[news0 br] ret] c0] eqn:CI. inversion H; subst. cbn [cstmts]. rewrite FN.
        split; [exact ST|]. split; [exact F|]. eapply news_suffix; [exact NB|exact EX|]. eapply (WorkLabels.create_if_M _ blk eq_refl); eauto.
    + destruct (create_while c body0 cur (List.length pre) (counter w)) as [[[news0 br] ret] c0] eqn:CI. inversion H; subst. cbn [cstmts]. rewrite FN.
      split; [exact ST|]. split; [exact F|]. eapply news_suffix; [exact NB|exact EX|]. eapply (WorkLabels.create_while_M _ blk eq_refl); eauto.
    + destruct (create_dowhile body0 c cur (List.length pre) (counter w)) as [[[news0 br] ret] c0] eqn:CI. inversion H; subst. cbn [cstmts]. rewrite FN.
      split; [exact ST|]. split; [exact F|]. eapply news_suffix; [exact NB|exact EX|]. eapply (WorkLabels.create_dowhile_M _ blk eq_refl); eauto.
    + destruct (tm_get (brk w) tag); [|discriminate]. destruct (split_for_branch cur (List.length pre) (counter w)) as [[post ret] c0] eqn:ES.
      inversion H; subst. cbn [cstmts]. rewrite FN. split; [exact ST|]. split; [exact F|].
      eapply news_suffix; [exact NB|exact EX|]. rewrite (WorkLabels.sfb_M _ blk eq_refl _ _ _ _ _ _ _ _ E ES). reflexivity.
    + destruct (tm_get (org w) tag); [|discriminate]. destruct (split_for_branch cur (List.length pre) (counter w)) as [[post ret] c0] eqn:ES.
      inversion H; subst. cbn [cstmts]. rewrite FN. split; [exact ST|]. split; [exact F|].
      eapply news_suffix; [exact NB|exact EX|]. rewrite (WorkLabels.sfb_M _ blk eq_refl _ _ _ _ _ _ _ _ E ES). reflexivity.
    + destruct (create_switch op ol cases cur (List.length pre) (counter w)) as [[[news0 br] ret] c0] eqn:CI. inversion H; subst. cbn [cstmts]. rewrite FN.
      split; [exact ST|]. split; [exact F|]. eapply news_suffix; [exact NB|exact EX|]. eapply (WorkLabels.create_switch_M _ blk eq_refl); eauto.
Qed.

Definition SInv (body : list stmt) (w : wst) : Prop :=
  Forall (fun c => suffix_of body (cstmts c)) (remaining w) /\
  Forall (fun c => Forall simple (cstmts c) /\ stretch_of body (cstmts c)) (finals w).

Lemma work_stretch body : forall f w w', Inv w -> SInv body w -> work f w = Emitter.Ok w' ->
  Forall (fun c => Forall simple (cstmts c) /\ stretch_of body (cstmts c)) (finals w').
Proof.
  induction f as [|f IH]; intros w w' I [SR SF] H; [discriminate|]. rewrite work_S in H.
  destruct (wstep w) as [|fin news c' nt| |] eqn:WS; try discriminate.
  - inversion H; subst. exact SF.
  - destruct (remaining w) as [|cur rest] eqn:R; [unfold wstep in WS; rewrite R in WS; discriminate|].
    destruct (wstep_inv _ _ _ _ _ _ _ I R WS) as (I1 & SFE & _ & _).
    destruct (wstep_stretch body _ _ _ _ _ _ _ I R WS (Forall_inv SR)) as (S1 & S2 & S3).
    apply (IH _ _ I1); [|exact H]. split.
    + unfold wnext. cbn [remaining]. rewrite R. cbn [tl]. apply Forall_app. split; [exact (Forall_inv_tail SR)|exact S3].
    + rewrite SFE. constructor; [split; assumption|exact SF].
Qed.

Local Opaque work_fuel work.
(* For every script body that passes the source check (a theorem for every body the parser returns: C01Main / SrcWf), every
   chunk of the emitter's final graph holds simple statements only (commands and labels), and they are a run of consecutive
   statements of ONE block of the source, in source order: statements of different blocks are never merged into a chunk,
   and no chunk reorders or repeats statements of its block. *)
Theorem chunks_are_source_stretches body w :
  emit_graph body = Emitter.Ok w -> Worklist.src_ok body ->
  forall c, In c (finals w) -> Forall simple (cstmts c) /\ stretch_of body (cstmts c).
Proof.
  intros H [OK ND]. unfold emit_graph in H.
  assert (I0 : Inv {| remaining := [mk 0 (-1) body None]; finals := []; counter := 0; brk := []; org := [] |}).
  { constructor; cbn.
    - lia.
    - repeat constructor. intros [].
    - repeat constructor; cbn; lia.
    - constructor; [right; split; reflexivity|constructor].
    - constructor; [exact OK|constructor].
    - unfold tags_rem. cbn. rewrite !app_nil_r. exact ND.
    - reflexivity. }
  assert (S0 : SInv body {| remaining := [mk 0 (-1) body None]; finals := []; counter := 0; brk := []; org := [] |}).
  { split; cbn [remaining finals]; [|constructor]. constructor; [|constructor]. cbn [cstmts mk].
    right. exists body, []. split; [constructor|reflexivity]. }
  pose proof (work_stretch body _ _ _ I0 S0 H) as F. rewrite Forall_forall in F. exact F.
Qed.
Local Transparent work_fuel work.

(* ---------- every chunk's statements are printed as consecutive instructions ---------- *)
From Pory Require WorkShape OrderPerm.

Lemma render_bodies_contains mp tl name fs labels : forall order bodies regs,
  render_bodies mp tl name fs labels order = Emitter.Ok (bodies, regs) ->
  forall i c, In i order -> get_chunk fs i = Some c ->
  exists b post, In (i, b) bodies /\ b = flat_map (render_stmt mp) (cstmts c) ++ post.
Proof.
  induction order as [|j r IH]; intros bodies regs H i c Hi Hc; [destruct Hi|].
  cbn [render_bodies] in H.
  destruct (get_chunk fs j) as [cj|] eqn:Gj.
  - destruct (clash tl labels (cstmts cj)) as [[tk b0]|]; [discriminate|].
    destruct (render_branch mp name cj (match r with n :: _ => n | [] => (-1)%Z end)) as [[b regs0] fall].
    destruct (render_bodies mp tl name fs labels r) as [[rest regs']| | | |] eqn:RB; try discriminate.
    inversion H; subst. destruct Hi as [->|Hi].
    + rewrite Gj in Hc. inversion Hc; subst. eexists _, _. split; [left; reflexivity|reflexivity].
    + destruct (IH _ _ eq_refl i c Hi Hc) as (b1 & post & Hin & E). exists b1, post. split; [right; exact Hin|exact E].
  - destruct Hi as [->|Hi]; [congruence|]. exact (IH _ _ H i c Hi Hc).
Qed.

Local Opaque work_fuel work.
(* MAIN THEOREM (stretches inside control constructs).  For every accepted script body (source check), any marker setting and
   both -optimize settings: each chunk of the final graph is printed, its statements - commands and labels only - come out as
   consecutive instructions ([render_stmt]: one ICmd per command, printed by [render_cmd]) in their order, and they are
   consecutive statements of one block of the source in source order.  So within a straight-line stretch nothing is
   reordered, duplicated or merged with statements of another block. *)
Theorem stretch_rendered_in_order mp tl name glob optimize body w code :
  emit_graph body = Emitter.Ok w -> Worklist.src_ok body ->
  emit_script mp tl name glob optimize body = Emitter.Ok code ->
  forall c, In c (finals w) ->
    Forall simple (cstmts c) /\ stretch_of body (cstmts c) /\
    exists before after, code = before ++ flat_map (render_stmt mp) (cstmts c) ++ after.
Proof.
  intros HG SO HE c Hc. destruct (chunks_are_source_stretches body w HG SO c Hc) as [S1 S2]. split; [exact S1|]. split; [exact S2|].
  unfold emit_script in HE. rewrite HG in HE. unfold render_chunks in HE.
  destruct (render_bodies mp tl name (finals w) (map (chunk_label name) (finals w)) (order_of optimize (finals w)))
    as [[bodies regs]| | | |] eqn:RB; try discriminate.
  inversion HE; subst code. clear HE.
  destruct (WorkShape.final_graph_shape body w HG SO) as (HD & _).
  assert (Hi : In (Emitter.cid c) (order_of optimize (finals w))).
  { eapply Permutation_in; [symmetry; apply (OrderPerm.order_of_perm_all optimize (finals w) HD)|]. apply in_map. exact Hc. }
  assert (Hg : get_chunk (finals w) (Emitter.cid c) = Some c) by (apply get_chunk_nodup'; [exact (proj1 HD)|exact Hc]).
  destruct (render_bodies_contains mp tl name _ _ _ _ _ RB _ _ Hi Hg) as (b & post & Hin & ->).
  apply in_split in Hin. destruct Hin as (l1 & l2 & ->). rewrite flat_map_app. cbn [flat_map].
  assert (AS : forall (A L S P B : list instr), A ++ ((L ++ (S ++ P)) ++ B) = (A ++ L) ++ S ++ (P ++ B))
    by (intros; rewrite <- !app_assoc; reflexivity).
  eexists _, _. apply AS.
Qed.

Local Transparent work_fuel work.

(* ================= 7. examples: the hypotheses are satisfiable, the model run agrees, two counterexamples ================= *)
Section EXAMPLES.
Let T := CmdArgs.T.
Let sw : list (text * text) := [].
Let pf : toks -> res (token * text * text * toks) := fun _ => Panic.
Let cs : list (text * text) := [(t "SPEED", t "0x10")].

(* part 1:  setvar(VAR_X, (1, SPEED))  - a stream of the lexer's shape, accepted; the theorem applies *)
Let ts1 := [T IDENT "setvar"; T LPAREN "("; T IDENT "VAR_X"; T COMMA ","; T LPAREN "("; T INT "1"; T COMMA ","; T IDENT "SPEED";
            T RPAREN ")"; T RPAREN ")"; T RBRACE "}"; T EOF ""].
Example ex_accepted :
  eof_ended ts1 /\ Forall no_subparser_tok ts1 /\ peekis LPAREN ts1 = true /\
  exists c imp, command_stmt sw false pf cs 50 (t "S") ts1 = Ok (c, imp, [T RPAREN ")"; T RBRACE "}"; T EOF ""]) /\
    cargs c = [t "VAR_X"; t "( 1"; t "0x10 )"].
Proof.
  split; [split; [discriminate|reflexivity]|]. split; [repeat constructor; discriminate|]. split; [reflexivity|].
  eexists _, _. split; vm_compute; reflexivity.
Qed.

(* part 2 (B5 / B10):  msgbox(X "a" "b" Y, moves(walk_up) "c")  - two inline pieces in an argument, plain tokens beside
   them: the first argument becomes the label of its LAST text (X, Y and "a" are gone from the line, "a" is still hoisted),
   the second the label of the movement although a text follows it *)
Let ts2 := [T IDENT "msgbox"; T LPAREN "("; T IDENT "X"; T STRING "a"; T STRING "b"; T IDENT "Y"; T COMMA ",";
            T MOVES "moves"; T LPAREN "("; T IDENT "walk_up"; T RPAREN ")"; T STRING "c"; T RPAREN ")"; T RBRACE "}"; T EOF ""].
Example mixed_argument_becomes_last_label :
  exists c imp h' ps, command_stmt sw false pf cs 50 (t "S") ts2 = Ok (c, imp, [T RPAREN ")"; T RBRACE "}"; T EOF ""]) /\
    add_implicit imp hst0 = (h', ps) /\
    render_cmd c = tab ++ t "msgbox X   Y,  " ++ nl /\
    render_cmd (pcmd ps c) = tab ++ t "msgbox S_Text_1, S_Movement_0" ++ nl /\
    map xname (htexts h') = [t "S_Text_0"; t "S_Text_1"; t "S_Text_2"].
Proof. eexists _, _, _, _. split; [vm_compute; reflexivity|]. split; [vm_compute; reflexivity|]. repeat split; vm_compute; reflexivity. Qed.

(* part 3: a final end / return written WITH arguments. Before repair D22 it lost them (emitter.go replaced the statement by
   the chunk terminator, which is printed as the bare word) - found by this file's proof; now it is an ordinary command line
   followed by the generated terminator *)
Let c_lock : cmd := {| cname := t "lock"; cargs := []; ctok := T IDENT "lock"; Ast.cid := 9 |}.
Let c_end : cmd := {| cname := t "end"; cargs := [t "FOO"; t "1"]; ctok := T IDENT "end"; Ast.cid := 7 |}.
Example final_end_arguments_kept :
  forall optimize, exists is, emit_script None [] (t "S") true optimize [SCmd c_lock; SCmd c_end] = Emitter.Ok is /\
    print_instrs None is = t "S::" ++ nl ++ tab ++ t "lock" ++ nl ++ tab ++ t "end FOO, 1" ++ nl ++ tab ++ t "return" ++ nl ++ nl /\
    render_cmd c_end = tab ++ t "end FOO, 1" ++ nl.
Proof. intros [|]; eexists; (split; [vm_compute; reflexivity|]); split; vm_compute; reflexivity. Qed.
(* ... as in any other position *)
Example inner_end_arguments_kept :
  forall optimize, exists is, emit_script None [] (t "S") true optimize [SCmd c_end; SCmd c_lock] = Emitter.Ok is /\
    print_instrs None is = t "S::" ++ nl ++ tab ++ t "end FOO, 1" ++ nl ++ tab ++ t "lock" ++ nl ++ tab ++ t "return" ++ nl ++ nl.
Proof. intros [|]; eexists; (split; vm_compute; reflexivity). Qed.

(* part 4:  script S { setvar(VAR_X, SPEED * 2) lock end }  - the hypotheses of straight_line_script_text hold *)
Let l4 : list cmdsrc :=
  [ {| cs_name := T IDENT "setvar";
       cs_args := Some (T LPAREN "(", ([PTok (T IDENT "VAR_X")], [(T COMMA ",", [PTok (T IDENT "SPEED"); PTok (T MUL "*"); PTok (T INT "2")])]), T RPAREN ")") |};
    {| cs_name := T IDENT "lock"; cs_args := None |};
    {| cs_name := T IDENT "end"; cs_args := None |} ].
Example ex_script_hypotheses :
  Forall (wf_cmdsrc sw false pf) l4 /\ Forall plain_cmdsrc l4 /\ src_final_bare l4 /\
  script_head [T SCRIPT "script"] true /\
  tlit (T IDENT "S") ++ t "::" ++ nl ++ flat_map (src_line cs) l4 ++ (if src_needs_return l4 then tab ++ t "return" ++ nl else []) ++ nl
    = t "S::" ++ nl ++ tab ++ t "setvar VAR_X, 0x10 * 2" ++ nl ++ tab ++ t "lock" ++ nl ++ tab ++ t "end" ++ nl ++ nl.
Proof.
  split; [|split; [|split; [|split]]].
  - repeat (apply Forall_cons; [|]); try apply Forall_nil; (split; [reflexivity|]); try exact I.
    cbn [cs_args]. split; [reflexivity|]. split; [reflexivity|]. split.
    + split; cbn [Datatypes.fst Datatypes.snd]; repeat (apply Forall_cons; [|]); try apply Forall_nil; try reflexivity.
      split; [reflexivity|]. repeat (apply Forall_cons; [reflexivity|]). apply Forall_nil.
    + cbn. repeat (apply bal_other; [reflexivity|]). apply bal_nil.
  - repeat (apply Forall_cons; [|]); try apply Forall_nil; try exact I.
    right. unfold groups_of. cbn [map Datatypes.fst Datatypes.snd].
    repeat (apply Forall_cons; [split; [discriminate|repeat (apply Forall_cons; [reflexivity|]); apply Forall_nil]|]). apply Forall_nil.
  - intros pre c E _. apply (f_equal (@rev _)) in E. rewrite rev_app_distr in E. cbn in E. inversion E. reflexivity.
  - constructor.
  - vm_compute. reflexivity.
Qed.
(* and the model run gives that text *)
Example ex_script_run :
  let ts := T SCRIPT "script" :: T IDENT "S" :: T LBRACE "{" :: flat_map cmd_tokens l4 ++ [T RBRACE "}"; T EOF ""] in
  exists b imp h' ps is, parse_script [] sw false pf cs 50 ts = Ok (t "S", true, b, imp, [T RBRACE "}"; T EOF ""]) /\
    add_implicit imp hst0 = (h', ps) /\ emit_script None [] (t "S") true true (map (pstmt ps) b) = Emitter.Ok is /\
    print_instrs None is = t "S::" ++ nl ++ tab ++ t "setvar VAR_X, 0x10 * 2" ++ nl ++ tab ++ t "lock" ++ nl ++ tab ++ t "end" ++ nl ++ nl.
Proof. eexists _, _, _, _, _. split; [vm_compute; reflexivity|]. split; [vm_compute; reflexivity|]. split; vm_compute; reflexivity. Qed.
End EXAMPLES.
