(* C18 - Every input is answered promptly with output or a located error, never a crash.
   PARTIAL by nature (DESIGN.md): promptness and memory are properties of the Go runtime. Proved here, for the model:
   - never a crash: the parser model marks every place where the Go code could index out of range or dereference nil with
     an explicit Panic result; no token list, command configuration, switch set, font configuration or mode makes
     parse_program return Panic (parser_never_panics: all 40 parsing functions, by one induction on the fuel each);
   - the lexer terminates: every token that is not the final EOF consumes a character (lexer_makes_progress), so the token
     stream is produced with the fuel the model gives it (fuel independence: LexLayout.lex_all_enough);
   - located errors: the positions the lexer hands to the parser - the only source of line numbers in errors - always lie
     inside the input.
   Not proved: that the parser's fuel (one more than the number of tokens) always suffices - termination of the parser
   proper - which the run-time checks decide (HANG watchdog, nesting depth 2000). *)
From Coq Require Import List ZArith Bool.
From Pory Require Import Lexer LexInv LexLayout Ast Parser Format NoPanic.
Import ListNotations.
Local Open Scope Z_scope.

Theorem token_lines_inside_input_partial :
  forall is_letter_hi is_digit_hi is_space_hi (s : text),
    Forall (fun tk => 1 <= tline tk <= 1 + nl s /\ 1 <= teline tk <= 1 + nl s) (lex is_letter_hi is_digit_hi is_space_hi s).
Proof. exact lex_lines_in_range. Qed.
Print Assumptions token_lines_inside_input_partial.


Theorem parser_never_panics :
  forall autovars switches env_errors fc cli_font cli_maxlen ts,
    parse_program autovars switches env_errors (parse_format fc cli_font cli_maxlen env_errors) ts <> Panic.
Proof. exact NoPanic.parser_never_panics. Qed.
Print Assumptions parser_never_panics.

Theorem lexer_makes_progress :
  forall is_letter_hi is_digit_hi is_space_hi l ts l', next_token_aux is_letter_hi is_digit_hi is_space_hi l = (ts, l', false) ->
    (List.length (chs l') < List.length (chs l))%nat.
Proof. exact next_token_progress. Qed.
Print Assumptions lexer_makes_progress.

(* ---------- termination of the parser model ---------- *)
From Pory Require Import Format FuelOk.
(* for every source text and configuration the parser answers with a program or an error, never with exhausted fuel: the
   fuel it starts with, 5 * (number of tokens) + 4, pays for every recursive call (every call either consumes a token or
   descends one of at most five levels between two consumed tokens) *)
Theorem parser_never_out_of_fuel :
  forall hl hd hs autovars switches ee fc cli_font cli_maxlen (src : text),
    parse_program autovars switches ee (parse_format fc cli_font cli_maxlen ee) (lex hl hd hs src) <> Fuel.
Proof. exact FuelOk.parser_never_out_of_fuel. Qed.
Print Assumptions parser_never_out_of_fuel.

(* above that bound the answer does not depend on the fuel at all: the fuel is a proof device, not part of the behaviour *)
Theorem parser_answer_fuel_independent :
  forall hl hd hs autovars switches ee fc cli_font cli_maxlen (src : text) (fuel1 fuel2 : nat) (st : pstate),
    (5 * List.length (lex hl hd hs src) + 4 <= fuel1)%nat -> (5 * List.length (lex hl hd hs src) + 4 <= fuel2)%nat ->
    parse_tops autovars switches ee (parse_format fc cli_font cli_maxlen ee) fuel1 st (lex hl hd hs src) =
    parse_tops autovars switches ee (parse_format fc cli_font cli_maxlen ee) fuel2 st (lex hl hd hs src).
Proof. exact FuelOk.parser_answer_fuel_independent. Qed.
Print Assumptions parser_answer_fuel_independent.

Theorem format_operator_never_out_of_fuel :
  forall fc cli_font cli_maxlen ee (ts : toks),
    Consume.eof_ended ts -> parse_format fc cli_font cli_maxlen ee ts <> Fuel.
Proof. exact FuelOk.parse_format_never_out_of_fuel. Qed.
Print Assumptions format_operator_never_out_of_fuel.

(* ---- 'a returned error carries a line range inside the input with start not after end' (ErrRange.v).
   parse_error_located: every error parse_program returns, on every token stream, is built from two tokens of the stream, the
   first at an index not after the second (located_in); parsing_functions_errors_located: the same for every parsing function
   on every suffix of a stream; compile_error_located: every located error Compile.compile returns - parser errors, the two
   name checks, the emitter's label clash - is located in lex src; lex_lines_monotone / lex_tokens_ordered: lines grow along
   the token stream; hence parse_error_lines_in_range / compile_error_lines_in_range: 1 <= start line <= end line <= number of
   lines of the source. accepted_tokens_stand_in_stream: every token kept in an accepted program stands in the stream. ---- *)
From Pory Require Import ErrRange. Open Scope list_scope. Open Scope Z_scope.
Theorem lex_lines_monotone :
  forall (is_letter_hi is_digit_hi is_space_hi : N -> bool) (s : text) (i j : nat) (a b : token),
  nth_error (lex is_letter_hi is_digit_hi is_space_hi s) i = Some a ->
  nth_error (lex is_letter_hi is_digit_hi is_space_hi s) j = Some b -> (i <= j)%nat -> tline a <= teline b.
Proof. exact ErrRange.lex_lines_monotone. Qed.
Print Assumptions lex_lines_monotone.

Theorem lex_tokens_ordered :
  forall (is_letter_hi is_digit_hi is_space_hi : N -> bool) (s : text) (i j : nat) (a b : token),
  nth_error (lex is_letter_hi is_digit_hi is_space_hi s) i = Some a ->
  nth_error (lex is_letter_hi is_digit_hi is_space_hi s) j = Some b -> (i < j)%nat -> teline a <= tline b.
Proof. exact ErrRange.lex_tokens_ordered. Qed.
Print Assumptions lex_tokens_ordered.

Theorem parse_error_located :
  forall (autovars : list (text * autovar)) (switches : list (text * text)) (ee : bool) (fc : fontcfg) (cli_font : text) 
    (cli_maxlen : Z) (ts : toks) (e : perr),
  parse_program autovars switches ee (parse_format fc cli_font cli_maxlen ee) ts = Err e -> located_in ts e.
Proof. exact ErrRange.parse_error_located. Qed.
Print Assumptions parse_error_located.

Theorem parsing_functions_errors_located :
  forall (autovars : list (text * autovar)) (switches : list (text * text)) (ee : bool) (fc : fontcfg) (cli_font : text) 
    (cli_maxlen : Z) (full pre ts : list token),
  full = pre ++ ts ->
  ts <> [] ->
  (forall (consts : list (text * text)) (f : nat) (script : text) (bs cs : list nat) (e : perr),
   parse_stmt autovars switches ee (parse_format fc cli_font cli_maxlen ee) consts f script bs cs ts = Err e -> located_in full e) /\
  (forall (consts : list (text * text)) (f : nat) (single negated : bool) (script : text) (e : perr),
   bool_expr autovars switches ee (parse_format fc cli_font cli_maxlen ee) consts f single negated script ts = Err e -> located_in full e) /\
  (forall (consts : list (text * text)) (f : nat) (script : text) (e : perr),
   command_stmt switches ee (parse_format fc cli_font cli_maxlen ee) consts f script ts = Err e -> located_in full e) /\
  (forall (consts : list (text * text)) (f : nat) (e : perr),
   parse_script autovars switches ee (parse_format fc cli_font cli_maxlen ee) consts f ts = Err e -> located_in full e) /\
  (forall (f : nat) (e : perr), parse_text switches ee (parse_format fc cli_font cli_maxlen ee) f ts = Err e -> located_in full e) /\
  (forall (f : nat) (e : perr), parse_movement switches ee f ts = Err e -> located_in full e) /\
  (forall (consts : list (text * text)) (f : nat) (e : perr), parse_mart switches ee consts f ts = Err e -> located_in full e) /\
  (forall (consts : list (text * text)) (f : nat) (e : perr),
   parse_mapscripts autovars switches ee (parse_format fc cli_font cli_maxlen ee) consts f ts = Err e -> located_in full e) /\
  (forall e : perr, parse_raw ts = Err e -> located_in full e) /\
  (forall (f : nat) (consts : list (text * text)) (e : perr), parse_const f consts ts = Err e -> located_in full e) /\
  (forall e : perr, parse_format fc cli_font cli_maxlen ee ts = Err e -> located_in full e).
Proof. exact ErrRange.parsing_functions_errors_located. Qed.
Print Assumptions parsing_functions_errors_located.

Theorem accepted_tokens_stand_in_stream :
  forall (autovars : list (text * autovar)) (switches : list (text * text)) (ee : bool) (fc : fontcfg) (cli_font : text) 
    (cli_maxlen : Z) (ts : toks) (p : program),
  parse_program autovars switches ee (parse_format fc cli_font cli_maxlen ee) ts = Ok p ->
  (forall x : textdef, In x (texts p) -> stands_in ts (xtok x)) /\
  (forall (n : text) (g : bool) (tk : token) (steps : list token), In (TMovement n g tk steps) (tops p) -> stands_in ts tk) /\
  (forall (body : list stmt) (n : text) (tk : token), In body (ProgWf.bodies_of (tops p)) -> In (n, tk) (NameClash.dlts body) -> stands_in ts tk).
Proof. exact ErrRange.accepted_tokens_stand_in_stream. Qed.
Print Assumptions accepted_tokens_stand_in_stream.

Theorem parse_error_lines_in_range :
  forall (autovars : list (text * autovar)) (switches : list (text * text)) (ee : bool) (fc : fontcfg) (cli_font : text) 
    (cli_maxlen : Z) (hl hd hs : N -> bool) (src : text) (e : perr),
  parse_program autovars switches ee (parse_format fc cli_font cli_maxlen ee) (lex hl hd hs src) = Err e ->
  1 <= els e /\ els e <= ele e <= 1 + nl src.
Proof. exact ErrRange.parse_error_lines_in_range. Qed.
Print Assumptions parse_error_lines_in_range.

Theorem compile_error_located :
  forall (autovars : list (text * autovar)) (switches : list (text * text)) (ee : bool) (fc : fontcfg) (cli_font : text) 
    (cli_maxlen : Z) (hl hd hs : N -> bool) (optimize : bool) (mpath : option text) (src : text) (e : perr),
  Compile.compile hl hd hs autovars switches ee fc cli_font cli_maxlen optimize mpath src = Compile.OutErr e -> located_in (lex hl hd hs src) e.
Proof. exact ErrRange.compile_error_located. Qed.
Print Assumptions compile_error_located.

Theorem compile_error_lines_in_range :
  forall (autovars : list (text * autovar)) (switches : list (text * text)) (ee : bool) (fc : fontcfg) (cli_font : text) 
    (cli_maxlen : Z) (hl hd hs : N -> bool) (optimize : bool) (mpath : option text) (src : text) (e : perr),
  Compile.compile hl hd hs autovars switches ee fc cli_font cli_maxlen optimize mpath src = Compile.OutErr e ->
  1 <= els e /\ els e <= ele e <= 1 + nl src.
Proof. exact ErrRange.compile_error_lines_in_range. Qed.
Print Assumptions compile_error_lines_in_range.

Theorem accepted_token_lines_in_range :
  forall (autovars : list (text * autovar)) (switches : list (text * text)) (ee : bool) (fc : fontcfg) (cli_font : text) 
    (cli_maxlen : Z) (hl hd hs : N -> bool) (src : text) (p : program),
  parse_program autovars switches ee (parse_format fc cli_font cli_maxlen ee) (lex hl hd hs src) = Ok p ->
  (forall x : textdef, In x (texts p) -> 1 <= tline (xtok x) /\ tline (xtok x) <= teline (xtok x) <= 1 + nl src) /\
  (forall (n : text) (g : bool) (tk : token) (steps : list token),
   In (TMovement n g tk steps) (tops p) -> 1 <= tline tk /\ tline tk <= teline tk <= 1 + nl src) /\
  (forall (body : list stmt) (n : text) (tk : token),
   In body (ProgWf.bodies_of (tops p)) -> In (n, tk) (NameClash.dlts body) -> 1 <= tline tk /\ tline tk <= teline tk <= 1 + nl src).
Proof. exact ErrRange.accepted_token_lines_in_range. Qed.
Print Assumptions accepted_token_lines_in_range.


(* ---- 'lint mode accepts every program normal mode accepts and never fails because switches or fonts are missing'
   (LintAccepts.v; lint mode = env_errors false, no switches, no font configuration, the same command configuration).
   lint_accepts_what_normal_accepts: for EVERY token list; env_errors_off_accepts_more: the general form (any mode and
   configuration on the left, any switches and fonts with environment errors off on the right);
   lint_never_fails_for_missing_environment: no error of the lint parser is one of the four environment errors;
   compilation_error_is_environment_or_name_clash_or_lint_error: every error of a compilation is an environment error, a name
   clash, or EXACTLY the linter's error (same message, same position); lint_error_is_an_error_of_every_compilation,
   lint_error_explained, lint_answer. (The first attempt to state the first theorem by hand found defect D20.) ---- *)
From Pory Require Import LintAccepts. Open Scope list_scope. Open Scope Z_scope.
Theorem lint_accepts_what_normal_accepts :
  forall (autovars : list (text * autovar)) (switches : list (text * text)) (fc : fontcfg) (cli_font : text) (cli_maxlen : Z) 
    (ts : toks) (p : program),
  parse_program autovars switches true (parse_format fc cli_font cli_maxlen true) ts = Ok p ->
  exists p' : program, parse_program autovars [] false (parse_format fc_none [] 0 false) ts = Ok p'.
Proof. exact LintAccepts.lint_accepts_what_normal_accepts. Qed.
Print Assumptions lint_accepts_what_normal_accepts.

Theorem env_errors_off_accepts_more :
  forall (autovars : list (text * autovar)) (sw : list (text * text)) (ee : bool) (fc : fontcfg) (cli_font : text) (cli_maxlen : Z)
    (sw' : list (text * text)) (fc' : fontcfg) (cli_font' : text) (cli_maxlen' : Z) (ts : toks) (p : program),
  parse_program autovars sw ee (parse_format fc cli_font cli_maxlen ee) ts = Ok p ->
  exists p' : program, parse_program autovars sw' false (parse_format fc' cli_font' cli_maxlen' false) ts = Ok p'.
Proof. exact LintAccepts.env_errors_off_accepts_more. Qed.
Print Assumptions env_errors_off_accepts_more.

Theorem lint_never_fails_for_missing_environment :
  forall (autovars : list (text * autovar)) (switches : list (text * text)) (fc : fontcfg) (cli_font : text) (cli_maxlen : Z) 
    (ts : toks) (e : perr),
  parse_program autovars switches false (parse_format fc cli_font cli_maxlen false) ts = Err e -> ~ In (emsg e) env_messages.
Proof. exact LintAccepts.lint_never_fails_for_missing_environment. Qed.
Print Assumptions lint_never_fails_for_missing_environment.

Theorem compilation_error_is_environment_or_name_clash_or_lint_error :
  forall (autovars : list (text * autovar)) (sw : list (text * text)) (ee : bool) (fc : fontcfg) (cli_font : text) (cli_maxlen : Z)
    (sw' : list (text * text)) (fc' : fontcfg) (cli_font' : text) (cli_maxlen' : Z) (ts : toks) (e : perr),
  parse_program autovars sw ee (parse_format fc cli_font cli_maxlen ee) ts = Err e ->
  In (emsg e) env_messages \/
  In (emsg e) name_clash_messages \/ parse_program autovars sw' false (parse_format fc' cli_font' cli_maxlen' false) ts = Err e.
Proof. exact LintAccepts.compilation_error_is_environment_or_name_clash_or_lint_error. Qed.
Print Assumptions compilation_error_is_environment_or_name_clash_or_lint_error.

Theorem lint_error_is_an_error_of_every_compilation :
  forall (hl hd hs : N -> bool) (autovars : list (text * autovar)) (src : text) (e : perr),
  parse_program autovars [] false (parse_format fc_none [] 0 false) (lex hl hd hs src) = Err e ->
  forall (switches : list (text * text)) (fc : fontcfg) (cli_font : text) (cli_maxlen : Z),
  exists e' : perr, parse_program autovars switches true (parse_format fc cli_font cli_maxlen true) (lex hl hd hs src) = Err e'.
Proof. exact LintAccepts.lint_error_is_an_error_of_every_compilation. Qed.
Print Assumptions lint_error_is_an_error_of_every_compilation.

Theorem lint_error_explained :
  forall (hl hd hs : N -> bool) (autovars : list (text * autovar)) (src : text) (e : perr),
  parse_program autovars [] false (parse_format fc_none [] 0 false) (lex hl hd hs src) = Err e ->
  forall (switches : list (text * text)) (fc : fontcfg) (cli_font : text) (cli_maxlen : Z),
  exists e' : perr,
    parse_program autovars switches true (parse_format fc cli_font cli_maxlen true) (lex hl hd hs src) = Err e' /\
    (e' = e \/ In (emsg e') env_messages \/ In (emsg e') name_clash_messages).
Proof. exact LintAccepts.lint_error_explained. Qed.
Print Assumptions lint_error_explained.

Theorem lint_answer :
  forall (hl hd hs : N -> bool) (autovars : list (text * autovar)) (src : text),
  (exists p : program, parse_program autovars [] false (parse_format fc_none [] 0 false) (lex hl hd hs src) = Ok p) \/
  (exists e : perr, parse_program autovars [] false (parse_format fc_none [] 0 false) (lex hl hd hs src) = Err e /\ ~ In (emsg e) env_messages).
Proof. exact LintAccepts.lint_answer. Qed.
Print Assumptions lint_answer.


(* ---- the emitter answers too (EmitTotal.v). work_fuel_monotone / work_answers_agree: the worklist's fuel is a proof device;
   wstep_decreases / work_terminates: every step decreases an explicit weight of the pending statements (mu_body body <= 1 + 3 *
   number of syntax nodes); work_scoped_no_break_error: a well-scoped body never makes the worklist fail on break / continue;
   emit_graph_total: every well-scoped body that fits the model's fixed fuel (10000 steps) gets its chunk graph;
   emit_program_total, compile_total; accepted_bodies_fit_tokens: the weight of every accepted body is at most the number of
   tokens of the source, hence compile_total_tokens: EVERY source of fewer than 10000 tokens, in every configuration and mode, is
   answered with output or a located error - never Panic, Fuel or an internal emitter error;
   compile_never_panics_nor_parser_fuel (unconditional); compile_emit_error_needs_many_tokens. The fixed fuel is a limit of the
   model only (ex_bound_matters), not of the Go code. ---- *)
From Pory Require Import Emitter EmitTotal. Open Scope list_scope. Open Scope Z_scope.
Theorem work_fuel_monotone :
  forall (k f : nat) (w : wst) (r : res wst), work f w = r -> r <> OutOfFuel -> work (f + k) w = r.
Proof. exact EmitTotal.work_fuel_monotone. Qed.
Print Assumptions work_fuel_monotone.

Theorem work_answers_agree :
  forall (f1 f2 : nat) (w : wst), work f1 w <> OutOfFuel -> work f2 w <> OutOfFuel -> work f1 w = work f2 w.
Proof. exact EmitTotal.work_answers_agree. Qed.
Print Assumptions work_answers_agree.

Theorem wstep_decreases :
  forall (w : wst) (fin : chunk) (news : list chunk) (c' : Z) (nt : option (nat * Z * Z)),
  Worklist.wstep w = Worklist.SNext fin news c' nt -> (mu (Worklist.wnext w fin news c' nt) < mu w)%nat.
Proof. exact EmitTotal.wstep_decreases. Qed.
Print Assumptions wstep_decreases.

Theorem work_terminates :
  forall (f : nat) (w : wst), (mu w < f)%nat -> work f w <> OutOfFuel.
Proof. exact EmitTotal.work_terminates. Qed.
Print Assumptions work_terminates.

Theorem work_fuel_independent :
  forall (f1 f2 : nat) (w : wst), (mu w < f1)%nat -> (mu w < f2)%nat -> work f1 w = work f2 w.
Proof. exact EmitTotal.work_fuel_independent. Qed.
Print Assumptions work_fuel_independent.

Theorem mu_body_le_nodes :
  forall body : list stmt, (mu_body body <= 1 + 3 * nodes body)%nat.
Proof. exact EmitTotal.mu_body_le_nodes. Qed.
Print Assumptions mu_body_le_nodes.

Theorem work_scoped_no_break_error :
  forall (f : nat) (w : wst), SInv w -> work f w <> ErrBreak /\ work f w <> ErrContinue.
Proof. exact EmitTotal.work_scoped_no_break_error. Qed.
Print Assumptions work_scoped_no_break_error.

Theorem work_total :
  forall (body : list stmt) (f : nat), Tr.scoped None None body -> (mu_body body < f)%nat -> exists w : wst, work f (w0 body) = Ok w.
Proof. exact EmitTotal.work_total. Qed.
Print Assumptions work_total.

Theorem emit_graph_total :
  forall body : list stmt, Tr.scoped None None body -> (mu_body body < work_fuel)%nat -> exists w : wst, emit_graph body = Ok w.
Proof. exact EmitTotal.emit_graph_total. Qed.
Print Assumptions emit_graph_total.

Theorem emit_graph_total_small :
  forall body : list stmt, Tr.scoped None None body -> (nodes body <= 3332)%nat -> exists w : wst, emit_graph body = Ok w.
Proof. exact EmitTotal.emit_graph_total_small. Qed.
Print Assumptions emit_graph_total_small.

Theorem emit_graph_fuel_irrelevant :
  forall (body : list stmt) (f : nat), (mu_body body < work_fuel)%nat -> (mu_body body < f)%nat -> work f (w0 body) = emit_graph body.
Proof. exact EmitTotal.emit_graph_fuel_irrelevant. Qed.
Print Assumptions emit_graph_fuel_irrelevant.

Theorem emit_program_total :
  forall (optimize : bool) (mp : option text) (p : program),
  Forall (Tr.scoped None None) (ProgWf.bodies_of (tops p)) ->
  bodies_fit p ->
  (exists out : text, emit_program optimize mp p = Ok out) \/ (exists (tk : token) (b : bool), emit_program optimize mp p = ErrLabel tk b).
Proof. exact EmitTotal.emit_program_total. Qed.
Print Assumptions emit_program_total.

Theorem compile_never_panics_nor_parser_fuel :
  forall (hl hd hs : N -> bool) (autovars : list (text * autovar)) (switches : list (text * text)) (ee : bool) (fc : fontcfg) 
    (cli_font : text) (cli_maxlen : Z) (optimize : bool) (mpath : option text) (src : text),
  Compile.compile hl hd hs autovars switches ee fc cli_font cli_maxlen optimize mpath src <> Compile.OutPanic /\
  Compile.compile hl hd hs autovars switches ee fc cli_font cli_maxlen optimize mpath src <> Compile.OutFuel.
Proof. exact EmitTotal.compile_never_panics_nor_parser_fuel. Qed.
Print Assumptions compile_never_panics_nor_parser_fuel.

Theorem compile_total :
  forall (hl hd hs : N -> bool) (autovars : list (text * autovar)) (switches : list (text * text)) (ee : bool) (fc : fontcfg) 
    (cli_font : text) (cli_maxlen : Z) (optimize : bool) (mpath : option text) (src : text),
  (forall p : program,
   parse_program autovars switches ee (parse_format fc cli_font cli_maxlen ee) (lex hl hd hs src) = Parser.Ok p -> bodies_fit p) ->
  (exists out : text, Compile.compile hl hd hs autovars switches ee fc cli_font cli_maxlen optimize mpath src = Compile.OutText out) \/
  (exists e : perr, Compile.compile hl hd hs autovars switches ee fc cli_font cli_maxlen optimize mpath src = Compile.OutErr e).
Proof. exact EmitTotal.compile_total. Qed.
Print Assumptions compile_total.

Theorem compile_emit_error_only_oversize :
  forall (hl hd hs : N -> bool) (autovars : list (text * autovar)) (switches : list (text * text)) (ee : bool) (fc : fontcfg) 
    (cli_font : text) (cli_maxlen : Z) (optimize : bool) (mpath : option text) (src : text),
  Compile.compile hl hd hs autovars switches ee fc cli_font cli_maxlen optimize mpath src = Compile.OutEmitErr ->
  exists (p : program) (b : list stmt),
    parse_program autovars switches ee (parse_format fc cli_font cli_maxlen ee) (lex hl hd hs src) = Parser.Ok p /\
    In b (ProgWf.bodies_of (tops p)) /\ (work_fuel <= mu_body b)%nat.
Proof. exact EmitTotal.compile_emit_error_only_oversize. Qed.
Print Assumptions compile_emit_error_only_oversize.

Theorem accepted_bodies_fit_tokens :
  forall (hl hd hs : N -> bool) (autovars : list (text * autovar)) (switches : list (text * text)) (ee : bool) (fc : fontcfg) 
    (cli_font : text) (cli_maxlen : Z) (src : text) (p : program),
  parse_program autovars switches ee (parse_format fc cli_font cli_maxlen ee) (lex hl hd hs src) = Parser.Ok p ->
  Forall (fun b : list stmt => (mu_body b <= len (lex hl hd hs src))%nat) (ProgWf.bodies_of (tops p)).
Proof. exact EmitTotal.accepted_bodies_fit_tokens. Qed.
Print Assumptions accepted_bodies_fit_tokens.

Theorem compile_total_tokens :
  forall (hl hd hs : N -> bool) (autovars : list (text * autovar)) (switches : list (text * text)) (ee : bool) (fc : fontcfg) 
    (cli_font : text) (cli_maxlen : Z) (optimize : bool) (mpath : option text) (src : text),
  (len (lex hl hd hs src) < work_fuel)%nat ->
  (exists out : text, Compile.compile hl hd hs autovars switches ee fc cli_font cli_maxlen optimize mpath src = Compile.OutText out) \/
  (exists e : perr, Compile.compile hl hd hs autovars switches ee fc cli_font cli_maxlen optimize mpath src = Compile.OutErr e).
Proof. exact EmitTotal.compile_total_tokens. Qed.
Print Assumptions compile_total_tokens.

Theorem compile_emit_error_needs_many_tokens :
  forall (hl hd hs : N -> bool) (autovars : list (text * autovar)) (switches : list (text * text)) (ee : bool) (fc : fontcfg) 
    (cli_font : text) (cli_maxlen : Z) (optimize : bool) (mpath : option text) (src : text),
  Compile.compile hl hd hs autovars switches ee fc cli_font cli_maxlen optimize mpath src = Compile.OutEmitErr ->
  (work_fuel <= len (lex hl hd hs src))%nat.
Proof. exact EmitTotal.compile_emit_error_needs_many_tokens. Qed.
Print Assumptions compile_emit_error_needs_many_tokens.

