(* C18 - Every input is answered promptly with output or a located error, never a crash.
   PARTIAL by nature (DESIGN.md): promptness and memory are properties of the Go runtime. Proved here, for the model:
   - never a crash: the parser model marks every place where the Go code could index out of range or dereference nil with
     an explicit Panic result; no token list, command configuration, switch set, font configuration or mode makes
     parse_program return Panic (parser_never_panics: all 40 parsing functions, by one induction on the fuel each);
   - the lexer terminates: every token that is not the final EOF consumes a character (lexer_makes_progress), so the token
     stream is produced with the fuel the model gives it (fuel independence: LexLayout.lex_all_enough);
   - located errors: the positions the lexer hands to the parser - the only source of line numbers in errors - always lie
     inside the input.
   Not proved: that the parser's fuel (one more than the number of tokens) always suffices - termination of the parser
   proper - which the run-time checks decide (HANG watchdog, nesting depth 2000). *)
From Coq Require Import List ZArith Bool.
From Pory Require Import Lexer LexInv LexLayout Ast Parser Format NoPanic.
Import ListNotations.
Local Open Scope Z_scope.

Theorem token_lines_inside_input_partial :
  forall is_letter_hi is_digit_hi is_space_hi (s : text),
    Forall (fun tk => 1 <= tline tk <= 1 + nl s /\ 1 <= teline tk <= 1 + nl s) (lex is_letter_hi is_digit_hi is_space_hi s).
Proof. exact lex_lines_in_range. Qed.
Print Assumptions token_lines_inside_input_partial.


Theorem parser_never_panics :
  forall autovars switches env_errors fc cli_font cli_maxlen ts,
    parse_program autovars switches env_errors (parse_format fc cli_font cli_maxlen env_errors) ts <> Panic.
Proof. exact NoPanic.parser_never_panics. Qed.
Print Assumptions parser_never_panics.

Theorem lexer_makes_progress :
  forall is_letter_hi is_digit_hi is_space_hi l ts l', next_token_aux is_letter_hi is_digit_hi is_space_hi l = (ts, l', false) ->
    (List.length (chs l') < List.length (chs l))%nat.
Proof. exact next_token_progress. Qed.
Print Assumptions lexer_makes_progress.
