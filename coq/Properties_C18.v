(* C18 - Every input is answered promptly with output or a located error, never a crash.
   PARTIAL by nature (DESIGN.md): promptness and memory are properties of the Go runtime. Proved here, for the model:
   - never a crash: the parser model marks every place where the Go code could index out of range or dereference nil with
     an explicit Panic result; no token list, command configuration, switch set, font configuration or mode makes
     parse_program return Panic (parser_never_panics: all 40 parsing functions, by one induction on the fuel each);
   - the lexer terminates: every token that is not the final EOF consumes a character (lexer_makes_progress), so the token
     stream is produced with the fuel the model gives it (fuel independence: LexLayout.lex_all_enough);
   - located errors: the positions the lexer hands to the parser - the only source of line numbers in errors - always lie
     inside the input.
   Not proved: that the parser's fuel (one more than the number of tokens) always suffices - termination of the parser
   proper - which the run-time checks decide (HANG watchdog, nesting depth 2000). *)
From Coq Require Import List ZArith Bool.
From Pory Require Import Lexer LexInv LexLayout Ast Parser Format NoPanic.
Import ListNotations.
Local Open Scope Z_scope.

Theorem token_lines_inside_input_partial :
  forall is_letter_hi is_digit_hi is_space_hi (s : text),
    Forall (fun tk => 1 <= tline tk <= 1 + nl s /\ 1 <= teline tk <= 1 + nl s) (lex is_letter_hi is_digit_hi is_space_hi s).
Proof. exact lex_lines_in_range. Qed.
Print Assumptions token_lines_inside_input_partial.


Theorem parser_never_panics :
  forall autovars switches env_errors fc cli_font cli_maxlen ts,
    parse_program autovars switches env_errors (parse_format fc cli_font cli_maxlen env_errors) ts <> Panic.
Proof. exact NoPanic.parser_never_panics. Qed.
Print Assumptions parser_never_panics.

Theorem lexer_makes_progress :
  forall is_letter_hi is_digit_hi is_space_hi l ts l', next_token_aux is_letter_hi is_digit_hi is_space_hi l = (ts, l', false) ->
    (List.length (chs l') < List.length (chs l))%nat.
Proof. exact next_token_progress. Qed.
Print Assumptions lexer_makes_progress.

(* ---------- termination of the parser model ---------- *)
From Pory Require Import Format FuelOk.
(* for every source text and configuration the parser answers with a program or an error, never with exhausted fuel: the
   fuel it starts with, 5 * (number of tokens) + 4, pays for every recursive call (every call either consumes a token or
   descends one of at most five levels between two consumed tokens) *)
Theorem parser_never_out_of_fuel :
  forall hl hd hs autovars switches ee fc cli_font cli_maxlen (src : text),
    parse_program autovars switches ee (parse_format fc cli_font cli_maxlen ee) (lex hl hd hs src) <> Fuel.
Proof. exact FuelOk.parser_never_out_of_fuel. Qed.
Print Assumptions parser_never_out_of_fuel.

(* above that bound the answer does not depend on the fuel at all: the fuel is a proof device, not part of the behaviour *)
Theorem parser_answer_fuel_independent :
  forall hl hd hs autovars switches ee fc cli_font cli_maxlen (src : text) (fuel1 fuel2 : nat) (st : pstate),
    (5 * List.length (lex hl hd hs src) + 4 <= fuel1)%nat -> (5 * List.length (lex hl hd hs src) + 4 <= fuel2)%nat ->
    parse_tops autovars switches ee (parse_format fc cli_font cli_maxlen ee) fuel1 st (lex hl hd hs src) =
    parse_tops autovars switches ee (parse_format fc cli_font cli_maxlen ee) fuel2 st (lex hl hd hs src).
Proof. exact FuelOk.parser_answer_fuel_independent. Qed.
Print Assumptions parser_answer_fuel_independent.

Theorem format_operator_never_out_of_fuel :
  forall fc cli_font cli_maxlen ee (ts : toks),
    Consume.eof_ended ts -> parse_format fc cli_font cli_maxlen ee ts <> Fuel.
Proof. exact FuelOk.parse_format_never_out_of_fuel. Qed.
Print Assumptions format_operator_never_out_of_fuel.

(* ---- 'a returned error carries a line range inside the input with start not after end' (ErrRange.v).
   parse_error_located: every error parse_program returns, on every token stream, is built from two tokens of the stream, the
   first at an index not after the second (located_in); parsing_functions_errors_located: the same for every parsing function
   on every suffix of a stream; compile_error_located: every located error Compile.compile returns - parser errors, the two
   name checks, the emitter's label clash - is located in lex src; lex_lines_monotone / lex_tokens_ordered: lines grow along
   the token stream; hence parse_error_lines_in_range / compile_error_lines_in_range: 1 <= start line <= end line <= number of
   lines of the source. accepted_tokens_stand_in_stream: every token kept in an accepted program stands in the stream. ---- *)
From Pory Require Import ErrRange. Open Scope list_scope. Open Scope Z_scope.
Theorem lex_lines_monotone :
  forall (is_letter_hi is_digit_hi is_space_hi : N -> bool) (s : text) (i j : nat) (a b : token),
  nth_error (lex is_letter_hi is_digit_hi is_space_hi s) i = Some a ->
  nth_error (lex is_letter_hi is_digit_hi is_space_hi s) j = Some b -> (i <= j)%nat -> tline a <= teline b.
Proof. exact ErrRange.lex_lines_monotone. Qed.
Print Assumptions lex_lines_monotone.

Theorem lex_tokens_ordered :
  forall (is_letter_hi is_digit_hi is_space_hi : N -> bool) (s : text) (i j : nat) (a b : token),
  nth_error (lex is_letter_hi is_digit_hi is_space_hi s) i = Some a ->
  nth_error (lex is_letter_hi is_digit_hi is_space_hi s) j = Some b -> (i < j)%nat -> teline a <= tline b.
Proof. exact ErrRange.lex_tokens_ordered. Qed.
Print Assumptions lex_tokens_ordered.

Theorem parse_error_located :
  forall (autovars : list (text * autovar)) (switches : list (text * text)) (ee : bool) (fc : fontcfg) (cli_font : text) 
    (cli_maxlen : Z) (ts : toks) (e : perr),
  parse_program autovars switches ee (parse_format fc cli_font cli_maxlen ee) ts = Err e -> located_in ts e.
Proof. exact ErrRange.parse_error_located. Qed.
Print Assumptions parse_error_located.

Theorem parsing_functions_errors_located :
  forall (autovars : list (text * autovar)) (switches : list (text * text)) (ee : bool) (fc : fontcfg) (cli_font : text) 
    (cli_maxlen : Z) (full pre ts : list token),
  full = pre ++ ts ->
  ts <> [] ->
  (forall (consts : list (text * text)) (f : nat) (script : text) (bs cs : list nat) (e : perr),
   parse_stmt autovars switches ee (parse_format fc cli_font cli_maxlen ee) consts f script bs cs ts = Err e -> located_in full e) /\
  (forall (consts : list (text * text)) (f : nat) (single negated : bool) (script : text) (e : perr),
   bool_expr autovars switches ee (parse_format fc cli_font cli_maxlen ee) consts f single negated script ts = Err e -> located_in full e) /\
  (forall (consts : list (text * text)) (f : nat) (script : text) (e : perr),
   command_stmt switches ee (parse_format fc cli_font cli_maxlen ee) consts f script ts = Err e -> located_in full e) /\
  (forall (consts : list (text * text)) (f : nat) (e : perr),
   parse_script autovars switches ee (parse_format fc cli_font cli_maxlen ee) consts f ts = Err e -> located_in full e) /\
  (forall (f : nat) (e : perr), parse_text switches ee (parse_format fc cli_font cli_maxlen ee) f ts = Err e -> located_in full e) /\
  (forall (f : nat) (e : perr), parse_movement switches ee f ts = Err e -> located_in full e) /\
  (forall (consts : list (text * text)) (f : nat) (e : perr), parse_mart switches ee consts f ts = Err e -> located_in full e) /\
  (forall (consts : list (text * text)) (f : nat) (e : perr),
   parse_mapscripts autovars switches ee (parse_format fc cli_font cli_maxlen ee) consts f ts = Err e -> located_in full e) /\
  (forall e : perr, parse_raw ts = Err e -> located_in full e) /\
  (forall (f : nat) (consts : list (text * text)) (e : perr), parse_const f consts ts = Err e -> located_in full e) /\
  (forall e : perr, parse_format fc cli_font cli_maxlen ee ts = Err e -> located_in full e).
Proof. exact ErrRange.parsing_functions_errors_located. Qed.
Print Assumptions parsing_functions_errors_located.

Theorem accepted_tokens_stand_in_stream :
  forall (autovars : list (text * autovar)) (switches : list (text * text)) (ee : bool) (fc : fontcfg) (cli_font : text) 
    (cli_maxlen : Z) (ts : toks) (p : program),
  parse_program autovars switches ee (parse_format fc cli_font cli_maxlen ee) ts = Ok p ->
  (forall x : textdef, In x (texts p) -> stands_in ts (xtok x)) /\
  (forall (n : text) (g : bool) (tk : token) (steps : list token), In (TMovement n g tk steps) (tops p) -> stands_in ts tk) /\
  (forall (body : list stmt) (n : text) (tk : token), In body (ProgWf.bodies_of (tops p)) -> In (n, tk) (NameClash.dlts body) -> stands_in ts tk).
Proof. exact ErrRange.accepted_tokens_stand_in_stream. Qed.
Print Assumptions accepted_tokens_stand_in_stream.

Theorem parse_error_lines_in_range :
  forall (autovars : list (text * autovar)) (switches : list (text * text)) (ee : bool) (fc : fontcfg) (cli_font : text) 
    (cli_maxlen : Z) (hl hd hs : N -> bool) (src : text) (e : perr),
  parse_program autovars switches ee (parse_format fc cli_font cli_maxlen ee) (lex hl hd hs src) = Err e ->
  1 <= els e /\ els e <= ele e <= 1 + nl src.
Proof. exact ErrRange.parse_error_lines_in_range. Qed.
Print Assumptions parse_error_lines_in_range.

Theorem compile_error_located :
  forall (autovars : list (text * autovar)) (switches : list (text * text)) (ee : bool) (fc : fontcfg) (cli_font : text) 
    (cli_maxlen : Z) (hl hd hs : N -> bool) (optimize : bool) (mpath : option text) (src : text) (e : perr),
  Compile.compile hl hd hs autovars switches ee fc cli_font cli_maxlen optimize mpath src = Compile.OutErr e -> located_in (lex hl hd hs src) e.
Proof. exact ErrRange.compile_error_located. Qed.
Print Assumptions compile_error_located.

Theorem compile_error_lines_in_range :
  forall (autovars : list (text * autovar)) (switches : list (text * text)) (ee : bool) (fc : fontcfg) (cli_font : text) 
    (cli_maxlen : Z) (hl hd hs : N -> bool) (optimize : bool) (mpath : option text) (src : text) (e : perr),
  Compile.compile hl hd hs autovars switches ee fc cli_font cli_maxlen optimize mpath src = Compile.OutErr e ->
  1 <= els e /\ els e <= ele e <= 1 + nl src.
Proof. exact ErrRange.compile_error_lines_in_range. Qed.
Print Assumptions compile_error_lines_in_range.

Theorem accepted_token_lines_in_range :
  forall (autovars : list (text * autovar)) (switches : list (text * text)) (ee : bool) (fc : fontcfg) (cli_font : text) 
    (cli_maxlen : Z) (hl hd hs : N -> bool) (src : text) (p : program),
  parse_program autovars switches ee (parse_format fc cli_font cli_maxlen ee) (lex hl hd hs src) = Ok p ->
  (forall x : textdef, In x (texts p) -> 1 <= tline (xtok x) /\ tline (xtok x) <= teline (xtok x) <= 1 + nl src) /\
  (forall (n : text) (g : bool) (tk : token) (steps : list token),
   In (TMovement n g tk steps) (tops p) -> 1 <= tline tk /\ tline tk <= teline tk <= 1 + nl src) /\
  (forall (body : list stmt) (n : text) (tk : token),
   In body (ProgWf.bodies_of (tops p)) -> In (n, tk) (NameClash.dlts body) -> 1 <= tline tk /\ tline tk <= teline tk <= 1 + nl src).
Proof. exact ErrRange.accepted_token_lines_in_range. Qed.
Print Assumptions accepted_token_lines_in_range.

