(* C18 - Every input is answered promptly with output or a located error, never a crash.
   PARTIAL by nature (DESIGN.md): promptness and memory are properties of the Go runtime. Proved here, for the model:
   - never a crash: the parser model marks every place where the Go code could index out of range or dereference nil with
     an explicit Panic result; no token list, command configuration, switch set, font configuration or mode makes
     parse_program return Panic (parser_never_panics: all 40 parsing functions, by one induction on the fuel each);
   - the lexer terminates: every token that is not the final EOF consumes a character (lexer_makes_progress), so the token
     stream is produced with the fuel the model gives it (fuel independence: LexLayout.lex_all_enough);
   - located errors: the positions the lexer hands to the parser - the only source of line numbers in errors - always lie
     inside the input.
   Not proved: that the parser's fuel (one more than the number of tokens) always suffices - termination of the parser
   proper - which the run-time checks decide (HANG watchdog, nesting depth 2000). *)
From Coq Require Import List ZArith Bool.
From Pory Require Import Lexer LexInv LexLayout Ast Parser Format NoPanic.
Import ListNotations.
Local Open Scope Z_scope.

Theorem token_lines_inside_input_partial :
  forall is_letter_hi is_digit_hi is_space_hi (s : text),
    Forall (fun tk => 1 <= tline tk <= 1 + nl s /\ 1 <= teline tk <= 1 + nl s) (lex is_letter_hi is_digit_hi is_space_hi s).
Proof. exact lex_lines_in_range. Qed.
Print Assumptions token_lines_inside_input_partial.


Theorem parser_never_panics :
  forall autovars switches env_errors fc cli_font cli_maxlen ts,
    parse_program autovars switches env_errors (parse_format fc cli_font cli_maxlen env_errors) ts <> Panic.
Proof. exact NoPanic.parser_never_panics. Qed.
Print Assumptions parser_never_panics.

Theorem lexer_makes_progress :
  forall is_letter_hi is_digit_hi is_space_hi l ts l', next_token_aux is_letter_hi is_digit_hi is_space_hi l = (ts, l', false) ->
    (List.length (chs l') < List.length (chs l))%nat.
Proof. exact next_token_progress. Qed.
Print Assumptions lexer_makes_progress.

(* ---------- termination of the parser model ---------- *)
From Pory Require Import Format FuelOk.
(* for every source text and configuration the parser answers with a program or an error, never with exhausted fuel: the
   fuel it starts with, 5 * (number of tokens) + 4, pays for every recursive call (every call either consumes a token or
   descends one of at most five levels between two consumed tokens) *)
Theorem parser_never_out_of_fuel :
  forall hl hd hs autovars switches ee fc cli_font cli_maxlen (src : text),
    parse_program autovars switches ee (parse_format fc cli_font cli_maxlen ee) (lex hl hd hs src) <> Fuel.
Proof. exact FuelOk.parser_never_out_of_fuel. Qed.
Print Assumptions parser_never_out_of_fuel.

(* above that bound the answer does not depend on the fuel at all: the fuel is a proof device, not part of the behaviour *)
Theorem parser_answer_fuel_independent :
  forall hl hd hs autovars switches ee fc cli_font cli_maxlen (src : text) (fuel1 fuel2 : nat) (st : pstate),
    (5 * List.length (lex hl hd hs src) + 4 <= fuel1)%nat -> (5 * List.length (lex hl hd hs src) + 4 <= fuel2)%nat ->
    parse_tops autovars switches ee (parse_format fc cli_font cli_maxlen ee) fuel1 st (lex hl hd hs src) =
    parse_tops autovars switches ee (parse_format fc cli_font cli_maxlen ee) fuel2 st (lex hl hd hs src).
Proof. exact FuelOk.parser_answer_fuel_independent. Qed.
Print Assumptions parser_answer_fuel_independent.

Theorem format_operator_never_out_of_fuel :
  forall fc cli_font cli_maxlen ee (ts : toks),
    Consume.eof_ended ts -> parse_format fc cli_font cli_maxlen ee ts <> Fuel.
Proof. exact FuelOk.parse_format_never_out_of_fuel. Qed.
Print Assumptions format_operator_never_out_of_fuel.
