(* C18 - Every input is answered promptly with output or a located error, never a crash.
   PARTIAL by nature (DESIGN.md): promptness and memory are properties of the Go runtime. Proved here: positions the
   lexer hands to the parser - the only source of line numbers in errors - always lie inside the input. *)
From Coq Require Import List ZArith Bool.
From Pory Require Import Lexer LexInv.
Import ListNotations.
Local Open Scope Z_scope.

Theorem token_lines_inside_input_partial :
  forall is_letter_hi is_digit_hi is_space_hi (s : text),
    Forall (fun tk => 1 <= tline tk <= 1 + nl s /\ 1 <= teline tk <= 1 + nl s) (lex is_letter_hi is_digit_hi is_space_hi s).
Proof. exact lex_lines_in_range. Qed.
Print Assumptions token_lines_inside_input_partial.
