(* C16, "which instructions get a marker": the converse of MarkerLines.marker_names_following_construct.

   All theorems are about the model's own functions (emit_script, emit_program_instrs, Compile.compile) with a path given
   (mp = Some path), for every program, both chunk orders (optimize on / off) and every path.

   PART 1  The grammar of the -lm output (sited K HL): a word is a sequence of
             - invented instructions: goto, the jump half of a test, return, end, blank, one of the five fixed lines
               (step_end, .2byte ITEM_NONE, .align 2, .byte 0, .2byte 0), a header label (HL: script name, generated
               sub-label name_i, text name, mapscripts name, table name);
             - marker + the instruction of a construct of K whose line the marker carries;
             - marker + the first data line of a text + its further data lines (one marker per text);
             - the AutoVar command of a condition + marker + the test of that condition (the command comes BEFORE the marker).
           emit_script_sited, emit_program_sited: the output of every script / program is such a word.
   PART 2  The rule position by position (main theorems):
             marker_rule / script_marker_rule   an instruction that is not a marker either follows a marker - then it renders a
                                                construct of the program and the marker carries its line - or does not - then
                                                it is invented, or a further line of a text, or the AutoVar command of the
                                                condition whose marker and test follow
             tests_switches_cases_are_marked    compare / goto_if_set / goto_if_unset / checktrainerflag / switch / case: always
             generated_kinds_are_unmarked       goto, goto_if_xx, goto_if 1/0, return, end, blank, marker: never
             lines_are_marked                   every verbatim line except the five fixed lines (raw lines, steps, items, ...)
             commands_are_marked                every command line, except the AutoVar command of a condition
             labels_are_marked                  every label line that is not a header label (label statements, movements, marts)
             data_lines_marked_once             the first line of every text, and only the first
   PART 3  The markers in order: program_markers / script_markers (markers_of is = program_lines opt prog: per top-level
           statement; scripts: chunk by chunk in emission order), marker_count (the -lm output is longer than the -lm=false
           output by exactly that number).
   PART 3b The markers of a script and of a program FROM THE SOURCE (conservation through the chunk worklist):
             graph_sites_from_source        what the final chunks announce = block_sites body, up to order
             script_markers_from_source     Permutation (markers_of is) (map kline (block_sites body))
             program_markers_from_source    Permutation (markers_of is) (program_src_lines prog)    (+ ..._count_from_source)
           block_sites: every command and label statement except an end / return that closes its block, every leaf of
           every condition, of a switch the operand and the case table the emitter builds (nothing if the switch is elided;
           trailing empty cases without a default are dropped) - each exactly as often as written, for both chunk orders.
           Hypothesis: Worklist.src_ok of the bodies (true of every accepted program: ProgSrc.accepted_bodies_are_src_ok).
   PART 4  compile_marker_rule, compile_markers_from_source: the same on Compile.compile, no hypothesis left.
           SiteExamples: concrete sources (ex_program, ex_rule_applies, ex_script_from_source, ex_program_from_source,
           ex_not_announced) and
             no_instruction_predicate_decides_markers   THE STATEMENT 'a predicate wants_marker : instr -> bool such that an
                                                        instruction is preceded by a marker iff it satisfies it' IS FALSE:
                                                        the same line "step_end" is announced when the author wrote it and
                                                        not when the compiler added it.  The rule must speak of positions.
   Not proved: that the tokens recorded in distinct constructs of a parsed program are distinct (so the rule is stated on
   positions and contents, not on 'provenance' of an instruction); a closed form of the switch case table (switch_head is
   defined with the emitter's own sw_loop; sw_suf_indep shows it does not depend on chunk numbers). *)
From Coq Require Import List String Ascii ZArith NArith Lia Bool Permutation.
From Pory Require Import Lexer Ast Emitter Props16 ProgProps16 MarkerLines.
From Pory Require LabelSim Worklist WorkLabels WorkShape OrderPerm NameClash ProgWf ProgSrc.
Import ListNotations.
Open Scope list_scope.

(* ====================================================================================================================== *)
(* PART 1: the grammar of the -lm output                                                                                  *)
(* ====================================================================================================================== *)

(* the five lines the compiler writes on its own: the terminators of a movement, a mart, a mapscripts header and a map
   script table, and the alignment directive of a mart *)
Definition fixed_lines : list text :=
  [tab ++ t "step_end"; tab ++ t ".2byte ITEM_NONE"; tab ++ t ".align 2"; tab ++ t ".byte 0"; tab ++ t ".2byte 0"].

Section SITED.
Variable K : list construct.           (* the constructs of the program / script *)
Variable HL : text -> bool -> Prop.    (* its header labels: what names a script, a generated sub-label, a text, a mapscripts block, a table *)

(* an instruction the compiler writes without a marker, whatever stands around it *)
Definition invented (i : instr) : Prop :=
  match i with
  | IGoto _ | IGotoIfCmp _ _ | IGotoIf _ _ | IReturn | IEnd | IBlank => True
  | ILine s => In s fixed_lines
  | ILabel n g => HL n g
  | _ => False
  end.

Definition data_of (d : text) (i : instr) : Prop := exists c, i = IData d c.

(* the grammar of the -lm output:
     out ::= (nothing)
           | invented-instruction out
           | marker construct-instruction out                       the marker carries the line of the construct
           | marker data-line data-line* out                        a text: one marker for all its lines
           | AutoVar-command marker condition-test out              the command inside a condition comes BEFORE the marker *)
Inductive sited : list instr -> Prop :=
| si_nil : sited []
| si_plain i r : invented i -> sited r -> sited (i :: r)
| si_mark l i r k : In k K -> kline k = l -> shows k i -> sited r -> sited (IMarker l :: i :: r)
| si_text l d c cont r k : In k K -> kline k = l -> shows k (IData d c) -> Forall (data_of d) cont -> sited r ->
    sited (IMarker l :: IData d c :: cont ++ r)
| si_auto c l j r : In (KCond l) K -> lpre l = Some c -> shows (KCond l) j -> sited r ->
    sited (ICmd c :: IMarker (lline l) :: j :: r).

Lemma sited_app a b : sited a -> sited b -> sited (a ++ b).
Proof.
  induction 1 as [|i r N _ IH|l i r k I0 L S _ IH|l d c cont r k I0 L S F _ IH|c l j r I0 P S _ IH]; intros B; cbn [app].
  - exact B.
  - apply si_plain; auto.
  - eapply si_mark; eauto.
  - rewrite <- app_assoc. eapply si_text; eauto.
  - eapply si_auto; eauto.
Qed.
Lemma sited_plain a : Forall invented a -> sited a.
Proof. induction 1 as [|i r N _ IH]; constructor; assumption. Qed.
Lemma sited_one (p : text) k i : In k K -> shows k i -> sited (marker (Some p) (kline k) ++ [i]).
Proof. intros I0 S. cbn [marker app]. eapply si_mark; [exact I0|reflexivity|exact S|constructor]. Qed.
Lemma sited_flat_map {A} (f : A -> list instr) l : (forall x, In x l -> sited (f x)) -> sited (flat_map f l).
Proof.
  induction l as [|x r IH]; intros HF; [constructor|]. cbn [flat_map]. apply sited_app; [apply HF; left; reflexivity|].
  apply IH. intros y Hy. apply HF. right; exact Hy.
Qed.

Lemma invented_notmarker i : invented i -> notmarker i = true.
Proof. destruct i; cbn; intros X; try reflexivity; contradiction. Qed.

(* ---------- reading the grammar at one position ---------- *)
(* the AutoVar form: the command c is the command of the condition whose marker and test follow it *)
Definition autovar_of (i : instr) (post : list instr) : Prop :=
  exists c l j post', i = ICmd c /\ post = IMarker (lline l) :: j :: post' /\ In (KCond l) K /\ lpre l = Some c /\ shows (KCond l) j.
(* a continuation line of a text: the line before it is a data line with the same directive *)
Definition continues (p i : instr) : Prop := exists d c c', i = IData d c /\ p = IData d c'.

(* the first instruction of the output *)
Lemma sited_head i post : sited (i :: post) -> notmarker i = true -> invented i \/ autovar_of i post.
Proof.
  intros S N. inversion S as [|i0 r IN _|l i0 r k I0 L SH _|l d c cont r k I0 L SH F _|c l j r I0 P SH _]; subst; try discriminate N.
  - left; exact IN.
  - right. exists c, l, j, r. auto.
Qed.

Lemma cont_window d cont r :
  Forall (data_of d) cont -> sited r ->
  (forall pre p i post, r = pre ++ p :: i :: post -> notmarker p = true -> notmarker i = true -> invented i \/ continues p i \/ autovar_of i post) ->
  forall c0 pre p i post, IData d c0 :: cont ++ r = pre ++ p :: i :: post -> notmarker p = true -> notmarker i = true ->
  invented i \/ continues p i \/ autovar_of i post.
Proof.
  intros F SR IH. induction F as [|x cont [cx ->] F IHc]; intros c0 pre p i post E Np Ni.
  - cbn [app] in E. destruct pre as [|y pre]; cbn [app] in E.
    + injection E as <- E. destruct (sited_head i post) as [X|X]; [rewrite <- E; exact SR|exact Ni|left; exact X|right; right; exact X].
    + injection E as _ E. destruct (IH _ _ _ _ E Np Ni) as [X|[X|X]]; auto.
  - destruct pre as [|y pre]; cbn [app] in E.
    + injection E as <- <- _. right; left. exists d, cx, c0. split; reflexivity.
    + injection E as _ E. exact (IHc cx pre p i post E Np Ni).
Qed.

(* an instruction that does not follow a marker: it is invented, or the next line of a text, or the AutoVar command of
   the condition that follows *)
Lemma sited_window is : sited is -> forall pre p i post, is = pre ++ p :: i :: post -> notmarker p = true -> notmarker i = true ->
  invented i \/ continues p i \/ autovar_of i post.
Proof.
  induction 1 as [|i0 r IN SR IH|l i0 r k I0 L SH SR IH|l d c cont r k I0 L SH F SR IH|c l j r I0 P SH SR IH]; intros pre p i post E Np Ni.
  - destruct pre; discriminate.
  - destruct pre as [|y pre]; cbn [app] in E.
    + injection E as <- E. destruct (sited_head i post) as [X|X]; [rewrite <- E; exact SR|exact Ni|left; exact X|right; right; exact X].
    + injection E as _ E. eapply IH; eassumption.
  - destruct pre as [|y pre]; cbn [app] in E.
    + injection E as <- _. discriminate Np.
    + injection E as _ E. destruct pre as [|z pre]; cbn [app] in E.
      * injection E as <- E. destruct (sited_head i post) as [X|X]; [rewrite <- E; exact SR|exact Ni|left; exact X|right; right; exact X].
      * injection E as _ E. eapply IH; eassumption.
  - destruct pre as [|y pre]; cbn [app] in E.
    + injection E as <- _. discriminate Np.
    + injection E as _ E. eapply (cont_window d cont r F SR IH); eassumption.
  - destruct pre as [|y pre]; cbn [app] in E.
    + injection E as _ <- _. discriminate Ni.
    + injection E as _ E. destruct pre as [|z pre]; cbn [app] in E.
      * injection E as <- _. discriminate Np.
      * injection E as _ E. destruct pre as [|z2 pre]; cbn [app] in E.
        -- injection E as <- E. destruct (sited_head i post) as [X|X]; [rewrite <- E; exact SR|exact Ni|left; exact X|right; right; exact X].
        -- injection E as _ E. eapply IH; eassumption.
Qed.

(* a marker is followed by the instruction of a construct with that line *)
Lemma sited_marker is : sited is -> forall pre l post, is = pre ++ IMarker l :: post ->
  exists k i post', post = i :: post' /\ In k K /\ kline k = l /\ shows k i.
Proof.
  induction 1 as [|i0 r IN SR IH|l0 i0 r k I0 L SH SR IH|l0 d c cont r k I0 L SH F SR IH|c l0 j r I0 P SH SR IH]; intros pre l post E.
  - destruct pre; discriminate.
  - destruct pre as [|y pre]; cbn [app] in E.
    + injection E as -> _. contradiction.
    + injection E as _ E. eapply IH; exact E.
  - destruct pre as [|y pre]; cbn [app] in E.
    + injection E as <- <-. exists k, i0, r. auto.
    + injection E as _ E. destruct pre as [|z pre]; cbn [app] in E.
      * injection E as -> _. apply shows_notmarker in SH. discriminate SH.
      * injection E as _ E. eapply IH; exact E.
  - destruct pre as [|y pre]; cbn [app] in E.
    + injection E as <- <-. exists k, (IData d c), (cont ++ r). auto.
    + injection E as _ E. destruct pre as [|z pre]; cbn [app] in E; [discriminate|]. injection E as _ E.
      clear SH. revert pre E. induction F as [|x cont [cx ->] F IHc]; intros pre E; cbn [app] in E.
      * eapply IH; exact E.
      * destruct pre as [|z2 pre]; cbn [app] in E; [discriminate|]. injection E as _ E. eapply IHc; exact E.
  - destruct pre as [|y pre]; cbn [app] in E; [discriminate|]. injection E as _ E. destruct pre as [|z pre]; cbn [app] in E.
    + injection E as <- <-. exists (KCond l0), j, r. auto.
    + injection E as _ E. destruct pre as [|z2 pre]; cbn [app] in E.
      * injection E as -> _. apply shows_notmarker in SH. discriminate SH.
      * injection E as _ E. eapply IH; exact E.
Qed.
End SITED.

Lemma sited_incl (K K' : list construct) (H H' : text -> bool -> Prop) a :
  incl K K' -> (forall n g, H n g -> H' n g) -> sited K H a -> sited K' H' a.
Proof.
  intros IK IH. induction 1 as [|i r N _ IHr|l i r k I0 L S _ IHr|l d c cont r k I0 L S F _ IHr|c l j r I0 P S _ IHr].
  - constructor.
  - apply si_plain; [|exact IHr]. destruct i; cbn in *; auto.
  - eapply si_mark; eauto.
  - eapply si_text; eauto.
  - eapply si_auto; eauto.
Qed.

(* ---------- a script ---------- *)
(* the labels a script defines on its own: its name, with its scope, and local sub-labels name_i *)
Definition script_label (name : text) (glob : bool) (n : text) (g : bool) : Prop :=
  (n = name /\ g = glob) \/ (exists d, n = lbl name d /\ g = false).

Section RENDERS.
Variable K : list construct.
Variable HL : text -> bool -> Prop.
Variable p : text.
Variable tl : list text.
Notation ON := (Some p).

Lemma render_stmt_sited s : incl (stmt_constructs s) K -> sited K HL (render_stmt ON s).
Proof.
  intros HI. destruct s as [c|n g tk|conds els|tag c body|tag body c|tag|tag|tag op ol cases]; cbn [render_stmt]; try apply si_nil.
  - apply (sited_one K HL p (KCommand c)); [apply HI; left; reflexivity|reflexivity].
  - apply (sited_one K HL p (KLabel n g tk)); [apply HI; left; reflexivity|reflexivity].
Qed.

Lemma goto_or_fall_invented name d next b : Forall (invented HL) (fst (fst (goto_or_fall name d next b))).
Proof.
  unfold goto_or_fall. destruct (b && (d =? -1)%Z); [repeat constructor|]. destruct (d =? next)%Z; repeat constructor.
Qed.

Lemma leaf_cmp_shape name l d : exists i r, render_leaf_cmp name l d = i :: r /\ shows (KCond l) i /\ Forall (invented HL) r.
Proof.
  unfold render_leaf_cmp. cbn [shows]. destruct (lk l).
  - eexists _, []. split; [reflexivity|]. split; [|constructor]. exists (lbl name d). destruct (flag_truthy l); [left|right]; reflexivity.
  - eexists _, [_]. split; [reflexivity|]. split; [reflexivity|repeat constructor].
  - eexists _, [_]. split; [reflexivity|]. split; [reflexivity|repeat constructor].
Qed.

Ltac sit := first [assumption | apply sited_app; [assumption|sit] | repeat constructor].
Lemma render_branch_sited name c next : br_in K (cbr c) -> sited K HL (fst (fst (render_branch ON name c next))).
Proof.
  intros B. unfold render_branch. destruct (cbr c) as [[d|d|l tr fa|op ol cases def dest]|]; cbn [br_in] in B.
  - apply sited_plain, goto_or_fall_invented.
  - apply sited_plain, goto_or_fall_invented.
  - pose proof (goto_or_fall_invented name fa next true) as G. destruct (goto_or_fall name fa next true) as [[x regs] fall]. cbn [fst] in *.
    destruct (leaf_cmp_shape name l tr) as (i & r & -> & S & Fr).
    assert (T : sited K HL (r ++ x)) by (apply sited_plain, Forall_app; split; assumption).
    destruct (lpre l) as [pc|] eqn:P; cbn [marker app].
    + eapply si_auto; eassumption.
    + eapply (si_mark K HL _ _ _ (KCond l)); [exact B|reflexivity|exact S|exact T].
  - destruct B as [B1 B2].
    assert (HD : sited K HL (marker ON ol ++ [ISwitch op])) by (apply (sited_one K HL p (KSwitch op ol)); [exact B1|reflexivity]).
    assert (CS : sited K HL (flat_map (fun '(v, vl, d) => marker ON vl ++ [ICase v (lbl name d)]) cases)).
    { apply sited_flat_map. intros [[v vl] d] I0. apply (sited_one K HL p (KCase v vl)); [eapply B2; exact I0|eexists; reflexivity]. }
    destruct def as [dd|].
    + destruct (dd =? next)%Z; cbn [fst]; sit.
    + destruct (dest =? next)%Z; [|destruct (dest =? -1)%Z]; cbn [fst]; sit.
  - destruct (cret c =? -1)%Z; [destruct (cend c); repeat constructor|]. destruct (cret c =? next)%Z; repeat constructor.
Qed.

Lemma render_bodies_sited name fs labels : Forall (chunk_in K) fs -> forall order bodies regs,
  render_bodies ON tl name fs labels order = Ok (bodies, regs) -> Forall (fun ib => sited K HL (snd ib)) bodies.
Proof.
  intros F. induction order as [|i r IH]; intros bodies regs E; cbn [render_bodies] in E.
  - injection E as <- _. constructor.
  - destruct (get_chunk fs i) as [c|] eqn:G; [|eapply IH; exact E].
    destruct (clash tl labels (cstmts c)) as [[tk b]|]; [discriminate|].
    pose proof (render_branch_sited name c (match r with n :: _ => n | [] => (-1)%Z end)) as RB.
    destruct (render_branch ON name c _) as [[b regs0] fall]. cbn [fst] in RB.
    destruct (render_bodies ON tl name fs labels r) as [[rest regs']| | | |]; try discriminate. injection E as <- _.
    rewrite Forall_forall in F. destruct (F c (get_chunk_in _ _ _ G)) as [CS CB].
    constructor; [|eapply IH; reflexivity]. cbn [snd]. apply sited_app; [|apply sited_app; [apply RB, CB|destruct fall; repeat constructor]].
    apply sited_flat_map. intros s Is. apply render_stmt_sited, CS, Is.
Qed.
End RENDERS.

Lemma render_chunks_sited K p tl name glob fs order is : Forall (chunk_in K) fs ->
  render_chunks (Some p) tl name glob fs order = Ok is -> sited K (script_label name glob) is.
Proof.
  intros F E. unfold render_chunks in E.
  destruct (render_bodies (Some p) tl name fs (map (chunk_label name) fs) order) as [[bodies regs]| | | |] eqn:RB; try discriminate.
  injection E as <-. pose proof (render_bodies_sited K (script_label name glob) p tl _ _ _ F _ _ _ RB) as FB.
  apply sited_flat_map. intros [i b] Ib. rewrite Forall_forall in FB. apply sited_app; [|exact (FB _ Ib)].
  destruct (i =? 0)%Z; [apply si_plain; [left; split; reflexivity|constructor]|].
  destruct (zmem i regs); [apply si_plain; [right; exists i; split; reflexivity|constructor]|constructor].
Qed.

Local Opaque work_fuel work.
(* THEOREM 1a: the -lm output of a script is a word of the grammar *)
Theorem emit_script_sited p tl name glob opt body is :
  emit_script (Some p) tl name glob opt body = Ok is -> sited (body_constructs body) (script_label name glob) is.
Proof.
  intros E. unfold emit_script in E. destruct (emit_graph body) as [w| | | |] eqn:G; try discriminate.
  eapply render_chunks_sited; [|exact E]. apply emit_graph_in, G.
Qed.

(* ---------- whole programs ---------- *)
(* the header labels of a program: script names and their sub-labels, the names of mapscripts blocks and tables, the names of texts *)
Definition scripts_header (l : list (text * option (list stmt))) (n : text) (g : bool) : Prop :=
  exists nm b, In (nm, Some b) l /\ script_label nm false n g.
Definition top_header (tp : top) (n : text) (g : bool) : Prop :=
  match tp with
  | TScript name glob _ => script_label name glob n g
  | TMapScripts name glob plain tables =>
      (n = name /\ g = glob) \/
      scripts_header (map (fun m => (msName m, msScript m)) plain) n g \/
      exists tb, In tb tables /\ ((n = tmName tb /\ g = false) \/ scripts_header (map (fun e => (teName e, teScript e)) (tmEntries tb)) n g)
  | _ => False
  end.
Definition header_label (prog : program) (n : text) (g : bool) : Prop :=
  (exists tp, In tp (tops prog) /\ top_header tp n g) \/ (exists x, In x (texts prog) /\ n = xname x /\ g = xglob x).

Lemma fixed1 : In (tab ++ t "step_end") fixed_lines. Proof. left; reflexivity. Qed.
Lemma fixed2 : In (tab ++ t ".2byte ITEM_NONE") fixed_lines. Proof. right; left; reflexivity. Qed.
Lemma fixed3 : In (tab ++ t ".align 2") fixed_lines. Proof. right; right; left; reflexivity. Qed.
Lemma fixed4 : In (tab ++ t ".byte 0") fixed_lines. Proof. right; right; right; left; reflexivity. Qed.
Lemma fixed5 : In (tab ++ t ".2byte 0") fixed_lines. Proof. right; right; right; right; left; reflexivity. Qed.

Lemma split_nl_cons : forall s acc, exists c r, split_nl s acc = c :: r.
Proof.
  induction s as [|ch s IH]; intros acc; cbn [split_nl]; [eexists _, _; reflexivity|].
  destruct (ch =? 10)%N; [eexists _, _; reflexivity|apply IH].
Qed.

Section PROGS.
Variable p : text.
Variable tl : list text.
Notation ON := (Some p).

Lemma emit_text_sited x : sited [KText x] (fun n g => n = xname x /\ g = xglob x) (emit_text ON x).
Proof.
  unfold emit_text. cbn [marker app]. apply si_plain; [split; reflexivity|].
  destruct (split_nl_cons (xvalue x) []) as (c & r & ->). cbn [map].
  rewrite <- (app_nil_r (map _ r)).
  eapply (si_text _ _ _ _ _ _ _ (KText x)); [left; reflexivity|reflexivity|eexists; reflexivity| |constructor].
  apply Forall_forall. intros i Ii. apply in_map_iff in Ii. destruct Ii as (ln & <- & _). eexists; reflexivity.
Qed.

Section NOLABELS.
Variable HL : text -> bool -> Prop.

Lemma emit_steps_sited steps : sited (map KStep steps) HL (emit_steps ON steps).
Proof.
  induction steps as [|s r IH]; cbn [emit_steps]; [apply si_plain; [exact fixed1|constructor]|]. rewrite app_assoc. apply sited_app.
  - apply (sited_one _ HL p (KStep s)); [left; reflexivity|reflexivity].
  - destruct (text_eqb (tlit s) (t "step_end")); [constructor|]. eapply sited_incl; [| |exact IH]; [intros k Ik; right; exact Ik|auto].
Qed.
Lemma emit_movement_sited n g tk steps : sited (top_constructs (TMovement n g tk steps)) HL (emit_movement ON n g tk steps).
Proof.
  unfold emit_movement. cbn [top_constructs]. rewrite app_assoc. apply sited_app.
  - apply (sited_one _ HL p (KMovement n g tk)); [left; reflexivity|reflexivity].
  - eapply sited_incl; [| |apply emit_steps_sited]; [intros k Ik; right; exact Ik|auto].
Qed.

Lemma emit_items_sited : forall items itoks, sited (map (fun q => KItem (fst q) (snd q)) (combine items itoks)) HL (emit_items ON items itoks).
Proof.
  induction items as [|i r IH]; intros [|tk rt]; cbn [emit_items combine map]; try apply si_nil.
  destruct (text_eqb i (t "ITEM_NONE")); [constructor|]. rewrite app_assoc. apply sited_app.
  - apply (sited_one _ HL p (KItem i tk)); [left; reflexivity|reflexivity].
  - eapply sited_incl; [| |apply IH]; [intros k Ik; right; exact Ik|auto].
Qed.
Lemma emit_mart_sited n g tk items itoks : sited (top_constructs (TMart n g tk items itoks)) HL (emit_mart ON n g tk items itoks).
Proof.
  unfold emit_mart. cbn [top_constructs]. apply sited_app; [apply si_plain; [exact fixed3|constructor]|]. rewrite app_assoc. apply sited_app.
  - apply (sited_one _ HL p (KMart n g tk)); [left; reflexivity|reflexivity].
  - apply sited_app; [|apply si_plain; [exact fixed2|constructor]].
    eapply sited_incl; [| |apply emit_items_sited]; [intros k Ik; right; exact Ik|auto].
Qed.

Lemma emit_raw_lines_sited : forall lines line, sited (raw_constructs lines line) HL (emit_raw_lines ON lines line).
Proof.
  induction lines as [|l r IH]; intros line; cbn [emit_raw_lines raw_constructs]; [constructor|]. rewrite app_assoc. apply sited_app.
  - apply (sited_one _ HL p (KRawLine l line)); [left; reflexivity|reflexivity].
  - eapply sited_incl; [| |apply IH]; [intros k Ik; right; exact Ik|auto].
Qed.
End NOLABELS.

Lemma emit_scripts_sited opt : forall (l : list (text * option (list stmt))) is,
  emit_scripts ON tl opt l = Ok is -> sited (flat_map (fun q => script_opt_constructs (snd q)) l) (scripts_header l) is.
Proof.
  induction l as [|[n [b|]] r IH]; intros is E; cbn [emit_scripts] in E.
  - injection E as <-. constructor.
  - apply bind_i_ok in E. destruct E as (x & E1 & E). apply bind_i_ok in E. destruct E as (y & E2 & E). injection E as <-.
    cbn [flat_map snd script_opt_constructs]. apply sited_app.
    + eapply sited_incl; [| |eapply emit_script_sited; exact E1]; [intros k Ik; apply in_or_app; left; exact Ik|].
      intros nm g X. exists n, b. split; [left; reflexivity|exact X].
    + eapply sited_incl; [| |apply IH; exact E2]; [intros k Ik; apply in_or_app; right; exact Ik|].
      intros nm g (n0 & b0 & I0 & X). exists n0, b0. split; [right; exact I0|exact X].
  - cbn [flat_map snd script_opt_constructs app]. eapply sited_incl; [apply incl_refl| |apply IH, E].
    intros nm g (n0 & b0 & I0 & X). exists n0, b0. split; [right; exact I0|exact X].
Qed.

Definition tables_header (l : list tablems) (n : text) (g : bool) : Prop :=
  exists tb, In tb l /\ ((n = tmName tb /\ g = false) \/ scripts_header (map (fun e => (teName e, teScript e)) (tmEntries tb)) n g).

Lemma emit_tables_sited opt : forall (l : list tablems) is,
  emit_tables ON tl opt l = Ok is -> sited (flat_map (fun tb => flat_map entry_constructs (tmEntries tb)) l) (tables_header l) is.
Proof.
  induction l as [|tb r IH]; intros is E; cbn [emit_tables] in E.
  - injection E as <-. constructor.
  - apply bind_i_ok in E. destruct E as (x & E1 & E). apply bind_i_ok in E. destruct E as (y & E2 & E). apply ok_inj in E. subst is.
    cbn [flat_map]. apply sited_app; [|apply sited_app].
    + apply sited_app; [apply si_plain; [exists tb; split; [left; reflexivity|left; split; reflexivity]|constructor]|].
      apply sited_app; [|apply si_plain; [exact fixed5|apply si_plain; [exact I|constructor]]].
      apply sited_flat_map. intros e Ie. eapply sited_incl; [| |apply (sited_one [KTableEntry e] (fun _ _ => False) p (KTableEntry e)); [left; reflexivity|reflexivity]]; [|intros ? ? []].
      intros k [<-|[]]. apply in_or_app. left. apply in_flat_map. exists e. split; [exact Ie|left; reflexivity].
    + eapply sited_incl; [| |eapply emit_scripts_sited; exact E1].
      * intros k Ik. apply in_or_app. left.
        apply in_flat_map in Ik. destruct Ik as ([nm o] & Ip & Ik). apply in_map_iff in Ip. destruct Ip as (e & Ee & Ie). injection Ee as _ <-.
        apply in_flat_map. exists e. split; [exact Ie|right; exact Ik].
      * intros nm g X. exists tb. split; [left; reflexivity|right; exact X].
    + eapply sited_incl; [| |apply IH; exact E2]; [intros k Ik; apply in_or_app; right; exact Ik|].
      intros nm g (tb0 & I0 & X). exists tb0. split; [right; exact I0|exact X].
Qed.

Lemma emit_mapscripts_sited opt n g plain tables is :
  emit_mapscripts ON tl opt n g plain tables = Ok is ->
  sited (top_constructs (TMapScripts n g plain tables)) (top_header (TMapScripts n g plain tables)) is.
Proof.
  intros E. unfold emit_mapscripts in E. apply bind_i_ok in E. destruct E as (x & E1 & E). apply bind_i_ok in E. destruct E as (y & E2 & E).
  apply ok_inj in E. subst is. cbn [top_constructs]. apply sited_app; [|apply sited_app].
  - apply sited_app; [apply si_plain; [left; split; reflexivity|constructor]|].
    apply sited_app; [|apply sited_app; [|apply si_plain; [exact fixed4|apply si_plain; [exact I|constructor]]]].
    + apply sited_flat_map. intros m Im.
      eapply sited_incl; [| |apply (sited_one [KMapScript (msType m) (msName m)] (fun _ _ => False) p (KMapScript (msType m) (msName m))); [left; reflexivity|reflexivity]]; [|intros ? ? []].
      intros k [<-|[]]. apply in_or_app. left. apply in_flat_map. exists m. split; [exact Im|left; reflexivity].
    + apply sited_flat_map. intros tb Itb.
      eapply sited_incl; [| |apply (sited_one [KMapScript (tmType tb) (tmName tb)] (fun _ _ => False) p (KMapScript (tmType tb) (tmName tb))); [left; reflexivity|reflexivity]]; [|intros ? ? []].
      intros k [<-|[]]. apply in_or_app. right. apply in_flat_map. exists tb. split; [exact Itb|left; reflexivity].
  - eapply sited_incl; [| |eapply emit_scripts_sited; exact E1].
    + intros k Ik. apply in_or_app. left.
      apply in_flat_map in Ik. destruct Ik as ([nm o] & Ip & Ik). apply in_map_iff in Ip. destruct Ip as (m & Em & Im). injection Em as _ <-.
      apply in_flat_map. exists m. split; [exact Im|right; exact Ik].
    + intros nm g0 X. right; left. exact X.
  - eapply sited_incl; [| |eapply emit_tables_sited; exact E2].
    + intros k Ik. apply in_or_app. right.
      apply in_flat_map in Ik. destruct Ik as (tb & Itb & Ik). apply in_flat_map. exists tb. split; [exact Itb|right; exact Ik].
    + intros nm g0 X. right; right. exact X.
Qed.

Lemma emit_top_sited opt tp r is : emit_top ON tl opt tp = Some r -> r = Ok is -> sited (top_constructs tp) (top_header tp) is.
Proof.
  intros E0 E. destruct tp as [n g b|v ln| |n g tk steps|n g tk items itoks|n g plain tables]; cbn [emit_top] in E0; try discriminate; injection E0 as <-.
  - eapply emit_script_sited; exact E.
  - injection E as <-. apply emit_raw_lines_sited.
  - injection E as <-. apply emit_movement_sited.
  - injection E as <-. apply emit_mart_sited.
  - eapply emit_mapscripts_sited; exact E.
Qed.

Lemma emit_tops_sited opt : forall l i is n, emit_tops ON tl opt l i = Ok (is, n) ->
  sited (flat_map top_constructs l) (fun nm g => exists tp, In tp l /\ top_header tp nm g) is.
Proof.
  induction l as [|tp r IH]; intros i is n E; cbn [emit_tops] in E.
  - injection E as <- _. constructor.
  - destruct (emit_top ON tl opt tp) as [rt|] eqn:ET.
    + apply bind_i_ok in E. destruct E as (x & E1 & E). apply bind_i_ok in E. destruct E as ([y m] & E2 & E). injection E as <- _.
      cbn [flat_map]. apply sited_app; [destruct i; [constructor|apply si_plain; [exact I|constructor]]|]. apply sited_app.
      * eapply sited_incl; [| |eapply emit_top_sited; [exact ET|exact E1]]; [intros k Ik; apply in_or_app; left; exact Ik|].
        intros nm g X. exists tp. split; [left; reflexivity|exact X].
      * eapply sited_incl; [| |eapply IH; exact E2]; [intros k Ik; apply in_or_app; right; exact Ik|].
        intros nm g (tp0 & I0 & X). exists tp0. split; [right; exact I0|exact X].
    + cbn [flat_map]. eapply sited_incl; [| |eapply IH; exact E]; [intros k Ik; apply in_or_app; right; exact Ik|].
      intros nm g (tp0 & I0 & X). exists tp0. split; [right; exact I0|exact X].
Qed.

Lemma emit_texts_sited : forall l k, sited (map KText l) (fun n g => exists x, In x l /\ n = xname x /\ g = xglob x) (emit_texts ON l k).
Proof.
  induction l as [|x r IH]; intros k; cbn [emit_texts map]; [constructor|].
  apply sited_app; [destruct k; [constructor|apply si_plain; [exact I|constructor]]|].
  apply sited_app.
  - eapply sited_incl; [| |apply emit_text_sited]; [intros k0 [<-|[]]; left; reflexivity|].
    intros n g X. exists x. split; [left; reflexivity|exact X].
  - eapply sited_incl; [| |apply IH]; [intros k0 Ik; right; exact Ik|].
    intros n g (x0 & I0 & X). exists x0. split; [right; exact I0|exact X].
Qed.
End PROGS.

(* THEOREM 1b: the -lm output of a program is a word of the grammar *)
Theorem emit_program_sited opt p prog is :
  emit_program_instrs opt (Some p) prog = Ok is -> sited (program_constructs prog) (header_label prog) is.
Proof.
  intros E. unfold emit_program_instrs in E.
  destruct (emit_tops (Some p) (map xname (texts prog)) opt (tops prog) 0) as [[x n]| | | |] eqn:ET; try discriminate. injection E as <-.
  unfold program_constructs. apply sited_app.
  - eapply sited_incl; [| |eapply emit_tops_sited; exact ET]; [intros k Ik; apply in_or_app; left; exact Ik|].
    intros nm g X. left. exact X.
  - eapply sited_incl; [| |apply emit_texts_sited]; [intros k Ik; apply in_or_app; right; exact Ik|].
    intros nm g X. right. exact X.
Qed.

(* ====================================================================================================================== *)
(* PART 2: the rule, position by position                                                                                 *)
(* ====================================================================================================================== *)
Lemma last_case {A} (l : list A) : l = [] \/ exists l' x, l = l' ++ [x].
Proof. induction l as [|x l' _] using rev_ind; [left; reflexivity|right; eauto]. Qed.
Lemma snoc_inj {A} (a b : list A) x y : a ++ [x] = b ++ [y] -> a = b /\ x = y.
Proof. intros E. apply app_inj_tail in E. exact E. Qed.

Section RULE.
Variable K : list construct.
Variable HL : text -> bool -> Prop.
Variable is : list instr.
Hypothesis S : sited K HL is.

(* MAIN LEMMA: every instruction of a word of the grammar either follows a marker - then it renders a construct of K
   whose line the marker carries - or does not - then the compiler invented it, or it is a further line of a text, or
   it is the AutoVar command of the condition whose marker follows it *)
Lemma sited_rule pre i post : is = pre ++ i :: post -> notmarker i = true ->
  (exists pre' l k, pre = pre' ++ [IMarker l] /\ In k K /\ kline k = l /\ shows k i) \/
  ((forall pre' l, pre <> pre' ++ [IMarker l]) /\
   (invented HL i \/ (exists pre' q, pre = pre' ++ [q] /\ continues q i) \/ autovar_of K i post)).
Proof.
  intros E N. destruct (last_case pre) as [->|(pre' & q & ->)].
  - right. split; [intros pre' l X; destruct pre'; discriminate X|]. cbn [app] in E. subst is.
    destruct (sited_head K HL i post S N) as [X|X]; [left; exact X|right; right; exact X].
  - destruct (notmarker q) eqn:Nq.
    + right. split; [intros pre2 l X; apply snoc_inj in X; destruct X as [_ ->]; discriminate Nq|].
      rewrite <- app_assoc in E. cbn [app] in E.
      destruct (sited_window K HL is S _ _ _ _ E Nq N) as [X|[X|X]]; [left; exact X| |right; right; exact X].
      right; left. exists pre', q. split; [reflexivity|exact X].
    + left. destruct q; try discriminate Nq. rewrite <- app_assoc in E. cbn [app] in E.
      destruct (sited_marker K HL is S _ _ _ E) as (k & j & post' & E2 & I0 & L & SH). injection E2 as <- _.
      exists pre', line, k. auto.
Qed.

(* by kind of instruction *)
Definition is_test_or_case (i : instr) : bool :=
  match i with ICompare _ _ _ | IGotoIfSet _ _ | IGotoIfUnset _ _ | ICheckTrainer _ | ISwitch _ | ICase _ _ => true | _ => false end.
Definition is_generated_kind (i : instr) : bool :=
  match i with IGoto _ | IGotoIfCmp _ _ | IGotoIf _ _ | IReturn | IEnd | IBlank | IMarker _ => true | _ => false end.

Lemma sited_tests_marked pre i post : is = pre ++ i :: post -> is_test_or_case i = true -> exists pre' l, pre = pre' ++ [IMarker l].
Proof.
  intros E T. destruct (sited_rule pre i post E) as [(pre' & l & k & -> & _)|[_ [X|[X|X]]]].
  - destruct i; try discriminate T; reflexivity.
  - eauto.
  - destruct i; try discriminate T; contradiction.
  - destruct X as (pre' & q & _ & d & c & c' & -> & _). discriminate T.
  - destruct X as (c & l & j & post' & -> & _). discriminate T.
Qed.

Lemma sited_generated_unmarked pre i post : is = pre ++ i :: post -> is_generated_kind i = true -> forall pre' l, pre <> pre' ++ [IMarker l].
Proof.
  intros E T pre' l ->. rewrite <- app_assoc in E. cbn [app] in E.
  destruct (sited_marker K HL is S _ _ _ E) as (k & j & post' & E2 & _ & _ & SH). injection E2 as <- _.
  destruct k; cbn [shows] in SH; try (subst i; discriminate T); try (destruct SH as [? ->]; discriminate T).
  destruct (lk l0); [destruct SH as [lab [-> | ->]]; discriminate T|subst i; discriminate T|subst i; discriminate T].
Qed.
End RULE.

(* ---------- MAIN THEOREMS (positions) ---------- *)
(* M1.  In the -lm output of a program, look at any instruction i that is not itself a marker.
        Either a marker stands directly before it: then i renders a construct of the program (a command or label
        statement, a condition, a switch operand, a case, the first line of a text, a movement or mart and its label, a step,
        an item, a raw line, a map script line, a table entry) and the marker carries the line of that construct;
        or no marker stands directly before it: then
          - the compiler invented i: a goto, the jump half of a test, return / end, a blank line, one of the five fixed lines
            (step_end, .2byte ITEM_NONE, .align 2, .byte 0, .2byte 0), a header label (the name of a script, a generated
            sub-label name_i, the name of a text, of a mapscripts block, of a table), or
          - i is a further line of a text whose first line stands directly before it (one marker per text), or
          - i is the AutoVar command of a condition, and the marker and the test of that condition follow it directly. *)
Theorem marker_rule opt path prog is :
  emit_program_instrs opt (Some path) prog = Ok is ->
  forall pre i post, is = pre ++ i :: post -> notmarker i = true ->
  (exists pre' l k, pre = pre' ++ [IMarker l] /\ In k (program_constructs prog) /\ kline k = l /\ shows k i) \/
  ((forall pre' l, pre <> pre' ++ [IMarker l]) /\
   (invented (header_label prog) i \/ (exists pre' q, pre = pre' ++ [q] /\ continues q i) \/ autovar_of (program_constructs prog) i post)).
Proof. intros E. apply sited_rule. eapply emit_program_sited; exact E. Qed.

Theorem script_marker_rule path tl name glob opt body is :
  emit_script (Some path) tl name glob opt body = Ok is ->
  forall pre i post, is = pre ++ i :: post -> notmarker i = true ->
  (exists pre' l k, pre = pre' ++ [IMarker l] /\ In k (body_constructs body) /\ kline k = l /\ shows k i) \/
  ((forall pre' l, pre <> pre' ++ [IMarker l]) /\
   (invented (script_label name glob) i \/ (exists pre' q, pre = pre' ++ [q] /\ continues q i) \/ autovar_of (body_constructs body) i post)).
Proof. intros E. apply sited_rule. eapply emit_script_sited; exact E. Qed.

(* M2.  Kinds that are always announced: the first instruction of every condition test (compare / goto_if_set /
        goto_if_unset / checktrainerflag), every switch and every case line has a marker directly before it. *)
Theorem tests_switches_cases_are_marked opt path prog is :
  emit_program_instrs opt (Some path) prog = Ok is ->
  forall pre i post, is = pre ++ i :: post -> is_test_or_case i = true -> exists pre' l, pre = pre' ++ [IMarker l].
Proof. intros E. eapply sited_tests_marked. eapply emit_program_sited; exact E. Qed.

(* M3.  Kinds that are never announced: goto, the jump half of a test (goto_if_eq ..., goto_if 1/0), return, end, blank
        lines - and a marker never follows a marker. *)
Theorem generated_kinds_are_unmarked opt path prog is :
  emit_program_instrs opt (Some path) prog = Ok is ->
  forall pre i post, is = pre ++ i :: post -> is_generated_kind i = true -> forall pre' l, pre <> pre' ++ [IMarker l].
Proof. intros E. eapply sited_generated_unmarked. eapply emit_program_sited; exact E. Qed.

(* M4.  Verbatim lines (raw lines, steps, items, map script lines, table entries): every one except the five fixed lines
        has a marker directly before it. *)
Theorem lines_are_marked opt path prog is :
  emit_program_instrs opt (Some path) prog = Ok is ->
  forall pre s post, is = pre ++ ILine s :: post -> ~ In s fixed_lines -> exists pre' l, pre = pre' ++ [IMarker l].
Proof.
  intros E pre s post E2 NF. destruct (marker_rule _ _ _ _ E _ _ _ E2 eq_refl) as [(pre' & l & k & -> & _)|[_ [X|[X|X]]]].
  - eauto.
  - contradiction.
  - destruct X as (pre' & q & _ & d & c & c' & X & _). discriminate X.
  - destruct X as (c & l & j & post' & X & _). discriminate X.
Qed.

(* M5.  Commands: every command line has a marker directly before it, except the AutoVar command of a condition: that
        one stands directly before the marker and the test of its condition. *)
Theorem commands_are_marked opt path prog is :
  emit_program_instrs opt (Some path) prog = Ok is ->
  forall pre c post, is = pre ++ ICmd c :: post ->
  (exists pre' l, pre = pre' ++ [IMarker l] /\ In (KCommand c) (program_constructs prog) /\ l = tline (ctok c)) \/
  ((forall pre' l, pre <> pre' ++ [IMarker l]) /\
   exists l j post', post = IMarker (lline l) :: j :: post' /\ In (KCond l) (program_constructs prog) /\ lpre l = Some c /\ shows (KCond l) j).
Proof.
  intros E pre c post E2. destruct (marker_rule _ _ _ _ E _ _ _ E2 eq_refl) as [(pre' & l & k & -> & I0 & L & SH)|[NM [X|[X|X]]]].
  - left. exists pre', l. split; [reflexivity|].
    destruct k; cbn [shows] in SH; try discriminate SH; try (match type of SH with ex _ => destruct SH as [lab SH]; discriminate SH end).
    + injection SH as <-. split; [exact I0|symmetry; exact L].
    + destruct (lk l0); [destruct SH as [lab [SH|SH]]; discriminate SH|discriminate SH|discriminate SH].
  - contradiction.
  - destruct X as (pre' & q & _ & d & c0 & c' & X & _). discriminate X.
  - right. split; [exact NM|]. destruct X as (c0 & l & j & post' & X & -> & I0 & P & SH). injection X as <-. exists l, j, post'. auto.
Qed.

(* M6.  Labels: every label line that is not a header label has a marker directly before it (label statements, the labels
        of movements and marts). *)
Theorem labels_are_marked opt path prog is :
  emit_program_instrs opt (Some path) prog = Ok is ->
  forall pre n g post, is = pre ++ ILabel n g :: post -> ~ header_label prog n g -> exists pre' l, pre = pre' ++ [IMarker l].
Proof.
  intros E pre n g post E2 NF. destruct (marker_rule _ _ _ _ E _ _ _ E2 eq_refl) as [(pre' & l & k & -> & _)|[_ [X|[X|X]]]].
  - eauto.
  - contradiction.
  - destruct X as (pre' & q & _ & d & c & c' & X & _). discriminate X.
  - destruct X as (c & l & j & post' & X & _). discriminate X.
Qed.

(* the constructs of a script body are commands, labels, conditions, switch operands and cases *)
Definition body_kind (k : construct) : Prop :=
  match k with KCommand _ | KLabel _ _ _ | KCond _ | KSwitch _ _ | KCase _ _ => True | _ => False end.
Lemma body_constructs_kind : forall ss k, In k (body_constructs ss) -> body_kind k.
Proof.
  apply (LabelSim.stmts_ind2 (fun s => forall k, In k (stmt_constructs s) -> body_kind k) (fun ss => forall k, In k (body_constructs ss) -> body_kind k)).
  - intros k [].
  - intros s r IHs IHr k I0. cbn [body_constructs] in I0. apply in_app_or in I0. destruct I0 as [I0|I0]; auto.
  - intros c k. rewrite stmt_constructs_cmd. intros [<-|[]]. exact I.
  - intros n g tk k. rewrite stmt_constructs_label. intros [<-|[]]. exact I.
  - intros conds els Hc He k. rewrite stmt_constructs_if. intros I0. apply in_app_or in I0. destruct I0 as [I0|I0].
    + apply in_flat_map in I0. destruct I0 as (cb & Ic & I0). unfold cond_constructs in I0. apply in_app_or in I0. destruct I0 as [I0|I0].
      * unfold bexp_constructs in I0. apply in_map_iff in I0. destruct I0 as (l & <- & _). exact I.
      * rewrite Forall_forall in Hc. exact (Hc cb Ic k I0).
    + destruct els as [b|]; cbn [opt_constructs] in I0; [exact (He k I0)|destruct I0].
  - intros tg c b Hb k. rewrite stmt_constructs_while. intros I0. apply in_app_or in I0. destruct I0 as [I0|I0]; [|exact (Hb k I0)].
    destruct c as [e|]; cbn [optb_constructs] in I0; [|destruct I0]. unfold bexp_constructs in I0. apply in_map_iff in I0. destruct I0 as (l & <- & _). exact I.
  - intros tg b c Hb k. rewrite stmt_constructs_dowhile. intros I0. apply in_app_or in I0. destruct I0 as [I0|I0]; [exact (Hb k I0)|].
    unfold bexp_constructs in I0. apply in_map_iff in I0. destruct I0 as (l & <- & _). exact I.
  - intros tg k. rewrite stmt_constructs_break. intros [].
  - intros tg k. rewrite stmt_constructs_continue. intros [].
  - intros tg o ol cases Hc k. rewrite stmt_constructs_switch. intros [<-|I0]; [exact I|].
    apply in_flat_map in I0. destruct I0 as (cs & Ic & I0). unfold case_constructs in I0. apply in_app_or in I0. destruct I0 as [I0|I0].
    + unfold case_head in I0. destruct (sc_def cs); [destruct I0|]. destruct I0 as [<-|[]]. exact I.
    + rewrite Forall_forall in Hc. exact (Hc cs Ic k I0).
Qed.

(* M7.  Texts: a data line has a marker directly before it (it is the first line of its text, and the marker carries the
        line of the text) or stands directly after another data line with the same directive (a further line of the same text). *)
Theorem data_lines_marked_once opt path prog is :
  emit_program_instrs opt (Some path) prog = Ok is ->
  forall pre d c post, is = pre ++ IData d c :: post ->
  (exists pre' l x, pre = pre' ++ [IMarker l] /\ In x (texts prog) /\ l = tline (xtok x) /\ d = match xtype x with [] => t "string" | ty => ty end) \/
  (exists pre' c', pre = pre' ++ [IData d c']).
Proof.
  intros E pre d c post E2. destruct (marker_rule _ _ _ _ E _ _ _ E2 eq_refl) as [(pre' & l & k & -> & I0 & L & SH)|[_ [X|[X|X]]]].
  - left. destruct k; cbn [shows] in SH; try discriminate SH; try (destruct SH as [? SH]; discriminate SH).
    + destruct (lk l0); [destruct SH as [lab [SH|SH]]; discriminate SH|discriminate SH|discriminate SH].
    + destruct SH as [c0 SH]. injection SH as -> _. exists pre', l, x. split; [reflexivity|]. split; [|split; [symmetry; exact L|reflexivity]].
      unfold program_constructs in I0. apply in_app_or in I0. destruct I0 as [I0|I0].
      * exfalso. apply in_flat_map in I0. destruct I0 as (tp & _ & I0).
        assert (NT : forall b, ~ In (KText x) (body_constructs b)) by (intros b I1; exact (body_constructs_kind b _ I1)).
        assert (NO : forall o, ~ In (KText x) (script_opt_constructs o)) by (intros [b|]; cbn [script_opt_constructs]; [apply NT|intros []]).
        destruct tp as [n g b|v ln| |n g tk steps|n g tk items itoks|n g plain tables]; cbn [top_constructs] in I0.
        -- exact (NT b I0).
        -- revert I0. generalize (split_nl v []) ln. induction l0 as [|a r IHr]; intros ln0; cbn [raw_constructs]; [intros []|]. intros [X|I0]; [discriminate X|exact (IHr _ I0)].
        -- destruct I0.
        -- destruct I0 as [X|I0]; [discriminate X|]. apply in_map_iff in I0. destruct I0 as (? & X & _). discriminate X.
        -- destruct I0 as [X|I0]; [discriminate X|]. apply in_map_iff in I0. destruct I0 as (? & X & _). discriminate X.
        -- apply in_app_or in I0. destruct I0 as [I0|I0]; apply in_flat_map in I0.
           ++ destruct I0 as (m & _ & [X|I0]); [discriminate X|exact (NO _ I0)].
           ++ destruct I0 as (tb & _ & [X|I0]); [discriminate X|]. apply in_flat_map in I0. destruct I0 as (e & _ & [X|I0]); [discriminate X|exact (NO _ I0)].
      * apply in_map_iff in I0. destruct I0 as (x0 & X & I0). injection X as ->. exact I0.
  - contradiction.
  - right. destruct X as (pre' & q & -> & d0 & c0 & c' & X & ->). injection X as <- _. exists pre', c'. reflexivity.
  - destruct X as (c0 & l & j & post' & X & _). discriminate X.
Qed.

(* ====================================================================================================================== *)
(* PART 3: the markers of a program, in order                                                                             *)
(* ====================================================================================================================== *)
(* the line numbers of the markers of an instruction list, in order *)
Definition markers_of (is : list instr) : list Z := flat_map (fun i => match i with IMarker l => [l] | _ => [] end) is.
Lemma markers_of_app a b : markers_of (a ++ b) = markers_of a ++ markers_of b.
Proof. apply flat_map_app. Qed.
Lemma markers_of_plain a : Forall (fun i => notmarker i = true) a -> markers_of a = [].
Proof. induction 1 as [|i r N _ IH]; [reflexivity|]. cbn. fold (markers_of r). rewrite IH. destruct i; try reflexivity; discriminate N. Qed.
Lemma markers_of_flat_map {A} (f : A -> list instr) (g : A -> list Z) l :
  (forall x, In x l -> markers_of (f x) = g x) -> markers_of (flat_map f l) = flat_map g l.
Proof.
  induction l as [|x r IH]; intros E; [reflexivity|]. cbn [flat_map]. rewrite markers_of_app, E by (left; reflexivity). f_equal.
  apply IH. intros y Iy. apply E. right; exact Iy.
Qed.
Lemma flat_map_single {A B} (f : A -> B) l : flat_map (fun x => [f x]) l = map f l.
Proof. induction l as [|x r IH]; [reflexivity|]. cbn. rewrite IH. reflexivity. Qed.
Lemma markers_length is : List.length is = (List.length (strip is) + List.length (markers_of is))%nat.
Proof. induction is as [|i r IH]; [reflexivity|]. destruct i; cbn in *; fold (markers_of r); fold (strip r); lia. Qed.

(* --- what is announced, as a function of the program (scripts: of their chunk graph and chunk order) --- *)
(* a statement of a chunk: commands and labels *)
Definition stmt_lines (s : stmt) : list Z := match s with SCmd c => [tline (ctok c)] | SLabel _ _ tk => [tline tk] | _ => [] end.
(* the branch of a chunk: one condition, or a switch operand and its case table *)
Definition branch_lines (b : option brancher) : list Z :=
  match b with
  | Some (BrLeaf l _ _) => [lline l]
  | Some (BrSwitch _ ol cases _ _) => ol :: map (fun c : text * Z * Z => snd (fst c)) cases
  | _ => []
  end.
Definition chunk_lines (c : chunk) : list Z := flat_map stmt_lines (cstmts c) ++ branch_lines (cbr c).
Definition graph_lines (G : list chunk) (order : list Z) : list Z :=
  flat_map (fun i => match get_chunk G i with Some c => chunk_lines c | None => [] end) order.
Definition script_lines (opt : bool) (body : list stmt) : list Z :=
  match emit_graph body with Ok w => graph_lines (finals w) (order_of opt (finals w)) | _ => [] end.
Definition scripts_lines (opt : bool) (l : list (text * option (list stmt))) : list Z :=
  flat_map (fun q => match snd q with Some b => script_lines opt b | None => [] end) l.
(* the steps of a movement that are written out: up to and including the first step_end *)
Fixpoint written_steps (steps : list token) : list token :=
  match steps with [] => [] | s :: r => s :: (if text_eqb (tlit s) (t "step_end") then [] else written_steps r) end.
(* the items of a mart that are written out: those before the first ITEM_NONE *)
Fixpoint listed_items (items : list text) (itoks : list token) : list token :=
  match items, itoks with
  | i :: r, tk :: rt => if text_eqb i (t "ITEM_NONE") then [] else tk :: listed_items r rt
  | _, _ => []
  end.
Definition table_lines (opt : bool) (tb : tablems) : list Z :=
  map (fun e => tline (teCond e)) (tmEntries tb) ++ scripts_lines opt (map (fun e => (teName e, teScript e)) (tmEntries tb)).
Definition top_lines (opt : bool) (tp : top) : list Z :=
  match tp with
  | TScript _ _ body => script_lines opt body
  | TRaw v line => range (List.length (split_nl v [])) line
  | TTextStmt => []
  | TMovement _ _ tk steps => tline tk :: map tline (written_steps steps)
  | TMart _ _ tk items itoks => tline tk :: map tline (listed_items items itoks)
  | TMapScripts _ _ plain tables =>
      map (fun m => tline (msType m)) plain ++ map (fun tb => tline (tmType tb)) tables ++
      scripts_lines opt (map (fun m => (msName m, msScript m)) plain) ++ flat_map (table_lines opt) tables
  end.
Definition program_lines (opt : bool) (prog : program) : list Z :=
  flat_map (top_lines opt) (tops prog) ++ map (fun x => tline (xtok x)) (texts prog).

Section LINES.
Variable p : text.
Variable tl : list text.
Notation ON := (Some p).

Lemma markers_render_stmt s : markers_of (render_stmt ON s) = stmt_lines s.
Proof. destruct s; reflexivity. Qed.

Lemma markers_goto_or_fall name d next b : markers_of (fst (fst (goto_or_fall name d next b))) = [].
Proof. unfold goto_or_fall. destruct (b && (d =? -1)%Z); [reflexivity|]. destruct (d =? next)%Z; reflexivity. Qed.

Lemma markers_leaf_cmp name l d : markers_of (render_leaf_cmp name l d) = [].
Proof. unfold render_leaf_cmp. destruct (lk l); [destruct (flag_truthy l)| |]; reflexivity. Qed.

Lemma markers_render_branch name c next : markers_of (fst (fst (render_branch ON name c next))) = branch_lines (cbr c).
Proof.
  unfold render_branch. destruct (cbr c) as [[d|d|l tr fa|op ol cases def dest]|]; cbn [branch_lines].
  - apply markers_goto_or_fall.
  - apply markers_goto_or_fall.
  - pose proof (markers_goto_or_fall name fa next true) as G. destruct (goto_or_fall name fa next true) as [[x regs] fall]. cbn [fst] in *.
    rewrite !markers_of_app, markers_leaf_cmp, G. destruct (lpre l); reflexivity.
  - assert (CS : markers_of (flat_map (fun '(v, vl, d) => marker ON vl ++ [ICase v (lbl name d)]) cases) = map (fun c : text * Z * Z => snd (fst c)) cases).
    { induction cases as [|[[v vl] d] r IH]; [reflexivity|]. cbn [flat_map map]. rewrite markers_of_app, IH. reflexivity. }
    destruct def as [dd|].
    + destruct (dd =? next)%Z; cbn [fst]; rewrite !markers_of_app, CS; cbn; rewrite ?app_nil_r; reflexivity.
    + destruct (dest =? next)%Z; [|destruct (dest =? -1)%Z]; cbn [fst]; rewrite !markers_of_app, CS; cbn; rewrite ?app_nil_r; reflexivity.
  - destruct (cret c =? -1)%Z; [destruct (cend c); reflexivity|]. destruct (cret c =? next)%Z; reflexivity.
Qed.

Lemma markers_render_bodies name fs labels : forall order bodies regs,
  render_bodies ON tl name fs labels order = Ok (bodies, regs) -> markers_of (flat_map snd bodies) = graph_lines fs order.
Proof.
  induction order as [|i r IH]; intros bodies regs E; cbn [render_bodies] in E.
  - injection E as <- _. reflexivity.
  - unfold graph_lines. cbn [flat_map]. fold (graph_lines fs r).
    destruct (get_chunk fs i) as [c|] eqn:G; [|cbn [app]; eapply IH; exact E].
    destruct (clash tl labels (cstmts c)) as [[tk b]|]; [discriminate|].
    pose proof (markers_render_branch name c (match r with n :: _ => n | [] => (-1)%Z end)) as RB.
    destruct (render_branch ON name c _) as [[b regs0] fall]. cbn [fst] in RB.
    destruct (render_bodies ON tl name fs labels r) as [[rest regs']| | | |]; try discriminate. injection E as <- _.
    cbn [flat_map snd]. rewrite !markers_of_app, (IH _ _ eq_refl), RB. unfold chunk_lines. rewrite <- !app_assoc. f_equal.
    + apply markers_of_flat_map. intros s _. apply markers_render_stmt.
    + f_equal. destruct fall; reflexivity.
Qed.

Lemma markers_render_chunks name glob fs order is :
  render_chunks ON tl name glob fs order = Ok is -> markers_of is = graph_lines fs order.
Proof.
  intros E. unfold render_chunks in E.
  destruct (render_bodies ON tl name fs (map (chunk_label name) fs) order) as [[bodies regs]| | | |] eqn:RB; try discriminate.
  injection E as <-. rewrite <- (markers_render_bodies _ _ _ _ _ _ RB). clear RB.
  induction bodies as [|[i b] r IH]; [reflexivity|]. cbn [flat_map snd]. rewrite !markers_of_app, IH. 
  destruct (i =? 0)%Z; [reflexivity|]. destruct (zmem i regs); reflexivity.
Qed.
End LINES.

Local Opaque work_fuel work.
Lemma markers_emit_script p tl name glob opt body is :
  emit_script (Some p) tl name glob opt body = Ok is -> markers_of is = script_lines opt body.
Proof.
  intros E. unfold emit_script in E. unfold script_lines. destruct (emit_graph body) as [w| | | |]; try discriminate.
  eapply markers_render_chunks; exact E.
Qed.

Section PLINES.
Variable p : text.
Variable tl : list text.
Notation ON := (Some p).

Lemma markers_emit_text x : markers_of (emit_text ON x) = [tline (xtok x)].
Proof.
  unfold emit_text. rewrite !markers_of_app. cbn. rewrite markers_of_plain; [reflexivity|].
  apply Forall_forall. intros i Ii. apply in_map_iff in Ii. destruct Ii as (ln & <- & _). reflexivity.
Qed.
Lemma markers_emit_steps steps : markers_of (emit_steps ON steps) = map tline (written_steps steps).
Proof.
  induction steps as [|s r IH]; [reflexivity|]. cbn [emit_steps written_steps map]. rewrite !markers_of_app.
  destruct (text_eqb (tlit s) (t "step_end")); [reflexivity|]. rewrite IH. reflexivity.
Qed.
Lemma markers_emit_items : forall items itoks, markers_of (emit_items ON items itoks) = map tline (listed_items items itoks).
Proof.
  induction items as [|i r IH]; intros [|tk rt]; try reflexivity. cbn [emit_items listed_items].
  destruct (text_eqb i (t "ITEM_NONE")); [reflexivity|]. rewrite !markers_of_app, IH. reflexivity.
Qed.
Lemma markers_emit_raw_lines : forall lines line, markers_of (emit_raw_lines ON lines line) = range (List.length lines) line.
Proof. induction lines as [|l r IH]; intros line; [reflexivity|]. cbn [emit_raw_lines List.length range]. rewrite !markers_of_app, IH. reflexivity. Qed.

Lemma markers_emit_scripts opt : forall (l : list (text * option (list stmt))) is,
  emit_scripts ON tl opt l = Ok is -> markers_of is = scripts_lines opt l.
Proof.
  induction l as [|[n [b|]] r IH]; intros is E; cbn [emit_scripts] in E.
  - injection E as <-. reflexivity.
  - apply bind_i_ok in E. destruct E as (x & E1 & E). apply bind_i_ok in E. destruct E as (y & E2 & E). injection E as <-.
    unfold scripts_lines. cbn [flat_map snd]. fold (scripts_lines opt r). rewrite markers_of_app, (IH _ E2), (markers_emit_script _ _ _ _ _ _ _ E1). reflexivity.
  - unfold scripts_lines. cbn [flat_map snd app]. apply IH, E.
Qed.

Lemma markers_emit_tables opt : forall (l : list tablems) is,
  emit_tables ON tl opt l = Ok is -> markers_of is = flat_map (table_lines opt) l.
Proof.
  induction l as [|tb r IH]; intros is E; cbn [emit_tables] in E.
  - injection E as <-. reflexivity.
  - apply bind_i_ok in E. destruct E as (x & E1 & E). apply bind_i_ok in E. destruct E as (y & E2 & E). apply ok_inj in E. subst is.
    cbn [flat_map]. rewrite !markers_of_app, (IH _ E2), (markers_emit_scripts _ _ _ E1). unfold table_lines. rewrite <- !app_assoc. cbn [markers_of flat_map app].
    f_equal. rewrite (markers_of_flat_map _ (fun e => [tline (teCond e)])) by (intros e _; reflexivity).
    rewrite flat_map_single. reflexivity.
Qed.
End PLINES.

Section PLINES2.
Variable p : text.
Variable tl : list text.
Notation ON := (Some p).

Lemma markers_emit_mapscripts opt n g plain tables is :
  emit_mapscripts ON tl opt n g plain tables = Ok is -> markers_of is = top_lines opt (TMapScripts n g plain tables).
Proof.
  intros E. unfold emit_mapscripts in E. apply bind_i_ok in E. destruct E as (x & E1 & E). apply bind_i_ok in E. destruct E as (y & E2 & E).
  apply ok_inj in E. subst is. cbn [top_lines]. rewrite !markers_of_app, (markers_emit_scripts _ _ _ _ _ E1), (markers_emit_tables _ _ _ _ _ E2).
  rewrite (markers_of_flat_map _ (fun m => [tline (msType m)])) by (intros m _; reflexivity).
  rewrite (markers_of_flat_map _ (fun tb => [tline (tmType tb)])) by (intros m _; reflexivity).
  rewrite !flat_map_single. cbn [markers_of flat_map app]. rewrite <- !app_assoc. reflexivity.
Qed.

Lemma markers_emit_top opt tp r is : emit_top ON tl opt tp = Some r -> r = Ok is -> markers_of is = top_lines opt tp.
Proof.
  intros E0 E. destruct tp as [n g b|v ln| |n g tk steps|n g tk items itoks|n g plain tables]; cbn [emit_top] in E0; try discriminate; injection E0 as <-.
  - eapply markers_emit_script; exact E.
  - injection E as <-. apply markers_emit_raw_lines.
  - injection E as <-. unfold emit_movement. rewrite !markers_of_app, markers_emit_steps. reflexivity.
  - injection E as <-. unfold emit_mart. rewrite !markers_of_app, markers_emit_items. cbn. rewrite app_nil_r. reflexivity.
  - eapply markers_emit_mapscripts; exact E.
Qed.

Lemma markers_emit_tops opt : forall l i is n, emit_tops ON tl opt l i = Ok (is, n) -> markers_of is = flat_map (top_lines opt) l.
Proof.
  induction l as [|tp r IH]; intros i is n E; cbn [emit_tops] in E.
  - injection E as <- _. reflexivity.
  - destruct (emit_top ON tl opt tp) as [rt|] eqn:ET.
    + apply bind_i_ok in E. destruct E as (x & E1 & E). apply bind_i_ok in E. destruct E as ([y m] & E2 & E). injection E as <- _.
      cbn [flat_map]. rewrite !markers_of_app, (IH _ _ _ E2), (markers_emit_top _ _ _ _ ET E1). destruct i; reflexivity.
    + cbn [flat_map]. destruct tp; cbn [emit_top] in ET; try discriminate ET. cbn [top_lines app]. eapply IH; exact E.
Qed.

Lemma markers_emit_texts : forall l k, markers_of (emit_texts ON l k) = map (fun x => tline (xtok x)) l.
Proof.
  induction l as [|x r IH]; intros k; [reflexivity|]. cbn [emit_texts map]. rewrite !markers_of_app, markers_emit_text, IH. destruct k; reflexivity.
Qed.
End PLINES2.

(* M8.  The markers of the -lm output, in order, are: for every top-level statement in program order - a script: for every
        chunk in emission order its command and label statements, then its condition, or its switch operand and cases;
        a raw block: one per line, numbered consecutively from the line of the block; a movement: the movement, then
        every written step up to the first step_end; a mart: the mart, then every item before the first ITEM_NONE; a
        mapscripts block: its entries, its tables, then the inline scripts and the table entries - and then one per text. *)
Theorem program_markers opt path prog is :
  emit_program_instrs opt (Some path) prog = Ok is -> markers_of is = program_lines opt prog.
Proof.
  intros E. unfold emit_program_instrs in E.
  destruct (emit_tops (Some path) (map xname (texts prog)) opt (tops prog) 0) as [[x n]| | | |] eqn:ET; try discriminate. injection E as <-.
  unfold program_lines. rewrite markers_of_app, (markers_emit_tops _ _ _ _ _ _ _ ET), markers_emit_texts. reflexivity.
Qed.

Theorem script_markers path tl name glob opt body is :
  emit_script (Some path) tl name glob opt body = Ok is -> markers_of is = script_lines opt body.
Proof. apply markers_emit_script. Qed.

(* M9.  Counting: the -lm output is longer than the -lm=false output by exactly the number of announced constructs. *)
Theorem marker_count opt path prog is is0 :
  emit_program_instrs opt (Some path) prog = Ok is -> emit_program_instrs opt None prog = Ok is0 ->
  List.length (markers_of is) = List.length (program_lines opt prog) /\
  List.length is = (List.length is0 + List.length (program_lines opt prog))%nat.
Proof.
  intros E E0. pose proof (program_markers _ _ _ _ E) as M. split; [rewrite M; reflexivity|].
  pose proof (emit_program_transparent opt path prog) as T. unfold rel_res in T. rewrite E, E0 in T. subst is0.
  rewrite <- M. apply markers_length.
Qed.

(* ====================================================================================================================== *)
(* PART 3b: the markers of a script, from its source                                                                       *)
(* ====================================================================================================================== *)
(* the constructs of a script body that ARE announced: every command and label statement except an end / return that is
   the last statement of its block (the compiler renders that one itself, as the closing end / return of a chunk),
   every leaf of every condition, and of a switch the operand and the case table the emitter builds (sw_loop) - nothing
   when the switch is elided *)
Definition endret (s : stmt) : bool := match is_endret s with Some _ => true | None => false end.
Definition sw0 : swst := {| sw_new := []; sw_cases := []; sw_def := None; sw_counter := 0 |}.
Definition case_sites (cs : list (text * Z * Z)) : list construct := map (fun e : text * Z * Z => KCase (fst (fst e)) (snd (fst e))) cs.
Definition switch_head (op : text) (ol : Z) (cases : list scase) : list construct :=
  let '(st, elided) := sw_loop (Datatypes.S (List.length cases)) cases 0 0 sw0 in
  if elided then [] else KSwitch op ol :: case_sites (sw_cases st).

Fixpoint site1 (s : stmt) : list construct :=
  let blk := fix blk (ss : list stmt) : list construct :=
    match ss with
    | [] => []
    | x :: r => match r with [] => if endret x then [] else site1 x | _ :: _ => site1 x ++ blk r end
    end in
  match s with
  | SCmd c => [KCommand c]
  | SLabel n g tk => [KLabel n g tk]
  | SIf conds els =>
      (fix go (cs : list (bexp * list stmt)) : list construct :=
         match cs with [] => [] | cb :: r => (bexp_constructs (fst cb) ++ blk (snd cb)) ++ go r end) conds ++
      match els with Some b => blk b | None => [] end
  | SWhile _ c b => optb_constructs c ++ blk b
  | SDoWhile _ b c => blk b ++ bexp_constructs c
  | SBreak _ | SContinue _ => []
  | SSwitch _ op ol cases =>
      switch_head op ol cases ++
      (fix go (cs : list scase) : list construct := match cs with [] => [] | c :: r => blk (sc_body c) ++ go r end) cases
  end.
Fixpoint block_sites (ss : list stmt) : list construct :=
  match ss with
  | [] => []
  | x :: r => match r with [] => if endret x then [] else site1 x | _ :: _ => site1 x ++ block_sites r end
  end.
Lemma site1_if conds els : site1 (SIf conds els) =
  flat_map (fun cb : bexp * list stmt => bexp_constructs (fst cb) ++ block_sites (snd cb)) conds ++ match els with Some b => block_sites b | None => [] end.
Proof. reflexivity. Qed.
Lemma site1_while tg c b : site1 (SWhile tg c b) = optb_constructs c ++ block_sites b.
Proof. reflexivity. Qed.
Lemma site1_dowhile tg b c : site1 (SDoWhile tg b c) = block_sites b ++ bexp_constructs c.
Proof. reflexivity. Qed.
Lemma site1_switch tg op ol cases : site1 (SSwitch tg op ol cases) = switch_head op ol cases ++ flat_map (fun c : scase => block_sites (sc_body c)) cases.
Proof. reflexivity. Qed.
Global Opaque site1.
Lemma site1_cmd c : site1 (SCmd c) = [KCommand c]. Proof. reflexivity. Qed.

(* what a chunk of the final graph announces *)
Definition stmt_site (s : stmt) : list construct := match s with SCmd c => [KCommand c] | SLabel n g tk => [KLabel n g tk] | _ => [] end.
Definition branch_sites (b : option brancher) : list construct :=
  match b with
  | Some (BrLeaf l _ _) => [KCond l]
  | Some (BrSwitch op ol cases _ _) => KSwitch op ol :: case_sites cases
  | _ => []
  end.
Definition chunk_sites (c : chunk) : list construct := flat_map stmt_site (cstmts c) ++ branch_sites (cbr c).
Definition Brem (cs : list chunk) : list construct := flat_map (fun c => branch_sites (cbr c)) cs.
Lemma Brem_app a b : Brem (a ++ b) = Brem a ++ Brem b. Proof. apply flat_map_app. Qed.
Lemma Brem_cons c cs : Brem (c :: cs) = branch_sites (cbr c) ++ Brem cs. Proof. reflexivity. Qed.

Lemma chunk_lines_sites c : chunk_lines c = map kline (chunk_sites c).
Proof.
  unfold chunk_lines, chunk_sites. rewrite map_app. f_equal.
  - induction (cstmts c) as [|s r IH]; [reflexivity|]. cbn [flat_map]. rewrite map_app, IH. destruct s; reflexivity.
  - destruct (cbr c) as [[d|d|l tr fa|op ol cases def dest]|]; try reflexivity. cbn. f_equal. unfold case_sites. rewrite map_map. reflexivity.
Qed.

Lemma simple_site1 ss : Forall Tr.simple ss -> flat_map site1 ss = flat_map stmt_site ss.
Proof.
  induction 1 as [|s r Hs _ IH]; [reflexivity|]. cbn [flat_map]. rewrite IH. f_equal.
  destruct s; try discriminate Hs; reflexivity.
Qed.

Lemma block_split pre s rest' : rest' <> [] \/ endret s = false ->
  block_sites (pre ++ s :: rest') = flat_map site1 pre ++ site1 s ++ block_sites rest'.
Proof.
  intros HC. induction pre as [|a pre IH]; cbn [app flat_map].
  - destruct rest' as [|y r]; cbn [block_sites].
    + destruct HC as [HC| ->]; [congruence|]. now rewrite app_nil_r.
    + reflexivity.
  - cbn [block_sites]. destruct (pre ++ s :: rest') as [|y r] eqn:E; [destruct pre; discriminate E|]. rewrite IH, <- app_assoc. reflexivity.
Qed.
Lemma block_endret pre c : endret (SCmd c) = true -> block_sites (pre ++ [SCmd c]) = flat_map site1 pre.
Proof.
  intros HE. induction pre as [|a pre IH]; cbn [app flat_map].
  - cbn [block_sites]. rewrite HE. reflexivity.
  - cbn [block_sites]. destruct (pre ++ [SCmd c]) as [|y r] eqn:E; [destruct pre; discriminate E|]. rewrite IH. reflexivity.
Qed.
Lemma scan_none_noend : forall ss i n, (i + List.length ss = n)%nat -> snd (scan ss i n) = None -> Forall Tr.simple ss ->
  block_sites ss = flat_map site1 ss.
Proof.
  induction ss as [|s r IH]; intros i n Hn HS F; [reflexivity|]. pose proof (Forall_inv F) as Hs. pose proof (Forall_inv_tail F) as Fr. cbn [List.length] in Hn.
  assert (REC : snd (scan r (Datatypes.S i) n) = None -> block_sites (s :: r) = flat_map site1 (s :: r) \/ r = []).
  { intros HR. destruct r as [|y r']; [right; reflexivity|left]. cbn [block_sites flat_map]. f_equal. apply (IH (Datatypes.S i) n); [cbn [List.length] in *; lia|exact HR|exact Fr]. }
  destruct s as [c|nm g tk|conds els|tag c body|tag body c|tag|tag|tag op ol cases]; try discriminate Hs; cbn [scan] in HS.
  - destruct (Nat.eqb i (n - 1)) eqn:EQ.
    + destruct (is_endret (SCmd c)) as [e|] eqn:ER; [discriminate HS|].
      destruct (REC HS) as [X| ->]; [exact X|]. cbn [block_sites flat_map]. unfold endret. rewrite ER. now rewrite app_nil_r.
    + destruct (REC HS) as [X| ->]; [exact X|]. cbn [List.length] in Hn. apply Nat.eqb_neq in EQ. lia.
  - destruct (REC HS) as [X| ->]; [exact X|]. cbn [block_sites flat_map]. now rewrite app_nil_r.
Qed.

(* the branch parts of the chunks a control statement creates *)
Lemma split_bexp_B : forall e cn su fa fi cs en f2 c2, split_bexp e cn su fa fi = (cs, en, f2, c2) -> Brem cs = bexp_constructs e.
Proof.
  induction e as [l|o a IHa b IHb]; intros cn su fa fi cs en f2 c2 E.
  - cbn in E. injection E as <- _ _ _. reflexivity.
  - destruct o; cbn [split_bexp] in E.
    + destruct (split_bexp a (cn + 1) (cn + 1) fa fi) as [[[ra la] f1] c1] eqn:Ea.
      destruct (split_bexp b c1 su fa f1) as [[[rb lb] f2'] c2'] eqn:Eb. injection E as <- _ _ _.
      rewrite !Brem_app, (IHa _ _ _ _ _ _ _ _ Ea), (IHb _ _ _ _ _ _ _ _ Eb). unfold bexp_constructs. cbn [leaves]. rewrite map_app. cbn. now rewrite app_nil_r.
    + destruct (split_bexp a (cn + 1) su (cn + 1) fi) as [[[ra la] f1] c1] eqn:Ea.
      destruct (split_bexp b c1 su fa f1) as [[[rb lb] f2'] c2'] eqn:Eb. injection E as <- _ _ _.
      rewrite !Brem_app, (IHa _ _ _ _ _ _ _ _ Ea), (IHb _ _ _ _ _ _ _ _ Eb). unfold bexp_constructs. cbn [leaves]. rewrite map_app. cbn. now rewrite app_nil_r.
Qed.
Lemma stitch_B : forall rl cn fail cs entry c', stitch_elifs rl cn fail = (cs, entry, c') ->
  Brem cs = flat_map (fun q : bexp * Z => bexp_constructs (fst q)) rl.
Proof.
  induction rl as [|[e id] r IH]; intros cn fail cs entry c' E; cbn [stitch_elifs] in E.
  - injection E as <- _ _. reflexivity.
  - destruct (split_bexp e cn id fail (-1)) as [[[cs1 x] first] c1] eqn:E1.
    destruct (stitch_elifs r c1 first) as [[cs2 entry2] c2] eqn:E2. injection E as <- _ _.
    rewrite Brem_app, (split_bexp_B _ _ _ _ _ _ _ _ _ E1), (IH _ _ _ _ _ E2). reflexivity.
Qed.
Lemma plain_B cs : Forall Worklist.plainchunk cs -> Brem cs = [].
Proof. induction 1 as [|c r [_ E] _ IH]; [reflexivity|]. unfold Brem in *. cbn [flat_map]. rewrite E, IH. reflexivity. Qed.
Lemma sfb_B cur pre s rest' cn post ret c0 :
  cstmts cur = pre ++ s :: rest' -> split_for_branch cur (List.length pre) cn = (post, ret, c0) -> Brem post = [].
Proof.
  intros E H. destruct (Worklist.sfb_spec _ _ _ _ _ _ _ _ E H) as [(_ & -> & _)|(_ & -> & _)]; reflexivity.
Qed.

(* the case table does not depend on the chunk numbers *)
Definition tab_of (st : swst) : list (text * Z) := map (fun e : text * Z * Z => fst e) (sw_cases st).
Definition hasdef (st : swst) : bool := match sw_def st with Some _ => true | None => false end.
Definition entry0 (c : scase) : list (text * Z) := if sc_def c then [] else [(sc_val c, sc_line c)].
Lemma tab_entry id c : map (fun e : text * Z * Z => fst e) (Worklist.case_entry id c) = entry0 c.
Proof. unfold Worklist.case_entry, entry0. destruct (sc_def c); reflexivity. Qed.
Lemma tab_entries id l : map (fun e : text * Z * Z => fst e) (flat_map (Worklist.case_entry id) l) = flat_map entry0 l.
Proof. induction l as [|c r IH]; [reflexivity|]. cbn [flat_map]. rewrite map_app, tab_entry, IH. reflexivity. Qed.

Lemma sw_suf_indep : forall f S ret1 ret2 st1 st2 st1' st2' e1 e2,
  Worklist.sw_suf f S ret1 st1 = (st1', e1) -> Worklist.sw_suf f S ret2 st2 = (st2', e2) ->
  tab_of st1 = tab_of st2 -> hasdef st1 = hasdef st2 -> tab_of st1' = tab_of st2' /\ e1 = e2.
Proof.
  induction f as [|f IH]; intros S ret1 ret2 st1 st2 st1' st2' e1 e2 H1 H2 T D.
  - cbn in H1, H2. injection H1 as <- <-. injection H2 as <- <-. auto.
  - destruct S as [|c r]; [cbn in H1, H2; injection H1 as <- <-; injection H2 as <- <-; auto|].
    cbn [Worklist.sw_suf] in H1, H2. destruct (sc_body c) as [|s0 b0].
    + destruct (find_bodied r 0) as [[k cj]|].
      * eapply IH; [exact H1|exact H2| |].
        -- unfold tab_of in *. cbn [sw_cases]. rewrite !map_app, T, !tab_entry, !tab_entries. reflexivity.
        -- unfold hasdef in *. cbn [sw_def]. destruct (sc_def cj || existsb sc_def (c :: firstn k r)); [reflexivity|exact D].
      * unfold tab_of, hasdef in *.
        destruct (sw_cases st1) as [|x1 l1] eqn:C1; destruct (sw_cases st2) as [|x2 l2] eqn:C2; try discriminate T;
        destruct (sw_def st1) as [d1|] eqn:D1; destruct (sw_def st2) as [d2|] eqn:D2; try discriminate D;
        injection H1 as <- <-; injection H2 as <- <-; cbn [sw_cases]; rewrite ?C1, ?C2; (split; [|reflexivity]);
        cbn [map app] in T |- *; rewrite ?map_app, ?tab_entries, ?tab_entry; try (injection T as -> ->); reflexivity.
    + eapply IH; [exact H1|exact H2| |].
      * unfold tab_of in *. cbn [sw_cases]. rewrite !map_app, T, !tab_entry. reflexivity.
      * unfold hasdef in *. cbn [sw_def]. destruct (sc_def c); [reflexivity|exact D].
Qed.

Lemma sw_suf_plain : forall f S ret st st' el, Worklist.sw_suf f S ret st = (st', el) -> Brem (sw_new st') = Brem (sw_new st).
Proof.
  induction f as [|f IH]; intros S ret st st' el H; [cbn in H; injection H as <- _; reflexivity|].
  destruct S as [|c r]; [cbn in H; injection H as <- _; reflexivity|]. cbn [Worklist.sw_suf] in H. destruct (sc_body c) as [|s0 b0].
  - destruct (find_bodied r 0) as [[k cj]|].
    + rewrite (IH _ _ _ _ _ H). cbn [sw_new]. rewrite Brem_app. cbn. now rewrite app_nil_r.
    + destruct (sw_cases st), (sw_def st); injection H as <- _; try reflexivity; cbn [sw_new]; rewrite Brem_app; cbn; now rewrite app_nil_r.
  - rewrite (IH _ _ _ _ _ H). cbn [sw_new]. rewrite Brem_app. cbn. now rewrite app_nil_r.
Qed.

Lemma case_sites_tab st : case_sites (sw_cases st) = map (fun q : text * Z => KCase (fst q) (snd q)) (tab_of st).
Proof. unfold case_sites, tab_of. rewrite map_map. reflexivity. Qed.

Lemma create_switch_B op ol cases cur pre s rest' cn news br ret c' :
  cstmts cur = pre ++ s :: rest' ->
  create_switch op ol cases cur (List.length pre) cn = (news, br, ret, c') -> Brem news = switch_head op ol cases /\ branch_sites (Some br) = [].
Proof.
  intros E H. unfold create_switch in H.
  destruct (split_for_branch cur (List.length pre) cn) as [[post ret0] c0] eqn:ES.
  pose proof (sfb_B _ _ _ _ _ _ _ _ E ES) as P2. cbv zeta in H.
  match type of H with context[sw_loop ?a ?b ?c ?d ?e] => destruct (sw_loop a b c d e) as [st el] eqn:SW end.
  injection H as <- <- _ _. split; [|reflexivity].
  unfold switch_head. destruct (sw_loop (Datatypes.S (List.length cases)) cases 0 0 sw0) as [st2 el2] eqn:SW2.
  rewrite Worklist.sw_loop_suf in SW, SW2.
  destruct (sw_suf_indep _ _ _ _ _ _ _ _ _ _ SW SW2 eq_refl eq_refl) as [T EL]. subst el2.
  rewrite Brem_app, P2. cbn [app]. rewrite Brem_cons, (sw_suf_plain _ _ _ _ _ _ SW). cbn [sw_new Brem flat_map app cbr mk].
  rewrite app_nil_r. destruct el; [reflexivity|]. cbn [branch_sites]. rewrite !case_sites_tab, T. reflexivity.
Qed.

Lemma create_if_B e b more els cur pre s rest' cn news br ret c' :
  cstmts cur = pre ++ s :: rest' ->
  create_if ((e, b) :: more) els cur (List.length pre) cn = (news, br, ret, c') ->
  Permutation (Brem news) (flat_map (fun cb : bexp * list stmt => bexp_constructs (fst cb)) ((e, b) :: more)) /\ branch_sites (Some br) = [].
Proof.
  intros E H. rewrite Worklist.create_if_unfold in H.
  destruct (split_for_branch cur (List.length pre) cn) as [[post ret0] c0] eqn:ES.
  destruct (mk_body_chunks (b :: map snd more) c0 ret0) as [bodychunks c1] eqn:EB.
  pose proof (sfb_B _ _ _ _ _ _ _ _ E ES) as P2.
  destruct (Worklist.mk_body_chunks_spec _ _ _ _ _ EB) as (_ & _ & _ & B4 & _ & B6).
  set (EL := match els with Some eb => let c := (c1 + 1)%Z in ([mk c ret0 eb None], c, c) | None => ([], c1, ret0) end) in H.
  assert (NE : Brem (fst (fst EL)) = []) by (subst EL; destruct els; reflexivity).
  destruct EL as [[elsechunk c2] finalfail]. cbn [fst] in NE.
  destruct (stitch_elifs (rev (combine (map fst more) (tl (map cid bodychunks)))) c2 finalfail) as [[cs entryfail] c3] eqn:EST.
  destruct (split_bexp e c3 (hd 0%Z (map cid bodychunks)) entryfail (-1)) as [[[cs1 x] entry] c4] eqn:EX.
  injection H as <- <- _ _. split; [|reflexivity].
  rewrite !Brem_app, P2, (plain_B _ B4), NE, (stitch_B _ _ _ _ _ _ EST), (split_bexp_B _ _ _ _ _ _ _ _ _ EX). cbn [app flat_map fst].
  etransitivity; [apply Permutation_app_comm|]. apply Permutation_app_head.
  etransitivity; [apply Permutation_flat_map; symmetry; apply Permutation_rev|].
  assert (LEN : List.length (map fst more) = List.length (tl (map cid bodychunks))).
  { rewrite map_length. destruct bodychunks as [|c0' r0]; [discriminate B6|]. cbn [map tl]. rewrite map_length. cbn [List.length] in B6. rewrite map_length in B6. lia. }
  clear - LEN. revert LEN. generalize (tl (map cid bodychunks)). induction more as [|[e0 b0] r IH]; intros l L; [reflexivity|].
  destruct l as [|z l]; [discriminate L|]. cbn [map combine flat_map fst]. rewrite IH by (cbn in L; lia). reflexivity.
Qed.

Lemma loop_B post cs body (c0 ret0 entry : Z) : Brem post = [] ->
  Brem (post ++ cs ++ [mk (c0 + 2) (c0 + 1) body None; mk (c0 + 1) ret0 [] (Some (BrJump entry))]) = Brem cs.
Proof. intros P. rewrite !Brem_app, P. cbn. now rewrite app_nil_r. Qed.

Lemma create_while_B c body cur pre s rest' cn news br ret c' :
  cstmts cur = pre ++ s :: rest' ->
  create_while c body cur (List.length pre) cn = (news, br, ret, c') -> Brem news = optb_constructs c /\ branch_sites (Some br) = [].
Proof.
  intros E H. unfold create_while in H.
  destruct (split_for_branch cur (List.length pre) cn) as [[post ret0] c0] eqn:ES.
  pose proof (sfb_B _ _ _ _ _ _ _ _ E ES) as P2. destruct c as [e|].
  - destruct (split_bexp e (c0 + 2) (c0 + 2) ret0 (-1)) as [[[cs x] entry] c1] eqn:EX. injection H as <- <- _ _. split; [|reflexivity].
    rewrite (loop_B _ _ _ _ _ _ P2). exact (split_bexp_B _ _ _ _ _ _ _ _ _ EX).
  - injection H as <- <- _ _. split; [|reflexivity]. rewrite Brem_app, P2. reflexivity.
Qed.
Lemma create_dowhile_B body e cur pre s rest' cn news br ret c' :
  cstmts cur = pre ++ s :: rest' ->
  create_dowhile body e cur (List.length pre) cn = (news, br, ret, c') -> Brem news = bexp_constructs e /\ branch_sites (Some br) = [].
Proof.
  intros E H. unfold create_dowhile in H.
  destruct (split_for_branch cur (List.length pre) cn) as [[post ret0] c0] eqn:ES.
  pose proof (sfb_B _ _ _ _ _ _ _ _ E ES) as P2.
  destruct (split_bexp e (c0 + 2) (c0 + 2) ret0 (-1)) as [[[cs x] entry] c1] eqn:EX. injection H as <- <- _ _. split; [|reflexivity].
  rewrite (loop_B _ _ _ _ _ _ P2). exact (split_bexp_B _ _ _ _ _ _ _ _ _ EX).
Qed.

(* what a pending chunk will announce / what a finished chunk announces *)
Definition CM (c : chunk) : list construct := block_sites (cstmts c) ++ branch_sites (cbr c).
Definition CMrem (cs : list chunk) : list construct := flat_map CM cs.
Definition FMrem (cs : list chunk) : list construct := flat_map chunk_sites cs.
Lemma CMrem_app a b : CMrem (a ++ b) = CMrem a ++ CMrem b. Proof. apply flat_map_app. Qed.
Lemma pfma {A B} (f g : A -> list B) l : Permutation (flat_map (fun x => f x ++ g x) l) (flat_map f l ++ flat_map g l).
Proof.
  induction l as [|x r IH]; [reflexivity|]. cbn [flat_map]. rewrite <- !app_assoc. apply Permutation_app_head.
  etransitivity; [apply Permutation_app_head; exact IH|]. rewrite !app_assoc. apply Permutation_app_tail. apply Permutation_app_comm.
Qed.
Lemma fmom {A B C} (f : A -> B) (g : B -> list C) l : flat_map g (map f l) = flat_map (fun x => g (f x)) l.
Proof. induction l as [|x r IH]; [reflexivity|]. cbn. now rewrite IH. Qed.
Lemma CMrem_split cs : Permutation (CMrem cs) (WorkLabels.Mrem construct block_sites cs ++ Brem cs).
Proof. unfold CMrem, CM, WorkLabels.Mrem, Brem. rewrite <- flat_map_concat_map. apply pfma. Qed.

Lemma ctrl_perm news (Ms R Hd S1 : list construct) :
  Permutation (WorkLabels.Mrem construct block_sites news) (Ms ++ R) -> Permutation (Brem news) Hd -> Permutation S1 (Hd ++ Ms) ->
  Permutation (CMrem news) (S1 ++ R).
Proof.
  intros P1 P2 P3. etransitivity; [apply CMrem_split|]. rewrite P1, P2, P3.
  etransitivity; [apply Permutation_app_comm|]. rewrite app_assoc. reflexivity.
Qed.

Lemma wstep_sites w cur rest fin news c' nt :
  Worklist.Inv w -> remaining w = cur :: rest -> Worklist.wstep w = Worklist.SNext fin news c' nt ->
  Permutation (chunk_sites fin ++ CMrem news) (CM cur) /\ Forall Tr.simple (cstmts fin).
Proof.
  intros I R H. unfold Worklist.wstep in H. rewrite R in H. pose proof (Worklist.inv_cnt w I) as CN.
  assert (PL : cstmts cur <> [] -> cbr cur = None).
  { intros NE. pose proof (Worklist.inv_fresh w I) as FR. rewrite R in FR. apply Forall_inv in FR. destruct FR as [(E0 & _)|(_ & E0)]; [congruence|exact E0]. }
  pose proof (Worklist.scan_ok (cstmts cur) 0 (List.length (cstmts cur)) eq_refl) as SC.
  destruct (scan (cstmts cur) 0 (List.length (cstmts cur))) as [i er] eqn:SCAN.
  inversion SC as [pre c e E F ER Q1|F Q1|pre s rest' E F NS Q1]; subst.
  - cbn [Nat.add] in H. injection H as <- <- _ _. cbn [cstmts]. rewrite E, Worklist.firstn_app_here. split; [|exact F].
    unfold chunk_sites, CM. cbn [cstmts cbr CMrem flat_map]. rewrite !app_nil_r, E, PL by (rewrite E; destruct pre; discriminate).
    rewrite block_endret by (unfold endret; rewrite ER; reflexivity). rewrite simple_site1 by exact F. cbn. now rewrite app_nil_r.
  - cbn [Nat.add] in H. rewrite Nat.eqb_refl in H. injection H as <- <- _ _. split; [|exact F]. cbn [CMrem flat_map]. rewrite app_nil_r.
    unfold chunk_sites, CM. rewrite (scan_none_noend (cstmts cur) 0 (List.length (cstmts cur)) eq_refl); [|rewrite SCAN; reflexivity|exact F].
    rewrite simple_site1 by exact F. reflexivity.
  - cbn [Nat.add] in H.
    assert (NE : Nat.eqb (List.length pre) (List.length (cstmts cur)) = false).
    { apply Nat.eqb_neq. rewrite E, app_length. cbn. lia. }
    rewrite NE in H. rewrite E in H at 1. rewrite Worklist.nth_error_app_here in H.
    assert (FN : firstn (List.length pre) (cstmts cur) = pre) by (rewrite E; apply Worklist.firstn_app_here).
    assert (ENR : endret s = false) by (destruct s; try discriminate NS; reflexivity).
    assert (MC : CM cur = flat_map stmt_site pre ++ site1 s ++ block_sites rest').
    { unfold CM. rewrite PL by (rewrite E; destruct pre; discriminate). rewrite E, block_split by (right; exact ENR). rewrite simple_site1 by exact F. now rewrite app_nil_r. }
    rewrite MC. clear MC.
    assert (FIN : forall ret b, branch_sites b = [] -> chunk_sites {| cid := cid cur; cret := ret; cend := false; cstmts := firstn (List.length pre) (cstmts cur); cbr := b |} = flat_map stmt_site pre).
    { intros ret b Eb. unfold chunk_sites. cbn [cstmts cbr]. rewrite FN, Eb. apply app_nil_r. }
    destruct s as [c|nm g tk|conds els|tag c body|tag body c|tag|tag|tag op ol cases]; try discriminate NS.
    + destruct conds as [|[e b] more].
      * exfalso. pose proof (Worklist.inv_ok w I) as OKs. rewrite R in OKs. inversion OKs as [|? ? OK1 _]; subst. rewrite E in OK1.
        apply Worklist.okb_app in OK1. destruct OK1 as [_ OK1]. apply Worklist.okb_cons in OK1. destruct OK1 as (_ & IF1 & _). exact (Worklist.ifok1_if _ _ IF1 eq_refl).
      * destruct (create_if ((e, b) :: more) els cur (List.length pre) (counter w)) as [[[news0 br] ret] c0] eqn:CI. injection H as <- <- _ _.
        destruct (create_if_B _ _ _ _ _ _ _ _ _ _ _ _ _ E CI) as [PB EB]. rewrite (FIN _ _ EB).
        split; [|cbn [cstmts]; rewrite FN; exact F]. apply Permutation_app_head.
        eapply ctrl_perm; [eapply (WorkLabels.create_if_M construct block_sites eq_refl); eauto|exact PB|].
        rewrite site1_if. unfold WorkLabels.Msub. cbn [Worklist.subblocks]. rewrite map_app, concat_app.
        rewrite <- flat_map_concat_map. rewrite (fmom snd block_sites).
        rewrite app_assoc. etransitivity; [apply Permutation_app_tail, pfma|]. rewrite <- !app_assoc. apply Permutation_app_head, Permutation_app_head.
        destruct els; cbn; rewrite ?app_nil_r; reflexivity.
    + destruct (create_while c body cur (List.length pre) (counter w)) as [[[news0 br] ret] c0] eqn:CI. injection H as <- <- _ _.
      destruct (create_while_B _ _ _ _ _ _ _ _ _ _ _ E CI) as [PB EB]. rewrite (FIN _ _ EB).
      split; [|cbn [cstmts]; rewrite FN; exact F]. apply Permutation_app_head.
      eapply ctrl_perm; [eapply (WorkLabels.create_while_M construct block_sites eq_refl); eauto|rewrite PB; reflexivity|].
      rewrite site1_while. unfold WorkLabels.Msub. cbn. rewrite app_nil_r. reflexivity.
    + destruct (create_dowhile body c cur (List.length pre) (counter w)) as [[[news0 br] ret] c0] eqn:CI. injection H as <- <- _ _.
      destruct (create_dowhile_B _ _ _ _ _ _ _ _ _ _ _ E CI) as [PB EB]. rewrite (FIN _ _ EB).
      split; [|cbn [cstmts]; rewrite FN; exact F]. apply Permutation_app_head.
      eapply ctrl_perm; [eapply (WorkLabels.create_dowhile_M construct block_sites eq_refl); eauto|rewrite PB; reflexivity|].
      rewrite site1_dowhile. unfold WorkLabels.Msub. cbn. rewrite app_nil_r. apply Permutation_app_comm.
    + destruct (tm_get (brk w) tag); [|discriminate]. destruct (split_for_branch cur (List.length pre) (counter w)) as [[post ret] c0] eqn:ES.
      injection H as <- <- _ _. match goal with |- context[Build_chunk _ _ _ _ ?b] => rewrite (FIN _ b eq_refl) end. split; [|cbn [cstmts]; rewrite FN; exact F]. apply Permutation_app_head.
      eapply (ctrl_perm _ [] _ [] _); [rewrite (WorkLabels.sfb_M construct block_sites eq_refl _ _ _ _ _ _ _ _ E ES); reflexivity|rewrite (sfb_B _ _ _ _ _ _ _ _ E ES); reflexivity|reflexivity].
    + destruct (tm_get (org w) tag); [|discriminate]. destruct (split_for_branch cur (List.length pre) (counter w)) as [[post ret] c0] eqn:ES.
      injection H as <- <- _ _. match goal with |- context[Build_chunk _ _ _ _ ?b] => rewrite (FIN _ b eq_refl) end. split; [|cbn [cstmts]; rewrite FN; exact F]. apply Permutation_app_head.
      eapply (ctrl_perm _ [] _ [] _); [rewrite (WorkLabels.sfb_M construct block_sites eq_refl _ _ _ _ _ _ _ _ E ES); reflexivity|rewrite (sfb_B _ _ _ _ _ _ _ _ E ES); reflexivity|reflexivity].
    + destruct (create_switch op ol cases cur (List.length pre) (counter w)) as [[[news0 br] ret] c0] eqn:CI. injection H as <- <- _ _.
      destruct (create_switch_B _ _ _ _ _ _ _ _ _ _ _ _ E CI) as [PB EB]. rewrite (FIN _ _ EB).
      split; [|cbn [cstmts]; rewrite FN; exact F]. apply Permutation_app_head.
      eapply ctrl_perm; [eapply (WorkLabels.create_switch_M construct block_sites eq_refl); eauto|rewrite PB; reflexivity|].
      rewrite site1_switch. unfold WorkLabels.Msub. cbn [Worklist.subblocks]. rewrite map_map, <- flat_map_concat_map. reflexivity.
Qed.

Lemma FMrem_cons c cs : FMrem (c :: cs) = chunk_sites c ++ FMrem cs. Proof. reflexivity. Qed.

(* the worklist conserves what will be announced *)
Theorem work_sites : forall f w w', Worklist.Inv w -> work f w = Ok w' ->
  Permutation (FMrem (finals w')) (CMrem (remaining w) ++ FMrem (finals w)).
Proof.
  induction f as [|f IH]; intros w w' I H; [discriminate|]. rewrite Worklist.work_S in H.
  destruct (Worklist.wstep w) as [|fin news c' nt| |] eqn:WS; try discriminate.
  - injection H as <-. unfold Worklist.wstep in WS. destruct (remaining w) as [|cur rest] eqn:R; [reflexivity|].
    exfalso. destruct (scan (cstmts cur) 0 (List.length (cstmts cur))) as [i [e|]]; [discriminate|].
    destruct (Nat.eqb i (List.length (cstmts cur))); [discriminate|].
    destruct (nth_error (cstmts cur) i) as [[c|n g tk|conds els|tag c body|tag body c|tag|tag|tag op ol cases]|]; try discriminate.
    + destruct (create_if conds els cur i (counter w)) as [[[? ?] ?] ?]. discriminate.
    + destruct (create_while c body cur i (counter w)) as [[[? ?] ?] ?]. discriminate.
    + destruct (create_dowhile body c cur i (counter w)) as [[[? ?] ?] ?]. discriminate.
    + destruct (tm_get (brk w) tag); [|discriminate]. destruct (split_for_branch cur i (counter w)) as [[? ?] ?]. discriminate.
    + destruct (tm_get (org w) tag); [|discriminate]. destruct (split_for_branch cur i (counter w)) as [[? ?] ?]. discriminate.
    + destruct (create_switch op ol cases cur i (counter w)) as [[[? ?] ?] ?]. discriminate.
  - destruct (remaining w) as [|cur rest] eqn:R; [unfold Worklist.wstep in WS; rewrite R in WS; discriminate|].
    destruct (Worklist.wstep_inv _ _ _ _ _ _ _ I R WS) as (I1 & SFE & _ & _).
    destruct (wstep_sites _ _ _ _ _ _ _ I R WS) as [PM _].
    etransitivity; [exact (IH _ _ I1 H)|]. rewrite SFE. unfold Worklist.wnext at 1. cbn [remaining]. rewrite R. cbn [tl].
    rewrite CMrem_app, FMrem_cons. change (CMrem (cur :: rest)) with (CM cur ++ CMrem rest). rewrite <- PM.
    rewrite <- !app_assoc. etransitivity; [apply Permutation_app_swap_app|].
    etransitivity; [apply Permutation_app_head, Permutation_app_swap_app|]. apply Permutation_app_swap_app.
Qed.

Local Opaque work_fuel work.
(* M10.  What the chunks of the final graph announce is, up to order, what the source says is announced *)
Theorem graph_sites_from_source body w :
  emit_graph body = Ok w -> Worklist.src_ok body -> Permutation (flat_map chunk_sites (finals w)) (block_sites body).
Proof.
  intros HW SO. unfold emit_graph in HW. pose proof (work_sites _ _ _ (NameClash.emit_graph_inv0 body SO) HW) as P.
  cbn [remaining finals CMrem FMrem flat_map] in P. unfold CM in P. cbn [cstmts cbr mk branch_sites] in P. rewrite !app_nil_r in P. exact P.
Qed.

Lemma get_chunk_self : forall G c, NoDup (map cid G) -> In c G -> get_chunk G (cid c) = Some c.
Proof.
  induction G as [|x r IH]; intros c ND I0; [destruct I0|]. cbn [map] in ND. inversion ND as [|? ? NI ND']; subst. cbn [get_chunk].
  destruct I0 as [->|I0]; [rewrite Z.eqb_refl; reflexivity|].
  destruct (Z.eqb_spec (cid x) (cid c)) as [E|_]; [|apply IH; assumption]. exfalso. apply NI. rewrite E. apply in_map, I0.
Qed.
Lemma map_flat_map {A B C} (f : B -> C) (g : A -> list B) l : map f (flat_map g l) = flat_map (fun x => map f (g x)) l.
Proof. induction l as [|x r IH]; [reflexivity|]. cbn. now rewrite map_app, IH. Qed.

Lemma graph_lines_perm opt G : OrderPerm.dense G -> Permutation (graph_lines G (order_of opt G)) (map kline (flat_map chunk_sites G)).
Proof.
  intros D. unfold graph_lines. etransitivity; [apply Permutation_flat_map, (OrderPerm.order_of_perm_all opt G D)|].
  destruct D as [ND _]. rewrite map_flat_map. rewrite fmom.
  assert (E : forall l, (forall c, In c l -> In c G) ->
              flat_map (fun x => match get_chunk G (cid x) with Some c => chunk_lines c | None => [] end) l = flat_map (fun x => map kline (chunk_sites x)) l).
  { induction l as [|c r IH]; intros HI; [reflexivity|]. cbn [flat_map]. rewrite (get_chunk_self G c ND) by (apply HI; left; reflexivity).
    rewrite chunk_lines_sites, IH by (intros c0 I0; apply HI; right; exact I0). reflexivity. }
  rewrite E by auto. reflexivity.
Qed.

(* M11.  The markers of a script, from its source: up to order they are the lines of its command and label statements
         (a block's final end / return excepted), of the leaves of its conditions, and of the operands and case tables of
         its switches - each exactly as often as written, for both chunk orders. *)
Theorem script_markers_from_source path tl name glob opt body is :
  emit_script (Some path) tl name glob opt body = Ok is -> Worklist.src_ok body ->
  Permutation (markers_of is) (map kline (block_sites body)).
Proof.
  intros E SO. rewrite (script_markers _ _ _ _ _ _ _ E). unfold script_lines.
  destruct (emit_graph body) as [w| | | |] eqn:G; try (unfold emit_script in E; rewrite G in E; discriminate E).
  destruct (WorkShape.final_graph_shape body w G SO) as (D & _).
  etransitivity; [apply graph_lines_perm; exact D|]. apply Permutation_map. apply graph_sites_from_source; assumption.
Qed.

Local Opaque work_fuel work emit_script emit_graph.

(* ---------- whole programs, from the source ---------- *)
Definition script_src_lines (o : option (list stmt)) : list Z := match o with Some b => map kline (block_sites b) | None => [] end.
Definition scripts_src_lines (l : list (text * option (list stmt))) : list Z := flat_map (fun q => script_src_lines (snd q)) l.
Definition table_src_lines (tb : tablems) : list Z :=
  map (fun e => tline (teCond e)) (tmEntries tb) ++ scripts_src_lines (map (fun e => (teName e, teScript e)) (tmEntries tb)).
(* the lines that are announced, top-level statement by top-level statement, as a function of the AST alone *)
Definition top_src_lines (tp : top) : list Z :=
  match tp with
  | TScript _ _ body => map kline (block_sites body)
  | TMapScripts _ _ plain tables =>
      map (fun m => tline (msType m)) plain ++ map (fun tb => tline (tmType tb)) tables ++
      scripts_src_lines (map (fun m => (msName m, msScript m)) plain) ++ flat_map table_src_lines tables
  | _ => top_lines false tp
  end.
Definition program_src_lines (prog : program) : list Z :=
  flat_map top_src_lines (tops prog) ++ map (fun x => tline (xtok x)) (texts prog).

Definition opt_body (o : option (list stmt)) : list (list stmt) := match o with Some b => [b] | None => [] end.

Section SRCP.
Variable p : text.
Variable tl : list text.
Notation ON := (Some p).

Lemma perm_scripts opt : forall (l : list (text * option (list stmt))) is,
  emit_scripts ON tl opt l = Ok is -> Forall Worklist.src_ok (flat_map (fun q => opt_body (snd q)) l) ->
  Permutation (markers_of is) (scripts_src_lines l).
Proof.
  induction l as [|[n [b|]] r IH]; intros is E F; cbn [emit_scripts] in E.
  - injection E as <-. reflexivity.
  - apply bind_i_ok in E. destruct E as (x & E1 & E). apply bind_i_ok in E. destruct E as (y & E2 & E). injection E as <-.
    cbn [flat_map snd opt_body app] in F. pose proof (Forall_inv F) as F1. pose proof (Forall_inv_tail F) as F2.
    unfold scripts_src_lines. cbn [flat_map snd script_src_lines]. rewrite markers_of_app. apply Permutation_app.
    + eapply script_markers_from_source; eassumption.
    + apply IH; assumption.
  - unfold scripts_src_lines. cbn [flat_map snd script_src_lines app]. apply IH; [exact E|exact F].
Qed.

Lemma perm_tables opt : forall (l : list tablems) is,
  emit_tables ON tl opt l = Ok is ->
  Forall Worklist.src_ok (flat_map (fun tb => flat_map (fun e => opt_body (teScript e)) (tmEntries tb)) l) ->
  Permutation (markers_of is) (flat_map table_src_lines l).
Proof.
  induction l as [|tb r IH]; intros is E F; cbn [emit_tables] in E.
  - injection E as <-. reflexivity.
  - apply bind_i_ok in E. destruct E as (x & E1 & E). apply bind_i_ok in E. destruct E as (y & E2 & E). apply ok_inj in E. subst is.
    cbn [flat_map] in F |- *. apply Forall_app in F. destruct F as [F1 F2].
    rewrite !markers_of_app. unfold table_src_lines at 1. rewrite <- !app_assoc. cbn [markers_of flat_map app].
    rewrite (markers_of_flat_map _ (fun e => [tline (teCond e)])) by (intros e _; reflexivity). rewrite flat_map_single.
    apply Permutation_app_head. cbn [app]. apply Permutation_app.
    + apply (perm_scripts opt _ _ E1). rewrite fmom. exact F1.
    + apply IH; assumption.
Qed.

Lemma perm_top opt tp r is : emit_top ON tl opt tp = Some r -> r = Ok is -> Forall Worklist.src_ok (ProgWf.bodies_of_top tp) ->
  Permutation (markers_of is) (top_src_lines tp).
Proof.
  intros E0 E F. destruct tp as [n g b|v ln| |n g tk steps|n g tk items itoks|n g plain tables]; try discriminate E0.
  - cbn [emit_top] in E0. injection E0 as <-. cbn [ProgWf.bodies_of_top] in F. eapply script_markers_from_source; [exact E|exact (Forall_inv F)].
  - rewrite (markers_emit_top _ _ _ _ _ _ E0 E). reflexivity.
  - rewrite (markers_emit_top _ _ _ _ _ _ E0 E). reflexivity.
  - rewrite (markers_emit_top _ _ _ _ _ _ E0 E). reflexivity.
  - cbn [emit_top] in E0. injection E0 as <-. cbn [ProgWf.bodies_of_top] in F. apply Forall_app in F. destruct F as [F1 F2].
    unfold emit_mapscripts in E. apply bind_i_ok in E. destruct E as (x & E1 & E). apply bind_i_ok in E. destruct E as (y & E2 & E).
    apply ok_inj in E. subst is. cbn [top_src_lines]. rewrite !markers_of_app.
    rewrite (markers_of_flat_map _ (fun m => [tline (msType m)])) by (intros m _; reflexivity).
    rewrite (markers_of_flat_map _ (fun tb => [tline (tmType tb)])) by (intros m _; reflexivity).
    rewrite !flat_map_single. cbn [markers_of flat_map app]. rewrite <- !app_assoc. apply Permutation_app_head, Permutation_app_head. cbn [app].
    apply Permutation_app.
    + apply (perm_scripts opt _ _ E1). rewrite fmom. exact F1.
    + apply (perm_tables opt _ _ E2). exact F2.
Qed.

Lemma perm_tops opt : forall l i is n, emit_tops ON tl opt l i = Ok (is, n) -> Forall Worklist.src_ok (ProgWf.bodies_of l) ->
  Permutation (markers_of is) (flat_map top_src_lines l).
Proof.
  induction l as [|tp r IH]; intros i is n E F; cbn [emit_tops] in E.
  - injection E as <- _. reflexivity.
  - unfold ProgWf.bodies_of in F. cbn [flat_map] in F. apply Forall_app in F. destruct F as [F1 F2].
    destruct (emit_top ON tl opt tp) as [rt|] eqn:ET.
    + apply bind_i_ok in E. destruct E as (x & E1 & E). apply bind_i_ok in E. destruct E as ([y m] & E2 & E). injection E as <- _.
      cbn [flat_map]. rewrite !markers_of_app. replace (markers_of match i with 0%nat => [] | _ => [IBlank] end) with (@nil Z) by (destruct i; reflexivity).
      cbn [app]. apply Permutation_app; [eapply perm_top; eassumption|eapply IH; eassumption].
    + cbn [flat_map]. destruct tp; cbn [emit_top] in ET; try discriminate ET. cbn [top_src_lines top_lines app]. eapply IH; eassumption.
Qed.
End SRCP.

(* M13.  The markers of a program, from its AST alone: up to order, the lines of the announced constructs (the order
         only differs inside scripts, where it is the chunk order). *)
Theorem program_markers_from_source opt path prog is :
  emit_program_instrs opt (Some path) prog = Ok is -> Forall Worklist.src_ok (ProgWf.bodies_of (tops prog)) ->
  Permutation (markers_of is) (program_src_lines prog).
Proof.
  intros E F. unfold emit_program_instrs in E.
  destruct (emit_tops (Some path) (map xname (texts prog)) opt (tops prog) 0) as [[x n]| | | |] eqn:ET; try discriminate. injection E as <-.
  unfold program_src_lines. rewrite markers_of_app, markers_emit_texts. apply Permutation_app_tail. eapply perm_tops; eassumption.
Qed.

(* the number of markers is the number of announced constructs of the source, whatever the chunk order *)
Corollary program_marker_count_from_source opt path prog is :
  emit_program_instrs opt (Some path) prog = Ok is -> Forall Worklist.src_ok (ProgWf.bodies_of (tops prog)) ->
  List.length (markers_of is) = List.length (program_src_lines prog).
Proof. intros E F. apply Permutation_length. eapply program_markers_from_source; eassumption. Qed.

(* ====================================================================================================================== *)
(* PART 4: a concrete program; no predicate on single instructions decides the markers                                    *)
(* ====================================================================================================================== *)
From Pory Require Import Parser.
From Pory Require Compile Format C01Main.
(* M12.  The same on the compiler's entry point: the text it returns for an accepted source is the printed form of an
         instruction list that obeys the rule, and whose markers are program_lines *)
Theorem compile_marker_rule is_letter_hi is_digit_hi is_space_hi autovars switches env_errors fc cli_font cli_maxlen opt path src out :
  Compile.compile is_letter_hi is_digit_hi is_space_hi autovars switches env_errors fc cli_font cli_maxlen opt (Some path) src = Compile.OutText out ->
  exists prog is,
    parse_program autovars switches env_errors (Format.parse_format fc cli_font cli_maxlen env_errors) (lex is_letter_hi is_digit_hi is_space_hi src) = Parser.Ok prog /\
    emit_program_instrs opt (Some path) prog = Emitter.Ok is /\ out = print_instrs (Some path) is /\
    markers_of is = program_lines opt prog /\
    forall pre i post, is = pre ++ i :: post -> notmarker i = true ->
      (exists pre' l k, pre = pre' ++ [IMarker l] /\ In k (program_constructs prog) /\ kline k = l /\ shows k i) \/
      ((forall pre' l, pre <> pre' ++ [IMarker l]) /\
       (invented (header_label prog) i \/ (exists pre' q, pre = pre' ++ [q] /\ continues q i) \/ autovar_of (program_constructs prog) i post)).
Proof.
  intros H. unfold Compile.compile in H.
  destruct (parse_program autovars switches env_errors (Format.parse_format fc cli_font cli_maxlen env_errors) (lex is_letter_hi is_digit_hi is_space_hi src)) as [prog| | |] eqn:HP; try discriminate.
  unfold emit_program in H. destruct (emit_program_instrs opt (Some path) prog) as [is| | | |] eqn:HE; try discriminate.
  injection H as <-. exists prog, is. split; [reflexivity|]. split; [exact HE|]. split; [reflexivity|].
  split; [eapply program_markers; exact HE|eapply marker_rule; exact HE].
Qed.

(* M14.  ... and, from the source alone: the markers of the output of an accepted source text are, up to order, the lines of
         its announced constructs (no hypothesis left: every accepted body passes the source check, ProgSrc) *)
Theorem compile_markers_from_source is_letter_hi is_digit_hi is_space_hi autovars switches env_errors fc cli_font cli_maxlen opt path src out :
  Compile.compile is_letter_hi is_digit_hi is_space_hi autovars switches env_errors fc cli_font cli_maxlen opt (Some path) src = Compile.OutText out ->
  exists prog is,
    parse_program autovars switches env_errors (Format.parse_format fc cli_font cli_maxlen env_errors) (lex is_letter_hi is_digit_hi is_space_hi src) = Parser.Ok prog /\
    emit_program_instrs opt (Some path) prog = Emitter.Ok is /\ out = print_instrs (Some path) is /\
    Permutation (markers_of is) (program_src_lines prog).
Proof.
  intros H. unfold Compile.compile in H.
  destruct (parse_program autovars switches env_errors (Format.parse_format fc cli_font cli_maxlen env_errors) (lex is_letter_hi is_digit_hi is_space_hi src)) as [prog| | |] eqn:HP; try discriminate.
  unfold emit_program in H. destruct (emit_program_instrs opt (Some path) prog) as [is| | | |] eqn:HE; try discriminate.
  injection H as <-. exists prog, is. split; [reflexivity|]. split; [exact HE|]. split; [reflexivity|].
  eapply program_markers_from_source; [exact HE|].
  eapply Forall_impl; [|exact (ProgSrc.accepted_bodies_are_src_ok _ _ _ _ _ _ _ _ _ _ _ HP)]. intros b [X _]. exact X.
Qed.

Module SiteExamples.
Import MarkerExamples.
(* AutoVar command inside a condition (random), a block that ends with 'end', a two-line text, a movement that writes its
   step_end and one that does not, a mart with an ITEM_NONE in the middle, a raw block, a mapscripts block with a table *)
Definition src1 : text := t "script Main {
  lock
  if (random(4) == 2) {
    msgbox(""Hi""
           ""there"")
  }
  end
}
movement A { walk_up
  step_end }
movement B { walk_up }
mart M { ITEM_A
  ITEM_NONE
  ITEM_B }
raw `x
y`
mapscripts Ms { MAP_SCRIPT_ON_LOAD: Main
 MAP_SCRIPT_ON_FRAME_TABLE [ VAR_A, 1: Main ] }
".
Definition prog1 : program :=
  match parse_program av0 [] false (Format.parse_format fc0 [] 0%Z false) (lex nohi nohi nohi src1) with Parser.Ok p => p | _ => {| tops := []; texts := [] |} end.
Definition is1 : list instr := match emit_program_instrs false (Some (t "a.pory")) prog1 with Emitter.Ok is => is | _ => [] end.
Definition step_end_line : instr := ILine (tab ++ t "step_end").

(* what each instruction of the output is, and whether a marker stands before it: M = marker, c = command, L = label,
   d = data line, l = verbatim line, t = first instruction of a test, . = anything else *)
Definition kind (i : instr) : string :=
  (match i with IMarker _ => "M" | ICmd _ => "c" | ILabel _ _ => "L" | IData _ _ => "d" | ILine _ => "l"
             | ICompare _ _ _ | IGotoIfSet _ _ | IGotoIfUnset _ _ | ICheckTrainer _ | ISwitch _ | ICase _ _ => "t" | _ => "." end)%string.
Example ex_program :
  parse_program av0 [] false (Format.parse_format fc0 [] 0%Z false) (lex nohi nohi nohi src1) = Parser.Ok prog1 /\
  emit_program_instrs false (Some (t "a.pory")) prog1 = Emitter.Ok is1 /\
  (* Main: lock goto | Main_1: end | Main_2: msgbox goto | Main_3: random MARKER compare goto_if_eq goto | blank blank
     A: walk_up step_end | B: walk_up + invented step_end | .align M: ITEM_A + invented ITEM_NONE | raw x y
     Ms: two map_script lines, .byte 0, blank | table label, entry, .2byte 0, blank | blank, text label, marker, two data lines *)
  String.concat "" (map kind is1) = "LMc..L..LMc..LcMt....MLMlMl.MLMll.lMLMll.MlMl.LMlMll.LMll..LMdd"%string /\
  markers_of is1 = [2; 4; 3; 9; 9; 10; 11; 11; 12; 12; 15; 16; 17; 18; 18; 4]%Z /\
  program_lines false prog1 = markers_of is1.
Proof. split; [vm_compute; reflexivity|]. split; [vm_compute; reflexivity|]. split; [vm_compute; reflexivity|]. split; vm_compute; reflexivity. Qed.

(* the hypothesis of the main theorems holds of it, and their conclusions can be read off: the written 'end' of line 7 is
   rendered by the final 'end' of chunk Main_1 and has no marker; 'random 4' (line 3) stands before the marker of its condition *)
Example ex_rule_applies :
  exists pre i l post, is1 = pre ++ i :: IMarker l :: post /\ (exists c, i = ICmd c /\ cname c = t "random") /\ l = 3%Z /\
                       (forall pre' l', pre <> pre' ++ [IMarker l']).
Proof.
  exists (firstn 14 is1), (nth 14 is1 IBlank), 3%Z, (skipn 16 is1).
  split; [vm_compute; reflexivity|]. split; [vm_compute; eexists; split; reflexivity|]. split; [reflexivity|].
  intros pre' l' E. assert (E2 : firstn 14 is1 = firstn 13 is1 ++ [nth 13 is1 IBlank]) by (vm_compute; reflexivity).
  rewrite E2 in E. apply app_inj_tail in E. destruct E as [_ E]. vm_compute in E. discriminate E.
Qed.

(* the hypotheses of script_markers_from_source hold of the script of src1; its announced constructs, from the source:
   lock (2), the condition (3), msgbox (4) - not the final end (7); the markers of the script: 2, 4, 3 *)
Definition body1 : list stmt := match tops prog1 with TScript _ _ b :: _ => b | _ => [] end.
Example ex_script_from_source :
  Worklist.src_ok body1 /\ map kline (block_sites body1) = [2; 3; 4]%Z /\
  exists is, emit_script (Some (t "a.pory")) [] (t "Main") true false body1 = Emitter.Ok is /\ markers_of is = [2; 4; 3]%Z.
Proof.
  split; [apply C01Main.src_okb_sound; vm_compute; reflexivity|]. split; [vm_compute; reflexivity|].
  eexists. split; vm_compute; reflexivity.
Qed.

(* the hypothesis of program_markers_from_source holds of prog1, and the source side of its conclusion can be computed:
   the script's lines come in source order (2, 3, 4), in the output in chunk order (2, 4, 3) *)
Example ex_program_from_source :
  Forall Worklist.src_ok (ProgWf.bodies_of (tops prog1)) /\
  program_src_lines prog1 = [2; 3; 4; 9; 9; 10; 11; 11; 12; 12; 15; 16; 17; 18; 18; 4]%Z.
Proof.
  split; [|vm_compute; reflexivity]. apply Forall_forall. intros b Hb. apply C01Main.src_okb_sound.
  assert (A : forallb C01Main.src_okb (ProgWf.bodies_of (tops prog1)) = true) by (vm_compute; reflexivity).
  rewrite forallb_forall in A. exact (A b Hb).
Qed.

(* constructs that are written but not announced, because the compiler emits nothing for them: the trailing empty cases
   2 and 3 of the first switch (no case line, no marker), the whole second switch (all its cases are empty: it is elided,
   its operand on line 8 is not announced), the final 'return' (rendered by the chunk's own return, no marker) *)
Definition src2 : text := t "script S {
  switch (var(VAR_X)) {
    case 1:
      foo
    case 2:
    case 3:
  }
  switch (var(VAR_Y)) {
    case 4:
    case 5:
  }
  return
}
".
Definition prog2 : program :=
  match parse_program av0 [] false (Format.parse_format fc0 [] 0%Z false) (lex nohi nohi nohi src2) with Parser.Ok p => p | _ => {| tops := []; texts := [] |} end.
Definition is2 : list instr := match emit_program_instrs false (Some (t "a.pory")) prog2 with Emitter.Ok is => is | _ => [] end.
Example ex_not_announced :
  parse_program av0 [] false (Format.parse_format fc0 [] 0%Z false) (lex nohi nohi nohi src2) = Parser.Ok prog2 /\
  emit_program_instrs false (Some (t "a.pory")) prog2 = Emitter.Ok is2 /\
  markers_of is2 = [2; 3; 4]%Z /\ program_src_lines prog2 = [2; 3; 4]%Z /\
  filter (fun i => match i with ICase _ _ | ISwitch _ => true | _ => false end) is2 = [ISwitch (t "VAR_X"); ICase (t "1") (t "S_3")].
Proof. split; [vm_compute; reflexivity|]. split; [vm_compute; reflexivity|]. split; [vm_compute; reflexivity|]. split; vm_compute; reflexivity. Qed.

(* THE STATEMENT ASKED FOR IN ITS SIMPLEST FORM IS FALSE: no predicate wants_marker : instr -> bool characterises the
   instructions that are preceded by a marker.  In the output of src1 the line "	step_end" occurs twice: written by the
   author in movement A (marker before it) and added by the compiler in movement B (no marker).  (The same happens for
   labels - a script label against a label statement of the same name in another script - and for commands.)  The rule
   has to speak about positions: marker_rule. *)
Theorem no_instruction_predicate_decides_markers :
  ~ exists wants : instr -> bool,
      forall opt path prog is pre i post,
        emit_program_instrs opt (Some path) prog = Emitter.Ok is -> is = pre ++ i :: post ->
        (wants i = true <-> exists pre' l, pre = pre' ++ [IMarker l]).
Proof.
  intros [wants W].
  assert (HE : emit_program_instrs false (Some (t "a.pory")) prog1 = Emitter.Ok is1) by (vm_compute; reflexivity).
  assert (E1 : is1 = firstn 26 is1 ++ step_end_line :: skipn 27 is1) by (vm_compute; reflexivity).
  assert (E2 : is1 = firstn 32 is1 ++ step_end_line :: skipn 33 is1) by (vm_compute; reflexivity).
  pose proof (proj2 (W _ _ _ _ _ _ _ HE E1)) as W1. pose proof (proj1 (W _ _ _ _ _ _ _ HE E2)) as W2.
  destruct W2 as (pre' & l & E).
  - apply W1. exists (firstn 25 is1), 10%Z. vm_compute. reflexivity.
  - assert (E3 : firstn 32 is1 = firstn 31 is1 ++ [nth 31 is1 IBlank]) by (vm_compute; reflexivity).
    rewrite E3 in E. apply app_inj_tail in E. destruct E as [_ E]. vm_compute in E. discriminate E.
Qed.
End SiteExamples.
