(* C01: source semantics = semantics of the emitted instruction list, for every script on which the two executable
   validators (relation checker, render check) accept the model's own chunk graph and code. *)
From Coq Require Import List String Ascii ZArith NArith Lia Bool.
From Pory Require Import Lexer Ast Emitter Sem2 SemTgt Tr Check C01Proofs EmitProps RenderSim RenderCheck LabelSim.
Import ListNotations.
Open Scope list_scope.
Opaque work_fuel emit_graph work opt_order order_of render_chunks.

Lemma res_le_trans (a b c : result) : res_le a b -> res_le b c -> res_le a c.
Proof.
  intros [[x Hx] H1] [[y Hy] H2]. split.
  - exists (x ++ y). rewrite Hy, Hx. now rewrite app_assoc.
  - intros o Ho. specialize (H1 o Ho). subst b. apply (H2 o Ho).
Qed.

Section S.
Variable St : Type.
Variable exec : cmd -> St -> stepres St.
Variable flag_set trainer_beaten : text -> St -> bool.
Variable cmp_var cmp_var_value : text -> text -> St -> comparison.
Variable case_matches : text -> text -> St -> bool.

Notation sstep fl := (sstep St exec flag_set trainer_beaten cmp_var cmp_var_value case_matches fl).
Notation tstep code := (tstep St exec flag_set trainer_beaten cmp_var cmp_var_value case_matches code).

Theorem emit_script_correct_checked
  (mp : option text) (tl : list text) (name : text) (glob optimize : bool) (body : list stmt)
  (w : wst) (code : list instr) (find_label : text -> option sstate) (fuel : nat) :
  emit_graph body = Ok w ->
  emit_script mp tl name glob optimize body = Ok code ->
  chk_block (finals w) (brk w) (org w) fuel body 0 (-1) = true ->
  wf_render mp name (finals w) (order_of optimize (finals w)) code = true ->
  scoped None None body ->
  label_lookup_agrees St exec flag_set trainer_beaten cmp_var cmp_var_value case_matches (finals w) (brk w) (org w) find_label ->
  label_lookup_scoped find_label ->
  (forall n s, exists m,
      run sfinal (sstep find_label) n (enter body Kstop) s = run (@tfinal) (tstep code) m (jump code name) s) /\
  (forall m s, exists n,
      res_le (run (@tfinal) (tstep code) m (jump code name) s) (run sfinal (sstep find_label) n (enter body Kstop) s)).
Proof.
  intros HW HE HC HR HS HL1 HL2.
  unfold emit_script in HE. rewrite HW in HE.
  destruct (render_sim_checked St exec flag_set trainer_beaten cmp_var cmp_var_value case_matches _ _ _ _ _ _ _ HE HR) as [FW BW].
  assert (GI : forall i c, get_chunk (finals w) i = Some c -> (0 <= i)%Z).
  { intros i c Hc. unfold wf_render in HR. andb HR.
    match goal with K : forallb (fun c => zmem (cid c) _) (finals w) = true |- _ => rename K into K4 end.
    match goal with K : forallb (fun d => (0 <=? d)%Z && _) _ = true |- _ => rename K into K3 end.
    rewrite forallb_forall in K3, K4. pose proof (get_chunk_in _ _ _ Hc) as I. pose proof (get_chunk_cid _ _ _ Hc) as E.
    specialize (K4 c I). apply zmem_in in K4. rewrite E in K4. specialize (K3 i K4). apply andb_prop in K3. destruct K3 as [P _].
    apply Z.leb_le. exact P. }
  pose proof (checked_graph_sim St exec flag_set trainer_beaten cmp_var cmp_var_value case_matches (finals w) (brk w) (org w) find_label
                fuel body GI HC HS HL1 HL2) as GS.
  split.
  - intros n s. destruct (GS n s) as (m1 & _ & R1). destruct (FW m1 s) as (m2 & R2). exists m2. congruence.
  - intros m s. destruct (BW m s) as (n1 & R1). destruct (GS n1 s) as (m1 & LE & R2).
    exists n1. eapply res_le_trans; [exact R1|]. rewrite R2. apply run_mono. exact LE.
Qed.

(* C05 (a): -optimize changes layout only: the two outputs have the same behaviours (each run of one is a prefix of a
   run of the other, equal once finished), whenever both pass the validators *)
Corollary optimize_equiv_checked
  (mp : option text) (tl : list text) (name : text) (glob : bool) (body : list stmt)
  (w : wst) (code0 code1 : list instr) (find_label : text -> option sstate) (fuel : nat) :
  emit_graph body = Ok w ->
  emit_script mp tl name glob false body = Ok code0 ->
  emit_script mp tl name glob true body = Ok code1 ->
  chk_block (finals w) (brk w) (org w) fuel body 0 (-1) = true ->
  wf_render mp name (finals w) (order_of false (finals w)) code0 = true ->
  wf_render mp name (finals w) (order_of true (finals w)) code1 = true ->
  scoped None None body ->
  label_lookup_agrees St exec flag_set trainer_beaten cmp_var cmp_var_value case_matches (finals w) (brk w) (org w) find_label ->
  label_lookup_scoped find_label ->
  (forall m s, exists m', res_le (run (@tfinal) (tstep code0) m (jump code0 name) s) (run (@tfinal) (tstep code1) m' (jump code1 name) s)) /\
  (forall m s, exists m', res_le (run (@tfinal) (tstep code1) m (jump code1 name) s) (run (@tfinal) (tstep code0) m' (jump code0 name) s)).
Proof.
  intros HW H0 H1 HC R0 R1 HS L1 L2.
  destruct (emit_script_correct_checked mp tl name glob false body w code0 find_label fuel HW H0 HC R0 HS L1 L2) as [F0 B0].
  destruct (emit_script_correct_checked mp tl name glob true body w code1 find_label fuel HW H1 HC R1 HS L1 L2) as [F1 B1].
  split; intros m s.
  - destruct (B0 m s) as (n & R). destruct (F1 n s) as (m' & E). exists m'. rewrite <- E. exact R.
  - destruct (B1 m s) as (n & R). destruct (F0 n s) as (m' & E). exists m'. rewrite <- E. exact R.
Qed.

(* the third validator: switches well formed, chunk labels distinct and all found in the body *)
Definition labels_okb (body : list stmt) (G : list chunk) : bool :=
  swfb body && nodupt (chunk_labels G) &&
  forallb (fun n => match fl_body n body Kstop with Some _ => true | None => false end) (chunk_labels G).

(* THE THEOREM of C01 with no semantic hypothesis left: `goto L` in the source resumes at the state fl_body computes;
   premises are the three executable validators and well-scopedness (a theorem for every accepted program) *)
Theorem emit_script_correct_validated
  (mp : option text) (tl : list text) (name : text) (glob optimize : bool) (body : list stmt)
  (w : wst) (code : list instr) (fuel : nat) :
  emit_graph body = Ok w ->
  emit_script mp tl name glob optimize body = Ok code ->
  chk_block (finals w) (brk w) (org w) fuel body 0 (-1) = true ->
  wf_render mp name (finals w) (order_of optimize (finals w)) code = true ->
  labels_okb body (finals w) = true ->
  scoped None None body ->
  (forall n s, exists m,
      run sfinal (sstep (fun l => fl_body l body Kstop)) n (enter body Kstop) s = run (@tfinal) (tstep code) m (jump code name) s) /\
  (forall m s, exists n,
      res_le (run (@tfinal) (tstep code) m (jump code name) s) (run sfinal (sstep (fun l => fl_body l body Kstop)) n (enter body Kstop) s)).
Proof.
  intros HW HE HC HR HL HS.
  assert (GI : forall i c, get_chunk (finals w) i = Some c -> (0 <= i)%Z).
  { intros i c Hc. pose proof HR as HR'. unfold wf_render in HR'. andb HR'.
    match goal with K : forallb (fun c => zmem (cid c) _) (finals w) = true |- _ => rename K into K4 end.
    match goal with K : forallb (fun d => (0 <=? d)%Z && _) _ = true |- _ => rename K into K3 end.
    rewrite forallb_forall in K3, K4. pose proof (get_chunk_in _ _ _ Hc) as I. pose proof (get_chunk_cid _ _ _ Hc) as E.
    specialize (K4 c I). apply zmem_in in K4. rewrite E in K4. specialize (K3 i K4). apply andb_prop in K3. destruct K3 as [P _].
    apply Z.leb_le. exact P. }
  unfold labels_okb in HL. apply andb_prop in HL. destruct HL as [HL L3]. apply andb_prop in HL. destruct HL as [L1 L2].
  eapply emit_script_correct_checked; eauto.
  - eapply label_lookup_agrees_holds; eauto.
    + eapply check_tr_sound; eauto.
    + apply nodupt_sound. exact L2.
    + intros n Hn. rewrite forallb_forall in L3. specialize (L3 n Hn). destruct (fl_body n body Kstop); [discriminate|discriminate L3].
  - apply label_lookup_scoped_holds. exact HS.
Qed.

Corollary optimize_equiv_validated
  (mp : option text) (tl : list text) (name : text) (glob : bool) (body : list stmt)
  (w : wst) (code0 code1 : list instr) (fuel : nat) :
  emit_graph body = Ok w ->
  emit_script mp tl name glob false body = Ok code0 ->
  emit_script mp tl name glob true body = Ok code1 ->
  chk_block (finals w) (brk w) (org w) fuel body 0 (-1) = true ->
  wf_render mp name (finals w) (order_of false (finals w)) code0 = true ->
  wf_render mp name (finals w) (order_of true (finals w)) code1 = true ->
  labels_okb body (finals w) = true ->
  scoped None None body ->
  (forall m s, exists m', res_le (run (@tfinal) (tstep code0) m (jump code0 name) s) (run (@tfinal) (tstep code1) m' (jump code1 name) s)) /\
  (forall m s, exists m', res_le (run (@tfinal) (tstep code1) m (jump code1 name) s) (run (@tfinal) (tstep code0) m' (jump code0 name) s)).
Proof.
  intros HW H0 H1 HC R0 R1 HL HS.
  destruct (emit_script_correct_validated mp tl name glob false body w code0 fuel HW H0 HC R0 HL HS) as [F0 B0].
  destruct (emit_script_correct_validated mp tl name glob true body w code1 fuel HW H1 HC R1 HL HS) as [F1 B1].
  split; intros m s.
  - destruct (B0 m s) as (n & R). destruct (F1 n s) as (m' & E). exists m'. rewrite <- E. exact R.
  - destruct (B1 m s) as (n & R). destruct (F0 n s) as (m' & E). exists m'. rewrite <- E. exact R.
Qed.
End S.
