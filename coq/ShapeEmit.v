(* C19 - emitter half of "... and hence never changes the compiled output without line markers".

   The lexer theorems (LexLayout.v, LexBetween.v, LexRest.v) say that layout does not change the sequence of token types
   and literals; the sibling file ShapeParse.v says that the parser reads types and literals only, i.e. two token lists of
   equal shapes give programs of equal ERASURE. This file is the last link: with line markers off, the emitter's result
   is a function of the erasure of the program.

   The erasure (section 1). `erase_tok` keeps `ttype` and `tlit` and sets the six position fields to 0. `erase_program`
   applies it to every token of the AST and sets every line field to 0: `ctok` of every command (also of the command
   hoisted in front of a condition, `lpre`), `lline` of every condition leaf, the token of every label statement, the
   operand line and every case line of a switch, `xtok` of every text, the line of a raw statement, the token and the
   step tokens of a movement, the token and the item tokens of a mart, `msType` / `tmType` / `teCond` of a mapscripts
   statement. Names, arguments, values, loop / switch tags and command ids (`Ast.cid`) are kept. `erase_program` is a
   projection (`erase_program_idem`), and two erased tokens are equal exactly when the tokens have the same shape
   (`erase_tok_shape_iff`, `erase_toks_shape_iff`).

   Main statements (all for every program, every `optimize`, line markers off = `None`; all closed under the global context):
   - emit_program_erase:           emit_program optimize None (erase_program p) = eres (fun x => x) (emit_program optimize None p),
                                   where `eres f` maps `Ok x` to `Ok (f x)`, `ErrLabel tk b` to `ErrLabel (erase_tok tk) b`
                                   and every other error to itself. Read case by case: emit_program_erase_ok (an `Ok x`
                                   on one side iff the same `Ok x` on the other), emit_program_erase_label,
                                   emit_program_erase_other.
   - emit_program_instrs_erase:    the same one level down: the instruction lists are equal up to the tokens inside the
                                   `ICmd` instructions (`erase_instrs`), which printing ignores (print_instrs_erase).
   - the layers: work_erase / emit_graph_erase (the chunk graph of the erased body is the erased chunk graph: the same
     ids, return ids, branch targets, tag tables and counter; the statements inside the chunks and the leaves / switch
     tables of the branchers erased pointwise), order_of_erase (the same chunk order, optimized or not),
     render_chunks_erase, emit_script_erase, emit_movement_erase, emit_mart_erase, emit_raw_erase, emit_text_erase,
     emit_mapscripts_erase, emit_top_erase, emit_tops_erase, emit_texts_erase.
   - equal_erasures_equal_output:  erase_program p1 = erase_program p2 -> the two results are the same (`same_result`:
                                   the same text; or the same kind of error, for a label clash at tokens of the same
                                   type and literal). Corollary equal_erasures_equal_text.
   - compile_equal_erasures:       for `Compile.compile ... optimize None`: two sources whose parsed programs have equal
                                   erasures compile to the same text, or both report "duplicate label" at tokens of the
                                   same type and literal, or both stop with the same emitter error (`same_outcome`).
                                   Corollary compile_equal_erasures_text.
   - compile_agree (compile_agree_weak): the same, stated on the two parse results whatever they are (`parse_agree`).
   - commuting_parser_reads_shapes: a parser that commutes with the erasure satisfies the premise below (a bridge to
     ShapeParse.v, generic in the parser).
   - conditional on the parser half (a section hypothesis `parser_reads_shapes`, which becomes an explicit premise; it is
     the main theorem of ShapeParse.v): equal_shapes_equal_output (equal `map shape (lex src)` -> same outcome), and with
     the lexer theorems leading_layout_same_output, layout_between_tokens_same_output, trailing_layout_same_output: a gap
     of whitespace and comments in front of the first token, between two tokens, behind the last token does not change
     the compiled output without line markers.
   - examples (section 9): two layouts of a source with every kind of top-level statement, statement and condition:
     different programs, equal shapes, equal erasures, the same output, different outputs with markers on
     (ex_markers_differ: "without line markers" is necessary); a label clash reported at different positions.

   Findings: none. No field holding a position or a line influences the output without markers. The only place where
   positions survive is the error `ErrLabel tk b` (the compiler reports the position of the label token), which the
   statements account for. *)
From Coq Require Import List String Ascii ZArith NArith Lia Bool.
From Pory Require Import Lexer Ast Emitter Worklist.
From Pory Require Parser Format Compile LexLayout LexBetween LexRest LabelSim.
Import ListNotations.
Open Scope list_scope.

(* ================================================================================================================= *)
(* 1. The erasure                                                                                                      *)
(* ================================================================================================================= *)
Definition erase_tok (tk : token) : token :=
  {| ttype := ttype tk; tlit := tlit tk; tline := 0; tsb := 0; tsu := 0; teline := 0; teb := 0; teu := 0 |}.

Definition erase_cmd (c : cmd) : cmd :=
  {| cname := cname c; cargs := cargs c; ctok := erase_tok (ctok c); Ast.cid := Ast.cid c |}.

Definition erase_leaf (l : leaf) : leaf :=
  {| lk := lk l; loperand := loperand l; lline := 0; lop := lop l; lvalue := lvalue l; lstrict := lstrict l;
     lpre := option_map erase_cmd (lpre l) |}.

Fixpoint erase_bexp (e : bexp) : bexp :=
  match e with
  | BLeaf l => BLeaf (erase_leaf l)
  | BBin o a b => BBin o (erase_bexp a) (erase_bexp b)
  end.

Fixpoint erase_stmt (s : stmt) : stmt :=
  match s with
  | SCmd c => SCmd (erase_cmd c)
  | SLabel n g tk => SLabel n g (erase_tok tk)
  | SIf conds els =>
      SIf (map (fun cb : bexp * list stmt => (erase_bexp (fst cb), map erase_stmt (snd cb))) conds)
          (option_map (map erase_stmt) els)
  | SWhile tag c body => SWhile tag (option_map erase_bexp c) (map erase_stmt body)
  | SDoWhile tag body c => SDoWhile tag (map erase_stmt body) (erase_bexp c)
  | SBreak tag => SBreak tag
  | SContinue tag => SContinue tag
  | SSwitch tag operand oline cases =>
      SSwitch tag operand 0
        (map (fun c : scase => (sc_def c, sc_val c, 0%Z, map erase_stmt (sc_body c))) cases)
  end.
Definition erase_stmts (ss : list stmt) : list stmt := map erase_stmt ss.
Definition erase_cond (cb : bexp * list stmt) : bexp * list stmt := (erase_bexp (fst cb), erase_stmts (snd cb)).
Definition erase_case (c : scase) : scase := (sc_def c, sc_val c, 0%Z, erase_stmts (sc_body c)).

Definition erase_textdef (x : textdef) : textdef :=
  {| xname := xname x; xvalue := xvalue x; xtype := xtype x; xglob := xglob x; xtok := erase_tok (xtok x) |}.

Definition erase_mapscript (m : mapscript) : mapscript :=
  {| msType := erase_tok (msType m); msName := msName m; msScript := option_map erase_stmts (msScript m) |}.
Definition erase_tableentry (e : tableentry) : tableentry :=
  {| teCond := erase_tok (teCond e); teCondLit := teCondLit e; teCmp := teCmp e; teName := teName e;
     teScript := option_map erase_stmts (teScript e) |}.
Definition erase_tablems (tb : tablems) : tablems :=
  {| tmType := erase_tok (tmType tb); tmName := tmName tb; tmEntries := map erase_tableentry (tmEntries tb) |}.

Definition erase_top (tp : top) : top :=
  match tp with
  | TScript n g b => TScript n g (erase_stmts b)
  | TRaw v ln => TRaw v 0
  | TTextStmt => TTextStmt
  | TMovement n g tk steps => TMovement n g (erase_tok tk) (map erase_tok steps)
  | TMart n g tk items itoks => TMart n g (erase_tok tk) items (map erase_tok itoks)
  | TMapScripts n g plain tables => TMapScripts n g (map erase_mapscript plain) (map erase_tablems tables)
  end.

Definition erase_program (p : program) : program :=
  {| tops := map erase_top (tops p); texts := map erase_textdef (texts p) |}.

(* the unfolding equations of erase_stmt, in terms of the named pieces *)
Lemma erase_stmt_if conds els :
  erase_stmt (SIf conds els) = SIf (map erase_cond conds) (option_map erase_stmts els).
Proof. reflexivity. Qed.
Lemma erase_stmt_switch tag operand oline cases :
  erase_stmt (SSwitch tag operand oline cases) = SSwitch tag operand 0 (map erase_case cases).
Proof. reflexivity. Qed.

(* the erasure forgets positions and nothing else: it is idempotent and keeps type and literal *)
Lemma erase_tok_idem tk : erase_tok (erase_tok tk) = erase_tok tk.
Proof. reflexivity. Qed.
Lemma erase_tok_shape tk : ttype (erase_tok tk) = ttype tk /\ tlit (erase_tok tk) = tlit tk.
Proof. split; reflexivity. Qed.

(* instructions: only ICmd carries a token *)
Definition erase_instr (i : instr) : instr :=
  match i with ICmd c => ICmd (erase_cmd c) | _ => i end.

(* results: an ErrLabel carries the token of the offending label *)
Definition eres {A B} (f : A -> B) (r : res A) : res B :=
  match r with
  | Ok a => Ok (f a)
  | ErrBreak => ErrBreak | ErrContinue => ErrContinue | OutOfFuel => OutOfFuel
  | ErrLabel tk b => ErrLabel (erase_tok tk) b
  end.

Lemma eres_bind {A B A' B'} (h : A -> A') (g : B -> B') (r : res A) (f : A -> res B) (f' : A' -> res B') :
  (forall a, eres g (f a) = f' (h a)) -> eres g (bind_i r f) = bind_i (eres h r) f'.
Proof. intros H. destruct r; cbn; auto. Qed.

(* ================================================================================================================= *)
(* 2. The chunk graph                                                                                                  *)
(* ================================================================================================================= *)
Definition erase_swcase (x : text * Z * Z) : text * Z * Z := (fst (fst x), 0%Z, snd x).
Definition erase_brancher (b : brancher) : brancher :=
  match b with
  | BrJump d => BrJump d
  | BrBreak d => BrBreak d
  | BrLeaf l tr fa => BrLeaf (erase_leaf l) tr fa
  | BrSwitch operand oline cases def dest => BrSwitch operand 0 (map erase_swcase cases) def dest
  end.
Definition erase_chunk (c : chunk) : chunk :=
  {| cid := cid c; cret := cret c; cend := cend c; cstmts := erase_stmts (cstmts c); cbr := option_map erase_brancher (cbr c) |}.
Definition erase_chunks := map erase_chunk.
Definition erase_wst (w : wst) : wst :=
  {| remaining := erase_chunks (remaining w); finals := erase_chunks (finals w); counter := counter w; brk := brk w; org := org w |}.

Lemma erase_mk i r ss b : erase_chunk (mk i r ss b) = mk i r (erase_stmts ss) (option_map erase_brancher b).
Proof. reflexivity. Qed.

Lemma erase_stmts_length ss : List.length (erase_stmts ss) = List.length ss.
Proof. apply map_length. Qed.

Lemma is_endret_erase s : is_endret (erase_stmt s) = is_endret s.
Proof. destruct s; reflexivity. Qed.

Lemma scan_erase ss : forall i n, scan (erase_stmts ss) i n = scan ss i n.
Proof.
  induction ss as [|s r IH]; intros i n; [reflexivity|].
  destruct s as [c|nm g tk|conds els|tag c body|tag body c|tag|tag|tag op ol cases]; cbn [erase_stmts map erase_stmt scan];
    try reflexivity; try apply IH.
  fold (erase_stmts r). rewrite IH. destruct (Nat.eqb i (n - 1)); [|reflexivity].
  change (is_endret (SCmd (erase_cmd c))) with (is_endret (erase_stmt (SCmd c))). rewrite is_endret_erase. reflexivity.
Qed.

Definition e3 (x : list chunk * Z * Z) : list chunk * Z * Z :=
  let '(n, r, c) := x in (erase_chunks n, r, c).
Definition e4z (x : list chunk * Z * Z * Z) : list chunk * Z * Z * Z :=
  let '(n, a, r, c) := x in (erase_chunks n, a, r, c).
Definition e4b (x : list chunk * brancher * Z * Z) : list chunk * brancher * Z * Z :=
  let '(n, b, r, c) := x in (erase_chunks n, erase_brancher b, r, c).

Lemma erase_chunks_app a b : erase_chunks (a ++ b) = erase_chunks a ++ erase_chunks b.
Proof. apply map_app. Qed.
Lemma erase_chunks_ids cs : map cid (erase_chunks cs) = map cid cs.
Proof. unfold erase_chunks. rewrite map_map. reflexivity. Qed.

Lemma sfb_erase cur i c : split_for_branch (erase_chunk cur) i c = e3 (split_for_branch cur i c).
Proof.
  unfold split_for_branch. cbn [cstmts cret erase_chunk]. rewrite erase_stmts_length.
  destruct (Nat.eqb i (List.length (cstmts cur) - 1)); [reflexivity|].
  unfold erase_stmts. rewrite skipn_map. reflexivity.
Qed.

Lemma split_bexp_erase e : forall c s f fi, split_bexp (erase_bexp e) c s f fi = e4z (split_bexp e c s f fi).
Proof.
  induction e as [l|o a IHa b IHb]; intros c s f fi; [reflexivity|].
  destruct o; cbn [erase_bexp split_bexp]; rewrite IHa;
    match goal with |- context [split_bexp a ?x1 ?x2 ?x3 ?x4] => destruct (split_bexp a x1 x2 x3 x4) as [[[ra la] f1] c1] end;
    cbn [e4z]; rewrite IHb;
    match goal with |- context [split_bexp b ?x1 ?x2 ?x3 ?x4] => destruct (split_bexp b x1 x2 x3 x4) as [[[rb lb] f2] c2] end;
    cbn [e4z]; rewrite !erase_chunks_app; reflexivity.
Qed.

Lemma mk_body_chunks_erase bodies : forall c ret,
  mk_body_chunks (map erase_stmts bodies) c ret = let '(cs, c') := mk_body_chunks bodies c ret in (erase_chunks cs, c').
Proof.
  induction bodies as [|b r IH]; intros c ret; [reflexivity|].
  cbn [map mk_body_chunks]. rewrite IH. destruct (mk_body_chunks r (c + 1) ret) as [cs c']. reflexivity.
Qed.

Definition erase_elif (x : bexp * Z) : bexp * Z := (erase_bexp (fst x), snd x).

Lemma stitch_erase l : forall c fail, stitch_elifs (map erase_elif l) c fail = e3 (stitch_elifs l c fail).
Proof.
  induction l as [|[e bodyid] r IH]; intros c fail; [reflexivity|].
  cbn [map erase_elif stitch_elifs fst snd]. rewrite split_bexp_erase.
  destruct (split_bexp e c bodyid fail (-1)) as [[[cs x] first] c1]. cbn [e4z]. rewrite IH.
  destruct (stitch_elifs r c1 first) as [[cs2 entry] c2]. cbn [e3]. rewrite erase_chunks_app. reflexivity.
Qed.

Lemma combine_erase (a : list bexp) : forall (ids : list Z),
  combine (map erase_bexp a) ids = map erase_elif (combine a ids).
Proof. induction a as [|x r IH]; intros [|i ids]; try reflexivity. cbn. rewrite IH. reflexivity. Qed.

Lemma create_if_erase conds els cur i c :
  create_if (map erase_cond conds) (option_map erase_stmts els) (erase_chunk cur) i c = e4b (create_if conds els cur i c).
Proof.
  unfold create_if. rewrite sfb_erase. destruct (split_for_branch cur i c) as [[post ret] c0]. cbn [e3].
  replace (map snd (map erase_cond conds)) with (map erase_stmts (map snd conds)) by (rewrite !map_map; reflexivity).
  replace (map fst (map erase_cond conds)) with (map erase_bexp (map fst conds)) by (rewrite !map_map; reflexivity).
  rewrite mk_body_chunks_erase. destruct (mk_body_chunks (map snd conds) c0 ret) as [bodychunks c1].
  rewrite erase_chunks_ids, combine_erase.
  assert (K : forall elsechunk c2 finalfail,
    match map erase_elif (combine (map fst conds) (map cid bodychunks)) with
    | [] => (erase_chunks post, BrJump (-1), ret, c2)
    | first :: elifs =>
        let '(cs, entryfail, c3) := stitch_elifs (rev elifs) c2 finalfail in
        let '(cs1, _, entry, c4) := split_bexp (fst first) c3 (snd first) entryfail (-1) in
        (erase_chunks post ++ erase_chunks bodychunks ++ erase_chunks elsechunk ++ cs ++ cs1, BrJump entry, ret, c4)
    end =
    e4b match combine (map fst conds) (map cid bodychunks) with
    | [] => (post, BrJump (-1), ret, c2)
    | first :: elifs =>
        let '(cs, entryfail, c3) := stitch_elifs (rev elifs) c2 finalfail in
        let '(cs1, _, entry, c4) := split_bexp (fst first) c3 (snd first) entryfail (-1) in
        (post ++ bodychunks ++ elsechunk ++ cs ++ cs1, BrJump entry, ret, c4)
    end).
  { intros elsechunk c2 finalfail. destruct (combine (map fst conds) (map cid bodychunks)) as [|[e1 id1] elifs]; [reflexivity|].
    cbn [map erase_elif fst snd]. rewrite <- map_rev, stitch_erase.
    destruct (stitch_elifs (rev elifs) c2 finalfail) as [[cs entryfail] c3]. cbn [e3]. rewrite split_bexp_erase.
    destruct (split_bexp e1 c3 id1 entryfail (-1)) as [[[cs1 x] entry] c4]. cbn [e4z e4b erase_brancher].
    rewrite !erase_chunks_app. reflexivity. }
  destruct els as [b|]; cbn [option_map].
  - apply (K [mk (c1 + 1) ret b None]).
  - apply (K []).
Qed.

Lemma create_while_erase c body cur i cn :
  create_while (option_map erase_bexp c) (erase_stmts body) (erase_chunk cur) i cn = e4b (create_while c body cur i cn).
Proof.
  unfold create_while. rewrite sfb_erase. destruct (split_for_branch cur i cn) as [[post ret] c0]. cbn [e3].
  destruct c as [e|]; cbn [option_map].
  - rewrite split_bexp_erase. destruct (split_bexp e (c0 + 2) (c0 + 2) ret (-1)) as [[[cs x] entry] c1].
    cbn [e4z e4b erase_brancher]. rewrite !erase_chunks_app. reflexivity.
  - cbn [e4b erase_brancher]. rewrite !erase_chunks_app. reflexivity.
Qed.

Lemma create_dowhile_erase body e cur i cn :
  create_dowhile (erase_stmts body) (erase_bexp e) (erase_chunk cur) i cn = e4b (create_dowhile body e cur i cn).
Proof.
  unfold create_dowhile. rewrite sfb_erase. destruct (split_for_branch cur i cn) as [[post ret] c0]. cbn [e3].
  rewrite split_bexp_erase. destruct (split_bexp e (c0 + 2) (c0 + 2) ret (-1)) as [[[cs x] entry] c1].
  cbn [e4z e4b erase_brancher]. rewrite !erase_chunks_app. reflexivity.
Qed.

(* the switch *)
Definition erase_swst (st : swst) : swst :=
  {| sw_new := erase_chunks (sw_new st); sw_cases := map erase_swcase (sw_cases st); sw_def := sw_def st; sw_counter := sw_counter st |}.

Lemma sc_def_erase c : sc_def (erase_case c) = sc_def c. Proof. reflexivity. Qed.
Lemma sc_val_erase c : sc_val (erase_case c) = sc_val c. Proof. reflexivity. Qed.
Lemma sc_line_erase c : sc_line (erase_case c) = 0%Z. Proof. reflexivity. Qed.
Lemma sc_body_erase c : sc_body (erase_case c) = erase_stmts (sc_body c). Proof. reflexivity. Qed.

Lemma find_bodied_erase cs : forall j,
  find_bodied (map erase_case cs) j = option_map (fun x : nat * scase => (fst x, erase_case (snd x))) (find_bodied cs j).
Proof.
  induction cs as [|c r IH]; intros j; [reflexivity|].
  cbn [map find_bodied]. rewrite sc_body_erase. destruct (sc_body c); cbn [erase_stmts map]; [apply IH|reflexivity].
Qed.

Lemma shared_erase id (l : list scase) :
  flat_map (fun c' : scase => if sc_def c' then [] else [(sc_val c', sc_line c', id)]) (map erase_case l)
  = map erase_swcase (flat_map (fun c' : scase => if sc_def c' then [] else [(sc_val c', sc_line c', id)]) l).
Proof.
  induction l as [|c r IH]; [reflexivity|]. cbn [map flat_map]. rewrite IH, map_app, sc_def_erase.
  destruct (sc_def c); reflexivity.
Qed.

Lemma existsb_def_erase (l : list scase) : existsb sc_def (map erase_case l) = existsb sc_def l.
Proof. induction l as [|c r IH]; [reflexivity|]. cbn. rewrite IH. reflexivity. Qed.

Lemma sw_loop_erase fuel all ret : forall i st,
  sw_loop fuel (map erase_case all) i ret (erase_swst st)
  = let '(st', b) := sw_loop fuel all i ret st in (erase_swst st', b).
Proof.
  induction fuel as [|f IH]; intros i st; [reflexivity|].
  cbn [sw_loop]. rewrite nth_error_map. destruct (nth_error all i) as [c|]; cbn [option_map]; [|reflexivity].
  rewrite sc_body_erase. destruct (sc_body c) as [|s0 r0] eqn:Eb; cbn [erase_stmts map].
  - rewrite skipn_map, find_bodied_erase.
    destruct (find_bodied (skipn (S i) all) (S i)) as [[j cj]|]; cbn [option_map fst snd].
    + rewrite <- IH. f_equal. unfold erase_swst; cbn [sw_new sw_cases sw_def sw_counter].
      rewrite skipn_map, firstn_map, shared_erase, existsb_def_erase, sc_def_erase, sc_body_erase.
      rewrite erase_chunks_app, !map_app. destruct (sc_def cj); reflexivity.
    + cbn [erase_swst sw_cases sw_def]. destruct (sw_cases st) as [|x xs]; destruct (sw_def st) as [d|]; cbn [map]; try reflexivity.
      * rewrite skipn_map, shared_erase. unfold erase_swst; cbn [sw_new sw_cases sw_def sw_counter].
        rewrite erase_chunks_app. reflexivity.
      * rewrite skipn_map, shared_erase. unfold erase_swst; cbn [sw_new sw_cases sw_def sw_counter].
        rewrite erase_chunks_app, !map_app. reflexivity.
  - rewrite <- IH. f_equal. unfold erase_swst; cbn [sw_new sw_cases sw_def sw_counter].
    rewrite sc_def_erase, erase_chunks_app. destruct (sc_def c); [reflexivity|].
    rewrite map_app. reflexivity.
Qed.

Lemma create_switch_erase operand oline cases cur i cn :
  create_switch operand 0 (map erase_case cases) (erase_chunk cur) i cn = e4b (create_switch operand oline cases cur i cn).
Proof.
  unfold create_switch. rewrite sfb_erase. destruct (split_for_branch cur i cn) as [[post ret] c0]. cbn [e3].
  rewrite map_length.
  change {| sw_new := []; sw_cases := []; sw_def := None; sw_counter := c0 + 1 |}
    with (erase_swst {| sw_new := []; sw_cases := []; sw_def := None; sw_counter := c0 + 1 |}) at 1.
  rewrite sw_loop_erase.
  destruct (sw_loop (S (List.length cases)) cases 0 ret _) as [st elided].
  cbn [e4b erase_brancher erase_swst sw_new sw_cases sw_def sw_counter]. rewrite !erase_chunks_app.
  destruct elided; reflexivity.
Qed.

(* one iteration of the worklist, then all of them *)
Definition erase_sres (r : sres) : sres :=
  match r with
  | SNext fin news c' nt => SNext (erase_chunk fin) (erase_chunks news) c' nt
  | SDone => SDone | SErrB => SErrB | SErrC => SErrC
  end.

Lemma fin_erase cur i ret e b :
  {| cid := cid (erase_chunk cur); cret := ret; cend := e; cstmts := firstn i (erase_stmts (cstmts cur)); cbr := option_map erase_brancher b |}
  = erase_chunk {| cid := cid cur; cret := ret; cend := e; cstmts := firstn i (cstmts cur); cbr := b |}.
Proof. unfold erase_chunk, erase_stmts. cbn [cid cret cend cstmts cbr]. rewrite firstn_map. reflexivity. Qed.

Lemma jump_dest_erase br :
  match erase_brancher br with BrJump d => d | _ => 0%Z end = match br with BrJump d => d | _ => 0%Z end.
Proof. destruct br; reflexivity. Qed.

Lemma wstep_erase w : wstep (erase_wst w) = erase_sres (wstep w).
Proof.
  unfold wstep. cbn [remaining counter brk org erase_wst].
  destruct (remaining w) as [|cur rest]; [reflexivity|]. cbn [erase_chunks map].
  change (cstmts (erase_chunk cur)) with (erase_stmts (cstmts cur)).
  change (cret (erase_chunk cur)) with (cret cur).
  rewrite erase_stmts_length, scan_erase.
  destruct (scan (cstmts cur) 0 (List.length (cstmts cur))) as [i [e|]].
  - change (@None brancher) with (option_map erase_brancher None). rewrite fin_erase. reflexivity.
  - destruct (Nat.eqb i (List.length (cstmts cur))); [reflexivity|].
    change (nth_error (erase_stmts (cstmts cur)) i) with (nth_error (map erase_stmt (cstmts cur)) i). rewrite nth_error_map.
    destruct (nth_error (cstmts cur) i) as [[c|n g tk|conds els|tag c body|tag body c|tag|tag|tag op ol cases]|]; cbn [option_map].
    + cbn [erase_stmt]. change (@None brancher) with (option_map erase_brancher None). rewrite fin_erase. reflexivity.
    + cbn [erase_stmt]. change (@None brancher) with (option_map erase_brancher None). rewrite fin_erase. reflexivity.
    + rewrite erase_stmt_if. cbv iota beta. rewrite create_if_erase.
      destruct (create_if conds els cur i (counter w)) as [[[news br] ret] c']. cbn [e4b].
      change (Some (erase_brancher br)) with (option_map erase_brancher (Some br)). rewrite fin_erase. reflexivity.
    + cbn [erase_stmt]. fold (erase_stmts body). rewrite create_while_erase.
      destruct (create_while c body cur i (counter w)) as [[[news br] ret] c']. cbn [e4b]. rewrite jump_dest_erase.
      change (Some (erase_brancher br)) with (option_map erase_brancher (Some br)). rewrite fin_erase. reflexivity.
    + cbn [erase_stmt]. fold (erase_stmts body). rewrite create_dowhile_erase.
      destruct (create_dowhile body c cur i (counter w)) as [[[news br] ret] c']. cbn [e4b]. rewrite jump_dest_erase.
      change (Some (erase_brancher br)) with (option_map erase_brancher (Some br)). rewrite fin_erase. reflexivity.
    + cbn [erase_stmt]. destruct (tm_get (brk w) tag) as [d|]; [|reflexivity]. rewrite sfb_erase.
      destruct (split_for_branch cur i (counter w)) as [[post ret] c']. cbn [e3].
      change (Some (BrBreak d)) with (option_map erase_brancher (Some (BrBreak d))). rewrite fin_erase. reflexivity.
    + cbn [erase_stmt]. destruct (tm_get (org w) tag) as [d|]; [|reflexivity]. rewrite sfb_erase.
      destruct (split_for_branch cur i (counter w)) as [[post ret] c']. cbn [e3].
      change (Some (BrBreak d)) with (option_map erase_brancher (Some (BrBreak d))). rewrite fin_erase. reflexivity.
    + rewrite erase_stmt_switch. cbv iota beta. rewrite (create_switch_erase op ol).
      destruct (create_switch op ol cases cur i (counter w)) as [[[news br] ret] c']. cbn [e4b]. rewrite jump_dest_erase.
      change (Some (erase_brancher br)) with (option_map erase_brancher (Some br)). rewrite fin_erase. reflexivity.
    + change (@None brancher) with (option_map erase_brancher None). rewrite fin_erase. reflexivity.
Qed.

Lemma set_final_erase fs c : set_final (erase_chunks fs) (erase_chunk c) = erase_chunks (set_final fs c).
Proof.
  unfold set_final. cbn [erase_chunks map]. f_equal. change (cid (erase_chunk c)) with (cid c).
  induction fs as [|x r IH]; [reflexivity|]. cbn [erase_chunks map filter]. change (cid (erase_chunk x)) with (cid x).
  destruct (negb (cid x =? cid c)%Z); cbn [erase_chunks map]; [f_equal|]; exact IH.
Qed.

Lemma wnext_erase w fin news c' nt :
  wnext (erase_wst w) (erase_chunk fin) (erase_chunks news) c' nt = erase_wst (wnext w fin news c' nt).
Proof.
  unfold wnext, erase_wst. cbn [remaining finals counter brk org]. rewrite set_final_erase, erase_chunks_app.
  f_equal. f_equal. destruct (remaining w); reflexivity.
Qed.

Theorem work_erase fuel : forall w, work fuel (erase_wst w) = eres erase_wst (work fuel w).
Proof.
  induction fuel as [|f IH]; intros w; [reflexivity|].
  rewrite !work_S, wstep_erase. destruct (wstep w) as [|fin news c' nt| |]; cbn [erase_sres eres]; try reflexivity.
  rewrite wnext_erase. apply IH.
Qed.

Theorem emit_graph_erase body : emit_graph (erase_stmts body) = eres erase_wst (emit_graph body).
Proof. unfold emit_graph. rewrite <- work_erase. reflexivity. Qed.

(* ================================================================================================================= *)
(* 3. The order of the chunks                                                                                          *)
(* ================================================================================================================= *)
Lemma get_chunk_erase fs i : get_chunk (erase_chunks fs) i = option_map erase_chunk (get_chunk fs i).
Proof.
  induction fs as [|c r IH]; [reflexivity|]. cbn [erase_chunks map get_chunk]. change (cid (erase_chunk c)) with (cid c).
  destruct (cid c =? i)%Z; [reflexivity|exact IH].
Qed.

Lemma tail_of_erase c : tail_of (erase_chunk c) = tail_of c.
Proof. unfold tail_of. cbn [cbr cret erase_chunk]. destruct (cbr c) as [[d|d|l tr fa|op ol cases [dd|] dest]|]; reflexivity. Qed.

Lemma opt_order_erase fuel fs n : forall acc, opt_order fuel (erase_chunks fs) n acc = opt_order fuel fs n acc.
Proof.
  induction fuel as [|f IH]; intros acc; [reflexivity|]. cbn [opt_order].
  destruct (Nat.leb n (List.length acc)); [reflexivity|]. destruct acc as [|last acc']; [apply IH|].
  rewrite get_chunk_erase.
  assert (E : match option_map erase_chunk (get_chunk fs last) with Some c => tail_of c | None => (-1)%Z end
            = match get_chunk fs last with Some c => tail_of c | None => (-1)%Z end).
  { destruct (get_chunk fs last); cbn [option_map]; [apply tail_of_erase|reflexivity]. }
  rewrite E. set (nxt := match get_chunk fs last with Some c => tail_of c | None => (-1)%Z end).
  rewrite get_chunk_erase.
  assert (E2 : match option_map erase_chunk (get_chunk fs nxt) with Some _ => true | None => false end
             = match get_chunk fs nxt with Some _ => true | None => false end).
  { destruct (get_chunk fs nxt); reflexivity. }
  rewrite E2. rewrite IH. destruct (first_unvisited (S n) 1 (Z.of_nat n) (last :: acc')) as [j|]; [rewrite IH|]; reflexivity.
Qed.

Theorem order_of_erase optimize G : order_of optimize (erase_chunks G) = order_of optimize G.
Proof. unfold order_of, erase_chunks. rewrite map_length. destruct optimize; [apply opt_order_erase|reflexivity]. Qed.

(* ================================================================================================================= *)
(* 4. Rendering a script, line markers off                                                                             *)
(* ================================================================================================================= *)
Local Notation OFF := (@None text).
Definition erase_instrs := map erase_instr.

Lemma erase_instrs_app a b : erase_instrs (a ++ b) = erase_instrs a ++ erase_instrs b.
Proof. apply map_app. Qed.

Lemma erase_instrs_cons a l : erase_instrs (a :: l) = erase_instr a :: erase_instrs l.
Proof. reflexivity. Qed.

Lemma render_stmt_erase s : render_stmt OFF (erase_stmt s) = erase_instrs (render_stmt OFF s).
Proof. destruct s; reflexivity. Qed.

Lemma render_stmts_erase ss :
  flat_map (render_stmt OFF) (erase_stmts ss) = erase_instrs (flat_map (render_stmt OFF) ss).
Proof.
  induction ss as [|s r IH]; [reflexivity|]. cbn [erase_stmts map flat_map]. fold (erase_stmts r).
  rewrite erase_instrs_app, render_stmt_erase, IH. reflexivity.
Qed.

Lemma leaf_cmp_erase name l d : render_leaf_cmp name (erase_leaf l) d = render_leaf_cmp name l d.
Proof. reflexivity. Qed.
Lemma leaf_cmp_plain name l d : erase_instrs (render_leaf_cmp name l d) = render_leaf_cmp name l d.
Proof. unfold render_leaf_cmp. destruct (lk l); try destruct (flag_truthy l); reflexivity. Qed.

Definition eb3 (x : list instr * list Z * bool) : list instr * list Z * bool :=
  let '(a, r, f) := x in (erase_instrs a, r, f).

Lemma goto_plain name d next b : eb3 (goto_or_fall name d next b) = goto_or_fall name d next b.
Proof. unfold goto_or_fall. destruct (b && (d =? -1)%Z); [reflexivity|]. destruct (d =? next)%Z; reflexivity. Qed.

Lemma cases_erase name (cases : list (text * Z * Z)) :
  flat_map (fun '(v, vl, d) => marker OFF vl ++ [ICase v (lbl name d)]) (map erase_swcase cases)
  = flat_map (fun '(v, vl, d) => marker OFF vl ++ [ICase v (lbl name d)]) cases.
Proof. induction cases as [|[[v vl] d] r IH]; [reflexivity|]. cbn [map flat_map]. rewrite IH. reflexivity. Qed.
Lemma cases_plain name (cases : list (text * Z * Z)) :
  erase_instrs (flat_map (fun '(v, vl, d) => marker OFF vl ++ [ICase v (lbl name d)]) cases)
  = flat_map (fun '(v, vl, d) => marker OFF vl ++ [ICase v (lbl name d)]) cases.
Proof. induction cases as [|[[v vl] d] r IH]; [reflexivity|]. cbn [flat_map]. rewrite erase_instrs_app, IH. reflexivity. Qed.
Lemma regs_erase (cases : list (text * Z * Z)) :
  map (fun '(_, _, d) => d) (map erase_swcase cases) = map (fun '(_, _, d) => d) cases.
Proof. rewrite map_map. apply map_ext. intros [[v vl] d]. reflexivity. Qed.

Lemma render_branch_erase name c next :
  render_branch OFF name (erase_chunk c) next = eb3 (render_branch OFF name c next).
Proof.
  unfold render_branch. cbn [cbr cret cend erase_chunk].
  destruct (cbr c) as [[d|d|l tr fa|op ol cases def dest]|]; cbn [option_map erase_brancher].
  - symmetry. apply goto_plain.
  - symmetry. apply goto_plain.
  - pose proof (goto_plain name fa next true) as G. rewrite leaf_cmp_erase.
    destruct (goto_or_fall name fa next true) as [[x regs] fall]. cbn [eb3] in *.
    cbn [lpre lline erase_leaf marker app]. rewrite !erase_instrs_app, leaf_cmp_plain.
    assert (G1 : erase_instrs x = x) by congruence. clear G. rewrite G1. destruct (lpre l); reflexivity.
  - rewrite cases_erase, regs_erase.
    set (cs := flat_map (fun '(v, vl, d) => marker OFF vl ++ [ICase v (lbl name d)]) cases).
    assert (P : erase_instrs cs = cs) by apply cases_plain. cbn [marker app].
    destruct def as [dd|].
    + destruct (dd =? next)%Z; cbn [eb3];
        rewrite ?erase_instrs_cons, ?erase_instrs_app, P; reflexivity.
    + destruct (dest =? next)%Z; [|destruct (dest =? -1)%Z]; cbn [eb3];
        rewrite ?erase_instrs_cons, ?erase_instrs_app, P; reflexivity.
  - destruct (cret c =? -1)%Z; [destruct (cend c); reflexivity|]. destruct (cret c =? next)%Z; reflexivity.
Qed.

Section RENDER.
Variable tl : list text.

Definition erase_hit (x : token * bool) : token * bool := (erase_tok (fst x), snd x).

Lemma clash_erase labels ss : clash tl labels (erase_stmts ss) = option_map erase_hit (clash tl labels ss).
Proof.
  induction ss as [|s r IH]; [reflexivity|].
  destruct s as [c|n g tk|conds els|tag c body|tag body c|tag|tag|tag op ol cases]; cbn [erase_stmts map erase_stmt clash];
    try exact IH.
  destruct (existsb (text_eqb n) labels); [reflexivity|]. destruct (existsb (text_eqb n) tl); [reflexivity|]. exact IH.
Qed.

Definition erase_body (ib : Z * list instr) : Z * list instr := (fst ib, erase_instrs (snd ib)).
Definition erase_bodies (x : list (Z * list instr) * list Z) : list (Z * list instr) * list Z := (map erase_body (fst x), snd x).

Lemma erase_body_pair i b : erase_body (i, b) = (i, erase_instrs b).
Proof. reflexivity. Qed.

Lemma render_bodies_erase name fs labels order :
  render_bodies OFF tl name (erase_chunks fs) labels order = eres erase_bodies (render_bodies OFF tl name fs labels order).
Proof.
  induction order as [|i r IH]; [reflexivity|]. cbn [render_bodies]. rewrite get_chunk_erase.
  destruct (get_chunk fs i) as [c|]; cbn [option_map]; [|exact IH].
  change (cstmts (erase_chunk c)) with (erase_stmts (cstmts c)). rewrite clash_erase.
  destruct (clash tl labels (cstmts c)) as [[tk b]|]; cbn [option_map erase_hit fst snd]; [reflexivity|].
  rewrite render_branch_erase.
  destruct (render_branch OFF name c match r with [] => (-1)%Z | n :: _ => n end) as [[x regs] fall]. cbn [eb3].
  rewrite IH. destruct (render_bodies OFF tl name fs labels r) as [[rest regs']| | | |]; cbn [eres]; try reflexivity.
  unfold erase_bodies. cbn [fst snd map erase_body]. rewrite erase_body_pair, render_stmts_erase, !erase_instrs_app.
  destruct fall; reflexivity.
Qed.

Lemma chunk_labels_erase name fs : map (chunk_label name) (erase_chunks fs) = map (chunk_label name) fs.
Proof. unfold erase_chunks. rewrite map_map. reflexivity. Qed.

Theorem render_chunks_erase name glob fs order :
  render_chunks OFF tl name glob (erase_chunks fs) order = eres erase_instrs (render_chunks OFF tl name glob fs order).
Proof.
  unfold render_chunks. rewrite chunk_labels_erase, render_bodies_erase.
  destruct (render_bodies OFF tl name fs (map (chunk_label name) fs) order) as [[bodies regs]| | | |]; cbn [eres]; try reflexivity.
  unfold erase_bodies. cbn [fst snd]. f_equal.
  induction bodies as [|[i b] r IH]; [reflexivity|]. cbn [map flat_map erase_body fst snd]. rewrite IH, !erase_instrs_app.
  f_equal. f_equal. destruct (i =? 0)%Z; [reflexivity|]. destruct (zmem i regs); reflexivity.
Qed.

Theorem emit_script_erase name glob optimize body :
  emit_script OFF tl name glob optimize (erase_stmts body) = eres erase_instrs (emit_script OFF tl name glob optimize body).
Proof.
  unfold emit_script. rewrite emit_graph_erase. destruct (emit_graph body) as [w| | | |]; cbn [eres]; try reflexivity.
  cbn [finals erase_wst]. rewrite order_of_erase. apply render_chunks_erase.
Qed.

(* ================================================================================================================= *)
(* 5. The top-level emitters, line markers off                                                                         *)
(* ================================================================================================================= *)
Lemma flat_map_plain {A} (f : A -> list instr) l :
  (forall x, erase_instrs (f x) = f x) -> erase_instrs (flat_map f l) = flat_map f l.
Proof. intros H. induction l as [|x r IH]; [reflexivity|]. cbn [flat_map]. rewrite erase_instrs_app, H, IH. reflexivity. Qed.
Lemma flat_map_erase {A} (e : A -> A) (f : A -> list instr) l :
  (forall x, f (e x) = f x) -> flat_map f (map e l) = flat_map f l.
Proof. intros H. induction l as [|x r IH]; [reflexivity|]. cbn [map flat_map]. rewrite H, IH. reflexivity. Qed.

(* text *)
Lemma emit_text_erase x : emit_text OFF (erase_textdef x) = emit_text OFF x.
Proof. reflexivity. Qed.
Lemma emit_text_plain x : erase_instrs (emit_text OFF x) = emit_text OFF x.
Proof.
  unfold emit_text. cbn [marker app]. rewrite erase_instrs_cons. cbn [erase_instr]. f_equal.
  unfold erase_instrs. rewrite map_map. reflexivity.
Qed.

(* movement *)
Lemma emit_steps_erase steps : emit_steps OFF (map erase_tok steps) = emit_steps OFF steps.
Proof.
  induction steps as [|s r IH]; [reflexivity|]. cbn [map emit_steps marker app]. cbn [tlit erase_tok].
  rewrite IH. reflexivity.
Qed.
Lemma emit_steps_plain steps : erase_instrs (emit_steps OFF steps) = emit_steps OFF steps.
Proof.
  induction steps as [|s r IH]; [reflexivity|]. cbn [emit_steps marker app]. rewrite erase_instrs_cons. cbn [erase_instr].
  destruct (text_eqb (tlit s) (t "step_end")); [reflexivity|]. rewrite IH. reflexivity.
Qed.
Lemma emit_movement_erase n g tk steps :
  emit_movement OFF n g (erase_tok tk) (map erase_tok steps) = erase_instrs (emit_movement OFF n g tk steps).
Proof.
  unfold emit_movement. cbn [marker app]. rewrite emit_steps_erase, erase_instrs_cons, emit_steps_plain. reflexivity.
Qed.

(* mart *)
Lemma emit_items_erase items : forall itoks, emit_items OFF items (map erase_tok itoks) = emit_items OFF items itoks.
Proof.
  induction items as [|i r IH]; intros [|tk rt]; try reflexivity. cbn [map emit_items marker app].
  rewrite IH. reflexivity.
Qed.
Lemma emit_items_plain items : forall itoks, erase_instrs (emit_items OFF items itoks) = emit_items OFF items itoks.
Proof.
  induction items as [|i r IH]; intros [|tk rt]; try reflexivity. cbn [emit_items marker app].
  destruct (text_eqb i (t "ITEM_NONE")); [reflexivity|]. rewrite erase_instrs_cons, IH. reflexivity.
Qed.
Lemma emit_mart_erase n g tk items itoks :
  emit_mart OFF n g (erase_tok tk) items (map erase_tok itoks) = erase_instrs (emit_mart OFF n g tk items itoks).
Proof.
  unfold emit_mart. cbn [marker app]. rewrite emit_items_erase, !erase_instrs_cons, erase_instrs_app, emit_items_plain.
  reflexivity.
Qed.

(* raw: the line is used for markers only *)
Lemma emit_raw_lines_erase lines : forall l1 l2, emit_raw_lines OFF lines l1 = emit_raw_lines OFF lines l2.
Proof. induction lines as [|l r IH]; intros l1 l2; [reflexivity|]. cbn [emit_raw_lines marker app]. f_equal. apply IH. Qed.
Lemma emit_raw_lines_plain lines : forall l1, erase_instrs (emit_raw_lines OFF lines l1) = emit_raw_lines OFF lines l1.
Proof. induction lines as [|l r IH]; intros l1; [reflexivity|]. cbn [emit_raw_lines marker app]. rewrite erase_instrs_cons, IH. reflexivity. Qed.
Lemma emit_raw_erase v ln : emit_raw OFF v 0 = erase_instrs (emit_raw OFF v ln).
Proof. unfold emit_raw. rewrite emit_raw_lines_plain. apply emit_raw_lines_erase. Qed.

(* scripts of a mapscripts block *)
Definition erase_named (x : text * option (list stmt)) : text * option (list stmt) := (fst x, option_map erase_stmts (snd x)).

Lemma emit_scripts_erase optimize l :
  emit_scripts OFF tl optimize (map erase_named l) = eres erase_instrs (emit_scripts OFF tl optimize l).
Proof.
  induction l as [|[n [b|]] r IH]; [reflexivity| |exact IH].
  cbn [map erase_named fst snd option_map emit_scripts]. rewrite emit_script_erase. symmetry.
  apply eres_bind. intros a. rewrite IH. apply eres_bind. intros y. cbn [eres]. rewrite erase_instrs_app. reflexivity.
Qed.

Definition entry_line (e : tableentry) : list instr :=
  marker OFF (tline (teCond e)) ++ [ILine (tab ++ t "map_script_2 " ++ teCondLit e ++ t ", " ++ teCmp e ++ t ", " ++ teName e)].

Lemma emit_tables_erase optimize tables :
  emit_tables OFF tl optimize (map erase_tablems tables) = eres erase_instrs (emit_tables OFF tl optimize tables).
Proof.
  induction tables as [|tb r IH]; [reflexivity|]. cbn [map emit_tables]. cbn [tmName tmEntries erase_tablems].
  replace (map (fun e : tableentry => (teName e, teScript e)) (map erase_tableentry (tmEntries tb)))
    with (map erase_named (map (fun e : tableentry => (teName e, teScript e)) (tmEntries tb)))
    by (rewrite !map_map; reflexivity).
  rewrite emit_scripts_erase. symmetry. apply eres_bind. intros x. rewrite IH. apply eres_bind. intros y. cbn [eres].
  f_equal. fold entry_line. rewrite (flat_map_erase erase_tableentry entry_line) by reflexivity.
  rewrite !erase_instrs_app, (flat_map_plain entry_line) by reflexivity. reflexivity.
Qed.

Definition plain_line (m : mapscript) : list instr :=
  marker OFF (tline (msType m)) ++ [ILine (tab ++ t "map_script " ++ tlit (msType m) ++ t ", " ++ msName m)].
Definition table_line (tb : tablems) : list instr :=
  marker OFF (tline (tmType tb)) ++ [ILine (tab ++ t "map_script " ++ tlit (tmType tb) ++ t ", " ++ tmName tb)].

Lemma emit_mapscripts_erase optimize name glob plain tables :
  emit_mapscripts OFF tl optimize name glob (map erase_mapscript plain) (map erase_tablems tables)
  = eres erase_instrs (emit_mapscripts OFF tl optimize name glob plain tables).
Proof.
  unfold emit_mapscripts.
  replace (map (fun m : mapscript => (msName m, msScript m)) (map erase_mapscript plain))
    with (map erase_named (map (fun m : mapscript => (msName m, msScript m)) plain))
    by (rewrite !map_map; reflexivity).
  rewrite emit_scripts_erase. symmetry. apply eres_bind. intros inl. rewrite emit_tables_erase. apply eres_bind. intros tt.
  cbn [eres]. f_equal. fold plain_line. fold table_line.
  rewrite (flat_map_erase erase_mapscript plain_line) by reflexivity.
  rewrite (flat_map_erase erase_tablems table_line) by reflexivity.
  rewrite !erase_instrs_app, (flat_map_plain plain_line), (flat_map_plain table_line) by reflexivity. reflexivity.
Qed.

(* one top-level statement, all of them *)
Lemma emit_top_erase optimize tp :
  emit_top OFF tl optimize (erase_top tp) = option_map (eres erase_instrs) (emit_top OFF tl optimize tp).
Proof.
  destruct tp as [n g b|v ln| |n g tk steps|n g tk items itoks|n g plain tables]; cbn [erase_top emit_top option_map eres].
  - rewrite emit_script_erase. reflexivity.
  - rewrite <- emit_raw_erase. reflexivity.
  - reflexivity.
  - rewrite emit_movement_erase. reflexivity.
  - rewrite emit_mart_erase. reflexivity.
  - rewrite emit_mapscripts_erase. reflexivity.
Qed.

Definition erase_tops_out (x : list instr * nat) : list instr * nat := (erase_instrs (fst x), snd x).

Lemma emit_tops_erase optimize l : forall i,
  emit_tops OFF tl optimize (map erase_top l) i = eres erase_tops_out (emit_tops OFF tl optimize l i).
Proof.
  induction l as [|tp r IH]; intros i; [reflexivity|]. cbn [map emit_tops]. rewrite emit_top_erase.
  destruct (emit_top OFF tl optimize tp) as [rt|]; cbn [option_map]; [|apply IH].
  symmetry. apply eres_bind. intros x. rewrite IH. apply eres_bind. intros [y n]. cbn [eres]. unfold erase_tops_out. cbn [fst snd].
  rewrite !erase_instrs_app. destruct i; reflexivity.
Qed.

Lemma emit_texts_erase l : forall k, emit_texts OFF (map erase_textdef l) k = emit_texts OFF l k.
Proof. induction l as [|x r IH]; intros k; [reflexivity|]. cbn [map emit_texts]. rewrite emit_text_erase, IH. reflexivity. Qed.
Lemma emit_texts_plain l : forall k, erase_instrs (emit_texts OFF l k) = emit_texts OFF l k.
Proof.
  induction l as [|x r IH]; intros k; [reflexivity|]. cbn [emit_texts]. rewrite !erase_instrs_app, emit_text_plain, IH.
  destruct k; reflexivity.
Qed.
End RENDER.

(* ================================================================================================================= *)
(* 6. Whole programs                                                                                                   *)
(* ================================================================================================================= *)
Lemma text_labels_erase p : map xname (texts (erase_program p)) = map xname (texts p).
Proof. cbn [texts erase_program]. rewrite map_map. reflexivity. Qed.

(* the instruction list: the same instructions, the tokens inside ICmd erased *)
Theorem emit_program_instrs_erase optimize p :
  emit_program_instrs optimize None (erase_program p) = eres erase_instrs (emit_program_instrs optimize None p).
Proof.
  unfold emit_program_instrs. rewrite text_labels_erase. cbn [tops texts erase_program]. rewrite emit_tops_erase.
  destruct (emit_tops OFF (map xname (texts p)) optimize (tops p) 0) as [[x n]| | | |]; cbn [eres]; try reflexivity.
  unfold erase_tops_out. cbn [fst snd]. rewrite emit_texts_erase, erase_instrs_app, emit_texts_plain. reflexivity.
Qed.

(* printing does not look at the token of a command (with or without a marker path) *)
Lemma print_instr_erase path i : print_instr path (erase_instr i) = print_instr path i.
Proof. destruct i; reflexivity. Qed.
Theorem print_instrs_erase mpath is : print_instrs mpath (erase_instrs is) = print_instrs mpath is.
Proof.
  unfold print_instrs. induction is as [|i r IH]; [reflexivity|]. cbn [erase_instrs map flat_map]. fold (erase_instrs r).
  rewrite print_instr_erase, IH. reflexivity.
Qed.

(* MAIN 1: the printed program *)
Theorem emit_program_erase optimize p :
  emit_program optimize None (erase_program p) = eres (fun x : text => x) (emit_program optimize None p).
Proof.
  unfold emit_program. rewrite emit_program_instrs_erase.
  destruct (emit_program_instrs optimize None p) as [is| | | |]; cbn [eres]; try reflexivity.
  rewrite print_instrs_erase. reflexivity.
Qed.

(* read case by case *)
Theorem emit_program_erase_ok optimize p x :
  emit_program optimize None p = Ok x <-> emit_program optimize None (erase_program p) = Ok x.
Proof.
  rewrite emit_program_erase. destruct (emit_program optimize None p); cbn [eres]; split; intros H; try discriminate; exact H.
Qed.
Theorem emit_program_erase_label optimize p tk b :
  emit_program optimize None p = ErrLabel tk b -> emit_program optimize None (erase_program p) = ErrLabel (erase_tok tk) b.
Proof. intros H. rewrite emit_program_erase, H. reflexivity. Qed.
Theorem emit_program_erase_other optimize p :
  (emit_program optimize None p = ErrBreak <-> emit_program optimize None (erase_program p) = ErrBreak) /\
  (emit_program optimize None p = ErrContinue <-> emit_program optimize None (erase_program p) = ErrContinue) /\
  (emit_program optimize None p = OutOfFuel <-> emit_program optimize None (erase_program p) = OutOfFuel).
Proof.
  rewrite emit_program_erase. destruct (emit_program optimize None p); cbn [eres];
    (split; [|split]); split; intros H; try discriminate; reflexivity.
Qed.

(* MAIN 2: two programs with the same erasure *)
Definition same_result (r1 r2 : res text) : Prop :=
  match r1, r2 with
  | Ok x1, Ok x2 => x1 = x2
  | ErrLabel tk1 b1, ErrLabel tk2 b2 => erase_tok tk1 = erase_tok tk2 /\ b1 = b2
  | ErrBreak, ErrBreak | ErrContinue, ErrContinue | OutOfFuel, OutOfFuel => True
  | _, _ => False
  end.

Theorem equal_erasures_equal_output optimize p1 p2 :
  erase_program p1 = erase_program p2 ->
  same_result (emit_program optimize None p1) (emit_program optimize None p2).
Proof.
  intros E. pose proof (emit_program_erase optimize p1) as H1. pose proof (emit_program_erase optimize p2) as H2.
  rewrite E in H1. rewrite H1 in H2. clear H1 E.
  destruct (emit_program optimize None p1) as [x1| | | |tk1 b1]; destruct (emit_program optimize None p2) as [x2| | | |tk2 b2];
    cbn [eres] in H2; try discriminate; cbn [same_result]; try exact I.
  - congruence.
  - split; congruence.
Qed.

Corollary equal_erasures_equal_text optimize p1 p2 x :
  erase_program p1 = erase_program p2 ->
  emit_program optimize None p1 = Ok x -> emit_program optimize None p2 = Ok x.
Proof.
  intros E H. pose proof (equal_erasures_equal_output optimize p1 p2 E) as S. rewrite H in S.
  destruct (emit_program optimize None p2); cbn [same_result] in S; try contradiction. congruence.
Qed.

(* ================================================================================================================= *)
(* 7. The compiler                                                                                                     *)
(* ================================================================================================================= *)
(* the error the compiler reports for a label clash found by the emitter: located at the token of the label *)
Definition label_error (tk : token) : Parser.perr :=
  {| Parser.els := tline tk; Parser.ele := teline tk; Parser.ecs := tsb tk; Parser.eus := tsu tk;
     Parser.ece := teb tk; Parser.eue := teu tk; Parser.emsg := t "duplicate label" |}.

Definition same_outcome (o1 o2 : Compile.outcome) : Prop :=
  match o1, o2 with
  | Compile.OutText x1, Compile.OutText x2 => x1 = x2
  | Compile.OutErr e1, Compile.OutErr e2 =>
      exists tk1 tk2, erase_tok tk1 = erase_tok tk2 /\ e1 = label_error tk1 /\ e2 = label_error tk2
  | Compile.OutEmitErr, Compile.OutEmitErr => True
  | _, _ => False
  end.

Section COMPILE.
Variable is_letter_hi is_digit_hi is_space_hi : N -> bool.
Variable autovars : list (text * Parser.autovar).
Variable switches : list (text * text).
Variable env_errors : bool.
Variable fc : Format.fontcfg.
Variable cli_font : text.
Variable cli_maxlen : Z.
Notation COMPILE := (Compile.compile is_letter_hi is_digit_hi is_space_hi autovars switches env_errors fc cli_font cli_maxlen).
Notation PARSE src :=
  (Parser.parse_program autovars switches env_errors (Format.parse_format fc cli_font cli_maxlen env_errors)
     (lex is_letter_hi is_digit_hi is_space_hi src)).

(* MAIN 3: two sources whose parsed programs have the same erasure compile, without line markers, to the same text;
   if the emitter rejects one (label clash) it rejects the other, with the same message, at a token of the same type
   and literal *)
Theorem compile_equal_erasures optimize src1 src2 p1 p2 :
  PARSE src1 = Parser.Ok p1 -> PARSE src2 = Parser.Ok p2 -> erase_program p1 = erase_program p2 ->
  same_outcome (COMPILE optimize None src1) (COMPILE optimize None src2).
Proof.
  intros H1 H2 E. unfold Compile.compile. rewrite H1, H2.
  pose proof (equal_erasures_equal_output optimize p1 p2 E) as S.
  destruct (emit_program optimize None p1) as [x1| | | |tk1 b1]; destruct (emit_program optimize None p2) as [x2| | | |tk2 b2];
    cbn [same_result] in S; try contradiction; cbn [same_outcome]; try exact I; try exact S.
  destruct S as [S _]. exists tk1, tk2. split; [exact S|]. split; reflexivity.
Qed.

Corollary compile_equal_erasures_text optimize src1 src2 p1 p2 out :
  PARSE src1 = Parser.Ok p1 -> PARSE src2 = Parser.Ok p2 -> erase_program p1 = erase_program p2 ->
  COMPILE optimize None src1 = Compile.OutText out -> COMPILE optimize None src2 = Compile.OutText out.
Proof.
  intros H1 H2 E C. pose proof (compile_equal_erasures optimize src1 src2 p1 p2 H1 H2 E) as S. rewrite C in S.
  destruct (COMPILE optimize None src2); cbn [same_outcome] in S; try contradiction. congruence.
Qed.
End COMPILE.

(* ================================================================================================================= *)
(* 8. From token shapes to the output (the composition with the parser half, ShapeParse.v)                             *)
(* ================================================================================================================= *)
(* erased tokens are equal exactly when the tokens have the same type and literal *)
Local Notation shape := LexLayout.shape.      (* shape tk = (ttype tk, tlit tk) *)

Lemma erase_tok_shape_iff a b : erase_tok a = erase_tok b <-> shape a = shape b.
Proof.
  unfold erase_tok, LexLayout.shape. split; intros H.
  - injection H as H1 H2. congruence.
  - injection H as H1 H2. rewrite H1, H2. reflexivity.
Qed.
Lemma cons_eq_inv {A} (x y : A) l l' : x :: l = y :: l' -> x = y /\ l = l'.
Proof. intros H. injection H. auto. Qed.
Lemma erase_toks_shape_iff (l1 l2 : list token) : map erase_tok l1 = map erase_tok l2 <-> map shape l1 = map shape l2.
Proof.
  revert l2. induction l1 as [|a r IH]; intros [|b r2]; cbn [map]; split; intros H; try discriminate; try reflexivity.
  - apply cons_eq_inv in H. destruct H as [H1 H2]. f_equal; [apply erase_tok_shape_iff; exact H1|apply IH; exact H2].
  - apply cons_eq_inv in H. destruct H as [H1 H2]. f_equal; [apply erase_tok_shape_iff; exact H1|apply IH; exact H2].
Qed.

(* what the parser half provides for two token lists of equal shapes: both accepted with programs of equal erasure, or
   both rejected with the same message, or both stopped the same way *)
Definition parse_agree (r1 r2 : Parser.res program) : Prop :=
  match r1, r2 with
  | Parser.Ok p1, Parser.Ok p2 => erase_program p1 = erase_program p2
  | Parser.Err e1, Parser.Err e2 => Parser.emsg e1 = Parser.emsg e2
  | Parser.Panic, Parser.Panic | Parser.Fuel, Parser.Fuel => True
  | _, _ => False
  end.

(* the two compilations end the same way: the same text, or an error with the same message *)
Definition agree_outcome (o1 o2 : Compile.outcome) : Prop :=
  match o1, o2 with
  | Compile.OutText x1, Compile.OutText x2 => x1 = x2
  | Compile.OutErr e1, Compile.OutErr e2 => Parser.emsg e1 = Parser.emsg e2
  | Compile.OutPanic, Compile.OutPanic | Compile.OutFuel, Compile.OutFuel | Compile.OutEmitErr, Compile.OutEmitErr => True
  | _, _ => False
  end.

(* a bridge for the parser half: a parser that commutes with the erasure (run on erased tokens it gives the erased
   result; `ep` is what it does to the positions of an error, it keeps the message) agrees on token lists of equal shapes *)
Definition erase_pres (ep : Parser.perr -> Parser.perr) (r : Parser.res program) : Parser.res program :=
  match r with
  | Parser.Ok p => Parser.Ok (erase_program p)
  | Parser.Err e => Parser.Err (ep e)
  | Parser.Panic => Parser.Panic
  | Parser.Fuel => Parser.Fuel
  end.

Theorem commuting_parser_reads_shapes (ep : Parser.perr -> Parser.perr) (P : list token -> Parser.res program) :
  (forall e, Parser.emsg (ep e) = Parser.emsg e) ->
  (forall ts, P (map erase_tok ts) = erase_pres ep (P ts)) ->
  forall ts1 ts2, map shape ts1 = map shape ts2 -> parse_agree (P ts1) (P ts2).
Proof.
  intros Hm HP ts1 ts2 E. apply erase_toks_shape_iff in E.
  pose proof (HP ts1) as H1. pose proof (HP ts2) as H2. rewrite E in H1. rewrite H1 in H2. clear H1 E HP.
  destruct (P ts1) as [p1|e1| |]; destruct (P ts2) as [p2|e2| |]; cbn [erase_pres] in H2; try discriminate; cbn [parse_agree]; try exact I.
  - congruence.
  - rewrite <- (Hm e1), <- (Hm e2). congruence.
Qed.

Definition parse_agree_weak (r1 r2 : Parser.res program) : Prop :=
  match r1, r2 with
  | Parser.Ok p1, Parser.Ok p2 => erase_program p1 = erase_program p2
  | Parser.Err _, Parser.Err _ | Parser.Panic, Parser.Panic | Parser.Fuel, Parser.Fuel => True
  | _, _ => False
  end.
Definition agree_outcome_weak (o1 o2 : Compile.outcome) : Prop :=
  match o1, o2 with
  | Compile.OutText x1, Compile.OutText x2 => x1 = x2
  | Compile.OutErr _, Compile.OutErr _
  | Compile.OutPanic, Compile.OutPanic | Compile.OutFuel, Compile.OutFuel | Compile.OutEmitErr, Compile.OutEmitErr => True
  | _, _ => False
  end.

Section COMPOSE.
Variable is_letter_hi is_digit_hi is_space_hi : N -> bool.
Variable autovars : list (text * Parser.autovar).
Variable switches : list (text * text).
Variable env_errors : bool.
Variable fc : Format.fontcfg.
Variable cli_font : text.
Variable cli_maxlen : Z.
Notation COMPILE := (Compile.compile is_letter_hi is_digit_hi is_space_hi autovars switches env_errors fc cli_font cli_maxlen).
Notation LEX := (lex is_letter_hi is_digit_hi is_space_hi).
Notation PARSE ts :=
  (Parser.parse_program autovars switches env_errors (Format.parse_format fc cli_font cli_maxlen env_errors) ts).

(* MAIN 4: whatever the parser did, if the two parses agree the two compilations agree (markers off) *)
Theorem compile_agree optimize src1 src2 :
  parse_agree (PARSE (LEX src1)) (PARSE (LEX src2)) ->
  agree_outcome (COMPILE optimize None src1) (COMPILE optimize None src2).
Proof.
  intros A. unfold Compile.compile.
  destruct (PARSE (LEX src1)) as [p1|e1| |]; destruct (PARSE (LEX src2)) as [p2|e2| |]; cbn [parse_agree] in A;
    try contradiction; cbn [agree_outcome]; try exact I; try exact A.
  pose proof (equal_erasures_equal_output optimize p1 p2 A) as S.
  destruct (emit_program optimize None p1) as [x1| | | |tk1 b1]; destruct (emit_program optimize None p2) as [x2| | | |tk2 b2];
    cbn [same_result] in S; try contradiction; cbn [agree_outcome]; try exact I; try exact S.
  reflexivity.
Qed.

(* the same with a parser half that says nothing about the two error messages *)
Theorem compile_agree_weak optimize src1 src2 :
  parse_agree_weak (PARSE (LEX src1)) (PARSE (LEX src2)) ->
  agree_outcome_weak (COMPILE optimize None src1) (COMPILE optimize None src2).
Proof.
  intros A. unfold Compile.compile.
  destruct (PARSE (LEX src1)) as [p1|e1| |]; destruct (PARSE (LEX src2)) as [p2|e2| |]; cbn [parse_agree_weak] in A;
    try contradiction; cbn [agree_outcome_weak]; try exact I.
  pose proof (equal_erasures_equal_output optimize p1 p2 A) as S.
  destruct (emit_program optimize None p1) as [x1| | | |tk1 b1]; destruct (emit_program optimize None p2) as [x2| | | |tk2 b2];
    cbn [same_result] in S; try contradiction; cbn [agree_outcome_weak]; try exact I; exact S.
Qed.

(* the property text, conditional on the parser half: if the parser reads token types and literals only
   (premise; it is the main theorem of the sibling file ShapeParse.v), then two sources that the lexer turns into the
   same sequence of types and literals - in particular a source and any re-layout of it, by the lexer theorems of
   Properties_C19.v - compile to the same output without line markers *)
Hypothesis parser_reads_shapes :
  forall ts1 ts2, map shape ts1 = map shape ts2 -> parse_agree (PARSE ts1) (PARSE ts2).

Theorem equal_shapes_equal_output optimize src1 src2 :
  map shape (LEX src1) = map shape (LEX src2) ->
  agree_outcome (COMPILE optimize None src1) (COMPILE optimize None src2).
Proof. intros H. apply compile_agree. apply parser_reads_shapes. exact H. Qed.

(* ... and with the lexer theorems (LexLayout.v, LexRest.v): layout in front of the first token, between two tokens, and
   behind the last token does not change the output without line markers (p: the text before the gap, r: the text
   after it, g: the gap; `reaches` says that the lexer stands in front of r after k tokens; `fuses p g`: p ends with
   '/' and g begins with '/') *)
Theorem leading_layout_same_output optimize g s :
  LexLayout.gap g ->
  agree_outcome (COMPILE optimize None (g ++ s)) (COMPILE optimize None s).
Proof. intros G. apply equal_shapes_equal_output. apply LexLayout.lex_leading_layout. exact G. Qed.

Theorem layout_between_tokens_same_output optimize (p r g : list N) (k : nat) :
  r <> [] -> LexLayout.gap g -> ~ LexRest.fuses p g ->
  LexBetween.reaches is_letter_hi is_digit_hi is_space_hi r k (init (p ++ r)) ->
  agree_outcome (COMPILE optimize None (p ++ g ++ r)) (COMPILE optimize None (p ++ r)).
Proof. intros R G F H. apply equal_shapes_equal_output. apply (LexRest.layout_between_tokens_any_gap _ _ _ p r g k); assumption. Qed.

Theorem trailing_layout_same_output optimize (p r g : list N) (k : nat) :
  r <> [] -> LexBetween.reaches is_letter_hi is_digit_hi is_space_hi r k (init (p ++ r)) ->
  LexRest.tgap g -> ~ LexRest.fuses p g ->
  agree_outcome (COMPILE optimize None (p ++ g)) (COMPILE optimize None p).
Proof. intros R H G F. apply equal_shapes_equal_output. apply (LexRest.trailing_layout_is_ignored _ _ _ p r g k); assumption. Qed.
End COMPOSE.

(* ================================================================================================================= *)
(* 9. Examples: the hypotheses are satisfiable, and "without line markers" is necessary                                *)
(* ================================================================================================================= *)
Section EXAMPLES.
Open Scope string_scope.
Definition ex_nf (_ : N) : bool := false.
Definition ex_fc0 : Format.fontcfg := {| Format.fcDefault := []; Format.fcFonts := [] |}.
Definition ex_nl : string := String (ascii_of_nat 10) "".
Definition ex_crlf : string := String (ascii_of_nat 13) ex_nl.
Definition ex_tab : string := String (ascii_of_nat 9) "".
Notation ex_parse0 s :=
  (Parser.parse_program [] [] true (Format.parse_format ex_fc0 [] 0%Z true) (lex ex_nf ex_nf ex_nf (t s))).
Notation ex_comp o mp s := (Compile.compile ex_nf ex_nf ex_nf [] [] true ex_fc0 [] 0%Z o mp (t s)).
Definition ex_prog (s : string) : program :=
  match ex_parse0 s with Parser.Ok p => p | _ => {| tops := []; texts := [] |} end.

(* every kind of top-level statement, every kind of statement, every kind of condition *)
Definition ex_src1 : string :=
  "script A {" ++ ex_nl ++
  "  lock" ++ ex_nl ++
  "  if (flag(F) && var(V) == 2) { msgbox(""hi"") } elif (defeated(T)) { x } else { y }" ++ ex_nl ++
  "  while (var(V) < 3) { continue }" ++ ex_nl ++
  "  do { break } while (flag(G))" ++ ex_nl ++
  "  switch (var(V)) { case 1: a case 2: case 3: b default: c }" ++ ex_nl ++
  "L:" ++ ex_nl ++
  "  end" ++ ex_nl ++
  "}" ++ ex_nl ++
  "movement M { walk_up * 2 face_down }" ++ ex_nl ++
  "mart Mt { ITEM_A ITEM_B }" ++ ex_nl ++
  "mapscripts MS { MAP_SCRIPT_ON_LOAD: S1 MAP_SCRIPT_ON_FRAME_TABLE [ VAR_X, 1: S2 VAR_Y, 2 { lock } ] MAP_SCRIPT_ON_RESUME { end } }" ++ ex_nl ++
  "raw `" ++ ex_nl ++ " .byte 1" ++ ex_nl ++ "`" ++ ex_nl ++
  "text T { ""abc"" }" ++ ex_nl.
(* the same lexemes: leading comment, CRLF, tabs, comments at line ends, blank lines, spaces removed where possible *)
Definition ex_src2 : string :=
  "# leading comment" ++ ex_crlf ++ "script" ++ ex_tab ++ "A" ++ ex_nl ++ "{ lock // c" ++ ex_nl ++
  "  if(flag(F)&&var(V)==2){msgbox(""hi"")}" ++ ex_nl ++ ex_nl ++ "elif(defeated(T)){x}else{y}" ++
  "  while (var(V)<3)" ++ ex_crlf ++ "{ continue }" ++
  "  do{break}while(flag(G))" ++ ex_nl ++
  "  switch(var(V)){case 1:a # one" ++ ex_nl ++ "case 2:case 3:b" ++ ex_nl ++ "default:c}" ++
  " L: end }" ++
  "movement M{walk_up*2" ++ ex_nl ++ "face_down}" ++
  "mart Mt{ITEM_A" ++ ex_nl ++ "ITEM_B}" ++ ex_nl ++
  "mapscripts MS{MAP_SCRIPT_ON_LOAD:S1" ++ ex_nl ++ "MAP_SCRIPT_ON_FRAME_TABLE[VAR_X,1:S2" ++ ex_nl ++ "VAR_Y,2{lock}]MAP_SCRIPT_ON_RESUME{end}}" ++
  "raw" ++ ex_nl ++ ex_nl ++ "`" ++ ex_nl ++ " .byte 1" ++ ex_nl ++ "`" ++
  "text T{""abc""}".

Example ex_parse1 : ex_parse0 ex_src1 = Parser.Ok (ex_prog ex_src1).
Proof. vm_compute. reflexivity. Qed.
Example ex_parse2 : ex_parse0 ex_src2 = Parser.Ok (ex_prog ex_src2).
Proof. vm_compute. reflexivity. Qed.
Example ex_same_shapes : map shape (lex ex_nf ex_nf ex_nf (t ex_src1)) = map shape (lex ex_nf ex_nf ex_nf (t ex_src2)).
Proof. vm_compute. reflexivity. Qed.
Example ex_same_erasure : erase_program (ex_prog ex_src1) = erase_program (ex_prog ex_src2).
Proof. vm_compute. reflexivity. Qed.
(* the theorem applies: same output with and without chunk reordering *)
Example ex_same_output : forall o, same_outcome (ex_comp o None ex_src1) (ex_comp o None ex_src2).
Proof.
  intros o. apply compile_equal_erasures with (p1 := ex_prog ex_src1) (p2 := ex_prog ex_src2);
    [exact ex_parse1|exact ex_parse2|exact ex_same_erasure].
Qed.
Example ex_output_is_text : exists x, ex_comp false None ex_src1 = Compile.OutText x /\ ex_comp false None ex_src2 = Compile.OutText x /\ (200 < List.length x)%nat.
Proof. eexists. split; [vm_compute; reflexivity|]. split; [vm_compute; reflexivity|]. vm_compute. lia. Qed.
(* the programs themselves are different, and "without line markers" is necessary: with markers the outputs differ *)
Example ex_markers_differ :
  match ex_comp false (Some (t "f.pory")) ex_src1, ex_comp false (Some (t "f.pory")) ex_src2 with
  | Compile.OutText x1, Compile.OutText x2 => text_eqb x1 x2 = false
  | _, _ => False
  end.
Proof. vm_compute. reflexivity. Qed.

(* a label clash found by the emitter: the same message, located where the label stands in each source *)
Definition ex_src3 : string := "script A { if (flag(F)) { x } A_1: end }".
Definition ex_src4 : string := "script A {" ++ ex_nl ++ " if (flag(F)) { x }" ++ ex_nl ++ "   A_1: end }".
Definition ex_located (o : Compile.outcome) : option (text * Z * Z) :=
  match o with Compile.OutErr e => Some (Parser.emsg e, Parser.els e, Parser.ecs e) | _ => None end.
Example ex_clash_same_erasure :
  ex_parse0 ex_src3 = Parser.Ok (ex_prog ex_src3) /\ ex_parse0 ex_src4 = Parser.Ok (ex_prog ex_src4) /\ erase_program (ex_prog ex_src3) = erase_program (ex_prog ex_src4).
Proof. vm_compute. auto. Qed.
Example ex_clash_located :
  ex_located (ex_comp false None ex_src3) = Some (t "duplicate label", 1%Z, 30%Z) /\
  ex_located (ex_comp false None ex_src4) = Some (t "duplicate label", 3%Z, 3%Z).
Proof. vm_compute. auto. Qed.
End EXAMPLES.

(* ================================================================================================================= *)
(* 10. The erasure is a projection (sanity of the definition): erasing twice is erasing once                           *)
(* ================================================================================================================= *)
Lemma erase_cmd_idem c : erase_cmd (erase_cmd c) = erase_cmd c.
Proof. reflexivity. Qed.
Lemma erase_leaf_idem l : erase_leaf (erase_leaf l) = erase_leaf l.
Proof. unfold erase_leaf. cbn [lk loperand lline lop lvalue lstrict lpre]. destruct (lpre l); reflexivity. Qed.
Lemma erase_bexp_idem e : erase_bexp (erase_bexp e) = erase_bexp e.
Proof. induction e as [l|o a IHa b IHb]; cbn [erase_bexp]; [rewrite erase_leaf_idem|rewrite IHa, IHb]; reflexivity. Qed.

Lemma erase_stmts_idem : forall ss, erase_stmts (erase_stmts ss) = erase_stmts ss.
Proof.
  apply (LabelSim.stmts_ind2 (fun s => erase_stmt (erase_stmt s) = erase_stmt s)
                             (fun ss => erase_stmts (erase_stmts ss) = erase_stmts ss)).
  - reflexivity.
  - intros s r Hs Hr. cbn [erase_stmts map]. fold (erase_stmts r). fold (erase_stmts (erase_stmts r)). rewrite Hs, Hr. reflexivity.
  - intros c. reflexivity.
  - intros n g tk. reflexivity.
  - intros conds els Hc He. rewrite !erase_stmt_if. f_equal.
    + rewrite map_map. induction Hc as [|[e b] r Hb Hr IH]; [reflexivity|]. cbn [map]. rewrite IH. f_equal.
      unfold erase_cond. cbn [fst snd] in *. rewrite erase_bexp_idem, Hb. reflexivity.
    + destruct els as [b|]; [|reflexivity]. cbn [option_map]. rewrite He. reflexivity.
  - intros tg c b Hb. cbn [erase_stmt]. fold (erase_stmts b). fold (erase_stmts (erase_stmts b)). rewrite Hb.
    destruct c as [e|]; cbn [option_map]; [rewrite erase_bexp_idem|]; reflexivity.
  - intros tg b c Hb. cbn [erase_stmt]. fold (erase_stmts b). fold (erase_stmts (erase_stmts b)). rewrite Hb, erase_bexp_idem. reflexivity.
  - intros tg. reflexivity.
  - intros tg. reflexivity.
  - intros tg o ol cases Hc. rewrite !erase_stmt_switch. f_equal. rewrite map_map.
    induction Hc as [|c r Hb Hr IH]; [reflexivity|]. cbn [map]. rewrite IH. f_equal.
    destruct c as [[[d v] ln] body]. unfold erase_case, sc_def, sc_val, sc_body in *. cbn [fst snd] in *. rewrite Hb. reflexivity.
Qed.

Lemma map_idem {A} (f : A -> A) l : (forall x, f (f x) = f x) -> map f (map f l) = map f l.
Proof. intros H. rewrite map_map. apply map_ext. exact H. Qed.

Lemma erase_top_idem tp : erase_top (erase_top tp) = erase_top tp.
Proof.
  destruct tp as [n g b|v ln| |n g tk steps|n g tk items itoks|n g plain tables]; cbn [erase_top]; try reflexivity.
  - rewrite erase_stmts_idem. reflexivity.
  - rewrite (map_idem erase_tok) by reflexivity. reflexivity.
  - rewrite (map_idem erase_tok) by reflexivity. reflexivity.
  - f_equal.
    + apply map_idem. intros m. unfold erase_mapscript. cbn [msType msName msScript].
      destruct (msScript m) as [b|]; cbn [option_map]; [rewrite erase_stmts_idem|]; reflexivity.
    + apply map_idem. intros tb. unfold erase_tablems. cbn [tmType tmName tmEntries]. f_equal.
      apply map_idem. intros e. unfold erase_tableentry. cbn [teCond teCondLit teCmp teName teScript].
      destruct (teScript e) as [b|]; cbn [option_map]; [rewrite erase_stmts_idem|]; reflexivity.
Qed.

Theorem erase_program_idem p : erase_program (erase_program p) = erase_program p.
Proof.
  unfold erase_program. cbn [tops texts]. f_equal.
  - apply map_idem. exact erase_top_idem.
  - apply map_idem. intros x. reflexivity.
Qed.
