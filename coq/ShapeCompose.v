(* C19: 'and hence never changes the compiled output without line markers' - the lexer theorems (LexLayout / LexBetween / LexRest:
   layout does not change the sequence of token types and literals), the parser half (ShapeParse.v: the parser reads types and
   literals only) and the emitter half (ShapeEmit.v: without markers the emitter's result is a function of the position-erased
   program) composed. No hypothesis is left: for every classification of non-ASCII code points, command configuration, switch
   set, mode, font configuration and both -optimize settings.
   agree_outcome: the same output text; or errors with the same message (their positions differ, naturally); or the same
   failure kind. *)
From Coq Require Import List ZArith NArith Bool.
From Pory Require Import Lexer LexLayout LexBetween LexRest Ast Parser Format Emitter Compile ShapeEmit.
From Pory Require ShapeParse.
Import ListNotations.

Section C.
Variable hl hd hs : N -> bool.
Variable autovars : list (text * autovar).
Variable switches : list (text * text).
Variable ee : bool.
Variable fc : fontcfg.
Variable cli_font : text.
Variable cli_maxlen : Z.
Notation COMPILE := (compile hl hd hs autovars switches ee fc cli_font cli_maxlen).

Lemma parser_half : forall ts1 ts2 : list token, map shape ts1 = map shape ts2 ->
  parse_agree (parse_program autovars switches ee (parse_format fc cli_font cli_maxlen ee) ts1)
              (parse_program autovars switches ee (parse_format fc cli_font cli_maxlen ee) ts2).
Proof. exact (ShapeParse.equal_shapes_parse_agree autovars switches ee fc cli_font cli_maxlen). Qed.

(* two sources with the same sequence of token types and literals have the same compiled output without line markers *)
Theorem same_tokens_same_output optimize src1 src2 :
  map shape (lex hl hd hs src1) = map shape (lex hl hd hs src2) ->
  agree_outcome (COMPILE optimize None src1) (COMPILE optimize None src2).
Proof. exact (ShapeEmit.equal_shapes_equal_output hl hd hs autovars switches ee fc cli_font cli_maxlen parser_half optimize src1 src2). Qed.

(* layout in front of the first token *)
Theorem leading_layout_never_changes_the_output optimize g s :
  gap g -> agree_outcome (COMPILE optimize None (g ++ s)) (COMPILE optimize None s).
Proof. exact (ShapeEmit.leading_layout_same_output hl hd hs autovars switches ee fc cli_font cli_maxlen parser_half optimize g s). Qed.

(* a gap of whitespace and comments inserted at any token boundary (unless '/' meets '//') *)
Theorem layout_between_tokens_never_changes_the_output optimize (p r g : list N) (k : nat) :
  r <> [] -> gap g -> ~ fuses p g -> reaches hl hd hs r k (init (p ++ r)) ->
  agree_outcome (COMPILE optimize None (p ++ g ++ r)) (COMPILE optimize None (p ++ r)).
Proof. exact (ShapeEmit.layout_between_tokens_same_output hl hd hs autovars switches ee fc cli_font cli_maxlen parser_half optimize p r g k). Qed.

(* layout behind the last token, the last comment possibly unterminated *)
Theorem trailing_layout_never_changes_the_output optimize (p r g : list N) (k : nat) :
  r <> [] -> reaches hl hd hs r k (init (p ++ r)) -> tgap g -> ~ fuses p g ->
  agree_outcome (COMPILE optimize None (p ++ g)) (COMPILE optimize None p).
Proof. exact (ShapeEmit.trailing_layout_same_output hl hd hs autovars switches ee fc cli_font cli_maxlen parser_half optimize p r g k). Qed.
End C.
