(* C08, parser side: what parse_mapscripts builds from the tokens of a mapscripts statement.

   Source grammar (relations [rows_src], [entries_src], [mapscripts_src] over token lists; "X_src ts tree rest" reads
   "ts begins with the tokens of tree and rest is what follows"):

     statement ::= MAPSCRIPTS [ '(' (global|local) ')' ] NAME '{' entry* '}'
     entry     ::= TYPE ':' LABEL                      (ELabel)
                 | TYPE '{' body '}'                   (EInline, body = a script body)
                 | TYPE '[' row* ']'                   (ETable)
     row       ::= cond ',' value ':' LABEL            (RLabel)
                 | cond ',' value '{' body '}'         (RInline)

   The AST the parser must build is a function of the source tree: [plain_of] (label and inline entries, source order),
   [tables_of] (table entries, source order), [rows_ast] (rows of a table, source order, inline row number i gets the
   name MAP_TYPE_i).

   Theorem A  (parse_mapscripts_sound):    every successful run of parse_mapscripts on a token stream (ending in EOF) read a
                                           statement of the grammar and returned exactly the AST of its tree: nothing dropped,
                                           duplicated or reordered.  Bodies: what the model's block parser returns for them
                                           (body_parsed); inline_body_is_script_body: it is the call parse_script makes.
   Theorem B  (parse_mapscripts_complete): every statement of the grammar is parsed (fuel >= F0 + number of tokens) to the AST of
                                           its tree.  Bodies: assumed to parse with every fuel >= F0 (body_parses); Example
                                           ex_derivation shows a statement for which this holds.
   Theorem C  (tree_lines, mapscripts_tokens_to_lines, statement_to_lines, mapscripts_source_to_lines): tokens -> printed
                                           lines, by C08Proofs.mapscripts_shape; parse_tops_mapscripts: the statement as it
                                           enters the program (bodies patched by pstmt, nothing else changed).
   Counting:  rows_ast_nth, rows_ast_length, entry_count, plain_of_app, tables_of_app.
   Naming:    inline_row_name, label_row_name, row_names_distinct, table_inline_names_nodup, plain_names_distinct;
              the collisions that do exist (also in parser.go): Examples ex_duplicate_label, ex_table_clash.
   *_real:    the same with the model's format() operator (no hypothesis on parse_format left). *)
From Coq Require Import List String Ascii ZArith NArith Lia Bool.
From Pory Require Import Lexer Ast Emitter C08Proofs Consume Parser.
From Pory Require ProgSrc Format.
Import ListNotations.
Open Scope list_scope.

(* ---------- small facts about tokens and streams ---------- *)
Lemma is_true ty x : ttype x = ty -> is ty x = true.
Proof. intros H. unfold is, tt_eqb. rewrite H. destruct (toktype_eq_dec ty ty); [reflexivity|congruence]. Qed.
Lemma is_false ty x : ttype x <> ty -> is ty x = false.
Proof. intros H. unfold is, tt_eqb. destruct (toktype_eq_dec (ttype x) ty); [congruence|reflexivity]. Qed.
Lemma is_true_inv ty x : is ty x = true -> ttype x = ty.
Proof. unfold is, tt_eqb. destruct (toktype_eq_dec (ttype x) ty); [auto|discriminate]. Qed.
Lemma is_false_inv ty x : is ty x = false -> ttype x <> ty.
Proof. unfold is, tt_eqb. destruct (toktype_eq_dec (ttype x) ty); [discriminate|auto]. Qed.

Lemma eof_uncons ts : eof_ended ts -> ttype (cur ts) <> EOF -> exists x y r, ts = x :: y :: r /\ eof_ended (y :: r).
Proof.
  intros [N E] C. destruct ts as [|x [|y r]]; [congruence|exfalso; apply C; exact E|].
  exists x, y, r. split; [reflexivity|]. split; [discriminate|exact E].
Qed.
Lemma eof_ended_tail x y r : eof_ended (x :: y :: r) -> eof_ended (y :: r).
Proof. intros [_ E]. split; [discriminate|exact E]. Qed.
Lemma eof_ended_app_r a b : b <> [] -> eof_ended (a ++ b) -> eof_ended b.
Proof.
  intros NB [_ E]. split; [exact NB|]. revert E. induction a as [|x a IH]; [auto|]. cbn [app].
  destruct (a ++ b) eqn:AB; [apply app_eq_nil in AB; destruct AB; contradiction|]. cbn [last]. exact IH.
Qed.
Lemma eof_ended_app_l a b : eof_ended b -> eof_ended (a ++ b).
Proof.
  intros [NB E]. split; [intros X; apply app_eq_nil in X; destruct X; contradiction|].
  induction a as [|y a IH]; [exact E|]. cbn [app]. destruct (a ++ b) eqn:AB; [apply app_eq_nil in AB; destruct AB as [_ AB]; contradiction|].
  cbn [last]. exact IH.
Qed.
Lemma advs_suffix a b : advs a b -> exists p, a = p ++ b.
Proof.
  induction 1 as [ts|ts ts' _ [p IH]]; [exists []; reflexivity|].
  destruct ts as [|x [|y r]]; cbn [adv] in IH.
  - exists p. exact IH.
  - exists p. exact IH.
  - exists (x :: p). cbn [app]. rewrite IH. reflexivity.
Qed.
Lemma curis_cons ty a r : curis ty (a :: r) = is ty a. Proof. reflexivity. Qed.
Lemma peekis_cons ty a b r : peekis ty (a :: b :: r) = is ty b. Proof. reflexivity. Qed.
Lemma adv_cons2 a b r : adv (a :: b :: r) = b :: r. Proof. reflexivity. Qed.
Lemma adv_cons_ne a l : l <> [] -> adv (a :: l) = l.
Proof. destruct l; [congruence|reflexivity]. Qed.
Lemma cur_app_ne a b : a <> [] -> cur (a ++ b) = cur a.
Proof. destruct a; [congruence|reflexivity]. Qed.

Lemma cur_app_hd a b : a <> [] -> cur (a ++ b) = hd eof0 a.
Proof. destruct a; [congruence|reflexivity]. Qed.

Lemma bind_inv {X Y} (m : Parser.res X) (k : X -> Parser.res Y) r :
  match m with Parser.Ok x => k x | Err e => Err e | Panic => Panic | Fuel => Fuel end = Parser.Ok r ->
  exists x, m = Parser.Ok x /\ k x = Parser.Ok r.
Proof. destruct m; try discriminate. eauto. Qed.
Tactic Notation "bind" hyp(H) "as" simple_intropattern(p) "eqn" ident(E) :=
  apply bind_inv in H; destruct H as (p & E & H); cbn beta iota in H.

Definition imp_eq (a b : impdata) : Prop := idT a = idT b /\ idM a = idM b.
Lemma imp_eq_refl a : imp_eq a a. Proof. split; reflexivity. Qed.
Lemma imp_eq_sym a b : imp_eq a b -> imp_eq b a. Proof. intros [H1 H2]. split; auto. Qed.
Lemma imp_eq_trans a b c : imp_eq a b -> imp_eq b c -> imp_eq a c.
Proof. intros [H1 H2] [H3 H4]. split; congruence. Qed.
Lemma imp_eq_add a a' b b' : imp_eq a a' -> imp_eq b b' -> imp_eq (impadd a b) (impadd a' b').
Proof. intros [H1 H2] [H3 H4]. unfold imp_eq, impadd. cbn. rewrite H1, H2, H3, H4. split; reflexivity. Qed.
Lemma imp_eq_assoc a b c : imp_eq (impadd (impadd a b) c) (impadd a (impadd b c)).
Proof. unfold imp_eq, impadd. cbn. rewrite <- !app_assoc. split; reflexivity. Qed.
Lemma imp_eq_add0_r a : imp_eq (impadd a imp0) a.
Proof. unfold imp_eq, impadd. cbn. rewrite !app_nil_r. split; reflexivity. Qed.
Lemma imp_eq_add0_l a : imp_eq (impadd imp0 a) a.
Proof. unfold imp_eq, impadd. cbn. split; reflexivity. Qed.

(* ---------- the source tree of a mapscripts statement ---------- *)
Inductive row :=
| RLabel (c v : list token) (lbl : token)                       (* cond , value : LABEL *)
| RInline (c v : list token) (b : list stmt) (imp : impdata).   (* cond , value { body } ; b = the parsed body *)
Inductive entry :=
| ELabel (ty lbl : token)                                       (* TYPE : LABEL *)
| EInline (ty : token) (b : list stmt) (imp : impdata)          (* TYPE { body } *)
| ETable (ty : token) (rows : list row).                        (* TYPE [ rows ] *)

(* the model's naming function for inline scripts *)
Definition plain_name (mapname : text) (ty : token) : text := mapname ++ t "_" ++ tlit ty.
Definition row_name (mapname tyname : text) (i : nat) : text := mapname ++ t "_" ++ tyname ++ t "_" ++ nat_text i.

Section TREE.
Variable consts : list (text * text).
Definition cr (x : token) : text := creplace consts (tlit x).
(* the text of a condition / comparison value: the literals (constants replaced), joined the strings.Builder way *)
Definition joined (c : list token) : text := fold_left sb_add (map cr c) [].

Definition row_ast (mapname tyname : text) (i : nat) (r : row) : tableentry :=
  match r with
  | RLabel c v lbl => {| teCond := hd eof0 c; teCondLit := joined c; teCmp := joined v; teName := tlit lbl; teScript := None |}
  | RInline c v b _ => {| teCond := hd eof0 c; teCondLit := joined c; teCmp := joined v; teName := row_name mapname tyname i; teScript := Some b |}
  end.
(* rows in source order; the i-th row (counting all rows from 0) is numbered i *)
Fixpoint rows_ast (mapname tyname : text) (i : nat) (rows : list row) : list tableentry :=
  match rows with [] => [] | r :: rs => row_ast mapname tyname i r :: rows_ast mapname tyname (S i) rs end.

(* the plain entries, in source order *)
Definition plain_of (mapname : text) (es : list entry) : list mapscript :=
  flat_map (fun e => match e with
                     | ELabel ty lbl => [{| msType := ty; msName := tlit lbl; msScript := None |}]
                     | EInline ty b _ => [{| msType := ty; msName := plain_name mapname ty; msScript := Some b |}]
                     | ETable _ _ => []
                     end) es.
(* the table entries, in source order *)
Definition tables_of (mapname : text) (es : list entry) : list tablems :=
  flat_map (fun e => match e with
                     | ETable ty rows => [{| tmType := ty; tmName := plain_name mapname ty; tmEntries := rows_ast mapname (tlit ty) 0 rows |}]
                     | _ => []
                     end) es.

(* inline texts / movements found in the bodies, in source order *)
Definition row_imp (r : row) : impdata := match r with RLabel _ _ _ => imp0 | RInline _ _ _ i => i end.
Definition rows_imp (rows : list row) : impdata := fold_right (fun r a => impadd (row_imp r) a) imp0 rows.
Definition entry_imp (e : entry) : impdata :=
  match e with ELabel _ _ => imp0 | EInline _ _ i => i | ETable _ rows => rows_imp rows end.
Definition entries_imp (es : list entry) : impdata := fold_right (fun e a => impadd (entry_imp e) a) imp0 es.

(* ---------- the grammar ---------- *)
(* [Body sname lb ts b imp ts']: after the opening brace lb, the stream ts holds a script body that parses (as the body of
   script sname) to b with inline data imp, and ts' is ts from the closing brace on *)
Variable Body : text -> token -> toks -> list stmt -> impdata -> toks -> Prop.

(* a condition / value: tokens up to the separator, no end of file inside, text not empty *)
Definition value_toks (stop : token -> bool) (c : list token) : Prop :=
  Forall (fun k => stop k = false) c /\ Forall (fun k => ttype k <> EOF) (tl c) /\ joined c <> [].
Definition is_sep2 (k : token) : bool := is COLON k || is LBRACE k.

Inductive rows_src (mapname tyname : text) : nat -> toks -> list row -> toks -> Prop :=
| RS_nil i rest : rows_src mapname tyname i rest [] rest
| RS_label i c comma v colon lbl ts rs rest :
    ttype (hd eof0 c) <> RBRACKET ->
    value_toks (is COMMA) c -> ttype comma = COMMA -> value_toks is_sep2 v -> ttype colon = COLON -> ttype lbl = IDENT ->
    rows_src mapname tyname (S i) ts rs rest ->
    rows_src mapname tyname i (c ++ comma :: v ++ colon :: lbl :: ts) (RLabel c v lbl :: rs) rest
| RS_inline i c comma v lb body rb b imp ts rs rest :
    ttype (hd eof0 c) <> RBRACKET ->
    value_toks (is COMMA) c -> ttype comma = COMMA -> value_toks is_sep2 v -> ttype lb = LBRACE -> ttype rb = RBRACE ->
    Body (row_name mapname tyname i) lb (body ++ rb :: ts) b imp (rb :: ts) ->
    rows_src mapname tyname (S i) ts rs rest ->
    rows_src mapname tyname i (c ++ comma :: v ++ lb :: body ++ rb :: ts) (RInline c v b imp :: rs) rest.

Inductive entries_src (mapname : text) : toks -> list entry -> toks -> Prop :=
| ES_nil rest : entries_src mapname rest [] rest
| ES_label ty colon lbl ts es rest :
    ttype ty = IDENT -> ttype colon = COLON -> ttype lbl = IDENT ->
    entries_src mapname ts es rest ->
    entries_src mapname (ty :: colon :: lbl :: ts) (ELabel ty lbl :: es) rest
| ES_inline ty lb body rb b imp ts es rest :
    ttype ty = IDENT -> ttype lb = LBRACE -> ttype rb = RBRACE ->
    Body (plain_name mapname ty) lb (body ++ rb :: ts) b imp (rb :: ts) ->
    entries_src mapname ts es rest ->
    entries_src mapname (ty :: lb :: body ++ rb :: ts) (EInline ty b imp :: es) rest
| ES_table ty lbk rtoks rows rbk ts es rest :
    ttype ty = IDENT -> ttype lbk = LBRACKET -> ttype rbk = RBRACKET ->
    rows_src mapname (tlit ty) 0 rtoks rows (rbk :: ts) ->
    entries_src mapname ts es rest ->
    entries_src mapname (ty :: lbk :: rtoks) (ETable ty rows :: es) rest.

(* the whole statement; m = the token the statement starts with (parse_tops dispatches on its type MAPSCRIPTS),
   g = global?, rb = the closing brace, rest = what follows the statement *)
Inductive mapscripts_src : toks -> bool -> text -> list entry -> token -> toks -> Prop :=
| MS_default m nm lb ts es rb rest :
    ttype nm = IDENT -> ttype lb = LBRACE -> ttype rb = RBRACE ->
    entries_src (tlit nm) ts es (rb :: rest) ->
    mapscripts_src (m :: nm :: lb :: ts) true (tlit nm) es rb rest
| MS_scoped m lp sc rp nm lb ts es rb rest :
    ttype lp = LPAREN -> ttype sc = GLOBAL \/ ttype sc = LOCAL -> ttype rp = RPAREN ->
    ttype nm = IDENT -> ttype lb = LBRACE -> ttype rb = RBRACE ->
    entries_src (tlit nm) ts es (rb :: rest) ->
    mapscripts_src (m :: lp :: sc :: rp :: nm :: lb :: ts) (is GLOBAL sc) (tlit nm) es rb rest.

(* the relations read a prefix: the tokens of the tree are followed by rest *)
Lemma rows_src_prefix mapname tyname i ts rows rest : rows_src mapname tyname i ts rows rest -> exists p, ts = p ++ rest.
Proof.
  induction 1 as [i rest|i c comma v colon lbl ts rs rest _ _ _ _ _ _ _ [p IH]|i c comma v lb body rb b imp ts rs rest _ _ _ _ _ _ _ _ [p IH]].
  - exists []. reflexivity.
  - exists (c ++ comma :: v ++ colon :: lbl :: p). rewrite IH. rewrite <- !app_assoc. cbn [app]. rewrite <- !app_assoc. reflexivity.
  - exists (c ++ comma :: v ++ lb :: body ++ rb :: p). rewrite IH. repeat (rewrite <- !app_assoc; cbn [app]). reflexivity.
Qed.
Lemma entries_src_prefix mapname ts es rest : entries_src mapname ts es rest -> exists p, ts = p ++ rest.
Proof.
  induction 1 as [rest|ty colon lbl ts es rest _ _ _ _ [p IH]|ty lb body rb b imp ts es rest _ _ _ _ _ [p IH]
                 |ty lbk rtoks rows rbk ts es rest _ _ _ HR _ [p IH]].
  - exists []. reflexivity.
  - exists (ty :: colon :: lbl :: p). rewrite IH. reflexivity.
  - exists (ty :: lb :: body ++ rb :: p). rewrite IH. cbn [app]. rewrite <- !app_assoc. reflexivity.
  - destruct (rows_src_prefix _ _ _ _ _ _ HR) as [q HQ]. exists (ty :: lbk :: q ++ rbk :: p). rewrite HQ, IH.
    cbn [app]. rewrite <- !app_assoc. reflexivity.
Qed.
End TREE.

(* the grammar is monotone in the body predicate *)
Section MONO.
Variable consts : list (text * text).
Variable B1 B2 : text -> token -> toks -> list stmt -> impdata -> toks -> Prop.
Hypothesis B12 : forall s l ts b i ts', B1 s l ts b i ts' -> B2 s l ts b i ts'.
Lemma rows_src_mono m ty i ts rows rest : rows_src consts B1 m ty i ts rows rest -> rows_src consts B2 m ty i ts rows rest.
Proof. induction 1; [apply RS_nil|apply RS_label; assumption|apply RS_inline; auto]. Qed.
Lemma entries_src_mono m ts es rest : entries_src consts B1 m ts es rest -> entries_src consts B2 m ts es rest.
Proof.
  induction 1; [apply ES_nil|apply ES_label; assumption|apply ES_inline; auto|].
  eapply ES_table; try eassumption. apply rows_src_mono. assumption.
Qed.
Lemma mapscripts_src_mono ts g name es rb rest : mapscripts_src consts B1 ts g name es rb rest -> mapscripts_src consts B2 ts g name es rb rest.
Proof. destruct 1; [apply MS_default|apply MS_scoped]; try assumption; apply entries_src_mono; assumption. Qed.
End MONO.

(* ================= Theorem A: what the parser accepted was a statement of the grammar, and the AST is that of its tree ================= *)
Section SOUND.
Variable autovars : list (text * autovar).
Variable switches : list (text * text).
Variable env_errors : bool.
Variable parse_format : toks -> res (token * text * text * toks).
Hypothesis parse_format_advs : forall ts tk v sty ts', parse_format ts = Ok (tk, v, sty, ts') -> forall a, advs a ts -> advs a ts'.
Variable consts : list (text * text).

Notation parse_block := (parse_block autovars switches env_errors parse_format consts).
Notation ms_table := (ms_table autovars switches env_errors parse_format consts).
Notation ms_entries := (ms_entries autovars switches env_errors parse_format consts).
Notation parse_mapscripts := (parse_mapscripts autovars switches env_errors parse_format consts).
Notation parse_script := (parse_script autovars switches env_errors parse_format consts).

(* a body: the model's block parser (the one parse_script uses for the body of a script statement) returns b for it *)
Definition body_parsed (sname : text) (lb : token) (ts : toks) (b : list stmt) (imp : impdata) (ts' : toks) : Prop :=
  exists fb, parse_block fb sname [] [] lb ts [] imp0 = Ok (b, imp, ts').

Notation rows_srcA := (rows_src consts body_parsed).
Notation entries_srcA := (entries_src consts body_parsed).

Lemma ms_collect_inv : forall f stop ts acc r ts', ms_collect consts f stop ts acc = Some (r, ts') -> eof_ended ts ->
  exists c, ts = c ++ ts' /\ Forall (fun k => stop k = false) c /\ Forall (fun k => ttype k <> EOF) (tl (c ++ [cur ts'])) /\
            stop (cur ts') = true /\ r = fold_left sb_add (map (cr consts) c) acc /\ eof_ended ts'.
Proof.
  induction f as [|f IH]; intros stop ts acc r ts' H EO; [discriminate|]. cbn [ms_collect] in H.
  destruct (stop (cur ts)) eqn:S0.
  - inversion H; subst. exists []. cbn. repeat (split; [solve [auto]|]). exact EO.
  - destruct (curis EOF (adv ts)) eqn:C1; [discriminate|].
    destruct EO as [N L]. destruct ts as [|x [|y rr]]; [congruence| |].
    + exfalso. cbn in L. unfold curis in C1. cbn in C1. rewrite (is_true EOF x L) in C1. discriminate.
    + rewrite adv_cons2 in H, C1. cbn [cur hd] in H, S0.
      assert (EO1 : eof_ended (y :: rr)) by (split; [discriminate|exact L]).
      destruct (IH _ _ _ _ _ H EO1) as (c & E1 & F1 & F2 & S1 & R1 & EO').
      exists (x :: c). cbn [app]. rewrite <- E1. split; [reflexivity|]. split; [constructor; assumption|].
      split; [|split; [exact S1|split; [exact R1|exact EO']]].
      cbn [tl]. assert (NE' : ts' <> []) by (apply EO').
      destruct c as [|c0 c'].
      * cbn [app] in *. subst ts'. constructor; [|constructor]. cbn [cur hd]. apply is_false_inv. exact C1.
      * cbn [app tl] in *. constructor; [|exact F2]. inversion E1; subst. apply is_false_inv. exact C1.
Qed.

Lemma collect_value stop f ts r ts' : ms_collect consts f stop ts [] = Some (r, ts') -> eof_ended ts -> r <> [] ->
  exists c, ts = c ++ ts' /\ value_toks consts stop c /\ r = joined consts c /\ stop (cur ts') = true /\ eof_ended ts' /\ c <> [].
Proof.
  intros H EO NR. destruct (ms_collect_inv _ _ _ _ _ _ H EO) as (c & E1 & F1 & F2 & S1 & R1 & EO').
  exists c. split; [exact E1|]. split; [|split; [exact R1|split; [exact S1|split; [exact EO'|]]]].
  - split; [exact F1|]. split; [|unfold joined; rewrite <- R1; exact NR].
    destruct c as [|c0 c']; [constructor|]. cbn [app tl] in *. apply Forall_app in F2. apply F2.
  - intros ->. cbn in R1. congruence.
Qed.

Lemma parse_block_rbrace : forall f script bs cs start ts acc imp b imp' ts',
  parse_block f script bs cs start ts acc imp = Ok (b, imp', ts') -> curis RBRACE ts' = true.
Proof.
  induction f as [|f IH]; intros script bs cs start ts acc imp b imp' ts' H; [discriminate|].
  rewrite parse_block_unfold in H. destruct (curis RBRACE ts) eqn:C0; [inversion H; subst; exact C0|].
  destruct (curis EOF ts); [discriminate|]. bind H as [[ss imp1] ts1] eqn E1. eapply IH. exact H.
Qed.

(* the block parser reads a prefix and stops on the closing brace *)
Lemma parse_block_shape f script start ts b imp ts' :
  parse_block f script [] [] start ts [] imp0 = Ok (b, imp, ts') -> eof_ended ts ->
  exists body rb rest, ts = body ++ rb :: rest /\ ts' = rb :: rest /\ ttype rb = RBRACE /\ eof_ended rest.
Proof.
  intros H EO. pose proof (parse_block_rbrace _ _ _ _ _ _ _ _ _ _ _ H) as C.
  assert (A : advs ts ts') by (eapply parse_block_advs; [exact parse_format_advs|exact H|apply advs_refl]).
  pose proof (advs_eof _ _ A EO) as EO'. destruct (advs_suffix _ _ A) as [body E].
  apply is_true_inv in C. destruct (eof_uncons ts' EO' ltac:(rewrite C; discriminate)) as (rb & y & r & -> & EO2).
  exists body, rb, (y :: r). repeat split; try assumption; apply EO2.
Qed.

Lemma ms_table_inv : forall f mapname tyname ts i acc imp es imp' ts',
  ms_table f mapname tyname ts i acc imp = Ok (es, imp', ts') -> eof_ended ts ->
  exists rows, rows_srcA mapname tyname i ts rows ts' /\ curis RBRACKET ts' = true /\ eof_ended ts' /\
     es = acc ++ rows_ast consts mapname tyname i rows /\ imp_eq imp' (impadd imp (rows_imp rows)).
Proof.
  induction f as [|f IH]; intros mapname tyname ts i acc imp es imp' ts' H EO; [discriminate|].
  cbn [Parser.ms_table] in H. destruct (curis RBRACKET ts) eqn:C0.
  { inversion H; subst. exists []. split; [constructor|]. split; [exact C0|]. split; [exact EO|].
    split; [cbn; now rewrite app_nil_r|]. apply imp_eq_sym, imp_eq_add0_r. }
  cbn zeta in H.
  destruct (ms_collect consts f (is COMMA) ts []) as [[cond ts1]|] eqn:C1; [|discriminate].
  destruct cond as [|c0 cond']; [discriminate|]. cbv beta iota in H.
  destruct (collect_value _ _ _ _ _ C1 EO ltac:(discriminate)) as (c & E1 & V1 & J1 & S1 & EO1 & NC).
  apply is_true_inv in S1.
  destruct (eof_uncons ts1 EO1 ltac:(rewrite S1; discriminate)) as (comma & y2 & r2 & -> & EO2).
  cbn [cur hd] in S1. rewrite adv_cons2 in H.
  destruct (ms_collect consts f (fun tk => is COLON tk || is LBRACE tk) (y2 :: r2) []) as [[cmp ts3]|] eqn:C3; [|discriminate].
  destruct cmp as [|v0 cmp']; [discriminate|]. cbv beta iota in H.
  destruct (collect_value _ _ _ _ _ C3 EO2 ltac:(discriminate)) as (v & E3 & V3 & J3 & S3 & EO3 & NV).
  assert (HC : ttype (hd eof0 c) <> RBRACKET).
  { apply is_false_inv. unfold curis in C0. rewrite E1, (cur_app_ne c _ NC) in C0. exact C0. }
  assert (ST : cur ts = hd eof0 c) by (rewrite E1; apply cur_app_ne; exact NC).
  destruct (curis COLON ts3) eqn:C4.
  - apply is_true_inv in C4.
    destruct (eof_uncons ts3 EO3 ltac:(rewrite C4; discriminate)) as (colon & lbl & r4 & -> & EO4).
    cbn [cur hd] in C4. unfold expect_peek in H. rewrite peekis_cons in H.
    destruct (is IDENT lbl) eqn:C5; [|discriminate]. apply is_true_inv in C5. rewrite adv_cons2 in H.
    destruct (eof_uncons (lbl :: r4) EO4 ltac:(cbn [cur hd]; rewrite C5; discriminate)) as (lbl' & y5 & r5 & E5 & EO5).
    inversion E5; subst lbl' r4. rewrite adv_cons2 in H. cbn [cur hd] in H.
    destruct (IH _ _ _ _ _ _ _ _ _ H EO5) as (rows & RS & CB & EO' & EA & IM).
    exists (RLabel c v lbl :: rows). split; [|split; [exact CB|split; [exact EO'|split]]].
    + rewrite E1, E3. apply RS_label; assumption.
    + rewrite EA, <- app_assoc. cbn [app rows_ast row_ast]. rewrite ST, J1, J3. reflexivity.
    + eapply imp_eq_trans; [exact IM|]. apply imp_eq_add; [apply imp_eq_refl|]. cbn [rows_imp fold_right row_imp].
      apply imp_eq_sym, imp_eq_add0_l.
  - bind H as [[b imp1] ts4] eqn E4.
    assert (C4' : ttype (cur ts3) = LBRACE).
    { apply is_true_inv. unfold curis in C4. rewrite C4 in S3. exact S3. }
    destruct (eof_uncons ts3 EO3 ltac:(rewrite C4'; discriminate)) as (lb & y4 & r4 & -> & EO4).
    cbn [cur hd] in C4', E4. rewrite adv_cons2 in E4.
    destruct (parse_block_shape _ _ _ _ _ _ _ E4 EO4) as (body & rb & rest & E5 & -> & RB & EO5).
    rewrite (adv_cons_ne rb rest ltac:(apply EO5)) in H.
    destruct (IH _ _ _ _ _ _ _ _ _ H EO5) as (rows & RS & CB & EO' & EA & IM).
    exists (RInline c v b imp1 :: rows). split; [|split; [exact CB|split; [exact EO'|split]]].
    + rewrite E1, E3, E5. apply RS_inline; try assumption. exists f. rewrite <- E5. exact E4.
    + rewrite EA, <- app_assoc. cbn [app rows_ast row_ast]. rewrite ST, J1, J3. reflexivity.
    + eapply imp_eq_trans; [exact IM|]. cbn [rows_imp fold_right row_imp]. apply imp_eq_assoc.
Qed.

Lemma ms_entries_inv : forall f mapname ts plain tables imp plain' tables' imp' ts',
  ms_entries f mapname ts plain tables imp = Ok (plain', tables', imp', ts') -> eof_ended ts ->
  exists es, entries_srcA mapname ts es ts' /\ curis RBRACE ts' = true /\ eof_ended ts' /\
     plain' = plain ++ plain_of mapname es /\ tables' = tables ++ tables_of consts mapname es /\
     imp_eq imp' (impadd imp (entries_imp es)).
Proof.
  induction f as [|f IH]; intros mapname ts plain tables imp plain' tables' imp' ts' H EO; [discriminate|].
  cbn [Parser.ms_entries] in H. destruct (curis RBRACE ts) eqn:C0.
  { inversion H; subst. exists []. split; [constructor|]. split; [exact C0|]. split; [exact EO|].
    cbn. rewrite !app_nil_r. split; [reflexivity|]. split; [reflexivity|]. apply imp_eq_sym, imp_eq_add0_r. }
  destruct (curis IDENT ts) eqn:C1; [|discriminate]. cbn [negb] in H. cbn zeta in H.
  apply is_true_inv in C1.
  destruct (eof_uncons ts EO ltac:(rewrite C1; discriminate)) as (ty & y1 & r1 & -> & EO1).
  cbn [cur hd] in C1, H. rewrite adv_cons2 in H.
  destruct (curis COLON (y1 :: r1)) eqn:C2.
  - apply is_true_inv in C2.
    destruct (eof_uncons _ EO1 ltac:(rewrite C2; discriminate)) as (colon & lbl & r2 & E2 & EO2).
    inversion E2; subst y1 r1. cbn [cur hd] in C2. unfold expect_peek in H. rewrite peekis_cons in H.
    destruct (is IDENT lbl) eqn:C3; [|discriminate]. apply is_true_inv in C3. rewrite adv_cons2 in H.
    destruct (eof_uncons (lbl :: r2) EO2 ltac:(cbn [cur hd]; rewrite C3; discriminate)) as (lbl' & y3 & r3 & E3 & EO3).
    inversion E3; subst lbl' r2. rewrite adv_cons2 in H. cbn [cur hd] in H.
    destruct (IH _ _ _ _ _ _ _ _ _ H EO3) as (es & ES & CB & EO' & EP & ET & IM).
    exists (ELabel ty lbl :: es). split; [|split; [exact CB|split; [exact EO'|split; [|split]]]].
    + apply ES_label; assumption.
    + rewrite EP, <- app_assoc. reflexivity.
    + rewrite ET. reflexivity.
    + eapply imp_eq_trans; [exact IM|]. apply imp_eq_add; [apply imp_eq_refl|]. cbn [entries_imp fold_right entry_imp].
      apply imp_eq_sym, imp_eq_add0_l.
  - destruct (curis LBRACE (y1 :: r1)) eqn:C3.
    + bind H as [[b imp1] ts2] eqn E4. apply is_true_inv in C3.
      destruct (eof_uncons _ EO1 ltac:(rewrite C3; discriminate)) as (lb & y2 & r2 & E2 & EO2).
      inversion E2; subst y1 r1. cbn [cur hd] in C3, E4. rewrite adv_cons2 in E4.
      destruct (parse_block_shape _ _ _ _ _ _ _ E4 EO2) as (body & rb & rest & E5 & -> & RB & EO5).
      rewrite (adv_cons_ne rb rest ltac:(apply EO5)) in H.
      destruct (IH _ _ _ _ _ _ _ _ _ H EO5) as (es & ES & CB & EO' & EP & ET & IM).
      exists (EInline ty b imp1 :: es). split; [|split; [exact CB|split; [exact EO'|split; [|split]]]].
      * rewrite E5. apply ES_inline; try assumption. exists f. rewrite <- E5. exact E4.
      * rewrite EP, <- app_assoc. reflexivity.
      * rewrite ET. reflexivity.
      * eapply imp_eq_trans; [exact IM|]. cbn [entries_imp fold_right entry_imp]. apply imp_eq_assoc.
    + destruct (curis LBRACKET (y1 :: r1)) eqn:C4; [|discriminate]. bind H as [[tes imp1] ts2] eqn E4. apply is_true_inv in C4.
      destruct (eof_uncons _ EO1 ltac:(rewrite C4; discriminate)) as (lbk & y2 & r2 & E2 & EO2).
      inversion E2; subst y1 r1. cbn [cur hd] in C4. rewrite adv_cons2 in E4.
      destruct (ms_table_inv _ _ _ _ _ _ _ _ _ _ E4 EO2) as (rows & RS & CK & EOK & EA & IMK).
      apply is_true_inv in CK.
      destruct (eof_uncons ts2 EOK ltac:(rewrite CK; discriminate)) as (rbk & y3 & r3 & -> & EO3).
      cbn [cur hd] in CK. rewrite adv_cons2 in H.
      destruct (IH _ _ _ _ _ _ _ _ _ H EO3) as (es & ES & CB & EO' & EP & ET & IM).
      exists (ETable ty rows :: es). split; [|split; [exact CB|split; [exact EO'|split; [|split]]]].
      * eapply ES_table; eassumption.
      * rewrite EP. reflexivity.
      * rewrite ET, <- app_assoc, EA. reflexivity.
      * eapply imp_eq_trans; [exact IM|]. cbn [entries_imp fold_right entry_imp].
        eapply imp_eq_trans; [|apply imp_eq_assoc]. apply imp_eq_add; [|apply imp_eq_refl].
        apply imp_eq_add; [apply imp_eq_refl|]. eapply imp_eq_trans; [exact IMK|apply imp_eq_add0_l].
Qed.

(* THEOREM A *)
Theorem parse_mapscripts_sound f ts tp imp ts' :
  eof_ended ts -> parse_mapscripts f ts = Ok (tp, imp, ts') ->
  exists g name es rb rest,
    mapscripts_src consts body_parsed ts g name es rb rest /\ ts' = rb :: rest /\ eof_ended rest /\
    tp = TMapScripts name g (plain_of name es) (tables_of consts name es) /\
    imp_eq imp (entries_imp es).
Proof.
  intros EO H. unfold Parser.parse_mapscripts in H. bind H as [g ts1] eqn E0. cbn zeta in H.
  destruct (expect_peek IDENT ts1) as [ts2|] eqn:P1; [|discriminate].
  destruct (expect_peek LBRACE ts2) as [ts3|] eqn:P2; [|discriminate].
  bind H as [[[plain tables] imp1] ts4] eqn E4. inversion H; subst tp imp ts'. clear H.
  (* the header *)
  assert (HD : exists m pre nm lb y r, ts = m :: pre ++ nm :: lb :: y :: r /\ ts3 = lb :: y :: r /\ ts2 = nm :: lb :: y :: r /\
                 ttype nm = IDENT /\ ttype lb = LBRACE /\ eof_ended (y :: r) /\
                 ((pre = [] /\ g = true) \/ exists lp sc rp, pre = [lp; sc; rp] /\ ttype lp = LPAREN /\ (ttype sc = GLOBAL \/ ttype sc = LOCAL) /\ ttype rp = RPAREN /\ g = is GLOBAL sc)).
  { assert (T : forall s, eof_ended s -> forall ty s', ty <> EOF -> expect_peek ty s = Some s' ->
                  exists a b r, s = a :: b :: r /\ s' = b :: r /\ ttype b = ty /\ eof_ended (b :: r)).
    { intros s [N L] ty s' NT P. unfold expect_peek in P. destruct (peekis ty s) eqn:PK; [|discriminate]. inversion P; subst s'.
      destruct s as [|a [|b r]]; [congruence| |].
      - exfalso. unfold peekis in PK. cbn in PK, L. apply is_true_inv in PK. congruence.
      - exists a, b, r. rewrite peekis_cons in PK. apply is_true_inv in PK. repeat split; try assumption; discriminate. }
    assert (S0 : (ts1 = ts /\ g = true /\ peekis LPAREN ts = false) \/
                 (exists m lp sc rp r, ts = m :: lp :: sc :: rp :: r /\ ts1 = rp :: r /\ ttype lp = LPAREN /\ (ttype sc = GLOBAL \/ ttype sc = LOCAL) /\ ttype rp = RPAREN /\ g = is GLOBAL sc /\ eof_ended (rp :: r))).
    { unfold scope_modifier in E0. destruct (peekis LPAREN ts) eqn:K0; cbn [negb] in E0.
      - right. destruct (T ts EO LPAREN (adv ts) ltac:(discriminate) ltac:(unfold expect_peek; rewrite K0; reflexivity)) as (m & lp & r & -> & A1 & L1 & EO1).
        rewrite adv_cons2 in E0.
        destruct (negb (peekis GLOBAL (lp :: r)) && negb (peekis LOCAL (lp :: r))) eqn:K1; [discriminate|].
        assert (K1' : exists ty, (ty = GLOBAL \/ ty = LOCAL) /\ peekis ty (lp :: r) = true).
        { destruct (peekis GLOBAL (lp :: r)) eqn:G1; [exists GLOBAL; auto|]. destruct (peekis LOCAL (lp :: r)) eqn:G2; [exists LOCAL; auto|]. discriminate. }
        destruct K1' as (sty & Hsty & K2).
        destruct (T (lp :: r) EO1 sty (adv (lp :: r)) ltac:(destruct Hsty; subst; discriminate) ltac:(unfold expect_peek; rewrite K2; reflexivity)) as (lp' & sc & r2 & E2 & A2 & L2 & EO2).
        inversion E2; subst lp' r. rewrite adv_cons2 in E0.
        destruct (peekis RPAREN (sc :: r2)) eqn:K3; cbn [negb] in E0; [|discriminate].
        destruct (T (sc :: r2) EO2 RPAREN (adv (sc :: r2)) ltac:(discriminate) ltac:(unfold expect_peek; rewrite K3; reflexivity)) as (sc' & rp & r3 & E3 & A3 & L3 & EO3).
        inversion E3; subst sc' r2. rewrite adv_cons2 in E0. inversion E0; subst g ts1.
        exists m, lp, sc, rp, r3. repeat split; try assumption; try apply EO3. destruct Hsty; subst sty; auto.
      - left. inversion E0; subst. auto. }
    destruct S0 as [(-> & -> & K0)|(m & lp & sc & rp & r & -> & -> & L1 & L2 & L3 & -> & EO1)].
    - destruct (T ts EO IDENT ts2 ltac:(discriminate) P1) as (m & nm & r & -> & -> & N1 & EO1).
      destruct (T _ EO1 LBRACE ts3 ltac:(discriminate) P2) as (nm' & lb & r2 & E2 & -> & N2 & EO2).
      inversion E2; subst nm' r.
      destruct (eof_uncons _ EO2 ltac:(cbn [cur hd]; rewrite N2; discriminate)) as (lb' & y & r3 & E3 & EO3).
      inversion E3; subst lb' r2.
      exists m, [], nm, lb, y, r3. cbn [app]. repeat split; try assumption; try discriminate; try apply EO3. left. auto.
    - destruct (T _ EO1 IDENT ts2 ltac:(discriminate) P1) as (rp' & nm & r1 & E1 & -> & N1 & EO2).
      inversion E1; subst rp' r.
      destruct (T _ EO2 LBRACE ts3 ltac:(discriminate) P2) as (nm' & lb & r2 & E2 & -> & N2 & EO3).
      inversion E2; subst nm' r1.
      destruct (eof_uncons _ EO3 ltac:(cbn [cur hd]; rewrite N2; discriminate)) as (lb' & y & r3 & E3 & EO4).
      inversion E3; subst lb' r2.
      exists m, [lp; sc; rp], nm, lb, y, r3. cbn [app]. repeat split; try assumption; try discriminate; try apply EO4.
      right. exists lp, sc, rp. auto. }
  destruct HD as (m & pre & nm & lb & y & r & -> & -> & -> & N1 & N2 & EO3 & HG).
  rewrite adv_cons2 in E4. cbn [cur hd] in *.
  destruct (ms_entries_inv _ _ _ _ _ _ _ _ _ _ E4 EO3) as (es & ES & CB & EO' & EP & ET & IM).
  apply is_true_inv in CB.
  destruct (eof_uncons ts4 EO' ltac:(rewrite CB; discriminate)) as (rb & y5 & r5 & -> & EO5).
  cbn [cur hd] in CB. cbn [app] in EP, ET. subst plain tables.
  exists g, (tlit nm), es, rb, (y5 :: r5).
  split; [|split; [reflexivity|split; [exact EO5|split; [reflexivity|]]]].
  - destruct HG as [[-> ->]|(lp & sc & rp & -> & L1 & L2 & L3 & ->)]; cbn [app].
    + apply MS_default; assumption.
    + apply MS_scoped; assumption.
  - eapply imp_eq_trans; [exact IM|apply imp_eq_add0_l].
Qed.

(* an inline body is parsed by the very call that parses the body of a script statement: writing the same tokens as
   "script NAME { body }" gives the same statement list (and the same inline texts / movements) *)
Lemma parse_script_body fb stok ntok lb ts : ttype ntok = IDENT -> ttype lb = LBRACE -> ts <> [] ->
  parse_script fb (stok :: ntok :: lb :: ts) =
    do (b, imp, ts4) <- parse_block fb (tlit ntok) [] [] lb ts [] imp0; Ok (tlit ntok, true, b, imp, ts4).
Proof.
  intros N1 N2 NE. unfold Parser.parse_script. cbn zeta. unfold scope_modifier. rewrite peekis_cons.
  rewrite (is_false LPAREN ntok ltac:(rewrite N1; discriminate)). cbn [negb].
  unfold expect_peek. rewrite peekis_cons, (is_true IDENT ntok N1), adv_cons2. rewrite peekis_cons, (is_true LBRACE lb N2), adv_cons2.
  cbn [cur hd]. rewrite (adv_cons_ne lb ts NE). reflexivity.
Qed.

Theorem inline_body_is_script_body sname lb ts b imp ts' :
  body_parsed sname lb ts b imp ts' -> ttype lb = LBRACE -> ts <> [] ->
  forall stok ntok, ttype ntok = IDENT -> tlit ntok = sname ->
  exists fb, parse_script fb (stok :: ntok :: lb :: ts) = Ok (sname, true, b, imp, ts').
Proof.
  intros [fb H] N2 NE stok ntok N1 <-. exists fb. rewrite (parse_script_body fb stok ntok lb ts N1 N2 NE), H. reflexivity.
Qed.
End SOUND.


(* ================= Theorem B: every statement of the grammar is parsed to the AST of its tree ================= *)
Section COMPLETE.
Variable autovars : list (text * autovar).
Variable switches : list (text * text).
Variable env_errors : bool.
Variable parse_format : toks -> res (token * text * text * toks).
Variable consts : list (text * text).
Variable F0 : nat.      (* fuel sufficient for every inline body *)

Notation parse_block := (parse_block autovars switches env_errors parse_format consts).
Notation ms_table := (ms_table autovars switches env_errors parse_format consts).
Notation ms_entries := (ms_entries autovars switches env_errors parse_format consts).
Notation parse_mapscripts := (parse_mapscripts autovars switches env_errors parse_format consts).

(* what is assumed of an inline body: the block parser, given at least F0 fuel, returns b for it and stops on the closing brace *)
Definition body_parses (sname : text) (lb : token) (ts : toks) (b : list stmt) (imp : impdata) (ts' : toks) : Prop :=
  forall f, (F0 <= f)%nat -> parse_block f sname [] [] lb ts [] imp0 = Ok (b, imp, ts').

Notation rows_srcB := (rows_src consts body_parses).
Notation entries_srcB := (entries_src consts body_parses).

Lemma ms_collect_spec stop : forall c x r acc f,
  Forall (fun k => stop k = false) c -> Forall (fun k => ttype k <> EOF) (tl (c ++ [x])) -> stop x = true ->
  (List.length c < f)%nat ->
  ms_collect consts f stop (c ++ x :: r) acc = Some (fold_left sb_add (map (cr consts) c) acc, x :: r).
Proof.
  induction c as [|o c IH]; intros x r acc f H1 H2 Hx Hf.
  - destruct f; [cbn in Hf; lia|]. cbn [app ms_collect cur hd]. rewrite Hx. reflexivity.
  - destruct f; [cbn in Hf; lia|]. inversion H1 as [|? ? S1 S2]; subst. cbn [app tl] in H2.
    cbn [app ms_collect cur hd]. rewrite S1. rewrite adv_cons_ne by (destruct c; discriminate).
    assert (C : curis EOF (c ++ x :: r) = false).
    { destruct c as [|o2 c2]; cbn [app] in *; rewrite curis_cons; apply is_false; inversion H2; assumption. }
    rewrite C. rewrite (IH x r _ f S2); [reflexivity| |exact Hx|cbn in Hf; lia].
    destruct c as [|o2 c2]; cbn [app tl] in *; [constructor|]. inversion H2; assumption.
Qed.

Lemma value_collect stop c x r f : value_toks consts stop c -> stop x = true -> ttype x <> EOF -> (List.length c < f)%nat ->
  ms_collect consts f stop (c ++ x :: r) [] = Some (joined consts c, x :: r) /\ c <> [] /\ joined consts c <> [].
Proof.
  intros (V1 & V2 & V3) Hx NE Hf. assert (NC : c <> []) by (intros ->; apply V3; reflexivity).
  split; [|split; assumption]. apply ms_collect_spec; try assumption.
  destruct c as [|c0 c']; [congruence|]. cbn [app tl] in *. apply Forall_app. split; [exact V2|]. constructor; [exact NE|constructor].
Qed.

Lemma rows_nonempty mapname tyname i ts rows R : rows_srcB mapname tyname i ts rows R -> R <> [] -> ts <> [].
Proof. intros H N. destruct (rows_src_prefix _ _ _ _ _ _ _ _ H) as [p ->]. intros X. apply app_eq_nil in X. destruct X; contradiction. Qed.
Lemma entries_nonempty mapname ts es R : entries_srcB mapname ts es R -> R <> [] -> ts <> [].
Proof. intros H N. destruct (entries_src_prefix _ _ _ _ _ _ H) as [p ->]. intros X. apply app_eq_nil in X. destruct X; contradiction. Qed.
Lemma rows_len mapname tyname i ts rows R : rows_srcB mapname tyname i ts rows R -> (List.length R <= List.length ts)%nat.
Proof. intros H. destruct (rows_src_prefix _ _ _ _ _ _ _ _ H) as [p ->]. rewrite app_length. lia. Qed.
Lemma entries_len mapname ts es R : entries_srcB mapname ts es R -> (List.length R <= List.length ts)%nat.
Proof. intros H. destruct (entries_src_prefix _ _ _ _ _ _ H) as [p ->]. rewrite app_length. lia. Qed.

Lemma ms_table_complete mapname tyname : forall i ts rows R, rows_srcB mapname tyname i ts rows R ->
  forall rbk rest', R = rbk :: rest' -> ttype rbk = RBRACKET ->
  forall f acc imp, (F0 + List.length ts < f)%nat ->
  exists imp', ms_table f mapname tyname ts i acc imp = Ok (acc ++ rows_ast consts mapname tyname i rows, imp', R) /\
               imp_eq imp' (impadd imp (rows_imp rows)).
Proof.
  induction 1 as [i R|i c comma v colon lbl ts rs R HC V1 N1 V2 N2 N3 RS IH|i c comma v lb body rb b imp0' ts rs R HC V1 N1 V2 N2 N3 HB RS IH];
    intros rbk rest' ER NR f acc imp Hf.
  - subst R. destruct f as [|f]; [lia|]. cbn [Parser.ms_table]. rewrite curis_cons, (is_true RBRACKET rbk NR).
    exists imp. split; [cbn [rows_ast]; rewrite app_nil_r; reflexivity|]. apply imp_eq_sym, imp_eq_add0_r.
  - destruct f as [|f]; [lia|].
    assert (NT : ts <> []) by (eapply rows_nonempty; [exact RS|subst R; discriminate]).
    pose proof (rows_len _ _ _ _ _ _ RS) as LR.
    rewrite !app_length in Hf. cbn [List.length] in Hf. rewrite !app_length in Hf. cbn [List.length] in Hf.
    destruct (value_collect (is COMMA) c comma (v ++ colon :: lbl :: ts) f V1 (is_true _ _ N1) ltac:(rewrite N1; discriminate) ltac:(lia)) as (K1 & NC & J1).
    destruct (value_collect is_sep2 v colon (lbl :: ts) f V2 ltac:(unfold is_sep2; rewrite (is_true _ _ N2); reflexivity) ltac:(rewrite N2; discriminate) ltac:(lia)) as (K2 & NV & J2).
    cbn [Parser.ms_table]. unfold curis at 1. rewrite (cur_app_hd c _ NC). rewrite (is_false RBRACKET _ HC). cbn zeta.
    rewrite K1. destruct (joined consts c) as [|j0 jc] eqn:EJ1; [congruence|]. cbv beta iota.
    rewrite (adv_cons_ne comma) by (destruct v; discriminate).
    change (fun tk : token => is COLON tk || is LBRACE tk) with is_sep2. rewrite K2.
    destruct (joined consts v) as [|j1 jv] eqn:EJ2; [congruence|]. cbv beta iota.
    rewrite curis_cons, (is_true COLON colon N2). unfold expect_peek. rewrite peekis_cons, (is_true IDENT lbl N3). rewrite adv_cons2.
    rewrite (adv_cons_ne lbl ts NT). cbn [cur hd]. try rewrite (cur_app_hd c _ NC).
    destruct (IH rbk rest' ER NR f (acc ++ [{| teCond := hd eof0 c; teCondLit := j0 :: jc; teCmp := j1 :: jv; teName := tlit lbl; teScript := None |}]) imp ltac:(lia)) as (imp' & E & IM).
    exists imp'. split.
    + rewrite E, <- app_assoc. cbn [app rows_ast row_ast]. rewrite EJ1, EJ2. reflexivity.
    + eapply imp_eq_trans; [exact IM|]. apply imp_eq_add; [apply imp_eq_refl|]. cbn [rows_imp fold_right row_imp]. apply imp_eq_sym, imp_eq_add0_l.
  - destruct f as [|f]; [lia|].
    assert (NT : ts <> []) by (eapply rows_nonempty; [exact RS|subst R; discriminate]).
    pose proof (rows_len _ _ _ _ _ _ RS) as LR.
    rewrite !app_length in Hf. cbn [List.length] in Hf. rewrite !app_length in Hf. cbn [List.length] in Hf. rewrite !app_length in Hf. cbn [List.length] in Hf.
    destruct (value_collect (is COMMA) c comma (v ++ lb :: body ++ rb :: ts) f V1 (is_true _ _ N1) ltac:(rewrite N1; discriminate) ltac:(lia)) as (K1 & NC & J1).
    destruct (value_collect is_sep2 v lb (body ++ rb :: ts) f V2 ltac:(unfold is_sep2; rewrite (is_true _ _ N2); apply orb_true_r) ltac:(rewrite N2; discriminate) ltac:(lia)) as (K2 & NV & J2).
    cbn [Parser.ms_table]. unfold curis at 1. rewrite (cur_app_hd c _ NC). rewrite (is_false RBRACKET _ HC). cbn zeta.
    rewrite K1. destruct (joined consts c) as [|j0 jc] eqn:EJ1; [congruence|]. cbv beta iota.
    rewrite (adv_cons_ne comma) by (destruct v; discriminate).
    change (fun tk : token => is COLON tk || is LBRACE tk) with is_sep2. rewrite K2.
    destruct (joined consts v) as [|j1 jv] eqn:EJ2; [congruence|]. cbv beta iota.
    rewrite curis_cons, (is_false COLON lb ltac:(rewrite N2; discriminate)).
    cbn [cur hd]. rewrite (adv_cons_ne lb) by (destruct body; discriminate).
    change (mapname ++ t "_" ++ tyname ++ t "_" ++ nat_text i) with (row_name mapname tyname i).
    rewrite (HB f ltac:(lia)). cbv beta iota. rewrite (adv_cons_ne rb ts NT). try rewrite (cur_app_hd c _ NC).
    destruct (IH rbk rest' ER NR f (acc ++ [{| teCond := hd eof0 c; teCondLit := j0 :: jc; teCmp := j1 :: jv; teName := row_name mapname tyname i; teScript := Some b |}]) (impadd imp imp0') ltac:(lia)) as (imp' & E & IM).
    exists imp'. split.
    + rewrite E, <- app_assoc. cbn [app rows_ast row_ast]. rewrite EJ1, EJ2. reflexivity.
    + eapply imp_eq_trans; [exact IM|]. cbn [rows_imp fold_right row_imp]. apply imp_eq_assoc.
Qed.

Lemma ms_entries_complete mapname : forall ts es R, entries_srcB mapname ts es R ->
  forall rb rest', R = rb :: rest' -> ttype rb = RBRACE ->
  forall f plain tables imp, (F0 + List.length ts < f)%nat ->
  exists imp', ms_entries f mapname ts plain tables imp =
                 Ok (plain ++ plain_of mapname es, tables ++ tables_of consts mapname es, imp', R) /\
               imp_eq imp' (impadd imp (entries_imp es)).
Proof.
  induction 1 as [R|ty colon lbl ts es R N1 N2 N3 ES IH|ty lb body rb0 b imp0' ts es R N1 N2 N3 HB ES IH
                 |ty lbk rtoks rows rbk ts es R N1 N2 N3 RS ES IH];
    intros rb rest' ER NR f plain tables imp Hf.
  - subst R. destruct f as [|f]; [lia|]. cbn [Parser.ms_entries]. rewrite curis_cons, (is_true RBRACE rb NR).
    exists imp. split; [cbn; rewrite !app_nil_r; reflexivity|]. apply imp_eq_sym, imp_eq_add0_r.
  - destruct f as [|f]; [lia|].
    assert (NT : ts <> []) by (eapply entries_nonempty; [exact ES|subst R; discriminate]).
    cbn [List.length] in Hf.
    cbn [Parser.ms_entries]. rewrite !curis_cons, (is_false RBRACE ty ltac:(rewrite N1; discriminate)), (is_true IDENT ty N1).
    cbn [negb]. cbn zeta. rewrite adv_cons2, curis_cons, (is_true COLON colon N2). unfold expect_peek.
    rewrite peekis_cons, (is_true IDENT lbl N3), adv_cons2, (adv_cons_ne lbl ts NT). cbn [cur hd].
    destruct (IH rb rest' ER NR f (plain ++ [{| msType := ty; msName := tlit lbl; msScript := None |}]) tables imp ltac:(lia)) as (imp' & E & IM).
    exists imp'. split.
    + rewrite E, <- app_assoc. reflexivity.
    + eapply imp_eq_trans; [exact IM|]. apply imp_eq_add; [apply imp_eq_refl|]. cbn [entries_imp fold_right entry_imp]. apply imp_eq_sym, imp_eq_add0_l.
  - destruct f as [|f]; [lia|].
    assert (NT : ts <> []) by (eapply entries_nonempty; [exact ES|subst R; discriminate]).
    cbn [List.length] in Hf. rewrite app_length in Hf. cbn [List.length] in Hf.
    cbn [Parser.ms_entries]. rewrite !curis_cons, (is_false RBRACE ty ltac:(rewrite N1; discriminate)), (is_true IDENT ty N1).
    cbn [negb]. cbn zeta. rewrite (adv_cons_ne ty) by discriminate.
    rewrite !curis_cons, (is_false COLON lb ltac:(rewrite N2; discriminate)), (is_true LBRACE lb N2).
    cbn [cur hd]. rewrite (adv_cons_ne lb) by (destruct body; discriminate).
    change (mapname ++ t "_" ++ tlit ty) with (plain_name mapname ty).
    rewrite (HB f ltac:(lia)). cbv beta iota. rewrite (adv_cons_ne rb0 ts NT).
    destruct (IH rb rest' ER NR f (plain ++ [{| msType := ty; msName := plain_name mapname ty; msScript := Some b |}]) tables (impadd imp imp0') ltac:(lia)) as (imp' & E & IM).
    exists imp'. split.
    + rewrite E, <- app_assoc. reflexivity.
    + eapply imp_eq_trans; [exact IM|]. cbn [entries_imp fold_right entry_imp]. apply imp_eq_assoc.
  - destruct f as [|f]; [lia|].
    assert (NT : ts <> []) by (eapply entries_nonempty; [exact ES|subst R; discriminate]).
    assert (NR' : rtoks <> []) by (eapply rows_nonempty; [exact RS|discriminate]).
    pose proof (rows_len _ _ _ _ _ _ RS) as LR. cbn [List.length] in Hf, LR.
    cbn [Parser.ms_entries]. rewrite !curis_cons, (is_false RBRACE ty ltac:(rewrite N1; discriminate)), (is_true IDENT ty N1).
    cbn [negb]. cbn zeta. rewrite (adv_cons_ne ty) by discriminate.
    rewrite !curis_cons, (is_false COLON lbk ltac:(rewrite N2; discriminate)), (is_false LBRACE lbk ltac:(rewrite N2; discriminate)), (is_true LBRACKET lbk N2).
    rewrite (adv_cons_ne lbk rtoks NR'). cbn [cur hd].
    destruct (ms_table_complete mapname (tlit ty) 0 rtoks rows _ RS rbk ts eq_refl N3 f [] imp0 ltac:(lia)) as (impt & ET & IMT).
    rewrite ET. cbv beta iota. cbn [app]. rewrite (adv_cons_ne rbk ts NT).
    destruct (IH rb rest' ER NR f plain (tables ++ [{| tmType := ty; tmName := plain_name mapname ty; tmEntries := rows_ast consts mapname (tlit ty) 0 rows |}]) (impadd imp impt) ltac:(lia)) as (imp' & E & IM).
    exists imp'. split.
    + unfold plain_name in E. rewrite E, <- app_assoc. reflexivity.
    + eapply imp_eq_trans; [exact IM|]. cbn [entries_imp fold_right entry_imp].
      eapply imp_eq_trans; [|apply imp_eq_assoc]. apply imp_eq_add; [|apply imp_eq_refl].
      apply imp_eq_add; [apply imp_eq_refl|]. eapply imp_eq_trans; [exact IMT|apply imp_eq_add0_l].
Qed.

(* THEOREM B *)
Theorem parse_mapscripts_complete ts g name es rb rest f :
  mapscripts_src consts body_parses ts g name es rb rest -> (F0 + List.length ts <= f)%nat ->
  exists imp, parse_mapscripts f ts = Ok (TMapScripts name g (plain_of name es) (tables_of consts name es), imp, rb :: rest) /\
              imp_eq imp (entries_imp es).
Proof.
  intros H Hf. destruct H as [m nm lb ts es rb rest N1 N2 N3 ES|m lp sc rp nm lb ts es rb rest L1 L2 L3 N1 N2 N3 ES].
  - assert (NT : ts <> []) by (eapply entries_nonempty; [exact ES|discriminate]).
    cbn [List.length] in Hf.
    unfold Parser.parse_mapscripts, scope_modifier. rewrite peekis_cons, (is_false LPAREN nm ltac:(rewrite N1; discriminate)).
    cbn [negb]. cbn zeta. unfold expect_peek. rewrite peekis_cons, (is_true IDENT nm N1), adv_cons2.
    rewrite peekis_cons, (is_true LBRACE lb N2), adv_cons2. rewrite (adv_cons_ne lb ts NT). cbn [cur hd].
    destruct (ms_entries_complete (tlit nm) ts es _ ES rb rest eq_refl N3 f [] [] imp0 ltac:(lia)) as (imp' & E & IM).
    rewrite E. cbv beta iota. cbn [app]. exists imp'. split; [reflexivity|]. eapply imp_eq_trans; [exact IM|apply imp_eq_add0_l].
  - assert (NT : ts <> []) by (eapply entries_nonempty; [exact ES|discriminate]).
    cbn [List.length] in Hf.
    unfold Parser.parse_mapscripts, scope_modifier. rewrite peekis_cons, (is_true LPAREN lp L1).
    cbn [negb]. cbn zeta. rewrite adv_cons2, !peekis_cons.
    assert (G : negb (is GLOBAL sc) && negb (is LOCAL sc) = false).
    { destruct L2 as [L2|L2]; [rewrite (is_true GLOBAL sc L2); reflexivity|rewrite (is_true LOCAL sc L2); apply andb_false_r]. }
    rewrite G. rewrite adv_cons2, peekis_cons, (is_true RPAREN rp L3). cbn [negb]. rewrite adv_cons2, curis_cons.
    unfold expect_peek. rewrite peekis_cons, (is_true IDENT nm N1), adv_cons2.
    rewrite peekis_cons, (is_true LBRACE lb N2), adv_cons2. rewrite (adv_cons_ne lb ts NT). cbn [cur hd].
    destruct (ms_entries_complete (tlit nm) ts es _ ES rb rest eq_refl N3 f [] [] imp0 ltac:(lia)) as (imp' & E & IM).
    rewrite E. cbv beta iota. cbn [app]. exists imp'. split; [reflexivity|]. eapply imp_eq_trans; [exact IM|apply imp_eq_add0_l].
Qed.
End COMPLETE.


(* ================= nothing dropped, duplicated or reordered ================= *)
Section COUNT.
Variable consts : list (text * text).

Lemma rows_ast_length name ty i rows : List.length (rows_ast consts name ty i rows) = List.length rows.
Proof. revert i. induction rows as [|r rs IH]; intros i; [reflexivity|]. cbn [rows_ast List.length]. now rewrite IH. Qed.

(* the k-th triple of the table is the k-th row of the source, numbered k *)
Theorem rows_ast_nth name ty rows k :
  nth_error (rows_ast consts name ty 0 rows) k = option_map (row_ast consts name ty k) (nth_error rows k).
Proof.
  assert (G : forall i, nth_error (rows_ast consts name ty i rows) k = option_map (row_ast consts name ty (i + k)) (nth_error rows k)).
  { revert k. induction rows as [|r rs IH]; intros k i; [destruct k; reflexivity|].
    destruct k as [|k]; cbn [rows_ast nth_error option_map]; [now rewrite Nat.add_0_r|]. rewrite IH. now rewrite Nat.add_succ_r. }
  exact (G 0%nat).
Qed.

(* plain_of / tables_of keep the source order: they distribute over concatenation, a label or inline entry contributes exactly
   one plain entry, a table entry exactly one table *)
Theorem plain_of_app name es1 es2 : plain_of name (es1 ++ es2) = plain_of name es1 ++ plain_of name es2.
Proof. apply flat_map_app. Qed.
Theorem tables_of_app name es1 es2 : tables_of consts name (es1 ++ es2) = tables_of consts name es1 ++ tables_of consts name es2.
Proof. apply flat_map_app. Qed.
Theorem entry_count name es : (List.length (plain_of name es) + List.length (tables_of consts name es) = List.length es)%nat.
Proof.
  induction es as [|[ty lbl|ty b i|ty rows] es IH]; [reflexivity| | |];
    unfold plain_of, tables_of in *; cbn [flat_map]; rewrite ?app_length; cbn [List.length app]; lia.
Qed.
End COUNT.

(* ================= the names of the inline scripts ================= *)
Fixpoint ntgo (fuel : nat) (n : N) (acc : text) : text :=
  match fuel with O => acc | S f =>
    let d := (48 + N.modulo n 10)%N in let q := N.div n 10 in
    if (q =? 0)%N then d :: acc else ntgo f q (d :: acc) end.
Lemma nat_text_ntgo n : nat_text n = ntgo 40 (N.of_nat n) [].
Proof. reflexivity. Qed.
Definition dec (l : text) (a : N) : N := fold_left (fun a d => (10 * a + (d - 48))%N) l a.
Lemma dec_ntgo : forall f n acc, (n < 10 ^ N.of_nat f)%N -> dec (ntgo f n acc) 0 = dec acc n.
Proof.
  induction f as [|f IH]; intros n acc Hn.
  - cbn in Hn. assert (n = 0%N) by lia. subst. reflexivity.
  - cbn [ntgo]. cbv zeta. pose proof (N.div_mod n 10 ltac:(discriminate)) as DM.
    pose proof (N.mod_lt n 10 ltac:(discriminate)) as ML.
    destruct (N.eqb_spec (n / 10) 0) as [Q|Q].
    + unfold dec. cbn [fold_left]. f_equal. lia.
    + rewrite IH.
      * unfold dec. cbn [fold_left]. f_equal. clear - DM ML. generalize dependent (n / 10)%N. generalize dependent (n mod 10)%N. intros; lia.
      * rewrite Nat2N.inj_succ, N.pow_succ_r' in Hn. apply N.div_lt_upper_bound; [discriminate|exact Hn].
Qed.
(* decimal numbering is injective (the model prints at most 40 digits) *)
Lemma nat_text_inj n m : (N.of_nat n < 10 ^ 40)%N -> (N.of_nat m < 10 ^ 40)%N -> nat_text n = nat_text m -> n = m.
Proof.
  intros Hn Hm E. rewrite !nat_text_ntgo in E. apply Nat2N.inj.
  assert (A : dec (ntgo 40 (N.of_nat n) []) 0 = N.of_nat n) by exact (dec_ntgo 40 (N.of_nat n) [] Hn).
  assert (B : dec (ntgo 40 (N.of_nat m) []) 0 = N.of_nat m) by exact (dec_ntgo 40 (N.of_nat m) [] Hm).
  rewrite <- A, <- B, E. reflexivity.
Qed.

Theorem row_names_distinct name ty i j :
  (N.of_nat i < 10 ^ 40)%N -> (N.of_nat j < 10 ^ 40)%N -> i <> j -> row_name name ty i <> row_name name ty j.
Proof.
  intros Hi Hj N E. apply N. unfold row_name in E. repeat apply app_inv_head in E. apply nat_text_inj; assumption.
Qed.
Theorem plain_names_distinct name ty1 ty2 : tlit ty1 <> tlit ty2 -> plain_name name ty1 <> plain_name name ty2.
Proof. intros N E. apply N. unfold plain_name in E. repeat apply app_inv_head in E. exact E. Qed.

Section NAMES.
Variable consts : list (text * text).
Definition has_script (e : tableentry) : bool := match teScript e with Some _ => true | None => false end.

(* an inline row gets MAP_TYPE_k where k is its position in the table; a label row keeps the label it names *)
Theorem inline_row_name name ty rows k c v b imp :
  nth_error rows k = Some (RInline c v b imp) ->
  exists e, nth_error (rows_ast consts name ty 0 rows) k = Some e /\ teName e = row_name name ty k /\ teScript e = Some b.
Proof. intros H. rewrite rows_ast_nth, H. eexists. split; [reflexivity|]. split; reflexivity. Qed.
Theorem label_row_name name ty rows k c v lbl :
  nth_error rows k = Some (RLabel c v lbl) ->
  exists e, nth_error (rows_ast consts name ty 0 rows) k = Some e /\ teName e = tlit lbl /\ teScript e = None.
Proof. intros H. rewrite rows_ast_nth, H. eexists. split; [reflexivity|]. split; reflexivity. Qed.

Lemma inline_names_range name ty : forall rows i x,
  In x (map teName (filter has_script (rows_ast consts name ty i rows))) ->
  exists k, (i <= k < i + List.length rows)%nat /\ x = row_name name ty k.
Proof.
  induction rows as [|r rs IH]; intros i x H; [destruct H|]. cbn [rows_ast filter] in H.
  assert (T : In x (map teName (filter has_script (rows_ast consts name ty (S i) rs))) ->
              exists k, (i <= k < i + List.length (r :: rs))%nat /\ x = row_name name ty k).
  { intros H'. destruct (IH _ _ H') as (k & K & E). exists k. cbn [List.length]. split; [lia|exact E]. }
  destruct r as [c v lbl|c v b imp]; cbn [row_ast has_script teScript] in H.
  - apply T, H.
  - cbn [map In teName] in H. destruct H as [<-|H]; [|apply T, H]. exists i. cbn [List.length]. split; [lia|reflexivity].
Qed.
(* inside one table the inline scripts get pairwise different names *)
Theorem table_inline_names_nodup name ty rows : (N.of_nat (List.length rows) <= 10 ^ 40)%N ->
  NoDup (map teName (filter has_script (rows_ast consts name ty 0 rows))).
Proof.
  assert (G : forall rows i, (N.of_nat (i + List.length rows) <= 10 ^ 40)%N ->
              NoDup (map teName (filter has_script (rows_ast consts name ty i rows)))).
  { clear rows. induction rows as [|r rs IH]; intros i B; [constructor|]. cbn [List.length] in B.
    assert (B' : (N.of_nat (S i + List.length rs) <= 10 ^ 40)%N) by (replace (S i + List.length rs)%nat with (i + S (List.length rs))%nat by lia; exact B).
    cbn [rows_ast filter]. destruct r as [c v lbl|c v b imp]; cbn [row_ast has_script teScript]; [apply IH, B'|].
    cbn [map teName]. constructor; [|apply IH, B']. intros H. destruct (inline_names_range _ _ _ _ _ H) as (k & K & E).
    revert E. apply row_names_distinct; lia. }
  intros B. apply G. exact B.
Qed.
End NAMES.

(* ================= Theorem C: from the tokens to the printed lines ================= *)
Section LINES.
Variable consts : list (text * text).
Variable tl : list text.
Variable opt : bool.

(* the lines, written directly over the source tree *)
Definition plain_lines (name : text) (es : list entry) : list instr :=
  flat_map (fun e => match e with
                     | ELabel ty lbl => [ms_line ty (tlit lbl)]
                     | EInline ty _ _ => [ms_line ty (plain_name name ty)]
                     | ETable _ _ => []
                     end) es.
Definition table_lines (name : text) (es : list entry) : list instr :=
  flat_map (fun e => match e with ETable ty _ => [ms_line ty (plain_name name ty)] | _ => [] end) es.
(* the scripts printed after the header: one per inline entry, under the name the header line refers to *)
Definition plain_scripts (name : text) (es : list entry) : list (text * option (list stmt)) :=
  flat_map (fun e => match e with
                     | ELabel _ lbl => [(tlit lbl, None)]
                     | EInline ty b _ => [(plain_name name ty, Some b)]
                     | ETable _ _ => []
                     end) es.
Definition row_target (name tyname : text) (i : nat) (r : row) : text :=
  match r with RLabel _ _ lbl => tlit lbl | RInline _ _ _ _ => row_name name tyname i end.
Definition row_line (name tyname : text) (i : nat) (r : row) : instr :=
  match r with
  | RLabel c v _ | RInline c v _ _ =>
      ILine (tab ++ t "map_script_2 " ++ joined consts c ++ t ", " ++ joined consts v ++ t ", " ++ row_target name tyname i r)
  end.
Fixpoint rows_lines (name tyname : text) (i : nat) (rows : list row) : list instr :=
  match rows with [] => [] | r :: rs => row_line name tyname i r :: rows_lines name tyname (S i) rs end.
Fixpoint rows_scripts (name tyname : text) (i : nat) (rows : list row) : list (text * option (list stmt)) :=
  match rows with
  | [] => []
  | r :: rs => (row_target name tyname i r, match r with RLabel _ _ _ => None | RInline _ _ b _ => Some b end)
               :: rows_scripts name tyname (S i) rs
  end.
(* for each table of the source, in order: its label, its triples in order, .2byte 0, its inline scripts *)
Fixpoint table_blocks (name : text) (es : list entry) : Emitter.res (list instr) :=
  match es with
  | [] => Emitter.Ok []
  | ETable ty rows :: r =>
      bind_i (emit_scripts None tl opt (rows_scripts name (tlit ty) 0 rows)) (fun x =>
      bind_i (table_blocks name r) (fun y =>
        Emitter.Ok ([ILabel (plain_name name ty) false] ++ rows_lines name (tlit ty) 0 rows
                    ++ [ILine (tab ++ t ".2byte 0"); IBlank] ++ x ++ y)))
  | _ :: r => table_blocks name r
  end.

Lemma rows_lines_ast name ty rows : forall i, map ms2_line (rows_ast consts name ty i rows) = rows_lines name ty i rows.
Proof. induction rows as [|r rs IH]; intros i; [reflexivity|]. cbn [rows_ast map rows_lines]. rewrite IH. destruct r; reflexivity. Qed.
Lemma rows_scripts_ast name ty rows : forall i,
  map (fun e => (teName e, teScript e)) (rows_ast consts name ty i rows) = rows_scripts name ty i rows.
Proof. induction rows as [|r rs IH]; intros i; [reflexivity|]. cbn [rows_ast map rows_scripts]. rewrite IH. destruct r; reflexivity. Qed.
Lemma table_blocks_ast name es : tables_code tl opt (tables_of consts name es) = table_blocks name es.
Proof.
  induction es as [|[ty lbl|ty b i|ty rows] es IH]; [reflexivity|exact IH|exact IH|].
  unfold tables_of. cbn [flat_map app]. cbn [tables_code table_blocks tmEntries tmName].
  rewrite rows_lines_ast, rows_scripts_ast. fold (tables_of consts name es). rewrite IH. reflexivity.
Qed.

Lemma plain_scripts_ast name es : map (fun m => (msName m, msScript m)) (plain_of name es) = plain_scripts name es.
Proof.
  induction es as [|[ty lbl|ty b i|ty rows] es IH]; [reflexivity| | |exact IH]; unfold plain_of, plain_scripts; cbn [flat_map app map];
    fold (plain_of name es); fold (plain_scripts name es); rewrite IH; reflexivity.
Qed.
Lemma plain_lines_ast name es : map (fun m => ms_line (msType m) (msName m)) (plain_of name es) = plain_lines name es.
Proof.
  induction es as [|[ty lbl|ty b i|ty rows] es IH]; [reflexivity| | |exact IH]; unfold plain_of, plain_lines; cbn [flat_map app map];
    fold (plain_of name es); fold (plain_lines name es); rewrite IH; reflexivity.
Qed.
Lemma table_lines_ast name es : map (fun tb => ms_line (tmType tb) (tmName tb)) (tables_of consts name es) = table_lines name es.
Proof.
  induction es as [|[ty lbl|ty b i|ty rows] es IH]; [reflexivity|exact IH|exact IH|]; unfold tables_of, table_lines; cbn [flat_map app map];
    fold (tables_of consts name es); fold (table_lines name es); rewrite IH; reflexivity.
Qed.

(* the code of the AST of a source tree *)
Theorem tree_lines name g es :
  emit_mapscripts None tl opt name g (plain_of name es) (tables_of consts name es) =
    bind_i (emit_scripts None tl opt (plain_scripts name es)) (fun inl =>
    bind_i (table_blocks name es) (fun tt =>
      Emitter.Ok ([ILabel name g] ++ plain_lines name es ++ table_lines name es
                  ++ [ILine (tab ++ t ".byte 0"); IBlank] ++ inl ++ tt))).
Proof. rewrite mapscripts_shape, table_blocks_ast, plain_scripts_ast, plain_lines_ast, table_lines_ast. reflexivity. Qed.
End LINES.

Section TOKENS_TO_LINES.
Variable autovars : list (text * autovar).
Variable switches : list (text * text).
Variable env_errors : bool.
Variable parse_format : toks -> res (token * text * text * toks).
Hypothesis parse_format_advs : forall ts tk v sty ts', parse_format ts = Ok (tk, v, sty, ts') -> forall a, advs a ts -> advs a ts'.

Notation parse_mapscripts := (parse_mapscripts autovars switches env_errors parse_format).
Notation body_parsed := (body_parsed autovars switches env_errors parse_format).
Notation parse_tops := (parse_tops autovars switches env_errors parse_format).

(* THEOREM C: whatever token stream parse_mapscripts accepts is a statement of the grammar, and the code emitted for the
   result is: the label, one map_script line per label / inline entry in source order, one per table in source order,
   .byte 0, the inline scripts in source order, then the tables in source order *)
Theorem mapscripts_tokens_to_lines consts tl opt f ts name g plain tables imp ts' :
  eof_ended ts -> parse_mapscripts consts f ts = Ok (TMapScripts name g plain tables, imp, ts') ->
  exists es rb rest,
    mapscripts_src consts (body_parsed consts) ts g name es rb rest /\ ts' = rb :: rest /\
    emit_mapscripts None tl opt name g plain tables =
      bind_i (emit_scripts None tl opt (plain_scripts name es)) (fun inl =>
      bind_i (table_blocks consts tl opt name es) (fun tt =>
        Emitter.Ok ([ILabel name g] ++ plain_lines name es ++ table_lines name es
                    ++ [ILine (tab ++ t ".byte 0"); IBlank] ++ inl ++ tt))).
Proof.
  intros EO H.
  destruct (parse_mapscripts_sound autovars switches env_errors parse_format parse_format_advs consts f ts _ _ _ EO H)
    as (g' & name' & es & rb & rest & SRC & E1 & _ & E2 & _).
  inversion E2; subst name' g' plain tables. exists es, rb, rest. split; [exact SRC|]. split; [exact E1|]. apply tree_lines.
Qed.

(* the statement as it enters the program: parse_tops replaces inline texts / movements in the bodies by their labels
   (pstmt); this changes no type, no name, no condition, and keeps every entry where it was *)
Definition patch_row (ps : list patch) (r : row) : row :=
  match r with RLabel c v l => RLabel c v l | RInline c v b i => RInline c v (map (pstmt ps) b) i end.
Definition patch_entry (ps : list patch) (e : entry) : entry :=
  match e with
  | ELabel ty l => ELabel ty l
  | EInline ty b i => EInline ty (map (pstmt ps) b) i
  | ETable ty rows => ETable ty (map (patch_row ps) rows)
  end.

Lemma patched_plain ps name es :
  map (fun m => {| msType := msType m; msName := msName m;
                   msScript := match msScript m with Some b => Some (map (pstmt ps) b) | None => None end |}) (plain_of name es)
  = plain_of name (map (patch_entry ps) es).
Proof.
  induction es as [|[ty lbl|ty b i|ty rows] es IH]; [reflexivity| | |exact IH]; unfold plain_of; cbn [map flat_map app patch_entry];
    fold (plain_of name es); fold (plain_of name (map (patch_entry ps) es)); rewrite <- IH; reflexivity.
Qed.
Lemma patched_rows consts ps name ty rows : forall i,
  map (fun e => {| teCond := teCond e; teCondLit := teCondLit e; teCmp := teCmp e; teName := teName e;
                   teScript := match teScript e with Some b => Some (map (pstmt ps) b) | None => None end |}) (rows_ast consts name ty i rows)
  = rows_ast consts name ty i (map (patch_row ps) rows).
Proof. induction rows as [|r rs IH]; intros i; [reflexivity|]. cbn [rows_ast map]. rewrite IH. destruct r; reflexivity. Qed.
Lemma patched_tables consts ps name es :
  map (fun tb => {| tmType := tmType tb; tmName := tmName tb;
                    tmEntries := map (fun e => {| teCond := teCond e; teCondLit := teCondLit e; teCmp := teCmp e; teName := teName e;
                                                  teScript := match teScript e with Some b => Some (map (pstmt ps) b) | None => None end |}) (tmEntries tb) |})
      (tables_of consts name es)
  = tables_of consts name (map (patch_entry ps) es).
Proof.
  induction es as [|[ty lbl|ty b i|ty rows] es IH]; [reflexivity|exact IH|exact IH|]. unfold tables_of; cbn [map flat_map app patch_entry];
    fold (tables_of consts name es); fold (tables_of consts name (map (patch_entry ps) es)). rewrite <- IH. cbn [tmType tmName tmEntries].
  rewrite patched_rows. reflexivity.
Qed.

Theorem parse_tops_mapscripts f st ts st' :
  eof_ended ts -> ttype (cur ts) = MAPSCRIPTS -> parse_tops (S f) st ts = Ok st' ->
  exists g name es rb rest imp h' ps,
    mapscripts_src (pconsts st) (body_parsed (pconsts st)) ts g name es rb rest /\
    imp_eq imp (entries_imp es) /\ add_implicit imp (ph st) = (h', ps) /\
    parse_tops f {| pconsts := pconsts st; ph := h';
                    ptops := ptops st ++ [TMapScripts name g (plain_of name (map (patch_entry ps) es))
                                                      (tables_of (pconsts st) name (map (patch_entry ps) es))];
                    ptexts := ptexts st |} rest = Ok st'.
Proof.
  intros EO TY H. cbn [Parser.parse_tops] in H. unfold curis in H. rewrite (is_false EOF (cur ts) ltac:(rewrite TY; discriminate)) in H.
  cbn zeta in H. rewrite TY in H. bind H as [[tp imp] ts1] eqn E.
  destruct (parse_mapscripts_sound autovars switches env_errors parse_format parse_format_advs _ f ts _ _ _ EO E)
    as (g & name & es & rb & rest & SRC & -> & EOR & -> & IM).
  destruct (add_implicit imp (ph st)) as [h' ps] eqn:AI.
  rewrite (adv_cons_ne rb rest ltac:(apply EOR)) in H. rewrite patched_plain, patched_tables in H.
  exists g, name, es, rb, rest, imp, h', ps. split; [exact SRC|]. split; [exact IM|]. split; [exact AI|exact H].
Qed.
End TOKENS_TO_LINES.

(* Theorem B and C together: every statement of the grammar compiles to the lines of its tree *)
Section STATEMENT_TO_LINES.
Variable autovars : list (text * autovar).
Variable switches : list (text * text).
Variable env_errors : bool.
Variable parse_format : toks -> res (token * text * text * toks).
Variable consts : list (text * text).
Variable F0 : nat.

(* a body that parses with every fuel from F0 on is a parsed body: the statements of grammar B are statements of grammar A *)
Lemma body_parses_parsed sname lb ts b imp ts' :
  body_parses autovars switches env_errors parse_format consts F0 sname lb ts b imp ts' ->
  body_parsed autovars switches env_errors parse_format consts sname lb ts b imp ts'.
Proof. intros H. exists F0. apply H. apply le_n. Qed.

Theorem statement_to_lines tl opt ts g name es rb rest f :
  mapscripts_src consts (body_parses autovars switches env_errors parse_format consts F0) ts g name es rb rest ->
  (F0 + List.length ts <= f)%nat ->
  exists plain tables imp,
    parse_mapscripts autovars switches env_errors parse_format consts f ts = Ok (TMapScripts name g plain tables, imp, rb :: rest) /\
    emit_mapscripts None tl opt name g plain tables =
      bind_i (emit_scripts None tl opt (plain_scripts name es)) (fun inl =>
      bind_i (table_blocks consts tl opt name es) (fun tt =>
        Emitter.Ok ([ILabel name g] ++ plain_lines name es ++ table_lines name es
                    ++ [ILine (tab ++ t ".byte 0"); IBlank] ++ inl ++ tt))).
Proof.
  intros H Hf. destruct (parse_mapscripts_complete _ _ _ _ _ _ _ _ _ _ _ _ f H Hf) as (imp & E & _).
  exists (plain_of name es), (tables_of consts name es), imp. split; [exact E|apply tree_lines].
Qed.
End STATEMENT_TO_LINES.

(* ================= with the model's format() operator and lexer: no premise left but the parser's success ================= *)
Section REAL.
Variable hl hd hs : N -> bool.
Variable autovars : list (text * autovar).
Variable switches : list (text * text).
Variable ee : bool.
Variable fc : Format.fontcfg.
Variable cli_font : text.
Variable cli_maxlen : Z.
Notation pf := (Format.parse_format fc cli_font cli_maxlen ee).

Theorem parse_mapscripts_sound_real consts f ts tp imp ts' :
  eof_ended ts -> parse_mapscripts autovars switches ee pf consts f ts = Ok (tp, imp, ts') ->
  exists g name es rb rest,
    mapscripts_src consts (body_parsed autovars switches ee pf consts) ts g name es rb rest /\ ts' = rb :: rest /\ eof_ended rest /\
    tp = TMapScripts name g (plain_of name es) (tables_of consts name es) /\
    imp_eq imp (entries_imp es).
Proof. apply parse_mapscripts_sound. apply ProgSrc.parse_format_advs. Qed.

(* from a source text: lex it, parse a mapscripts statement, emit it *)
Theorem mapscripts_source_to_lines consts tl opt f s name g plain tables imp ts' :
  parse_mapscripts autovars switches ee pf consts f (lex hl hd hs s) = Ok (TMapScripts name g plain tables, imp, ts') ->
  exists es rb rest,
    mapscripts_src consts (body_parsed autovars switches ee pf consts) (lex hl hd hs s) g name es rb rest /\ ts' = rb :: rest /\
    emit_mapscripts None tl opt name g plain tables =
      bind_i (emit_scripts None tl opt (plain_scripts name es)) (fun inl =>
      bind_i (table_blocks consts tl opt name es) (fun tt =>
        Emitter.Ok ([ILabel name g] ++ plain_lines name es ++ table_lines name es
                    ++ [ILine (tab ++ t ".byte 0"); IBlank] ++ inl ++ tt))).
Proof.
  apply mapscripts_tokens_to_lines; [apply ProgSrc.parse_format_advs|apply ProgSrc.lex_eof].
Qed.

Theorem parse_tops_mapscripts_real f st ts st' :
  eof_ended ts -> ttype (cur ts) = MAPSCRIPTS -> parse_tops autovars switches ee pf (S f) st ts = Ok st' ->
  exists g name es rb rest imp h' ps,
    mapscripts_src (pconsts st) (body_parsed autovars switches ee pf (pconsts st)) ts g name es rb rest /\
    imp_eq imp (entries_imp es) /\ add_implicit imp (ph st) = (h', ps) /\
    parse_tops autovars switches ee pf f
               {| pconsts := pconsts st; ph := h';
                  ptops := ptops st ++ [TMapScripts name g (plain_of name (map (patch_entry ps) es))
                                                    (tables_of (pconsts st) name (map (patch_entry ps) es))];
                  ptexts := ptexts st |} rest = Ok st'.
Proof. apply parse_tops_mapscripts. apply ProgSrc.parse_format_advs. Qed.
End REAL.

(* ================= the premises are satisfiable: concrete statements ================= *)
Section EXAMPLES.
Definition nf (_ : N) : bool := false.
Definition fc0 : Format.fontcfg := {| Format.fcDefault := []; Format.fcFonts := [] |}.
Notation pf0 := (Format.parse_format fc0 [] 0%Z false).
Definition show (x : text) : string := string_of_list_ascii (map ascii_of_N x).
Definition showi (i : instr) : string :=
  match i with
  | ILabel n g => (show n ++ (if g then "::" else ":"))%string
  | ILine l => show l
  | ICmd c => ("<" ++ show (cname c) ++ ">")%string
  | IReturn => "<return>"%string
  | IBlank => ""%string
  | _ => "?"%string
  end.

(* Theorem A / C: a source text with label, inline and table entries in mixed order, lexed by the model's lexer *)
Definition ex_src : text :=
  t "mapscripts(local) M { T1: L1  T2 { lock }  T3 [ VAR_A, 1: L2  VAR_B, 2 { release } ]  T4: L4 }".
Example ex_accepted :
  exists plain tables imp ts',
    parse_mapscripts [] [] false pf0 [] 100 (lex nf nf nf ex_src) = Ok (TMapScripts (t "M") false plain tables, imp, ts') /\
    List.length plain = 3%nat /\ List.length tables = 1%nat.
Proof. do 4 eexists. split; [vm_compute; reflexivity|]. split; reflexivity. Qed.
(* its lines: the plain entries T1 T2 T4 in source order, then the table T3, .byte 0, the inline script, the table *)
Example ex_lines :
  match parse_mapscripts [] [] false pf0 [] 100 (lex nf nf nf ex_src) with
  | Ok (TMapScripts n g p tb, _, _) =>
      match emit_mapscripts None [] false n g p tb with Emitter.Ok l => map showi l | _ => [] end
  | _ => []
  end =
  [ "M:"; "	map_script T1, L1"; "	map_script T2, M_T2"; "	map_script T4, L4"; "	map_script T3, M_T3"; "	.byte 0"; "";
    "M_T2:"; "<lock>"; "<return>"; "";
    "M_T3:"; "	map_script_2 VAR_A, 1, L2"; "	map_script_2 VAR_B, 2, M_T3_1"; "	.2byte 0"; "";
    "M_T3_1:"; "<release>"; "<return>"; "" ]%string.
Proof. vm_compute. reflexivity. Qed.

(* Theorem B: a derivation of the grammar whose body premises hold *)
Definition tkl (ty : toktype) (lit : string) : token :=
  {| ttype := ty; tlit := t lit; tline := 1; tsb := 0; tsu := 0; teline := 1; teb := 0; teu := 0 |}.
Definition ex_rest : toks := [tkl EOF ""].
Definition ex_row2 : toks := [tkl IDENT "VAR_B"; tkl COMMA ","; tkl INT "2"; tkl LBRACE "{"; tkl RBRACE "}"; tkl RBRACKET "]"; tkl RBRACE "}"] ++ ex_rest.
Definition ex_t3 : toks := [tkl IDENT "T3"; tkl LBRACKET "["; tkl IDENT "VAR_A"; tkl COMMA ","; tkl INT "1"; tkl COLON ":"; tkl IDENT "L2"] ++ ex_row2.
Definition ex_toks : toks :=
  [tkl MAPSCRIPTS "mapscripts"; tkl IDENT "M"; tkl LBRACE "{";
   tkl IDENT "T1"; tkl COLON ":"; tkl IDENT "L1";
   tkl IDENT "T2"; tkl LBRACE "{"; tkl IDENT "lock"; tkl RBRACE "}"] ++ ex_t3.
Definition ex_lock : list stmt := [SCmd {| cname := t "lock"; cargs := []; ctok := tkl IDENT "lock"; Ast.cid := 17 |}].
Definition ex_tree : list entry :=
  [ELabel (tkl IDENT "T1") (tkl IDENT "L1"); EInline (tkl IDENT "T2") ex_lock imp0;
   ETable (tkl IDENT "T3") [RLabel [tkl IDENT "VAR_A"] [tkl INT "1"] (tkl IDENT "L2"); RInline [tkl IDENT "VAR_B"] [tkl INT "2"] [] imp0]].

Ltac isval := repeat match goal with |- context[is ?a ?b] => let v := eval vm_compute in (is a b) in change (is a b) with v end.
Ltac vt := split; [repeat constructor|split; [repeat constructor; discriminate|vm_compute; discriminate]].

Example ex_derivation : forall autovars switches ee pf,
  mapscripts_src [] (body_parses autovars switches ee pf [] 2) ex_toks true (t "M") ex_tree (tkl RBRACE "}") ex_rest.
Proof.
  intros autovars switches ee pf.
  apply (MS_default [] _ (tkl MAPSCRIPTS "mapscripts") (tkl IDENT "M") (tkl LBRACE "{")); try reflexivity.
  apply ES_label; try reflexivity.
  apply (ES_inline [] _ _ (tkl IDENT "T2") (tkl LBRACE "{") [tkl IDENT "lock"] (tkl RBRACE "}") ex_lock imp0 ex_t3); try reflexivity.
  { intros f Hf. destruct f as [|[|f]]; [lia|lia|].
    rewrite parse_block_unfold. cbn [app]. rewrite !curis_cons. isval. cbv beta iota.
    rewrite parse_stmt_unfold. cbn [cur hd ttype tkl]. unfold try_label. rewrite !peekis_cons. isval. cbn [andb].
    unfold command_stmt. rewrite peekis_cons. isval. cbv beta iota zeta. rewrite adv_cons2.
    rewrite parse_block_unfold. rewrite curis_cons. isval. reflexivity. }
  apply (ES_table [] _ _ (tkl IDENT "T3") (tkl LBRACKET "[") _ _ (tkl RBRACKET "]") (tkl RBRACE "}" :: ex_rest)); try reflexivity; [|apply ES_nil].
  apply (RS_label [] _ _ _ 0 [tkl IDENT "VAR_A"] (tkl COMMA ",") [tkl INT "1"] (tkl COLON ":") (tkl IDENT "L2") ex_row2); try reflexivity; try vt; [discriminate|].
  apply (RS_inline [] _ _ _ 1 [tkl IDENT "VAR_B"] (tkl COMMA ",") [tkl INT "2"] (tkl LBRACE "{") [] (tkl RBRACE "}") [] imp0 (tkl RBRACKET "]" :: tkl RBRACE "}" :: ex_rest));
    try reflexivity; try vt; [discriminate| |apply RS_nil].
  intros f Hf. destruct f as [|f]; [lia|]. rewrite parse_block_unfold. reflexivity.
Qed.
(* hence, for every configuration, every format() operator and every fuel from 27 on, the parser returns the AST of the tree *)
Example ex_parsed autovars switches ee pf f : (27 <= f)%nat ->
  exists imp, parse_mapscripts autovars switches ee pf [] f ex_toks =
                Ok (TMapScripts (t "M") true (plain_of (t "M") ex_tree) (tables_of [] (t "M") ex_tree), imp, tkl RBRACE "}" :: ex_rest)
              /\ imp_eq imp (entries_imp ex_tree).
Proof. intros Hf. apply (parse_mapscripts_complete autovars switches ee pf [] 2 _ _ _ _ _ _ f (ex_derivation autovars switches ee pf)). exact Hf. Qed.

(* ---- the naming function is NOT injective across entries (same behaviour in parser.go): ---- *)
(* two inline entries of the same type get the same local label *)
Example ex_duplicate_label :
  match parse_mapscripts [] [] false pf0 [] 100 (lex nf nf nf (t "mapscripts M { T { lock } T { release } }")) with
  | Ok (TMapScripts n g p tb, _, _) => map (fun m => show (msName m)) p
  | _ => []
  end = ["M_T"; "M_T"]%string.
Proof. vm_compute. reflexivity. Qed.
(* a table and an inline entry of the same type share their label; row 0 of table A and an inline entry of type A_0 as well *)
Example ex_table_clash :
  match parse_mapscripts [] [] false pf0 [] 100 (lex nf nf nf (t "mapscripts M { A_0 { lock } A [ V, 1 { release } ] A { end } }")) with
  | Ok (TMapScripts n g p tb, _, _) =>
      (map (fun m => show (msName m)) p, map (fun x => (show (tmName x), map (fun e => show (teName e)) (tmEntries x))) tb)
  | _ => ([], [])
  end = (["M_A_0"; "M_A"], [("M_A", ["M_A_0"])])%string.
Proof. vm_compute. reflexivity. Qed.
End EXAMPLES.
