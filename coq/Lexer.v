(* Prototype lexer model (mirrors lexer/lexer.go after the planned repairs D9, D12, D13, D14). *)
From Coq Require Import List String Ascii ZArith NArith Lia Bool.
Import ListNotations.
Open Scope list_scope.
Local Open Scope Z_scope.

Definition text := list N.
Definition t (s : string) : text := map N_of_ascii (list_ascii_of_string s).
Definition text_eqb (a b : text) : bool := if list_eq_dec N.eq_dec a b then true else false.

Inductive toktype :=
| ILLEGAL | EOF | IDENT | INT | STRING | RAWSTRING | STRINGTYPE
| ASSIGN | EQ | NEQ | LT | GT | LTE | GTE | AND | OR | NOT | MUL
| COMMA | COLON | LPAREN | RPAREN | LBRACE | RBRACE | LBRACKET | RBRACKET
| SCRIPT | RAW | TEXT | MOVEMENT | MART | MAPSCRIPTS | FORMAT | VAR | FLAG | DEFEATED
| TRUE | FALSE | IF | ELSE | ELSEIF | DO | WHILE | BREAK | CONTINUE | SWITCH | CASE | DEFAULT
| GLOBAL | LOCAL | PORYSWITCH | CONST | VALUE | MOVES.

Definition toktype_eq_dec (a b : toktype) : {a = b} + {a <> b}.
Proof. decide equality. Defined.
Definition tt_eqb (a b : toktype) : bool := if toktype_eq_dec a b then true else false.

Record token := { ttype : toktype; tlit : text; tline : Z; tsb : Z; tsu : Z; teline : Z; teb : Z; teu : Z }.

(* keyword table (will be generated from token.go) *)
Definition keywords : list (text * toktype) :=
  [ (t "script", SCRIPT); (t "raw", RAW); (t "text", TEXT); (t "movement", MOVEMENT); (t "mart", MART);
    (t "mapscripts", MAPSCRIPTS); (t "format", FORMAT); (t "var", VAR); (t "flag", FLAG);
    (t "defeated", DEFEATED); (t "TRUE", TRUE); (t "FALSE", FALSE); (t "true", TRUE); (t "false", FALSE);
    (t "if", IF); (t "else", ELSE); (t "elif", ELSEIF); (t "do", DO); (t "while", WHILE);
    (t "break", BREAK); (t "continue", CONTINUE); (t "switch", SWITCH); (t "case", CASE);
    (t "default", DEFAULT); (t "global", GLOBAL); (t "local", LOCAL); (t "poryswitch", PORYSWITCH);
    (t "const", CONST); (t "value", VALUE); (t "moves", MOVES) ].
Fixpoint lookup_kw (l : list (text * toktype)) (x : text) : toktype :=
  match l with [] => IDENT | (k, v) :: r => if text_eqb k x then v else lookup_kw r x end.

Definition utf8_size (c : N) : Z :=
  if (c <? 128)%N then 1 else if (c <? 2048)%N then 2 else if (c <? 65536)%N then 3 else 4.

Section LEX.
Variable is_letter_hi is_digit_hi is_space_hi : N -> bool.   (* code points >= 128 *)

Definition is_letter (c : N) : bool :=
  if (c <? 128)%N then ((65 <=? c) && (c <=? 90) || (97 <=? c) && (c <=? 122) || (c =? 95))%N
  else is_letter_hi c.
Definition is_digit (c : N) : bool :=
  if (c <? 128)%N then ((48 <=? c) && (c <=? 57))%N else is_digit_hi c.
Definition is_hex (c : N) : bool :=
  ((48 <=? c) && (c <=? 57) || (97 <=? c) && (c <=? 102) || (65 <=? c) && (c <=? 70))%N.
Definition is_space (c : N) : bool :=
  if (c <? 128)%N then ((c =? 32) || (9 <=? c) && (c <=? 13))%N else is_space_hi c.

Record lx := { chs : list N; line : Z; pcn : Z; cn : Z; pun : Z; un : Z }.

Definition ch (l : lx) : N := match chs l with [] => 0%N | c :: _ => c end.
Definition peek (l : lx) : N := match chs l with _ :: c :: _ => c | _ => 0%N end.

(* readChar *)
Definition read_char (l : lx) : lx :=
  let prev := ch l in
  let rest := tl (chs l) in
  let size := match rest with [] => 0 | c :: _ => utf8_size c end in
  let has := match rest with [] => false | _ => true end in
  if (prev =? 10)%N && negb (match chs l with [] => true | _ => false end) then
    {| chs := rest; line := line l + 1; pcn := 0; cn := size; pun := 0; un := 1 |}
  else
    {| chs := rest; line := line l; pcn := cn l; cn := cn l + size; pun := un l; un := if has then un l + 1 else un l |}.

Definition init (s : text) : lx :=
  let size := match s with [] => 0 | c :: _ => utf8_size c end in
  {| chs := s; line := 1; pcn := 0; cn := size; pun := 0; un := match s with [] => 0 | _ => 1 end |}.

Definition is_ws (c : N) : bool := ((c =? 32) || (c =? 9) || (c =? 10) || (c =? 13))%N.

Fixpoint skip_ws (fuel : nat) (l : lx) : lx :=
  match fuel with O => l | S f => if is_ws (ch l) && negb (match chs l with [] => true | _ => false end) then skip_ws f (read_char l) else l end.

Fixpoint skip_line (fuel : nat) (l : lx) : lx :=
  match fuel with
  | O => l
  | S f => if negb ((ch l =? 10)%N) && negb ((ch l =? 0)%N) then skip_line f (read_char l) else read_char l
  end.

Definition at_comment (l : lx) : bool := ((ch l =? 35) || (ch l =? 47) && (peek l =? 47))%N.

Fixpoint skip_comments (fuel : nat) (l : lx) : lx :=
  match fuel with
  | O => l
  | S f => if at_comment l then
             let l1 := skip_line (S (List.length (chs l))) l in
             skip_comments f (skip_ws (S (List.length (chs l1))) l1)
           else l
  end.

Definition fuel_of (l : lx) : nat := S (List.length (chs l)).

(* read a run of characters satisfying p; returns (literal, state) *)
Fixpoint read_while (fuel : nat) (p : N -> bool) (l : lx) (acc : text) : text * lx :=
  match fuel with
  | O => (rev acc, l)
  | S f => match chs l with
           | [] => (rev acc, l)
           | c :: _ => if p c then read_while f p (read_char l) (c :: acc) else (rev acc, l)
           end
  end.

(* readIdentifier: letters, then letters or digits *)
Definition read_ident (l : lx) : text * lx :=
  match chs l with
  | c :: _ => if is_letter c then
                let '(r, l') := read_while (fuel_of l) (fun x => is_letter x || is_digit x) (read_char l) [] in
                (c :: r, l')
              else ([], l)
  | [] => ([], l)
  end.

(* skipNewlineWhitespace: skips \n and \r, reports whether anything was skipped *)
Fixpoint skip_nl (fuel : nat) (l : lx) (skipped : bool) : lx * bool :=
  match fuel with
  | O => (l, skipped)
  | S f => if ((ch l =? 10) || (ch l =? 13))%N && negb (match chs l with [] => true | _ => false end)
           then skip_nl f (read_char l) true else (l, skipped)
  end.

(* body of one "..." part: l is positioned after the opening quote *)
Fixpoint read_str_part (fuel : nat) (l : lx) (acc : text) : text * lx :=
  match fuel with
  | O => (acc, l)
  | S f =>
      if ((ch l =? 34) || (ch l =? 0))%N then (acc, l)
      else
        let '(l1, sk) := skip_nl (fuel_of l) l false in
        if sk then
          let l2 := skip_ws (fuel_of l1) l1 in
          let acc1 := acc ++ [32%N] in
          if ((ch l2 =? 34) || (ch l2 =? 0))%N then (acc1, l2)     (* repair D13 *)
          else read_str_part f (read_char l2) (acc1 ++ [ch l2])
        else read_str_part f (read_char l) (acc ++ [ch l])
  end.

(* NB: Go's condition for "first part" is sb.Len() > 0, i.e. the accumulated literal is non-empty *)
Fixpoint read_string' (fuel : nat) (l : lx) (acc : text) (e : Z * Z * Z) : text * (Z * Z * Z) * lx :=
  match fuel with
  | O => (acc, e, l)
  | S f =>
      if (ch l =? 34)%N && negb (match chs l with [] => true | _ => false end) then
        let acc0 := match acc with [] => acc | _ => acc ++ [10%N] end in
        let l1 := read_char l in
        let '(acc1, l2) := read_str_part (fuel_of l1) l1 acc0 in
        let l3 := read_char l2 in
        let e' := (line l3, pcn l3, pun l3) in
        let l4 := skip_ws (fuel_of l3) l3 in
        let l5 := skip_comments (fuel_of l4) l4 in
        read_string' f l5 acc1 e'
      else (acc, e, l)
  end.

Definition read_string_token (l : lx) : token * lx :=
  let '(lit, (el, eb, eu), l') := read_string' (fuel_of l) l [] (0, 0, 0) in
  ({| ttype := STRING; tlit := lit; tline := line l; tsb := pcn l; tsu := pun l; teline := el; teb := eb; teu := eu |}, l').

Fixpoint trim_right (s : list N) : list N :=   (* on the reversed literal *)
  match s with c :: r => if is_space c then trim_right r else s | [] => [] end.

Definition single (ty : toktype) (l : lx) : token :=
  {| ttype := ty; tlit := [ch l]; tline := line l; tsb := cn l - 1; tsu := un l - 1; teline := line l; teb := cn l; teu := un l |}.

Definition double (ty : toktype) (l : lx) : token * lx :=
  let l1 := read_char l in
  ({| ttype := ty; tlit := [ch l; ch l1]; tline := line l1; tsb := cn l1 - 2; tsu := un l1 - 2;
      teline := line l1; teb := cn l1; teu := un l1 |}, read_char l1).

(* NextToken without the queue; returns possibly two tokens (STRINGTYPE + STRING) *)
Definition next_token_aux (l0 : lx) : list token * lx * bool :=
  let l1 := skip_ws (fuel_of l0) l0 in
  let l := skip_comments (fuel_of l1) l1 in
  let c := ch l in
  let eofp := match chs l with [] => true | _ => false end in
  let one ty := ([single ty l], read_char l) in
  let two ty := let '(tk, l') := double ty l in ([tk], l') in
  let r : list token * lx :=
  if eofp || (c =? 0)%N then
    ([{| ttype := EOF; tlit := []; tline := line l; tsb := cn l; tsu := un l; teline := line l; teb := cn l; teu := un l |}], read_char l)
  else if (c =? 42)%N then one MUL
  else if (c =? 61)%N then (if (peek l =? 61)%N then two EQ else one ASSIGN)
  else if (c =? 33)%N then (if (peek l =? 61)%N then two NEQ else one NOT)
  else if (c =? 60)%N then (if (peek l =? 61)%N then two LTE else one LT)
  else if (c =? 62)%N then (if (peek l =? 61)%N then two GTE else one GT)
  else if (c =? 38)%N then (if (peek l =? 38)%N then two AND else one ILLEGAL)
  else if (c =? 124)%N then (if (peek l =? 124)%N then two OR else one ILLEGAL)
  else if (c =? 40)%N then one LPAREN
  else if (c =? 41)%N then one RPAREN
  else if (c =? 91)%N then one LBRACKET
  else if (c =? 93)%N then one RBRACKET
  else if (c =? 44)%N then one COMMA
  else if (c =? 58)%N then one COLON
  else if (c =? 123)%N then one LBRACE
  else if (c =? 125)%N then one RBRACE
  else if (c =? 34)%N then let '(tk, l') := read_string_token l in ([tk], l')
  else if (c =? 96)%N then
    (* raw string *)
    let l2 := read_char l in
    let '(body, l3) := read_while (fuel_of l2) (fun x => negb ((x =? 96)%N) && negb ((x =? 0)%N)) l2 [] in
    let l4 := read_char l3 in
    ([{| ttype := RAWSTRING; tlit := rev (trim_right (rev body)); tline := line l; tsb := cn l - 1; tsu := un l - 1;
         teline := line l4; teb := cn l4; teu := un l4 |}], l4)
  else if (c =? 48)%N then
    if (peek l =? 120)%N then
      let l2 := read_char (read_char l) in
      let '(h, l3) := read_while (fuel_of l2) is_hex l2 [] in
      ([{| ttype := INT; tlit := t "0x" ++ h; tline := line l; tsb := cn l - 1; tsu := un l - 1;
           teline := line l3; teb := pcn l3; teu := pun l3 |}], l3)
    else
      let '(d, l3) := read_while (fuel_of l) is_digit l [] in
      ([{| ttype := INT; tlit := d; tline := line l; tsb := cn l - 1; tsu := un l - 1;
           teline := line l3; teb := pcn l3; teu := pun l3 |}], l3)
  else if is_letter c then
    let '(id, l3) := read_ident l in
    let base := {| ttype := lookup_kw keywords id; tlit := id; tline := line l; tsb := pcn l; tsu := pun l;
                   teline := line l3; teb := pcn l3; teu := pun l3 |} in
    if (ch l3 =? 34)%N && negb (match chs l3 with [] => true | _ => false end) then
      let '(stk, l4) := read_string_token l3 in
      ([{| ttype := STRINGTYPE; tlit := id; tline := line l; tsb := pcn l; tsu := pun l;
           teline := line l3; teb := pcn l3; teu := pun l3 |}; stk], l4)
    else ([base], l3)
  else if is_digit c || (c =? 45)%N && is_digit (peek l) then
    let neg := (c =? 45)%N in
    let l2 := if neg then read_char l else l in
    let '(d, l3) := read_while (fuel_of l2) is_digit l2 [] in
    ([{| ttype := INT; tlit := (if neg then [45%N] else []) ++ d; tline := line l; tsb := pcn l; tsu := pun l;
         teline := line l3; teb := pcn l3; teu := pun l3 |}], l3)
  else
    (* illegal (repair D12: true start for multi-byte runes) *)
    ([{| ttype := ILLEGAL; tlit := [c]; tline := line l; tsb := pcn l; tsu := un l - 1; teline := line l; teb := cn l; teu := un l |}],
     read_char l) in
  (fst r, snd r, eofp).
Definition next_token (l0 : lx) : list token * lx := let '(a, b, _) := next_token_aux l0 in (a, b).

(* the whole token stream: stops after the first EOF produced at the true end of input *)
Fixpoint lex_all (fuel : nat) (l : lx) : list token :=
  match fuel with
  | O => []
  | S f => let '(ts, l', ended) := next_token_aux l in
           if ended then ts else ts ++ lex_all f l'
  end.

Definition lex (s : text) : list token := lex_all (S (S (List.length s))) (init s).

End LEX.
