(* ProgramGrammar.v - the grammar of a program: an accepted token stream IS a sequence of top-level statements (C15 / C17).

   Property C15 speaks of "every top-level name".  Scopes.v proves soundness (every label line of the output is written in the
   source with that scope, or invented and local).  This file proves the other half at top level, for ALL token streams:
   the parser's top-level loop (Parser.parse_tops, inside Parser.parse_program) drops, duplicates and reorders nothing.

   The objects.  [piece]: one statement of a run (stream at its keyword, stream at its last token, constants / hoisting state
   before and after, what it adds).  [stmts_to f st ts l f' st' ts']: from (f, st, ts) the loop parses exactly the statements l,
   each by Independence.top_step (= the parsing function of its keyword) from what the previous one left, each starting right
   after the last token of the previous one, and reaches (f', st', ts').  [stmts f st ts l st']: ... and stands on an EOF token.
   [top_written x tp] / [text_written x td]: tp / td is the AST of the statement written at x: same keyword, the written name,
   the written scope modifier or the documented default of the keyword (Scopes.declares, Scopes.default_scope).
   [starts l], [kw_starts kw l], [top_starts l]: the top-level positions of the run (all / with keyword kw / not const).

   MAIN STATEMENTS (all quantified over every stream, state, fuel; no example-based statement)
   (1) grammar      parse_tops_grammar     parse_tops f st ts = Ok st'  <->  exists l, stmts f st ts l st'
                    stmts_fun              l and st' are determined
                    stmts_to_pieces        every piece is a success of top_step on its own start, pieces are chained
                    stmts_to_positions, stmts_to_segments   the starts are positions of the stream; ts = seg1 ++ ... ++ segn ++ rest
                    top_step_shape         THE STATEMENT THEOREM: only the seven keywords; const adds a constant and nothing else;
                                           the other six add exactly one top, the one written there (text: and exactly one text);
                                           script/text/movement/mart/mapscripts end on '}', raw on its raw string
       witness      parse_tops_tops_run    every accepted run is an Independence.tops_run up to a last const statement that ends
                                           on an EOF token (the only statement that can: ends_on_eof_is_const)
                    accepted_is_tops_run, tops_run_to_boundary (and _real)   in a stream whose only EOF token is the last token:
                                           the tops_run reaches every statement boundary, with the state of the statements before it
                                           - the witness that tops_run_context_real / parse_program_same_statements_real ask for
   (2) order        stmts_to_state         ptops st' = ptops st ++ added_tops l, ptexts st' = ptexts st ++ added_texts l, constants
                                           and hoisting state = those left by the last statement
                    stmts_to_written       Forall2 top_written (top_starts l) (added_tops l), Forall2 text_written (text keywords)
                                           (added_texts l), one constant per const keyword with the written name
                    program_grammar (_real)  parse_program ts = Ok p -> tops p = added_tops l ++ hoisted movements (local, invented
                                           names), texts p = hoisted texts (local, invented names) ++ added_texts l, and the above
   (3) counting     stmts_to_written_kw, stmts_to_counts, program_counts (_real)   per keyword: as many tops of that kind as keywords
                                           at top-level positions (movement: + hoisted; texts: + hoisted)
                    every_written_statement_is_in_the_program, every_program_statement_is_written (_real)
   (4) errors       parse_tops_outcome     the loop stops for exactly one of three reasons (fuel / EOF / a statement that fails)
                    parse_tops_error       parse_tops = Err e <-> after some whole statements the next statement's parser gives Err e
                    first_failing_statement_decides, parse_program_error_cases
   (5) lexer        lex_eof_only_last      a source without NUL characters gives a stream whose only EOF token is the last token, so
                                           source_accepted_is_tops_run / source_tops_run_to_boundary need no hypothesis on the stream;
                    compile_program_grammar  the grammar theorem for every source that Compile.compile compiles
   (6) two files    stmts_to_same_end      the state in which the loop arrives at a position is determined by the position
                    accepted_files_same_statements   Independence.parse_program_same_statements_real with its tops_run witnesses
                                           constructed from acceptance (statement boundaries instead of supplied runs)
   Examples (Part G, and two_accepted_files_hyps at the end): every hypothesis is satisfiable on a program with all seven statement kinds and the three scope spellings;
   an EOF token in mid-stream (NUL character in the source) shows why eof_only_last is needed (nul_after_const_is_stepped_over). *)
From Coq Require Import List String Ascii ZArith NArith Lia Bool Arith.
From Pory Require Import Lexer Ast Parser Consume.
From Pory Require Independence Scopes NameClash Hoisting ProgSrc FuelOk Format MapScriptsParse PorySwitchLists LexLayout LexPos Compile.
Import ListNotations.
Open Scope list_scope.
Import Independence.
Import Scopes.


(* ====================================================================================================================== *)
(* PART A - the loop as a sequence of statements                                                                          *)
(* ====================================================================================================================== *)

(* one top-level statement of a run of the loop: the stream at its keyword, the stream at its last token, the constants and
   the hoisting state it was parsed with and the ones it leaves, the top-level statements and text statements it adds *)
Record piece := { p_start : toks; p_end : toks;
                  p_c : list (text * text); p_h : hst; p_c' : list (text * text); p_h' : hst;
                  p_tops : list top; p_texts : list textdef }.

Definition added_tops (l : list piece) : list top := flat_map p_tops l.
Definition added_texts (l : list piece) : list textdef := flat_map p_texts l.
Lemma added_tops_app a b : added_tops (a ++ b) = added_tops a ++ added_tops b. Proof. apply flat_map_app. Qed.
Lemma added_texts_app a b : added_texts (a ++ b) = added_texts a ++ added_texts b. Proof. apply flat_map_app. Qed.

Definition res_of {A B} (r : res A) : res B :=
  match r with Ok _ => Panic | Err e => Err e | Panic => Panic | Fuel => Fuel end.
Definition is_ok {A} (r : res A) : bool := match r with Ok _ => true | _ => false end.

Section GRAMMAR.
Variable av : list (text * autovar).
Variable sw : list (text * text).
Variable ee : bool.
Variable pf : toks -> res (token * text * text * toks).
Notation parse_tops := (parse_tops av sw ee pf).
Notation top_step := (top_step av sw ee pf).
Notation tops_run := (tops_run av sw ee pf).

(* [stmts_to f st ts l f' st' ts']: from the fuel f, the state st and the stream ts the loop parses exactly the statements l,
   one after the other, each by [top_step] (= by the parsing function of its keyword) from the constants and the hoisting
   state left by the previous one, each starting right after the last token of the previous one (none starts on an EOF token),
   and is then in the configuration (f', st', ts'); one unit of fuel per statement *)
Inductive stmts_to : nat -> pstate -> toks -> list piece -> nat -> pstate -> toks -> Prop :=
| stmts_nil f st ts : stmts_to f st ts [] f st ts
| stmts_cons f st ts c' h' tps txs y l f' st' ts' :
    curis EOF ts = false ->
    top_step f (pconsts st) (ph st) ts = Ok (c', h', tps, txs, y) ->
    stmts_to f (st_add st c' h' tps txs) (adv y) l f' st' ts' ->
    stmts_to (S f) st ts ({| p_start := ts; p_end := y; p_c := pconsts st; p_h := ph st; p_c' := c'; p_h' := h';
                             p_tops := tps; p_texts := txs |} :: l) f' st' ts'.

(* a whole program: the statements l, then an EOF token *)
Definition stmts (f : nat) (st : pstate) (ts : toks) (l : list piece) (st' : pstate) : Prop :=
  exists f' ts', stmts_to f st ts l (S f') st' ts' /\ curis EOF ts' = true.

(* the answer of the loop is the answer from the configuration reached *)
Lemma stmts_to_parse_tops f st ts l f' st' ts' :
  stmts_to f st ts l f' st' ts' -> parse_tops f st ts = parse_tops f' st' ts'.
Proof.
  induction 1 as [|f st ts c' h' tps txs y l f' st' ts' E T R IH]; [reflexivity|].
  rewrite parse_tops_step, E, T. exact IH.
Qed.

Lemma stmts_to_fuel f st ts l f' st' ts' : stmts_to f st ts l f' st' ts' -> f = (List.length l + f')%nat.
Proof. induction 1; cbn [List.length]; lia. Qed.

Lemma stmts_to_app f1 st1 x1 l1 f2 st2 x2 l2 f3 st3 x3 :
  stmts_to f1 st1 x1 l1 f2 st2 x2 -> stmts_to f2 st2 x2 l2 f3 st3 x3 -> stmts_to f1 st1 x1 (l1 ++ l2) f3 st3 x3.
Proof.
  induction 1 as [|f st ts c' h' tps txs y l f' st' ts' E T R IH]; intros K; [exact K|].
  cbn [app]. eapply stmts_cons; [exact E|exact T|apply IH, K].
Qed.

Lemma stmts_to_split l1 : forall f1 st1 x1 l2 f3 st3 x3,
  stmts_to f1 st1 x1 (l1 ++ l2) f3 st3 x3 ->
  exists f2 st2 x2, stmts_to f1 st1 x1 l1 f2 st2 x2 /\ stmts_to f2 st2 x2 l2 f3 st3 x3.
Proof.
  induction l1 as [|p l1 IH]; intros f1 st1 x1 l2 f3 st3 x3 H.
  - exists f1, st1, x1. split; [apply stmts_nil|exact H].
  - cbn [app] in H. inversion H; subst.
    match goal with K : stmts_to _ _ _ (l1 ++ l2) _ _ _ |- _ => destruct (IH _ _ _ _ _ _ _ K) as (f2 & st2 & x2 & A & B) end.
    exists f2, st2, x2. split; [|exact B]. eapply stmts_cons; eassumption.
Qed.

(* the sequence is determined: two runs from the same configuration are one a prefix of the other *)
Lemma stmts_to_fun f st ts l1 f1 st1 ts1 : stmts_to f st ts l1 f1 st1 ts1 ->
  forall l2 f2 st2 ts2, stmts_to f st ts l2 f2 st2 ts2 -> List.length l1 = List.length l2 ->
  l1 = l2 /\ f1 = f2 /\ st1 = st2 /\ ts1 = ts2.
Proof.
  induction 1 as [|f st ts c' h' tps txs y l f' st' ts' E T R IH]; intros l2 f2 st2 ts2 R2 L.
  - destruct l2; [|discriminate L]. inversion R2; subst. auto.
  - destruct l2 as [|p l2]; [discriminate L|]. inversion R2; subst.
    match goal with K : top_step _ _ _ _ = Ok (_, _, _, _, _) |- _ => rewrite T in K; inversion K; subst end.
    match goal with K : stmts_to f _ _ l2 _ _ _ |- _ => destruct (IH _ _ _ _ K) as (-> & -> & -> & ->) end; [|auto].
    cbn [List.length] in L. lia.
Qed.

(* THE GRAMMAR THEOREM: the loop accepts exactly the sequences of statements followed by an EOF token, and its answer is the
   state after the last statement *)
Theorem parse_tops_grammar f st ts st' :
  parse_tops f st ts = Ok st' <-> exists l, stmts f st ts l st'.
Proof.
  split.
  - revert st ts. induction f as [|f IH]; intros st ts H; [discriminate H|].
    rewrite parse_tops_step in H. destruct (curis EOF ts) eqn:E.
    + inversion H; subst. exists [], f, ts. split; [apply stmts_nil|exact E].
    + destruct (top_step f (pconsts st) (ph st) ts) as [[[[[c' h'] tps] txs] y]| | |] eqn:T; try discriminate H.
      destruct (IH _ _ H) as (l & f' & ts' & R & E'). eexists (_ :: l), f', ts'. split; [|exact E'].
      eapply stmts_cons; eassumption.
  - intros (l & f' & ts' & R & E). rewrite (stmts_to_parse_tops _ _ _ _ _ _ _ R), parse_tops_step, E. reflexivity.
Qed.

Lemma stmts_fun f st ts l1 st1 l2 st2 : stmts f st ts l1 st1 -> stmts f st ts l2 st2 -> l1 = l2 /\ st1 = st2.
Proof.
  intros (f1 & x1 & R1 & E1) (f2 & x2 & R2 & E2).
  assert (L : List.length l1 = List.length l2).
  { (* the shorter run stops on an EOF token, where the longer one has a statement *)
    destruct (Nat.lt_trichotomy (List.length l1) (List.length l2)) as [L|[L|L]]; [exfalso| exact L |exfalso].
    - rewrite <- (firstn_skipn (List.length l1) l2) in R2.
      destruct (stmts_to_split _ _ _ _ _ _ _ _ R2) as (g & sg & xg & A & B).
      assert (LA : List.length l1 = List.length (firstn (List.length l1) l2)) by (rewrite firstn_length; lia).
      destruct (stmts_to_fun _ _ _ _ _ _ _ R1 _ _ _ _ A LA) as (_ & <- & <- & <-).
      destruct (skipn (List.length l1) l2) as [|p r] eqn:SK.
      + apply (f_equal (@List.length _)) in SK. rewrite skipn_length in SK. cbn in SK. lia.
      + inversion B; subst. congruence.
    - rewrite <- (firstn_skipn (List.length l2) l1) in R1.
      destruct (stmts_to_split _ _ _ _ _ _ _ _ R1) as (g & sg & xg & A & B).
      assert (LA : List.length l2 = List.length (firstn (List.length l2) l1)) by (rewrite firstn_length; lia).
      destruct (stmts_to_fun _ _ _ _ _ _ _ R2 _ _ _ _ A LA) as (_ & <- & <- & <-).
      destruct (skipn (List.length l2) l1) as [|p r] eqn:SK.
      + apply (f_equal (@List.length _)) in SK. rewrite skipn_length in SK. cbn in SK. lia.
      + inversion B; subst. congruence. }
  destruct (stmts_to_fun _ _ _ _ _ _ _ R1 _ _ _ _ R2 L) as (-> & _ & -> & _). auto.
Qed.

(* (4) THE OUTCOME THEOREM: the loop runs over whole statements up to a configuration where it stops, and it stops for one of
   three reasons - no fuel; an EOF token: the answer is the state reached; a statement whose own parser does not succeed:
   the answer is the answer of that parser (error, panic, no fuel).  So the first failing statement decides. *)
Theorem parse_tops_outcome f st ts :
  exists l f1 st1 ts1, stmts_to f st ts l f1 st1 ts1 /\
    ((f1 = O /\ parse_tops f st ts = Fuel) \/
     (exists f2, f1 = S f2 /\ curis EOF ts1 = true /\ parse_tops f st ts = Ok st1) \/
     (exists f2, f1 = S f2 /\ curis EOF ts1 = false /\ is_ok (top_step f2 (pconsts st1) (ph st1) ts1) = false /\
                 parse_tops f st ts = res_of (top_step f2 (pconsts st1) (ph st1) ts1))).
Proof.
  revert st ts. induction f as [|f IH]; intros st ts.
  - exists [], O, st, ts. split; [apply stmts_nil|]. left. auto.
  - destruct (curis EOF ts) eqn:E.
    + exists [], (S f), st, ts. split; [apply stmts_nil|]. right. left. exists f. rewrite parse_tops_step, E. auto.
    + destruct (top_step f (pconsts st) (ph st) ts) as [[[[[c' h'] tps] txs] y]| | |] eqn:T.
      * destruct (IH (st_add st c' h' tps txs) (adv y)) as (l & f1 & st1 & ts1 & R & O).
        eexists (_ :: l), f1, st1, ts1. split; [eapply stmts_cons; eassumption|].
        rewrite parse_tops_step, E, T. exact O.
      * exists [], (S f), st, ts. split; [apply stmts_nil|]. right. right. exists f. rewrite parse_tops_step, E, T. auto.
      * exists [], (S f), st, ts. split; [apply stmts_nil|]. right. right. exists f. rewrite parse_tops_step, E, T. auto.
      * exists [], (S f), st, ts. split; [apply stmts_nil|]. right. right. exists f. rewrite parse_tops_step, E, T. auto.
Qed.

(* the loop reports an error exactly when, after some whole statements, the parser of the next statement reports it *)
Theorem parse_tops_error f st ts e :
  parse_tops f st ts = Err e <->
  exists l f2 st1 ts1, stmts_to f st ts l (S f2) st1 ts1 /\ curis EOF ts1 = false /\
                       top_step f2 (pconsts st1) (ph st1) ts1 = Err e.
Proof.
  split.
  - intros H. destruct (parse_tops_outcome f st ts) as (l & f1 & st1 & ts1 & R & [(_ & O)|[(f2 & _ & _ & O)|(f2 & -> & E & _ & O)]]);
      try congruence.
    exists l, f2, st1, ts1. split; [exact R|]. split; [exact E|]. rewrite H in O.
    destruct (top_step f2 (pconsts st1) (ph st1) ts1); cbn [res_of] in O; congruence.
  - intros (l & f2 & st1 & ts1 & R & E & T). rewrite (stmts_to_parse_tops _ _ _ _ _ _ _ R), parse_tops_step, E, T. reflexivity.
Qed.

(* ---------- what a run adds to the state ---------- *)
Lemma last_cons_default {A} (l : list A) : forall a d, last (a :: l) d = last l a.
Proof. induction l as [|x r IH]; intros a d; [reflexivity|]. change (last (a :: x :: r) d) with (last (x :: r) d). rewrite !IH. reflexivity. Qed.

Theorem stmts_to_state f st ts l f' st' ts' : stmts_to f st ts l f' st' ts' ->
  ptops st' = ptops st ++ added_tops l /\ ptexts st' = ptexts st ++ added_texts l /\
  pconsts st' = last (map p_c' l) (pconsts st) /\ ph st' = last (map p_h' l) (ph st).
Proof.
  induction 1 as [f st ts|f st ts c' h' tps txs y l f' st' ts' E T R (I1 & I2 & I3 & I4)].
  - cbn. rewrite !app_nil_r. auto.
  - unfold st_add in *. cbn [ptops ptexts pconsts ph] in *. unfold added_tops, added_texts. cbn [flat_map p_tops p_texts map p_c' p_h'].
    rewrite I1, I2, <- !app_assoc. split; [reflexivity|]. split; [reflexivity|].
    rewrite I3, I4, !last_cons_default. auto.
Qed.

(* ---------- every statement of a run is parsed by the parser of its keyword, from what the previous one left ---------- *)
(* [threaded c h ts l c' h' ts']: the pieces l are chained from (c, h, ts) to (c', h', ts') *)
Fixpoint threaded (c : list (text * text)) (h : hst) (ts : toks) (l : list piece) (c' : list (text * text)) (h' : hst) (ts' : toks) : Prop :=
  match l with
  | [] => c = c' /\ h = h' /\ ts = ts'
  | p :: r => p_start p = ts /\ p_c p = c /\ p_h p = h /\ threaded (p_c' p) (p_h' p) (adv (p_end p)) r c' h' ts'
  end.
Definition piece_ok (p : piece) : Prop :=
  curis EOF (p_start p) = false /\
  exists f, top_step f (p_c p) (p_h p) (p_start p) = Ok (p_c' p, p_h' p, p_tops p, p_texts p, p_end p).

Theorem stmts_to_pieces f st ts l f' st' ts' : stmts_to f st ts l f' st' ts' ->
  Forall piece_ok l /\ threaded (pconsts st) (ph st) ts l (pconsts st') (ph st') ts'.
Proof.
  induction 1 as [f st ts|f st ts c' h' tps txs y l f' st' ts' E T R (I1 & I2)].
  - split; [constructor|cbn; auto].
  - split.
    + constructor; [|exact I1]. split; [exact E|]. exists f. exact T.
    + cbn [threaded p_start p_c p_h p_c' p_h' p_end]. auto.
Qed.

(* ---------- tops_run: the run relation of Independence.v is the same thing, for statements that do not end on an EOF token ---------- *)
Lemma tops_run_stmts_to f st ts f' st' ts' : tops_run f st ts f' st' ts' ->
  exists l, stmts_to f st ts l f' st' ts' /\ Forall (fun p => curis EOF (p_end p) = false) l.
Proof.
  induction 1 as [|f st ts c' h' tps txs y f' st' ts' E T Y R (l & IH & FA)].
  - exists []. split; [apply stmts_nil|constructor].
  - eexists (_ :: l). split; [eapply stmts_cons; eassumption|]. constructor; [exact Y|exact FA].
Qed.

Lemma stmts_to_tops_run f st ts l f' st' ts' : stmts_to f st ts l f' st' ts' ->
  Forall (fun p => curis EOF (p_end p) = false) l -> tops_run f st ts f' st' ts'.
Proof.
  induction 1 as [|f st ts c' h' tps txs y l f' st' ts' E T R IH]; intros FA; [apply run_refl|].
  inversion FA as [|? ? Y FA']; subst. cbn [p_end] in Y. eapply run_step; [exact E|exact T|exact Y|apply IH, FA'].
Qed.

End GRAMMAR.

(* ====================================================================================================================== *)
(* PART B - what one statement is: its keyword decides its parser, what it adds, and where it ends                         *)
(* ====================================================================================================================== *)
Lemma is_iff ty tk : is ty tk = true <-> ttype tk = ty.
Proof. unfold is, tt_eqb. destruct (toktype_eq_dec (ttype tk) ty); split; congruence. Qed.
Lemma curis_iff ty ts : curis ty ts = true <-> ttype (cur ts) = ty.
Proof. apply is_iff. Qed.
Lemma curis_false_iff ty ts : curis ty ts = false <-> ttype (cur ts) <> ty.
Proof. unfold curis, is, tt_eqb. destruct (toktype_eq_dec (ttype (cur ts)) ty); split; congruence. Qed.

(* the keyword of a top-level statement of the AST *)
Definition top_kind (tp : top) : toktype :=
  match tp with
  | TScript _ _ _ => SCRIPT | TRaw _ _ => RAW | TTextStmt => TEXT | TMovement _ _ _ _ => MOVEMENT
  | TMart _ _ _ _ _ => MART | TMapScripts _ _ _ _ => MAPSCRIPTS
  end.
(* the label it defines, with its scope (a raw statement defines none; the label of a text statement is in its textdef) *)
Definition top_label (tp : top) : option (text * bool) :=
  match tp with
  | TScript n g _ | TMovement n g _ _ | TMart n g _ _ _ | TMapScripts n g _ _ => Some (n, g)
  | TRaw _ _ | TTextStmt => None
  end.

(* [top_written ts tp]: tp is the AST of the statement written at ts: the keyword at ts is the keyword of tp, and the name and
   the scope of tp are the name written at ts and the scope of the modifier written at ts - or, when none is written, the
   documented default of the keyword (Scopes.declares, Scopes.default_scope) *)
Definition top_written (ts : toks) (tp : top) : Prop :=
  ttype (cur ts) = top_kind tp /\
  match tp with
  | TScript n g _ | TMapScripts n g _ _ => declares (default_scope (top_kind tp)) ts n g
  | TMovement n g tk _ | TMart n g tk _ _ => declares (default_scope (top_kind tp)) ts n g /\ tk = cur ts
  | TRaw v line => is RAWSTRING (pk 1 ts) = true /\ v = tlit (pk 1 ts) /\ line = tline (pk 1 ts)
  | TTextStmt => True
  end.
Definition text_written (ts : toks) (x : textdef) : Prop :=
  ttype (cur ts) = TEXT /\ declares (default_scope TEXT) ts (xname x) (xglob x) /\ xtok x = cur ts.
Definition const_written (c : list (text * text)) (ts : toks) (name : text) : Prop :=
  ttype (cur ts) = CONST /\ is IDENT (pk 1 ts) = true /\ name = tlit (pk 1 ts) /\ is ASSIGN (pk 2 ts) = true /\ assoc c name = None.

Lemma top_written_label ts tp n g : top_written ts tp -> top_label tp = Some (n, g) ->
  declares (default_scope (ttype (cur ts))) ts n g.
Proof.
  intros [K W] L. rewrite K. destruct tp; cbn [top_label] in L; try discriminate L; inversion L; subst; cbn [top_kind] in *;
    first [exact W|exact (proj1 W)].
Qed.

Section STATEMENT.
Variable av : list (text * autovar).
Variable sw : list (text * text).
Variable ee : bool.
Variable pf : toks -> res (token * text * text * toks).
Notation top_step := (top_step av sw ee pf).

Lemma ms_entries_rbrace c : forall f mapname ts plain tables imp plain' tables' imp' ts',
  ms_entries av sw ee pf c f mapname ts plain tables imp = Ok (plain', tables', imp', ts') -> curis RBRACE ts' = true.
Proof.
  induction f as [|f IH]; intros mapname ts plain tables imp plain' tables' imp' ts' H; [discriminate H|].
  cbn [ms_entries] in H. destruct (curis RBRACE ts) eqn:C0; [inversion H; subst; exact C0|].
  destruct (negb (curis IDENT ts)); [discriminate H|]. cbn zeta in H.
  destruct (curis COLON (adv ts)).
  - destruct (expect_peek IDENT (adv ts)) as [ts2|]; [|discriminate H]. eapply IH; exact H.
  - destruct (curis LBRACE (adv ts)).
    + bind H as [[b imp1] ts2] eqn E2. eapply IH; exact H.
    + destruct (curis LBRACKET (adv ts)); [|discriminate H]. bind H as [[es imp1] ts2] eqn E2. eapply IH; exact H.
Qed.

(* the last token of a statement *)
Definition ends_as (kw : toktype) (ts y : toks) : Prop :=
  match kw with
  | RAW => y = adv ts /\ curis RAWSTRING y = true
  | CONST => True
  | _ => curis RBRACE y = true
  end.

(* THE STATEMENT THEOREM.  The body of the loop succeeds only on one of the seven keywords, and then:
   - const: it adds no top-level statement and no text, leaves the hoisting state alone, and adds the written name to the constants;
   - the other six: it leaves the constants alone and adds exactly one top-level statement, the one written there
     (keyword, name, scope modifier or default); a text statement adds in addition exactly one text - the one written there -
     and the others add no text; raw, text, movement and mart leave the hoisting state alone;
   - a script, text, movement, mart, mapscripts statement ends on a '}', a raw statement on its raw string. *)
Theorem top_step_shape f c h ts c' h' tps txs y :
  top_step f c h ts = Ok (c', h', tps, txs, y) ->
  ends_as (ttype (cur ts)) ts y /\
  ((ttype (cur ts) = CONST /\ tps = [] /\ txs = [] /\ h' = h /\ exists name v, c' = (name, v) :: c /\ const_written c ts name) \/
   (ttype (cur ts) <> CONST /\ c' = c /\ exists tp, tps = [tp] /\ top_written ts tp /\
      match tp with
      | TTextStmt => h' = h /\ exists x, txs = [x] /\ text_written ts x
      | TScript _ _ _ | TMapScripts _ _ _ _ => txs = []
      | _ => h' = h /\ txs = []
      end)).
Proof.
  intros H. unfold Independence.top_step in H. destruct (ttype (cur ts)) eqn:T; try discriminate H.
  - (* script *)
    bind H as [[[[name g] b] imp] ts1] eqn E. destruct (add_implicit imp h) as [h1 ps]. inversion H; subst.
    pose proof (script_scope_as_written _ _ _ _ _ _ _ _ _ _ _ _ E) as D.
    unfold parse_script in E. cbv zeta in E. bind E as [g0 ts0] eqn S0.
    destruct (expect_peek IDENT ts0) as [ts2|]; [|discriminate E]. destruct (expect_peek LBRACE ts2) as [ts3|]; [|discriminate E].
    bind E as [[b0 i0] ts4] eqn B. inversion E; subst.
    split; [exact (MapScriptsParse.parse_block_rbrace _ _ _ _ _ _ _ _ _ _ _ _ _ _ _ _ B)|].
    right. split; [discriminate|]. split; [reflexivity|]. eexists. split; [reflexivity|]. split; [|reflexivity].
    split; [exact T|exact D].
  - (* raw *)
    bind H as [tp ts1] eqn E. inversion H; subst. unfold parse_raw in E.
    destruct (expect_peek RAWSTRING ts) as [ts1|] eqn:P; [|discriminate E]. inversion E; subst.
    destruct (expect_peek_inv _ _ _ P) as [I ->]. rewrite cur_adv.
    split; [split; [reflexivity|unfold curis; rewrite cur_adv; exact I]|].
    right. split; [discriminate|]. split; [reflexivity|]. eexists. split; [reflexivity|]. split; [|auto].
    split; [exact T|]. auto.
  - (* text *)
    bind H as [td ts1] eqn E. inversion H; subst.
    pose proof (text_scope_as_written _ _ _ _ _ _ _ E) as D.
    unfold parse_text in E. cbv zeta in E. bind E as [g0 ts0] eqn S0.
    destruct (expect_peek IDENT ts0) as [ts2|]; [|discriminate E]. destruct (expect_peek LBRACE ts2) as [ts3|]; [|discriminate E].
    bind E as [[v sty] ts5] eqn B. destruct (expect_peek RBRACE ts5) as [ts6|] eqn:P; [|discriminate E]. inversion E; subst.
    destruct (expect_peek_inv _ _ _ P) as [Ip ->].
    split; [unfold ends_as, curis; rewrite cur_adv; exact Ip|].
    right. split; [discriminate|]. split; [reflexivity|]. exists TTextStmt. split; [reflexivity|]. split; [split; [exact T|exact I]|].
    split; [reflexivity|]. eexists. split; [reflexivity|]. split; [exact T|]. split; [exact D|reflexivity].
  - (* movement *)
    bind H as [tp ts1] eqn E. inversion H; subst.
    destruct (movement_scope_as_written _ _ _ _ _ _ E) as (name & g & steps & -> & D).
    unfold parse_movement in E. cbv zeta in E. bind E as [g0 ts0] eqn S0.
    destruct (expect_peek IDENT ts0) as [ts2|]; [|discriminate E]. destruct (expect_peek LBRACE ts2) as [ts3|]; [|discriminate E].
    bind E as [mv ts4] eqn B. inversion E; subst.
    split; [exact (PorySwitchLists.list_value_ends_closing _ _ _ _ _ _ _ _ B)|].
    right. split; [discriminate|]. split; [reflexivity|]. eexists. split; [reflexivity|]. split; [|auto].
    split; [exact T|]. split; [exact D|reflexivity].
  - (* mart *)
    bind H as [tp ts1] eqn E. inversion H; subst.
    destruct (mart_scope_as_written _ _ _ _ _ _ _ E) as (name & g & items & itoks & -> & D).
    unfold parse_mart in E. cbv zeta in E. bind E as [g0 ts0] eqn S0.
    destruct (expect_peek IDENT ts0) as [ts2|]; [|discriminate E]. destruct (expect_peek LBRACE ts2) as [ts3|]; [|discriminate E].
    bind E as [its ts4] eqn B. inversion E; subst.
    split; [exact (PorySwitchLists.list_value_ends_closing _ _ _ _ _ _ _ _ B)|].
    right. split; [discriminate|]. split; [reflexivity|]. eexists. split; [reflexivity|]. split; [|auto].
    split; [exact T|]. split; [exact D|reflexivity].
  - (* mapscripts *)
    bind H as [[tp imp] ts1] eqn E. destruct (add_implicit imp h) as [h1 ps]. inversion H; subst.
    destruct (mapscripts_scope_as_written _ _ _ _ _ _ _ _ _ _ E) as (name & g & plain & tables & -> & D).
    unfold parse_mapscripts in E. bind E as [g0 ts0] eqn S0. cbv zeta in E.
    destruct (expect_peek IDENT ts0) as [ts2|]; [|discriminate E]. destruct (expect_peek LBRACE ts2) as [ts3|]; [|discriminate E].
    bind E as [[[plain0 tables0] i0] ts4] eqn B. inversion E; subst.
    split; [exact (ms_entries_rbrace _ _ _ _ _ _ _ _ _ _ _ B)|].
    right. split; [discriminate|]. split; [reflexivity|]. eexists. split; [reflexivity|]. split; [|reflexivity].
    split; [exact T|exact D].
  - (* const *)
    bind H as [c1 ts1] eqn E. inversion H; subst. split; [exact I|]. left. split; [reflexivity|].
    split; [reflexivity|]. split; [reflexivity|]. split; [reflexivity|].
    unfold parse_const in E. cbv zeta in E.
    destruct (expect_peek IDENT ts) as [ts1|] eqn:P1; [|discriminate E].
    destruct (assoc c (tlit (cur ts1))) eqn:A; [discriminate E|].
    destruct (expect_peek ASSIGN ts1) as [ts2|] eqn:P2; [|discriminate E].
    destruct (const_value f c ts2 []) as [v ts3]. destruct v as [|v0 v]; [discriminate E|]. inversion E; subst.
    destruct (expect_peek_inv _ _ _ P1) as [I1 ->]. destruct (expect_peek_inv _ _ _ P2) as [I2 _].
    rewrite pk_adv in I2. rewrite cur_adv in A |- *.
    eexists _, _. split; [reflexivity|]. split; [exact T|]. auto.
Qed.

End STATEMENT.

(* ====================================================================================================================== *)
(* PART C - the statements of the stream and the statements of the AST correspond one to one, in source order              *)
(* ====================================================================================================================== *)
Definition kw_is (kw : toktype) (ts : toks) : bool := tt_eqb (ttype (cur ts)) kw.
Definition kind_is (kw : toktype) (tp : top) : bool := tt_eqb (top_kind tp) kw.
(* the top-level positions of a run: the streams at the keywords of its statements, in source order *)
Definition starts (l : list piece) : list toks := map p_start l.
(* ... those with the keyword kw; ... those that are not const statements *)
Definition kw_starts (kw : toktype) (l : list piece) : list toks := filter (kw_is kw) (starts l).
Definition top_starts (l : list piece) : list toks := filter (fun ts => negb (kw_is CONST ts)) (starts l).

Lemma kw_is_iff kw ts : kw_is kw ts = true <-> ttype (cur ts) = kw.
Proof. unfold kw_is, tt_eqb. destruct (toktype_eq_dec (ttype (cur ts)) kw); split; congruence. Qed.
Lemma kw_is_false kw ts : kw_is kw ts = false <-> ttype (cur ts) <> kw.
Proof. unfold kw_is, tt_eqb. destruct (toktype_eq_dec (ttype (cur ts)) kw); split; congruence. Qed.
Lemma kind_is_iff kw tp : kind_is kw tp = true <-> top_kind tp = kw.
Proof. unfold kind_is, tt_eqb. destruct (toktype_eq_dec (top_kind tp) kw); split; congruence. Qed.

Lemma Forall2_filter {A B} (R : A -> B -> Prop) (f : A -> bool) (g : B -> bool) :
  (forall a b, R a b -> f a = g b) -> forall la lb, Forall2 R la lb -> Forall2 R (filter f la) (filter g lb).
Proof.
  intros FG la lb H. induction H as [|a b la lb Hab H IH]; [constructor|].
  cbn [filter]. rewrite <- (FG _ _ Hab). destruct (f a); [constructor; assumption|exact IH].
Qed.
Lemma Forall2_len {A B} (R : A -> B -> Prop) la lb : Forall2 R la lb -> List.length la = List.length lb.
Proof. induction 1; cbn; congruence. Qed.
Lemma Forall2_in_l {A B} (R : A -> B -> Prop) la lb : Forall2 R la lb -> forall a, In a la -> exists b, In b lb /\ R a b.
Proof.
  induction 1 as [|a b la lb Hab H IH]; intros x Hx; [destruct Hx|].
  destruct Hx as [<-|Hx]; [exists b; split; [now left|exact Hab]|]. destruct (IH _ Hx) as (b' & I' & R'). exists b'. split; [now right|exact R'].
Qed.
Lemma Forall2_in_r {A B} (R : A -> B -> Prop) la lb : Forall2 R la lb -> forall b, In b lb -> exists a, In a la /\ R a b.
Proof.
  induction 1 as [|a b la lb Hab H IH]; intros x Hx; [destruct Hx|].
  destruct Hx as [<-|Hx]; [exists a; split; [now left|exact Hab]|]. destruct (IH _ Hx) as (a' & I' & R'). exists a'. split; [now right|exact R'].
Qed.
Lemma filter_filter_sub {A} (f g : A -> bool) l : (forall x, f x = true -> g x = true) -> filter f (filter g l) = filter f l.
Proof.
  intros FG. induction l as [|x r IH]; [reflexivity|]. cbn [filter]. destruct (g x) eqn:G.
  - cbn [filter]. rewrite IH. reflexivity.
  - destruct (f x) eqn:F; [rewrite (FG _ F) in G; discriminate|exact IH].
Qed.

(* the name and the scope written at a keyword are determined by the tokens after it *)
Lemma declares_fun d ts n g n' g' : declares d ts n g -> declares d ts n' g' -> n = n' /\ g = g'.
Proof. intros (m & M & -> & _ & ->) (m' & M' & -> & _ & ->). rewrite M in M'. inversion M'; subst. auto. Qed.

Section CORRESPOND.
Variable av : list (text * autovar).
Variable sw : list (text * text).
Variable ee : bool.
Variable pf : toks -> res (token * text * text * toks).
Notation parse_tops := (parse_tops av sw ee pf).
Notation parse_program := (parse_program av sw ee pf).
Notation top_step := (top_step av sw ee pf).
Notation tops_run := (tops_run av sw ee pf).
Notation stmts_to := (stmts_to av sw ee pf).
Notation stmts := (stmts av sw ee pf).

(* the constants a run adds: one per const statement, the name written after the keyword, latest first *)
Definition const_named (ts : toks) (nv : text * text) : Prop :=
  ttype (cur ts) = CONST /\ is IDENT (pk 1 ts) = true /\ Datatypes.fst nv = tlit (pk 1 ts) /\ is ASSIGN (pk 2 ts) = true.

(* (2)+(3) THE CORRESPONDENCE THEOREM.  Over a run of statements l:
   - the top-level statements added to the AST are, in source order, exactly one per statement that is not a const statement,
     and each is the statement written at that place: same keyword, the written name, the written scope modifier or the
     documented default of the keyword;
   - the texts added are, in source order, exactly one per text statement, each with the written name and scope;
   - the constants added are exactly one per const statement, each with the written name (latest first).
   Nothing is dropped, duplicated or reordered. *)
Theorem stmts_to_written f st ts l f' st' ts' : stmts_to f st ts l f' st' ts' ->
  Forall2 top_written (top_starts l) (added_tops l) /\
  Forall2 text_written (kw_starts TEXT l) (added_texts l) /\
  exists cs, pconsts st' = cs ++ pconsts st /\ Forall2 const_named (kw_starts CONST l) (rev cs).
Proof.
  induction 1 as [f st ts|f st ts c' h' tps txs y l f' st' ts' E T R (I1 & I2 & cs & I3 & I4)].
  - split; [constructor|]. split; [constructor|]. exists []. split; [reflexivity|constructor].
  - unfold top_starts, kw_starts, starts, added_tops, added_texts in *. cbn [map flat_map filter p_start p_tops p_texts].
    cbn [st_add pconsts] in I3. unfold st_add in I3. cbn [pconsts] in I3.
    destruct (top_step_shape _ _ _ _ _ _ _ _ _ _ _ _ _ T) as [_ [(K & -> & -> & _ & name & v & -> & CW)|(K & -> & tp & -> & W & X)]].
    + (* const *)
      assert (K1 : kw_is CONST ts = true) by (apply kw_is_iff; exact K).
      assert (K2 : kw_is TEXT ts = false) by (apply kw_is_false; rewrite K; discriminate).
      rewrite K1, K2. cbn [negb app]. split; [exact I1|]. split; [exact I2|].
      exists (cs ++ [(name, v)]). split; [rewrite I3, <- app_assoc; reflexivity|].
      rewrite rev_app_distr. cbn [rev app]. constructor; [|exact I4].
      destruct CW as (A & B & C & D & _). split; [exact A|]. split; [exact B|]. split; [exact C|exact D].
    + assert (K1 : kw_is CONST ts = false) by (apply kw_is_false; exact K).
      rewrite K1. cbn [negb app]. split; [constructor; [exact W|exact I1]|].
      split; [|exists cs; split; [exact I3|exact I4]].
      destruct W as [WK _].
      destruct tp; cbn [top_kind] in WK;
        try (assert (K2 : kw_is TEXT ts = false) by (apply kw_is_false; rewrite WK; discriminate); rewrite K2;
             first [rewrite X|rewrite (proj2 X)]; exact I2).
      destruct X as (_ & x & -> & XW). assert (K2 : kw_is TEXT ts = true) by (apply kw_is_iff; exact WK). rewrite K2.
      cbn [app]. constructor; [exact XW|exact I2].
Qed.

(* ... keyword by keyword *)
Theorem stmts_to_written_kw f st ts l f' st' ts' kw : stmts_to f st ts l f' st' ts' -> kw <> CONST ->
  Forall2 top_written (kw_starts kw l) (filter (kind_is kw) (added_tops l)).
Proof.
  intros R NK. destruct (stmts_to_written _ _ _ _ _ _ _ R) as (W & _).
  unfold kw_starts. rewrite <- (filter_filter_sub (kw_is kw) (fun ts => negb (kw_is CONST ts))).
  - apply Forall2_filter; [|exact W]. intros a b [K _]. unfold kw_is, kind_is. rewrite K. reflexivity.
  - intros x Hx. apply kw_is_iff in Hx. apply negb_true_iff, kw_is_false. congruence.
Qed.

(* ... and as numbers: as many script / raw / text / movement / mart / mapscripts statements in the AST as such keywords at
   top-level positions; as many texts as text keywords *)
Theorem stmts_to_counts f st ts l f' st' ts' : stmts_to f st ts l f' st' ts' ->
  (forall kw, kw <> CONST -> List.length (filter (kind_is kw) (added_tops l)) = List.length (kw_starts kw l)) /\
  List.length (added_tops l) = List.length (top_starts l) /\
  List.length (added_texts l) = List.length (kw_starts TEXT l).
Proof.
  intros R. split; [|split].
  - intros kw NK. symmetry. eapply Forall2_len, stmts_to_written_kw; eassumption.
  - symmetry. eapply Forall2_len. apply (stmts_to_written _ _ _ _ _ _ _ R).
  - symmetry. eapply Forall2_len. apply (stmts_to_written _ _ _ _ _ _ _ R).
Qed.

(* every statement starts on one of the seven keywords *)
Theorem stmts_to_keywords f st ts l f' st' ts' : stmts_to f st ts l f' st' ts' ->
  Forall (fun x => is_toplevel (ttype (cur x)) = true) (starts l).
Proof.
  induction 1 as [f st ts|f st ts c' h' tps txs y l f' st' ts' E T R IH]; [constructor|].
  unfold starts. cbn [map p_start]. constructor; [|exact IH].
  unfold Independence.top_step in T. destruct (ttype (cur ts)); try discriminate T; reflexivity.
Qed.

Hypothesis pf_advs : format_advs pf.

(* the positions: every statement starts at a position of the stream (reached by advancing), ends at or after its start, and
   the stream is the tokens of the statements, one statement after the other, followed by what remains *)
Theorem stmts_to_positions f st ts l f' st' ts' : stmts_to f st ts l f' st' ts' ->
  advs ts ts' /\ Forall (fun p => advs ts (p_start p) /\ advs (p_start p) (p_end p) /\ advs (adv (p_end p)) ts') l.
Proof.
  induction 1 as [f st ts|f st ts c' h' tps txs y l f' st' ts' E T R (I1 & I2)].
  - split; [apply advs_refl|constructor].
  - assert (A : advs ts y) by (eapply top_step_advs; [exact pf_advs|exact T|apply advs_refl]).
    assert (A2 : advs ts (adv y)) by (apply advs_adv_r, A).
    split; [eapply advs_trans; eassumption|]. constructor.
    + cbn [p_start p_end]. split; [apply advs_refl|]. split; [exact A|exact I1].
    + eapply Forall_impl; [|exact I2]. intros p (B1 & B2 & B3). split; [eapply advs_trans; eassumption|]. auto.
Qed.

Theorem stmts_to_segments f st ts l f' st' ts' : stmts_to f st ts l f' st' ts' ->
  exists segs, ts = List.concat segs ++ ts' /\ Forall2 (fun p seg => p_start p = seg ++ adv (p_end p)) l segs.
Proof.
  induction 1 as [f st ts|f st ts c' h' tps txs y l f' st' ts' E T R (segs & I1 & I2)].
  - exists []. split; [reflexivity|constructor].
  - assert (A : advs ts (adv y)) by (apply advs_adv_r; eapply top_step_advs; [exact pf_advs|exact T|apply advs_refl]).
    destruct (advs_suffix _ _ A) as [v V]. exists (v :: segs). split.
    + cbn [List.concat]. rewrite <- app_assoc, <- I1. exact V.
    + constructor; [exact V|exact I2].
Qed.

(* ---------- (1) the witness for Independence.v ---------- *)
(* a statement that ends on an EOF token is a const statement: the others end on '}' or on a raw string *)
Lemma ends_on_eof_is_const f c h ts c' h' tps txs y :
  top_step f c h ts = Ok (c', h', tps, txs, y) -> curis EOF y = true -> ttype (cur ts) = CONST /\ tps = [] /\ txs = [] /\ h' = h.
Proof.
  intros T Y. destruct (top_step_shape _ _ _ _ _ _ _ _ _ _ _ _ _ T) as [EN [(K & -> & -> & -> & _)|(K & _)]]; [auto|exfalso].
  apply curis_iff in Y.
  destruct (ttype (cur ts)) eqn:KW; cbn [ends_as] in EN; try (apply curis_iff in EN; congruence);
    try (unfold Independence.top_step in T; rewrite KW in T; discriminate T).
  - destruct EN as [_ EN]. apply curis_iff in EN. congruence.
  - congruence.
Qed.

(* THE WITNESS THEOREM: every run of the loop that is accepted is a [tops_run] - up to a last const statement whose value runs
   into an EOF token (the only statement that can end on an EOF token) *)
Theorem parse_tops_tops_run f st ts st' : parse_tops f st ts = Ok st' ->
  exists f1 st1 ts1, tops_run f st ts f1 st1 ts1 /\ parse_tops f1 st1 ts1 = Ok st' /\
    ((curis EOF ts1 = true /\ st1 = st') \/
     (ttype (cur ts1) = CONST /\ curis EOF ts1 = false /\ exists f2 c' y,
        f1 = S f2 /\ top_step f2 (pconsts st1) (ph st1) ts1 = Ok (c', ph st1, [], [], y) /\ curis EOF y = true /\
        parse_tops f2 (st_add st1 c' (ph st1) [] []) (adv y) = Ok st')).
Proof.
  revert st ts. induction f as [|f IH]; intros st ts H; [discriminate H|].
  pose proof H as H0. rewrite parse_tops_step in H. destruct (curis EOF ts) eqn:E.
  - inversion H; subst. exists (S f), st', ts. split; [apply run_refl|]. split; [exact H0|]. left. auto.
  - destruct (top_step f (pconsts st) (ph st) ts) as [[[[[c' h'] tps] txs] y]| | |] eqn:T; try discriminate H.
    destruct (curis EOF y) eqn:Y.
    + destruct (ends_on_eof_is_const _ _ _ _ _ _ _ _ _ T Y) as (K & -> & -> & ->).
      exists (S f), st, ts. split; [apply run_refl|]. split; [exact H0|]. right. split; [exact K|]. split; [exact E|].
      exists f, c', y. auto.
    + destruct (IH _ _ H) as (f1 & st1 & ts1 & R & P & O). exists f1, st1, ts1. split; [|split; [exact P|exact O]].
      eapply run_step; eassumption.
Qed.

End CORRESPOND.

(* ====================================================================================================================== *)
(* PART D - parse_program: the program is the statements of the stream, in source order, plus what was hoisted             *)
(* ====================================================================================================================== *)
Definition pstate0 : pstate := {| pconsts := []; ph := hst0; ptops := []; ptexts := [] |}.

Lemma hoisted_movement_kind tp : hoisted_movement tp -> top_kind tp = MOVEMENT.
Proof. intros (n & tk & steps & -> & _). reflexivity. Qed.
Lemma filter_all {A} (f : A -> bool) l : Forall (fun x => f x = true) l -> filter f l = l.
Proof. induction 1 as [|x r H _ IH]; [reflexivity|]. cbn [filter]. rewrite H, IH. reflexivity. Qed.
Lemma filter_none {A} (f : A -> bool) l : Forall (fun x => f x = false) l -> filter f l = [].
Proof. induction 1 as [|x r H _ IH]; [reflexivity|]. cbn [filter]. rewrite H, IH. reflexivity. Qed.

Section PROGRAM.
Variable av : list (text * autovar).
Variable sw : list (text * text).
Variable ee : bool.
Variable pf : toks -> res (token * text * text * toks).
Notation parse_tops := (parse_tops av sw ee pf).
Notation parse_program := (parse_program av sw ee pf).
Notation top_step := (top_step av sw ee pf).
Notation tops_run := (tops_run av sw ee pf).
Notation stmts_to := (stmts_to av sw ee pf).
Notation stmts := (stmts av sw ee pf).
Hypothesis pf_advs : format_advs pf.

Lemma parse_program_inv ts p : parse_program ts = Ok p ->
  exists st', parse_tops (5 * List.length ts + 4) pstate0 ts = Ok st' /\
              tops p = ptops st' ++ hmovs (ph st') /\ texts p = htexts (ph st') ++ ptexts st'.
Proof.
  unfold Parser.parse_program. fold pstate0. intros H. bind H as st' eqn E. cbn zeta in H.
  destruct (dup_text [] _); [discriminate H|]. destruct (dup_mov [] _); [discriminate H|]. inversion H; subst. cbn [tops texts].
  exists st'. auto.
Qed.

(* THE PROGRAM GRAMMAR THEOREM.  An accepted token stream is a sequence of top-level statements l followed by an EOF token,
   each statement parsed by the parser of its keyword from the constants and the hoisting state the previous ones left, and
   - the top-level statements of the program are: one per statement of the stream that is not a const statement, in source
     order, each with the written keyword, name and scope (modifier, or the documented default) - followed by the hoisted
     movements, which are local and carry an invented name;
   - the texts of the program are: the hoisted texts (local, invented names), followed by one text per text statement of the
     stream, in source order, each with the written name and scope;
   - every statement starts at a position of the stream. *)
Theorem program_grammar ts p : parse_program ts = Ok p ->
  exists l st',
    stmts (5 * List.length ts + 4) pstate0 ts l st' /\
    tops p = added_tops l ++ hmovs (ph st') /\ texts p = htexts (ph st') ++ added_texts l /\
    Forall2 top_written (top_starts l) (added_tops l) /\
    Forall2 text_written (kw_starts TEXT l) (added_texts l) /\
    Forall hoisted_movement (hmovs (ph st')) /\ Forall hoisted_text (htexts (ph st')) /\
    Forall (advs ts) (starts l).
Proof.
  intros H. destruct (parse_program_inv _ _ H) as (st' & E & TP & TX).
  pose proof E as E0. apply parse_tops_grammar in E. destruct E as (l & f' & ts' & R & EO).
  destruct (stmts_to_state _ _ _ _ _ _ _ _ _ _ _ R) as (S1 & S2 & _). cbn [pstate0 ptops ptexts app] in S1, S2.
  destruct (stmts_to_written _ _ _ _ _ _ _ _ _ _ _ R) as (W1 & W2 & _).
  assert (P0 : Scopes.PI ts pstate0) by (constructor; constructor).
  destruct (Scopes.parse_tops_scopes _ _ _ _ pf_advs _ _ _ _ ts E0 (advs_refl _) P0) as [_ _ I3 I4].
  exists l, st'. split; [exists f', ts'; auto|]. rewrite <- S1, <- S2.
  split; [exact TP|]. split; [exact TX|]. rewrite S1, S2. split; [exact W1|]. split; [exact W2|]. split; [exact I4|]. split; [exact I3|].
  destruct (stmts_to_positions _ _ _ _ pf_advs _ _ _ _ _ _ _ R) as [_ PS].
  unfold starts. apply Forall_map. eapply Forall_impl; [|exact PS]. intros q (A & _). exact A.
Qed.

(* (3) THE COUNTING THEOREM.  In an accepted program there are as many script / raw / mart / mapscripts statements and text
   placeholders as there are such keywords at the top-level positions of the stream; as many movement statements as movement
   keywords plus the hoisted movements; as many texts as text keywords plus the hoisted texts. *)
Theorem program_counts ts p l st' : parse_program ts = Ok p -> stmts (5 * List.length ts + 4) pstate0 ts l st' ->
  (forall kw, kw <> CONST -> kw <> MOVEMENT -> List.length (filter (kind_is kw) (tops p)) = List.length (kw_starts kw l)) /\
  List.length (filter (kind_is MOVEMENT) (tops p)) = (List.length (kw_starts MOVEMENT l) + List.length (hmovs (ph st')))%nat /\
  List.length (texts p) = (List.length (htexts (ph st')) + List.length (kw_starts TEXT l))%nat.
Proof.
  intros H R. destruct (program_grammar _ _ H) as (l0 & st0 & R0 & TP & TX & _ & _ & HM & _).
  destruct (stmts_fun _ _ _ _ _ _ _ _ _ _ _ R R0) as [<- <-]. destruct R as (f' & ts' & R & _).
  destruct (stmts_to_counts _ _ _ _ _ _ _ _ _ _ _ R) as (C1 & _ & C3).
  split; [|split].
  - intros kw K1 K2. rewrite TP, filter_app, app_length, (C1 kw K1), (filter_none (kind_is kw) (hmovs (ph st'))); [cbn; lia|].
    eapply Forall_impl; [|exact HM]. intros tp Htp. apply hoisted_movement_kind in Htp. unfold kind_is. rewrite Htp.
    unfold tt_eqb. destruct (toktype_eq_dec MOVEMENT kw); congruence.
  - rewrite TP, filter_app, app_length, (C1 MOVEMENT ltac:(discriminate)), (filter_all (kind_is MOVEMENT) (hmovs (ph st'))); [reflexivity|].
    eapply Forall_impl; [|exact HM]. intros tp Htp. apply kind_is_iff, hoisted_movement_kind, Htp.
  - rewrite TX, app_length, C3. reflexivity.
Qed.

(* completeness, statement by statement: every statement of the stream is in the program ... *)
Theorem every_written_statement_is_in_the_program ts p l st' :
  parse_program ts = Ok p -> stmts (5 * List.length ts + 4) pstate0 ts l st' ->
  forall x, In x (starts l) ->
    (ttype (cur x) <> CONST -> exists tp, In tp (tops p) /\ top_written x tp) /\
    (ttype (cur x) = TEXT -> exists td, In td (texts p) /\ text_written x td).
Proof.
  intros H R x Hx. destruct (program_grammar _ _ H) as (l0 & st0 & R0 & TP & TX & W1 & W2 & _).
  destruct (stmts_fun _ _ _ _ _ _ _ _ _ _ _ R R0) as [<- <-]. split.
  - intros K. assert (I1 : In x (top_starts l)) by (apply filter_In; split; [exact Hx|apply negb_true_iff, kw_is_false, K]).
    destruct (Forall2_in_l _ _ _ W1 _ I1) as (tp & I2 & W). exists tp. split; [rewrite TP; apply in_or_app; left; exact I2|exact W].
  - intros K. assert (I1 : In x (kw_starts TEXT l)) by (apply filter_In; split; [exact Hx|apply kw_is_iff, K]).
    destruct (Forall2_in_l _ _ _ W2 _ I1) as (td & I2 & W). exists td. split; [rewrite TX; apply in_or_app; right; exact I2|exact W].
Qed.

(* ... and every top-level statement of the program is a statement of the stream or a hoisted movement; every text is a text
   statement of the stream or a hoisted text *)
Theorem every_program_statement_is_written ts p l st' :
  parse_program ts = Ok p -> stmts (5 * List.length ts + 4) pstate0 ts l st' ->
  (forall tp, In tp (tops p) -> (exists x, In x (starts l) /\ top_written x tp) \/ hoisted_movement tp) /\
  (forall td, In td (texts p) -> (exists x, In x (starts l) /\ text_written x td) \/ hoisted_text td).
Proof.
  intros H R. destruct (program_grammar _ _ H) as (l0 & st0 & R0 & TP & TX & W1 & W2 & HM & HT & _).
  destruct (stmts_fun _ _ _ _ _ _ _ _ _ _ _ R R0) as [<- <-]. split.
  - intros tp I. rewrite TP in I. apply in_app_or in I. destruct I as [I|I].
    + left. destruct (Forall2_in_r _ _ _ W1 _ I) as (x & Ix & W). exists x. split; [|exact W]. apply filter_In in Ix. apply Ix.
    + right. rewrite Forall_forall in HM. apply HM, I.
  - intros td I. rewrite TX in I. apply in_app_or in I. destruct I as [I|I].
    + right. rewrite Forall_forall in HT. apply HT, I.
    + left. destruct (Forall2_in_r _ _ _ W2 _ I) as (x & Ix & W). exists x. split; [|exact W]. apply filter_In in Ix. apply Ix.
Qed.

(* (4) errors.  If, after some whole statements, the parser of the next statement reports an error, parse_program reports that
   error (the first failing statement decides; nothing after it is looked at) *)
Theorem first_failing_statement_decides ts l f2 st1 ts1 e :
  stmts_to (5 * List.length ts + 4) pstate0 ts l (S f2) st1 ts1 -> curis EOF ts1 = false ->
  top_step f2 (pconsts st1) (ph st1) ts1 = Err e -> parse_program ts = Err e.
Proof.
  intros R E T. unfold Parser.parse_program. fold pstate0.
  rewrite (proj2 (parse_tops_error av sw ee pf _ _ _ e)); [reflexivity|]. exists l, f2, st1, ts1. auto.
Qed.

(* ... and an error of parse_program is the error of the first failing statement, or - when every statement is accepted - one
   of the two name checks at the end *)
Theorem parse_program_error_cases ts e : parse_program ts = Err e ->
  (exists l f2 st1 ts1, stmts_to (5 * List.length ts + 4) pstate0 ts l (S f2) st1 ts1 /\ curis EOF ts1 = false /\
                        top_step f2 (pconsts st1) (ph st1) ts1 = Err e) \/
  (exists l st', stmts (5 * List.length ts + 4) pstate0 ts l st' /\
     ((exists x, dup_text [] (checked_texts ee st') = Some x /\ Err e = err_tok (A := program) (xtok x) "duplicate text label") \/
      (exists tk, dup_text [] (checked_texts ee st') = None /\ dup_mov [] (checked_tops ee st') = Some tk /\
                  Err e = err_tok (A := program) tk "duplicate movement label"))).
Proof.
  unfold Parser.parse_program. fold pstate0. intros H.
  destruct (Parser.parse_tops av sw ee pf (5 * List.length ts + 4) pstate0 ts) as [st'|e'| |] eqn:E; try discriminate H.
  - right. apply parse_tops_grammar in E. destruct E as [l R]. exists l, st'. split; [exact R|]. cbn zeta in H.
    destruct (dup_text [] (checked_texts ee st')) as [x|]; [left; exists x; auto|].
    destruct (dup_mov [] (checked_tops ee st')) as [tk|]; [right; exists tk; auto|discriminate H].
  - left. inversion H; subst. apply parse_tops_error in E. exact E.
Qed.

(* ---------- the run to every statement (the witnesses Independence.v asks for) ---------- *)
(* the loop reaches every statement of an accepted run by a [tops_run], with the state that statement is parsed from, provided
   no earlier statement ends on an EOF token *)
Theorem run_to_statement f st ts l f' st' ts' : stmts_to f st ts l f' st' ts' ->
  forall l1 l2, l = l1 ++ l2 -> Forall (fun q => curis EOF (p_end q) = false) l1 ->
  exists f2 st2 x2,
    tops_run f st ts f2 st2 x2 /\ stmts_to f2 st2 x2 l2 f' st' ts' /\
    ptops st2 = ptops st ++ added_tops l1 /\ ptexts st2 = ptexts st ++ added_texts l1 /\
    match l2 with [] => True | q :: _ => x2 = p_start q /\ pconsts st2 = p_c q /\ ph st2 = p_h q end.
Proof.
  intros R l1 l2 -> FA. destruct (stmts_to_split _ _ _ _ _ _ _ _ _ _ _ _ R) as (f2 & st2 & x2 & A & B).
  exists f2, st2, x2. split; [eapply stmts_to_tops_run; eassumption|]. split; [exact B|].
  destruct (stmts_to_state _ _ _ _ _ _ _ _ _ _ _ A) as (S1 & S2 & _). split; [exact S1|]. split; [exact S2|].
  destruct l2 as [|q r]; [exact I|]. inversion B; subst. cbn [p_start p_c p_h]. auto.
Qed.

(* ---------- streams in which an EOF token occurs only as the last token ---------- *)
Definition eof_only_last (ts : toks) : Prop := forall u x v, ts = u ++ x :: v -> ttype x = EOF -> v = [].

Lemma eof_only_last_stop ts y : eof_only_last ts -> advs ts y -> curis EOF y = true -> adv y = y.
Proof.
  intros EL A Y. destruct y as [|x v]; [reflexivity|]. destruct (advs_suffix _ _ A) as [u U].
  apply curis_iff in Y. cbn [cur hd] in Y. rewrite (EL _ _ _ U Y). reflexivity.
Qed.

(* then only the last statement of a run can end on an EOF token *)
Theorem eof_only_last_ends f st ts l f' st' ts' : eof_only_last ts -> stmts_to f st ts l f' st' ts' ->
  Forall (fun q => curis EOF (p_end q) = false) (removelast l).
Proof.
  intros EL R. assert (G : forall base, advs base ts -> eof_only_last base -> Forall (fun q => curis EOF (p_end q) = false) (removelast l)).
  { clear EL. induction R as [f st ts|f st ts c' h' tps txs y l f' st' ts' E T R IH]; intros base A ELb; [constructor|].
    assert (Ay : advs base y) by (eapply top_step_advs; [exact pf_advs|exact T|exact A]).
    destruct l as [|q r]; [constructor|]. change (removelast (?p :: q :: r)) with (p :: removelast (q :: r)).
    constructor; [|apply (IH base); [apply advs_adv_r, Ay|exact ELb]]. cbn [p_end].
    destruct (curis EOF y) eqn:Y; [exfalso|reflexivity]. rewrite (eof_only_last_stop _ _ ELb Ay Y) in R.
    inversion R; subst. congruence. }
  exact (G ts (advs_refl _) EL).
Qed.

(* THE WITNESS THEOREM for such streams: an accepted run is a [tops_run] to a configuration (f1, st1, ts1) that has all the
   top-level statements, all the texts and the whole hoisting state of the answer; there the loop stands on the EOF token, or on
   a last const statement whose value runs to the EOF token - it only adds its constant *)
Theorem accepted_is_tops_run f st ts st' : eof_only_last ts -> parse_tops f st ts = Ok st' ->
  exists f1 st1 ts1, tops_run f st ts f1 st1 ts1 /\ parse_tops f1 st1 ts1 = Ok st' /\
    ptops st1 = ptops st' /\ ptexts st1 = ptexts st' /\ ph st1 = ph st' /\
    ((curis EOF ts1 = true /\ st1 = st') \/
     (ttype (cur ts1) = CONST /\ curis EOF ts1 = false /\ exists name v, pconsts st' = (name, v) :: pconsts st1 /\ const_written (pconsts st1) ts1 name)).
Proof.
  intros EL H. destruct (parse_tops_tops_run av sw ee pf _ _ _ _ H) as (f1 & st1 & ts1 & R & P & [(E & <-)|(K & E & f2 & c' & y & -> & T & Y & P2)]).
  - exists f1, st1, ts1. split; [exact R|]. split; [exact P|]. split; [reflexivity|]. split; [reflexivity|]. split; [reflexivity|]. left. auto.
  - exists (S f2), st1, ts1. split; [exact R|]. split; [exact P|].
    assert (A : advs ts y).
    { eapply top_step_advs; [exact pf_advs|exact T|]. eapply tops_run_advs; [exact pf_advs|exact R]. }
    rewrite (eof_only_last_stop _ _ EL A Y) in P2. destruct f2 as [|f2]; [discriminate P2|].
    rewrite parse_tops_step, Y in P2. inversion P2; subst st'. unfold st_add. cbn [ptops ptexts ph pconsts]. rewrite !app_nil_r.
    split; [reflexivity|]. split; [reflexivity|]. split; [reflexivity|]. right. split; [exact K|]. split; [exact E|].
    destruct (top_step_shape _ _ _ _ _ _ _ _ _ _ _ _ _ T) as [_ [(_ & _ & _ & _ & name & v & -> & CW)|(K' & _)]]; [|congruence].
    exists name, v. auto.
Qed.

End PROGRAM.

(* ====================================================================================================================== *)
(* PART E - every statement boundary of an accepted stream is reached by a tops_run (no computed witness needed)            *)
(* ====================================================================================================================== *)
Section BOUNDARY.
Variable av : list (text * autovar).
Variable sw : list (text * text).
Variable ee : bool.
Variable pf : toks -> res (token * text * text * toks).
Notation parse_tops := (parse_tops av sw ee pf).
Notation parse_program := (parse_program av sw ee pf).
Notation top_step := (top_step av sw ee pf).
Notation tops_run := (tops_run av sw ee pf).
Notation stmts_to := (stmts_to av sw ee pf).
Notation stmts := (stmts av sw ee pf).
Hypothesis pf_advs : format_advs pf.

(* x is a statement boundary of the run: the start of one of its statements, or its end when no statement ends on an EOF token *)
Definition boundary (l : list piece) (ts' x : toks) : Prop :=
  In x (starts l) \/ (x = ts' /\ Forall (fun q => curis EOF (p_end q) = false) l).

Lemma removelast_app_cons {A} (l1 : list A) q l2 : removelast (l1 ++ q :: l2) = l1 ++ removelast (q :: l2).
Proof. apply removelast_app. discriminate. Qed.

(* THE BOUNDARY THEOREM.  In a stream whose only EOF token is its last token, the loop reaches every statement boundary x of an
   accepted run by a [tops_run]: the run splits there into the statements before x and the statements from x on, and the
   state at x has exactly what the statements before x add *)
Theorem tops_run_to_boundary f st ts l f' st' ts' x : eof_only_last ts -> stmts_to f st ts l f' st' ts' -> boundary l ts' x ->
  exists f2 st2 l1 l2, l = l1 ++ l2 /\
    tops_run f st ts f2 st2 x /\ stmts_to f2 st2 x l2 f' st' ts' /\
    ptops st2 = ptops st ++ added_tops l1 /\ ptexts st2 = ptexts st ++ added_texts l1 /\
    pconsts st2 = last (map p_c' l1) (pconsts st) /\ ph st2 = last (map p_h' l1) (ph st).
Proof.
  intros EL R [IN|[-> FA]].
  - unfold starts in IN. apply in_map_iff in IN. destruct IN as (q & <- & IN). apply in_split in IN. destruct IN as (l1 & l2 & ->).
    pose proof (eof_only_last_ends av sw ee pf pf_advs _ _ _ _ _ _ _ EL R) as FA. rewrite removelast_app_cons in FA.
    apply Forall_app in FA. destruct FA as [FA _].
    destruct (stmts_to_split _ _ _ _ _ _ _ _ _ _ _ _ R) as (g & sg & xg & A & B).
    assert (X : xg = p_start q) by (inversion B; subst; reflexivity).
    subst xg. exists g, sg, l1, (q :: l2). split; [reflexivity|]. split; [eapply stmts_to_tops_run; eassumption|]. split; [exact B|].
    destruct (stmts_to_state _ _ _ _ _ _ _ _ _ _ _ A) as (S1 & S2 & S3 & S4). auto.
  - exists f', st', l, []. split; [symmetry; apply app_nil_r|]. split; [eapply stmts_to_tops_run; eassumption|]. split; [apply stmts_nil|].
    destruct (stmts_to_state _ _ _ _ _ _ _ _ _ _ _ R) as (S1 & S2 & S3 & S4). auto.
Qed.

End BOUNDARY.

(* ====================================================================================================================== *)
(* PART F - the compiler's parser (format() = Format.parse_format): the same theorems without hypothesis on the operator    *)
(* ====================================================================================================================== *)
Section REAL.
Variable av : list (text * autovar).
Variable sw : list (text * text).
Variable ee : bool.
Variable fc : Format.fontcfg.
Variable cli_font : text.
Variable cli_maxlen : Z.
Local Notation pf := (Format.parse_format fc cli_font cli_maxlen ee).

Theorem program_grammar_real ts p : parse_program av sw ee pf ts = Ok p ->
  exists l st',
    stmts av sw ee pf (5 * List.length ts + 4) pstate0 ts l st' /\
    tops p = added_tops l ++ hmovs (ph st') /\ texts p = htexts (ph st') ++ added_texts l /\
    Forall2 top_written (top_starts l) (added_tops l) /\
    Forall2 text_written (kw_starts TEXT l) (added_texts l) /\
    Forall hoisted_movement (hmovs (ph st')) /\ Forall hoisted_text (htexts (ph st')) /\
    Forall (advs ts) (starts l).
Proof. apply program_grammar, real_format_advs. Qed.

Theorem program_counts_real ts p l st' :
  parse_program av sw ee pf ts = Ok p -> stmts av sw ee pf (5 * List.length ts + 4) pstate0 ts l st' ->
  (forall kw, kw <> CONST -> kw <> MOVEMENT -> List.length (filter (kind_is kw) (tops p)) = List.length (kw_starts kw l)) /\
  List.length (filter (kind_is MOVEMENT) (tops p)) = (List.length (kw_starts MOVEMENT l) + List.length (hmovs (ph st')))%nat /\
  List.length (texts p) = (List.length (htexts (ph st')) + List.length (kw_starts TEXT l))%nat.
Proof. apply program_counts, real_format_advs. Qed.

Theorem every_written_statement_is_in_the_program_real ts p l st' :
  parse_program av sw ee pf ts = Ok p -> stmts av sw ee pf (5 * List.length ts + 4) pstate0 ts l st' ->
  forall x, In x (starts l) ->
    (ttype (cur x) <> CONST -> exists tp, In tp (tops p) /\ top_written x tp) /\
    (ttype (cur x) = TEXT -> exists td, In td (texts p) /\ text_written x td).
Proof. apply every_written_statement_is_in_the_program, real_format_advs. Qed.

Theorem every_program_statement_is_written_real ts p l st' :
  parse_program av sw ee pf ts = Ok p -> stmts av sw ee pf (5 * List.length ts + 4) pstate0 ts l st' ->
  (forall tp, In tp (tops p) -> (exists x, In x (starts l) /\ top_written x tp) \/ hoisted_movement tp) /\
  (forall td, In td (texts p) -> (exists x, In x (starts l) /\ text_written x td) \/ hoisted_text td).
Proof. apply every_program_statement_is_written, real_format_advs. Qed.

Theorem accepted_is_tops_run_real f st ts st' : eof_only_last ts -> parse_tops av sw ee pf f st ts = Ok st' ->
  exists f1 st1 ts1, tops_run av sw ee pf f st ts f1 st1 ts1 /\ parse_tops av sw ee pf f1 st1 ts1 = Ok st' /\
    ptops st1 = ptops st' /\ ptexts st1 = ptexts st' /\ ph st1 = ph st' /\
    ((curis EOF ts1 = true /\ st1 = st') \/
     (ttype (cur ts1) = CONST /\ curis EOF ts1 = false /\ exists name v, pconsts st' = (name, v) :: pconsts st1 /\ const_written (pconsts st1) ts1 name)).
Proof. apply accepted_is_tops_run, real_format_advs. Qed.

Theorem tops_run_to_boundary_real f st ts l f' st' ts' x :
  eof_only_last ts -> stmts_to av sw ee pf f st ts l f' st' ts' -> boundary l ts' x ->
  exists f2 st2 l1 l2, l = l1 ++ l2 /\
    tops_run av sw ee pf f st ts f2 st2 x /\ stmts_to av sw ee pf f2 st2 x l2 f' st' ts' /\
    ptops st2 = ptops st ++ added_tops l1 /\ ptexts st2 = ptexts st ++ added_texts l1 /\
    pconsts st2 = last (map p_c' l1) (pconsts st) /\ ph st2 = last (map p_h' l1) (ph st).
Proof. apply tops_run_to_boundary, real_format_advs. Qed.
End REAL.

(* ====================================================================================================================== *)
(* PART G - the hypotheses are satisfiable (concrete programs, by computation)                                             *)
(* ====================================================================================================================== *)
Open Scope string_scope.

(* a decision procedure for eof_only_last *)
Lemma eof_only_last_check ts : forallb (fun tk => negb (tt_eqb (ttype tk) EOF)) (removelast ts) = true -> eof_only_last ts.
Proof.
  intros H u x v -> X. destruct v as [|y v]; [reflexivity|exfalso].
  rewrite removelast_app in H by discriminate. rewrite forallb_app in H. apply andb_prop in H. destruct H as [_ H].
  change (removelast (x :: y :: v)) with (x :: removelast (y :: v)) in H. cbn [forallb] in H. rewrite X in H. discriminate H.
Qed.

(* eight statements of the seven kinds, with the three ways of writing the scope, an inline text and an inline movement *)
Definition ex_prog : toks := Eval vm_compute in
  ex_lex "const F = FLAG_1 script A { msgbox(""hi"") applymovement(1, moves(walk_down)) } text T { ""hello"" } movement M { walk_up * 2 } mart(global) Ma { ITEM_A } mapscripts Ms { MAP_SCRIPT_ON_LOAD: A } raw `x` script(local) B { end }".
Definition ex_fuel : nat := Eval vm_compute in (5 * List.length ex_prog + 4)%nat.
Definition ex_final : pstate := Eval vm_compute in
  match parse_tops [] [] false ex_pf ex_fuel pstate0 ex_prog with Ok s => s | _ => pstate0 end.
Lemma ex_accepted : parse_tops [] [] false ex_pf ex_fuel pstate0 ex_prog = Ok ex_final.
Proof. vm_compute. reflexivity. Qed.

(* the hypotheses of stmts_to_state / stmts_to_pieces / stmts_to_written / stmts_to_written_kw / stmts_to_counts /
   stmts_to_keywords / stmts_to_positions / stmts_to_segments / run_to_statement / eof_only_last_ends / tops_run_to_boundary:
   a run over eight statements that adds seven top-level statements and one text *)
Example stmts_hyps :
  exists l f' ts', stmts_to [] [] false ex_pf ex_fuel pstate0 ex_prog l f' ex_final ts' /\ curis EOF ts' = true /\
    List.length l = 8%nat /\ List.length (added_tops l) = 7%nat /\ List.length (added_texts l) = 1%nat /\
    map (fun x => ttype (cur x)) (starts l) = [CONST; SCRIPT; TEXT; MOVEMENT; MART; MAPSCRIPTS; RAW; SCRIPT] /\
    eof_only_last ex_prog /\ format_advs ex_pf /\ boundary l ts' ts'.
Proof.
  destruct (proj1 (parse_tops_grammar _ _ _ _ _ _ _ _) ex_accepted) as (l & f' & ts' & R & E).
  exists l, (S f'), ts'. split; [exact R|]. split; [exact E|].
  assert (EL : eof_only_last ex_prog) by (apply eof_only_last_check; vm_compute; reflexivity).
  assert (FA : format_advs ex_pf) by apply real_format_advs.
  (* the run, replayed by computation *)
  assert (K : exists l0 f0 ts0, stmts_to [] [] false ex_pf ex_fuel pstate0 ex_prog l0 (S f0) ex_final ts0 /\ curis EOF ts0 = true /\
            List.length l0 = 8%nat /\ List.length (added_tops l0) = 7%nat /\ List.length (added_texts l0) = 1%nat /\
            map (fun x => ttype (cur x)) (starts l0) = [CONST; SCRIPT; TEXT; MOVEMENT; MART; MAPSCRIPTS; RAW; SCRIPT] /\
            Forall (fun q => curis EOF (p_end q) = false) l0).
  { eexists _, _, _. split.
    { unfold ex_fuel.
      do 8 (eapply stmts_cons; [vm_compute; reflexivity|vm_compute; reflexivity|]; cbn [adv st_add pconsts ph ptops ptexts pstate0 app]).
      apply stmts_nil. }
    split; [vm_compute; reflexivity|]. split; [reflexivity|]. split; [reflexivity|]. split; [reflexivity|]. split; [reflexivity|].
    repeat (constructor; [vm_compute; reflexivity|]). constructor. }
  destruct K as (l0 & f0 & ts0 & R0 & E0 & K1 & K2 & K3 & K4 & K5).
  assert (S0 : stmts [] [] false ex_pf ex_fuel pstate0 ex_prog l0 ex_final) by (eexists _, _; eauto).
  assert (S1 : stmts [] [] false ex_pf ex_fuel pstate0 ex_prog l ex_final) by (eexists _, _; eauto).
  destruct (stmts_fun _ _ _ _ _ _ _ _ _ _ _ S0 S1) as [<- _].
  split; [exact K1|]. split; [exact K2|]. split; [exact K3|]. split; [exact K4|]. split; [exact EL|]. split; [exact FA|].
  right. split; [reflexivity|exact K5].
Qed.

(* the hypotheses of program_grammar / program_counts / every_written_statement_is_in_the_program /
   every_program_statement_is_written: the program is accepted; it has the seven written statements and one hoisted
   movement, one hoisted text and one written text *)
Example program_hyps :
  exists p l st', parse_program [] [] false ex_pf ex_prog = Ok p /\
    stmts [] [] false ex_pf (5 * List.length ex_prog + 4) pstate0 ex_prog l st' /\
    map top_kind (tops p) = [SCRIPT; TEXT; MOVEMENT; MART; MAPSCRIPTS; RAW; SCRIPT; MOVEMENT] /\
    map xglob (texts p) = [false; true] /\
    map top_label (tops p) =
      [Some (t "A", true); None; Some (t "M", false); Some (t "Ma", true); Some (t "Ms", true); None; Some (t "B", false);
       Some (t "A_Movement_0", false)].
Proof.
  assert (P : exists p, parse_program [] [] false ex_pf ex_prog = Ok p /\
    map top_kind (tops p) = [SCRIPT; TEXT; MOVEMENT; MART; MAPSCRIPTS; RAW; SCRIPT; MOVEMENT] /\
    map xglob (texts p) = [false; true] /\
    map top_label (tops p) =
      [Some (t "A", true); None; Some (t "M", false); Some (t "Ma", true); Some (t "Ms", true); None; Some (t "B", false);
       Some (t "A_Movement_0", false)]) by (vm_compute; eexists; split; [reflexivity|]; split; [reflexivity|]; split; reflexivity).
  destruct P as (p & P & Q). destruct (program_grammar_real _ _ _ _ _ _ _ _ P) as (l & st' & R & _).
  exists p, l, st'. split; [exact P|]. split; [exact R|exact Q].
Qed.

(* the hypotheses of first_failing_statement_decides / parse_tops_error: the second statement fails, the third one (which
   would fail too) is not looked at *)
Definition ex_bad : toks := Eval vm_compute in ex_lex "raw `x` script { } movement { }".
Example failing_hyps :
  exists l f2 st1 ts1 e,
    stmts_to [] [] false ex_pf (5 * List.length ex_bad + 4) pstate0 ex_bad l (S f2) st1 ts1 /\ curis EOF ts1 = false /\
    top_step [] [] false ex_pf f2 (pconsts st1) (ph st1) ts1 = Err e /\ List.length l = 1%nat /\
    parse_program [] [] false ex_pf ex_bad = Err e /\ emsg e = t "missing name for script".
Proof.
  eexists _, _, _, _, _. split.
  { eapply stmts_cons; [vm_compute; reflexivity|vm_compute; reflexivity|]. cbn [adv st_add pconsts ph ptops ptexts pstate0 app]. apply stmts_nil. }
  split; [vm_compute; reflexivity|]. split; [vm_compute; reflexivity|]. split; [reflexivity|]. split; vm_compute; reflexivity.
Qed.

(* the hypothesis of accepted_is_tops_run, second case: a const statement at the end of the file runs to the EOF token *)
Definition ex_const_end : toks := Eval vm_compute in ex_lex "raw `x` const A = 1".
Example const_at_end_hyps :
  eof_only_last ex_const_end /\
  exists st', parse_tops [] [] false ex_pf (5 * List.length ex_const_end + 4) pstate0 ex_const_end = Ok st' /\
              pconsts st' = [(t "A", t "1 ")] /\ List.length (ptops st') = 1%nat.
Proof. split; [apply eof_only_last_check; vm_compute; reflexivity|]. vm_compute. eexists. split; [reflexivity|]. split; reflexivity. Qed.

(* ---------- an EOF token in the middle of a stream (the lexer produces one for a NUL character in the source) ---------- *)
(* Where it stands at a statement boundary the loop stops there and the rest of the file is silently dropped (ex. 2); but a
   const statement whose value runs into it ends ON it, the loop steps over it and goes on parsing (ex. 1): eof_only_last is
   a real hypothesis of accepted_is_tops_run and tops_run_to_boundary. *)
Definition nul_string : string := String (Ascii.ascii_of_nat 0) EmptyString.
Example nul_after_const_is_stepped_over :
  let ts := ex_lex ("const A = 1 " ++ nul_string ++ " script X { end }") in
  map ttype ts = [CONST; IDENT; ASSIGN; INT; EOF; SCRIPT; IDENT; LBRACE; IDENT; RBRACE; EOF] /\
  exists p, parse_program [] [] false ex_pf ts = Ok p /\ map top_kind (tops p) = [SCRIPT].
Proof. vm_compute. split; [reflexivity|]. eexists. split; reflexivity. Qed.
Example nul_after_raw_ends_the_program :
  let ts := ex_lex ("raw `x` " ++ nul_string ++ " script X { end }") in
  map ttype ts = [RAW; RAWSTRING; EOF; SCRIPT; IDENT; LBRACE; IDENT; RBRACE; EOF] /\
  exists p, parse_program [] [] false ex_pf ts = Ok p /\ map top_kind (tops p) = [RAW].
Proof. vm_compute. split; [reflexivity|]. eexists. split; reflexivity. Qed.

(* ====================================================================================================================== *)
(* PART H - lexer streams: a source without NUL characters gives a stream whose only EOF token is the last one             *)
Open Scope list_scope.
(* ====================================================================================================================== *)
Section LEXEOF.
Variable hl hd hs : N -> bool.

Definition no_nul (s : list N) : Prop := ~ In 0%N s.
Lemma no_nul_suf a b : LexLayout.suf a b -> no_nul b -> no_nul a.
Proof. intros [x ->] H I. apply H, in_or_app. now right. Qed.

Lemma string_token_type l : ttype (fst (read_string_token l)) = STRING.
Proof. unfold read_string_token. destruct (read_string' (fuel_of l) l [] (0%Z, 0%Z, 0%Z)) as [[lit [[el eb] eu]] l']. reflexivity. Qed.

(* the token reader: at the true end of input exactly one EOF token and the flag; elsewhere, without NUL characters, no EOF token *)
Lemma nt_core_eof l : no_nul (chs l) ->
  (snd (LexLayout.nt_core hl hd hs l) = true -> exists tk, fst (fst (LexLayout.nt_core hl hd hs l)) = [tk]) /\
  (snd (LexLayout.nt_core hl hd hs l) = false -> Forall (fun tk => ttype tk <> EOF) (fst (fst (LexLayout.nt_core hl hd hs l)))).
Proof.
  intros NN. unfold LexLayout.nt_core. cbv zeta. cbn [fst snd]. destruct (chs l) as [|c rest] eqn:E.
  - cbn [orb fst snd]. split; [intros _; eexists; reflexivity|discriminate].
  - split; [discriminate|intros _].
    assert (C : ch l = c) by (unfold ch; rewrite E; reflexivity). rewrite C.
    assert (C0 : (c =? 0)%N = false) by (apply N.eqb_neq; intros ->; apply NN; now left).
    rewrite C0. cbn [orb].
    repeat match goal with
    | |- Forall _ (fst (if ?b then _ else _)) => destruct b
    | |- Forall _ (fst (let '(_, _) := double ?ty ?l in _)) => unfold double; cbn [fst]
    | |- Forall _ (fst ([single _ _], _)) => cbn [fst]; constructor; [discriminate|constructor]
    | |- Forall _ [_] => constructor; [cbn [ttype]; try discriminate|constructor]
    end.
    all: try (cbn [fst]; constructor; [cbn [ttype]; discriminate|constructor]).
    + pose proof (string_token_type l) as ST. destruct (read_string_token l) as [tk l']. cbn [fst] in *.
      constructor; [rewrite ST; discriminate|constructor].
    + destruct (read_while _ _ (read_char l) []) as [body l3]. cbn [fst]. constructor; [discriminate|constructor].
    + destruct (read_while _ _ (read_char (read_char l)) []) as [h l3]. cbn [fst]. constructor; [discriminate|constructor].
    + destruct (read_while _ _ l []) as [d l3]. cbn [fst]. constructor; [discriminate|constructor].
    + destruct (read_ident hl hd l) as [id l3]. destruct ((ch l3 =? 34)%N && _).
      * pose proof (string_token_type l3) as ST. destruct (read_string_token l3) as [tk l']. cbn [fst] in *.
        constructor; [discriminate|]. constructor; [rewrite ST; discriminate|constructor].
      * cbn [fst]. constructor; [cbn [ttype]; apply LexPos.kw_plain|constructor].
    + destruct (read_while _ _ _ []) as [d l3]. cbn [fst]. constructor; [discriminate|constructor].
Qed.

Lemma next_token_eof l : no_nul (chs l) ->
  (snd (next_token_aux hl hd hs l) = true -> exists tk, fst (fst (next_token_aux hl hd hs l)) = [tk]) /\
  (snd (next_token_aux hl hd hs l) = false -> Forall (fun tk => ttype tk <> EOF) (fst (fst (next_token_aux hl hd hs l)))) /\
  no_nul (chs (snd (fst (next_token_aux hl hd hs l)))).
Proof.
  intros NN. rewrite LexLayout.next_token_aux_core.
  match goal with |- context[LexLayout.nt_core _ _ _ ?x] => set (l1 := x) end.
  assert (N1 : no_nul (chs l1)) by (eapply no_nul_suf; [apply LexLayout.suf_skipall|exact NN]).
  destruct (nt_core_eof _ N1) as [A B]. split; [exact A|]. split; [exact B|].
  eapply no_nul_suf; [apply LexLayout.suf_nt_core|exact N1].
Qed.

Lemma eof_only_last_app a b : Forall (fun tk => ttype tk <> EOF) a -> eof_only_last b -> eof_only_last (a ++ b).
Proof.
  intros FA EL. induction FA as [|y a Hy FA IH]; [exact EL|]. intros u x v E X. destruct u as [|u0 u].
  - cbn [app] in E. inversion E; subst. contradiction.
  - cbn [app] in E. inversion E; subst. eapply IH; eassumption.
Qed.

Lemma lex_all_eof_only_last : forall f l, no_nul (chs l) -> eof_only_last (lex_all hl hd hs f l).
Proof.
  induction f as [|f IH]; intros l NN; cbn [lex_all].
  - intros u x v E. destruct u; discriminate E.
  - destruct (next_token_eof l NN) as (A & B & C). destruct (next_token_aux hl hd hs l) as [[ts l'] e]. cbn [fst snd] in *.
    destruct e.
    + destruct (A eq_refl) as [tk ->]. intros u x v E _. destruct u as [|u0 u]; [inversion E; reflexivity|].
      inversion E as [[E1 E2]]. destruct u; discriminate E2.
    + apply eof_only_last_app; [apply B; reflexivity|apply IH, C].
Qed.

(* a source without NUL characters: the only EOF token of the stream is its last token *)
Theorem lex_eof_only_last src : ~ In 0%N src -> eof_only_last (lex hl hd hs src).
Proof. intros NN. unfold lex. apply lex_all_eof_only_last. exact NN. Qed.
End LEXEOF.

(* ... so for every such source the witness theorems apply to the stream of the compiler *)
Section SOURCE.
Variable hl hd hs : N -> bool.
Variable av : list (text * autovar).
Variable sw : list (text * text).
Variable ee : bool.
Variable fc : Format.fontcfg.
Variable cli_font : text.
Variable cli_maxlen : Z.
Local Notation pf := (Format.parse_format fc cli_font cli_maxlen ee).

Theorem source_accepted_is_tops_run src f st st' : ~ In 0%N src ->
  parse_tops av sw ee pf f st (lex hl hd hs src) = Ok st' ->
  exists f1 st1 ts1, tops_run av sw ee pf f st (lex hl hd hs src) f1 st1 ts1 /\ parse_tops av sw ee pf f1 st1 ts1 = Ok st' /\
    ptops st1 = ptops st' /\ ptexts st1 = ptexts st' /\ ph st1 = ph st' /\
    ((curis EOF ts1 = true /\ st1 = st') \/
     (ttype (cur ts1) = CONST /\ curis EOF ts1 = false /\ exists name v, pconsts st' = (name, v) :: pconsts st1 /\ const_written (pconsts st1) ts1 name)).
Proof. intros NN. apply accepted_is_tops_run_real, lex_eof_only_last, NN. Qed.

Theorem source_tops_run_to_boundary src f st l f' st' ts' x : ~ In 0%N src ->
  stmts_to av sw ee pf f st (lex hl hd hs src) l f' st' ts' -> boundary l ts' x ->
  exists f2 st2 l1 l2, l = l1 ++ l2 /\
    tops_run av sw ee pf f st (lex hl hd hs src) f2 st2 x /\ stmts_to av sw ee pf f2 st2 x l2 f' st' ts' /\
    ptops st2 = ptops st ++ added_tops l1 /\ ptexts st2 = ptexts st ++ added_texts l1 /\
    pconsts st2 = last (map p_c' l1) (pconsts st) /\ ph st2 = last (map p_h' l1) (ph st).
Proof. intros NN. apply tops_run_to_boundary_real, lex_eof_only_last, NN. Qed.

(* the compiler, end to end: a source that compiles is a sequence of top-level statements, and its program is what they add, in
   source order, plus the hoisted (local, invented) texts and movements *)
Theorem compile_program_grammar optimize mp src out :
  Compile.compile hl hd hs av sw ee fc cli_font cli_maxlen optimize mp src = Compile.OutText out ->
  let ts := lex hl hd hs src in
  exists p l st',
    parse_program av sw ee pf ts = Ok p /\
    stmts av sw ee pf (5 * List.length ts + 4) pstate0 ts l st' /\
    tops p = added_tops l ++ hmovs (ph st') /\ texts p = htexts (ph st') ++ added_texts l /\
    Forall2 top_written (top_starts l) (added_tops l) /\
    Forall2 text_written (kw_starts TEXT l) (added_texts l) /\
    Forall hoisted_movement (hmovs (ph st')) /\ Forall hoisted_text (htexts (ph st')) /\
    Forall (advs ts) (starts l).
Proof.
  intros H ts. destruct (Scopes.compile_label_scopes _ _ _ _ _ _ _ _ _ _ _ _ _ H) as (p & code & P & _).
  exists p. destruct (program_grammar_real _ _ _ _ _ _ _ _ P) as (l & st' & R). exists l, st'. split; [exact P|exact R].
Qed.
End SOURCE.

(* ====================================================================================================================== *)
(* PART I - Independence.v without a computed witness: the two-files theorem for accepted files                            *)
(* ====================================================================================================================== *)
Section UNIQUE.
Variable av : list (text * autovar).
Variable sw : list (text * text).
Variable ee : bool.
Variable pf : toks -> res (token * text * text * toks).
Notation stmts_to := (stmts_to av sw ee pf).
Hypothesis pf_advs : format_advs pf.

(* every statement consumes at least one token *)
Lemma stmts_to_len f st ts l f' st' ts' : stmts_to f st ts l f' st' ts' -> eof_ended ts ->
  eof_ended ts' /\ (List.length ts' + List.length l <= List.length ts)%nat.
Proof.
  induction 1 as [f st ts|f st ts c' h' tps txs y l f' st' ts' E T R IH]; intros EO; [split; [exact EO|cbn; lia]|].
  destruct (step_shorter av sw ee pf pf_advs _ _ _ _ _ _ _ _ _ T EO E) as [EO2 LT]. destruct (IH EO2) as [EO3 LE].
  split; [exact EO3|]. cbn [List.length]. lia.
Qed.

(* the state in which the loop arrives at a position is determined by the position *)
Theorem stmts_to_same_end f st ts la ga sa lb gb sb x : eof_ended ts ->
  stmts_to f st ts la ga sa x -> stmts_to f st ts lb gb sb x -> la = lb /\ ga = gb /\ sa = sb.
Proof.
  intros EO RA RB.
  assert (G : forall la ga sa lb gb sb, stmts_to f st ts la ga sa x -> stmts_to f st ts lb gb sb x ->
              (List.length la <= List.length lb)%nat -> la = lb /\ ga = gb /\ sa = sb).
  { clear la ga sa lb gb sb RA RB. intros la ga sa lb gb sb RA RB LE.
    rewrite <- (firstn_skipn (List.length la) lb) in RB.
    destruct (stmts_to_split _ _ _ _ _ _ _ _ _ _ _ _ RB) as (g & sg & xg & A & B).
    assert (LA : List.length la = List.length (firstn (List.length la) lb)) by (rewrite firstn_length; lia).
    destruct (stmts_to_fun _ _ _ _ _ _ _ _ _ _ _ RA _ _ _ _ A LA) as (E1 & <- & <- & <-).
    destruct (stmts_to_len _ _ _ _ _ _ _ RA EO) as [EOx _]. destruct (stmts_to_len _ _ _ _ _ _ _ B EOx) as [_ LEN].
    destruct (skipn (List.length la) lb) as [|q r] eqn:SK; [|cbn [List.length] in LEN; lia].
    inversion B; subst. rewrite <- (firstn_skipn (List.length la) lb), SK, app_nil_r. auto. }
  destruct (Nat.le_ge_cases (List.length la) (List.length lb)) as [L|L].
  - exact (G _ _ _ _ _ _ RA RB L).
  - destruct (G _ _ _ _ _ _ RB RA L) as (-> & -> & ->). auto.
Qed.
End UNIQUE.

Section TWOFILES.
Variable av : list (text * autovar).
Variable sw : list (text * text).
Variable ee : bool.
Variable fc : Format.fontcfg.
Variable cli_font : text.
Variable cli_maxlen : Z.
Local Notation pf := (Format.parse_format fc cli_font cli_maxlen ee).

(* File 1 = X ++ ra and file 2 = A ++ X ++ rb are streams whose only EOF token is the last one; the loop runs over whole
   statements of file 1 up to ra and of file 2 up to X ++ rb (both are statement boundaries of the runs l1, l2 - no tops_run
   has to be supplied), and it arrives at X ++ rb (after the statements la) without constants and without hoisted texts /
   movements.  Then the program of file 2 has the statements of A, then those of X exactly as file 1 has them (tags and command
   ids shifted), then the rest; and the texts of A, then those of X. *)
Theorem accepted_files_same_statements ra rb A X :
  eof_ended ra -> eof_ended rb -> class_ok ra rb -> eof_only_last (X ++ ra) -> eof_only_last (A ++ X ++ rb) ->
  forall l1 f1 s1 t1, stmts_to av sw ee pf (5 * List.length (X ++ ra) + 4) pstate0 (X ++ ra) l1 f1 s1 t1 -> boundary l1 t1 ra ->
  forall l2 f2 s2 t2, stmts_to av sw ee pf (5 * List.length (A ++ X ++ rb) + 4) pstate0 (A ++ X ++ rb) l2 f2 s2 t2 ->
                      boundary l2 t2 (X ++ rb) ->
  forall la g sA, stmts_to av sw ee pf (5 * List.length (A ++ X ++ rb) + 4) pstate0 (A ++ X ++ rb) la g sA (X ++ rb) ->
                  pconsts sA = [] -> ph sA = hst0 ->
  forall p, parse_program av sw ee pf (A ++ X ++ rb) = Ok p ->
  exists l1a l1b l2b d' rt ht rx,
    l1 = l1a ++ l1b /\ l2 = la ++ l2b /\ shifted ra rb (added_tops l1a) d' /\
    tops p = added_tops la ++ d' ++ rt /\ texts p = ht ++ added_texts la ++ added_texts l1a ++ rx.
Proof.
  intros EOa EOb SC EL1 EL2 l1 f1 s1 t1 R1 B1 l2 f2 s2 t2 R2 B2 la g sA RA Ec Eh p HP.
  destruct (tops_run_to_boundary_real _ _ _ _ _ _ _ _ _ _ _ _ _ _ EL1 R1 B1) as (g1 & stX & l1a & l1b & E1 & RUN1 & _ & P1 & Q1 & _).
  destruct (tops_run_to_boundary_real _ _ _ _ _ _ _ _ _ _ _ _ _ _ EL2 R2 B2) as (g2 & stA & l2a & l2b & E2 & RUN2 & REST2 & P2 & Q2 & _).
  destruct (tops_run_stmts_to _ _ _ _ _ _ _ _ _ _ RUN2) as (la' & RA' & _).
  assert (EO2 : eof_ended (A ++ X ++ rb)) by (apply ProgSrc.eof_ended_app, ProgSrc.eof_ended_app; exact EOb).
  destruct (stmts_to_same_end _ _ _ _ (real_format_advs _ _ _ _) _ _ _ _ _ _ _ _ _ _ EO2 RA RA') as (<- & <- & <-).
  destruct (stmts_to_split _ _ _ _ _ _ _ _ _ _ _ _ (eq_ind _ (fun l => stmts_to av sw ee pf _ _ _ l _ _ _) R2 _ E2)) as (g3 & s3 & x3 & A3 & _).
  destruct (parse_program_same_statements_real av sw ee fc cli_font cli_maxlen ra rb A X EOa EOb SC _ _ RUN1 _ _ RUN2 Ec Eh p HP)
    as (d' & rt & ht & rx & SH & TP & TX).
  destruct (stmts_to_state _ _ _ _ _ _ _ _ _ _ _ RA) as (P3 & Q3 & _).
  cbn [pstate0 ptops ptexts app] in P1, Q1, P3, Q3. rewrite P1 in SH. rewrite P3 in TP. rewrite Q1, Q3 in TX.
  assert (EL : la = l2a).
  { pose proof (stmts_to_fuel _ _ _ _ _ _ _ _ _ _ _ RA) as F1. pose proof (stmts_to_fuel _ _ _ _ _ _ _ _ _ _ _ A3) as F3.
    destruct (stmts_to_state _ _ _ _ _ _ _ _ _ _ _ A3) as (P4 & _). cbn [pstate0 ptops app] in P4, P2.
    (* both la and l2a are runs from the start; l2a reaches the tops_run's state *)
    destruct (tops_run_stmts_to _ _ _ _ _ _ _ _ _ _ RUN2) as (lq & RQ & _).
    destruct (stmts_to_same_end _ _ _ _ (real_format_advs _ _ _ _) _ _ _ _ _ _ _ _ _ _ EO2 RA RQ) as (-> & _).
    pose proof (stmts_to_fuel _ _ _ _ _ _ _ _ _ _ _ RQ) as F4.
    assert (LL : List.length lq = List.length l2a).
    { apply (f_equal (@List.length _)) in E2. rewrite app_length in E2. pose proof (stmts_to_fuel _ _ _ _ _ _ _ _ _ _ _ R2) as F2.
      pose proof (stmts_to_fuel _ _ _ _ _ _ _ _ _ _ _ REST2) as F5. lia. }
    destruct (stmts_to_fun _ _ _ _ _ _ _ _ _ _ _ RQ _ _ _ _ A3 LL) as (-> & _). reflexivity. }
  subst l2a. exists l1a, l1b, l2b, d', rt, ht, rx. auto.
Qed.
End TWOFILES.

(* the hypotheses of stmts_to_same_end / accepted_files_same_statements: file 1 = ex_X alone, file 2 = a text and a movement
   statement, then ex_X, then ex_rb (the example files of Independence.v) *)
Example two_accepted_files_hyps :
  exists l1 f1 s1 t1 l2 f2 s2 t2 la g sA p,
    eof_ended ex_eof /\ eof_ended ex_rb /\ class_ok ex_eof ex_rb /\ eof_only_last (ex_X ++ ex_eof) /\ eof_only_last (ex_A ++ ex_X ++ ex_rb) /\
    stmts_to [] [] false ex_pf (5 * List.length (ex_X ++ ex_eof) + 4) pstate0 (ex_X ++ ex_eof) l1 f1 s1 t1 /\ boundary l1 t1 ex_eof /\
    stmts_to [] [] false ex_pf (5 * List.length (ex_A ++ ex_X ++ ex_rb) + 4) pstate0 (ex_A ++ ex_X ++ ex_rb) l2 f2 s2 t2 /\
    boundary l2 t2 (ex_X ++ ex_rb) /\
    stmts_to [] [] false ex_pf (5 * List.length (ex_A ++ ex_X ++ ex_rb) + 4) pstate0 (ex_A ++ ex_X ++ ex_rb) la g sA (ex_X ++ ex_rb) /\
    pconsts sA = [] /\ ph sA = hst0 /\ List.length la = 2%nat /\ List.length l1 = 2%nat /\ List.length l2 = 6%nat /\
    parse_program [] [] false ex_pf (ex_A ++ ex_X ++ ex_rb) = Ok p.
Proof.
  eexists _, _, _, _, _, _, _, _, _, _, _, _.
  split; [split; [discriminate|vm_compute; reflexivity]|]. split; [split; [discriminate|vm_compute; reflexivity]|].
  split; [apply class_ok_eof; vm_compute; reflexivity|].
  split; [apply eof_only_last_check; vm_compute; reflexivity|]. split; [apply eof_only_last_check; vm_compute; reflexivity|].
  split.
  { do 2 (eapply stmts_cons; [vm_compute; reflexivity|vm_compute; reflexivity|]; cbn [adv st_add pconsts ph ptops ptexts pstate0 app]).
    apply stmts_nil. }
  split; [right; split; [reflexivity|repeat (constructor; [vm_compute; reflexivity|]); constructor]|].
  split.
  { do 6 (eapply stmts_cons; [vm_compute; reflexivity|vm_compute; reflexivity|]; cbn [adv st_add pconsts ph ptops ptexts pstate0 app]).
    apply stmts_nil. }
  split; [left; cbn [starts map p_start]; right; right; left; reflexivity|].
  split.
  { do 2 (eapply stmts_cons; [vm_compute; reflexivity|vm_compute; reflexivity|]; cbn [adv st_add pconsts ph ptops ptexts pstate0 app]).
    apply stmts_nil. }
  split; [reflexivity|]. split; [reflexivity|]. split; [reflexivity|]. split; [reflexivity|]. split; [reflexivity|].
  vm_compute. reflexivity.
Qed.
