(* C04 - Emitted assembly is closed: labels unique, references resolved, no run-off. *)
From Coq Require Import List ZArith Bool.
From Pory Require Import Lexer Ast Emitter EmitProps LabelSim Worklist WorkRefs WorkLabels.
Import ListNotations.

(* PARTIAL: every target of a generated jump / case of a script is a registered chunk label: the renderer emits the
   label of exactly the registered chunks it renders. Missing for the full statement: that every registered id is a
   chunk of the order (worklist invariant), uniqueness across scripts, and no run-off (lemma 3 of C01). *)
Theorem generated_targets_are_registered_partial :
  forall mp tl name glob fs order is, render_chunks mp tl name glob fs order = Ok is ->
    exists bodies regs, render_bodies mp tl name fs (map (chunk_label name) fs) order = Ok (bodies, regs) /\
      targets_of is = map (lbl name) regs.
Proof. exact render_chunks_targets. Qed.
Print Assumptions generated_targets_are_registered_partial.

(* every statement of a chunk is printed, in order, exactly once (markers aside): nothing is dropped or duplicated *)
Theorem chunk_statements_printed_once :
  forall mp ss, filter is_cmd_or_label (flat_map (render_stmt mp) ss) = flat_map stmt_instr ss.
Proof. exact render_stmts_filter. Qed.
Print Assumptions chunk_statements_printed_once.


(* ---------- generated references resolve (worklist invariant, no validator) ---------- *)
(* In the chunk graph the emitter builds for a script body that passes the source check (a theorem for every accepted
   program: Properties_C01.accepted_bodies_are_src_ok), every chunk id a branch refers to - the target of a generated goto,
   the success / failure edge of a condition, a switch case or default entry, a break / continue destination, the chunk a
   block returns to - is -1 (rendered as 'return', never as a label) or the id of a chunk of that graph; ids are distinct
   (Properties_C01.worklist_establishes_tr_block).  So every generated label that is referenced is defined once. *)
Theorem generated_targets_resolve :
  forall body w, emit_graph body = Ok w -> src_ok body ->
  forall c, In c (finals w) -> forall d, In d (targets c) -> d = (-1)%Z \/ exists c', In c' (finals w) /\ cid c' = d.
Proof. exact WorkRefs.generated_targets_resolve. Qed.
Print Assumptions generated_targets_resolve.


(* ---------- the author's labels are still there, exactly once ---------- *)
(* The labels carried by the chunks of the final graph (each chunk of the graph is rendered by render_chunks, whose statement
   printer prints every statement exactly once: chunk_statements_printed_once) are, as a multiset, exactly the labels the
   author wrote anywhere in the body - inside loops, switch cases, after a break, in unreachable code. *)
Theorem author_labels_conserved :
  forall body w, emit_graph body = Ok w -> src_ok body ->
  Permutation.Permutation (chunk_labels (finals w)) (dlabs body).
Proof. exact WorkLabels.chunk_labels_are_source_labels. Qed.
Print Assumptions author_labels_conserved.
