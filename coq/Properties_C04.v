(* C04 - Emitted assembly is closed: labels unique, references resolved, no run-off. *)
From Coq Require Import List ZArith Bool.
From Pory Require Import Lexer Ast Emitter EmitProps LabelSim Worklist WorkRefs WorkLabels.
Import ListNotations.

(* PARTIAL: every target of a generated jump / case of a script is a registered chunk label: the renderer emits the
   label of exactly the registered chunks it renders. Missing for the full statement: that every registered id is a
   chunk of the order (worklist invariant), uniqueness across scripts, and no run-off (lemma 3 of C01). *)
Theorem generated_targets_are_registered_partial :
  forall mp tl name glob fs order is, render_chunks mp tl name glob fs order = Ok is ->
    exists bodies regs, render_bodies mp tl name fs (map (chunk_label name) fs) order = Ok (bodies, regs) /\
      targets_of is = map (lbl name) regs.
Proof. exact render_chunks_targets. Qed.
Print Assumptions generated_targets_are_registered_partial.

(* every statement of a chunk is printed, in order, exactly once (markers aside): nothing is dropped or duplicated *)
Theorem chunk_statements_printed_once :
  forall mp ss, filter is_cmd_or_label (flat_map (render_stmt mp) ss) = flat_map stmt_instr ss.
Proof. exact render_stmts_filter. Qed.
Print Assumptions chunk_statements_printed_once.


(* ---------- generated references resolve (worklist invariant, no validator) ---------- *)
(* In the chunk graph the emitter builds for a script body that passes the source check (a theorem for every accepted
   program: Properties_C01.accepted_bodies_are_src_ok), every chunk id a branch refers to - the target of a generated goto,
   the success / failure edge of a condition, a switch case or default entry, a break / continue destination, the chunk a
   block returns to - is -1 (rendered as 'return', never as a label) or the id of a chunk of that graph; ids are distinct
   (Properties_C01.worklist_establishes_tr_block).  So every generated label that is referenced is defined once. *)
Theorem generated_targets_resolve :
  forall body w, emit_graph body = Ok w -> src_ok body ->
  forall c, In c (finals w) -> forall d, In d (targets c) -> d = (-1)%Z \/ exists c', In c' (finals w) /\ cid c' = d.
Proof. exact WorkRefs.generated_targets_resolve. Qed.
Print Assumptions generated_targets_resolve.


(* ---------- the author's labels are still there, exactly once ---------- *)
(* The labels carried by the chunks of the final graph (each chunk of the graph is rendered by render_chunks, whose statement
   printer prints every statement exactly once: chunk_statements_printed_once) are, as a multiset, exactly the labels the
   author wrote anywhere in the body - inside loops, switch cases, after a break, in unreachable code. *)
Theorem author_labels_conserved :
  forall body w, emit_graph body = Ok w -> src_ok body ->
  Permutation.Permutation (chunk_labels (finals w)) (dlabs body).
Proof. exact WorkLabels.chunk_labels_are_source_labels. Qed.
Print Assumptions author_labels_conserved.

(* ---------- the shape of the final chunk graph (WorkShape.v, worklist invariants, no validator) ---------- *)
From Pory Require Import Sem2 SemTgt RenderSim RenderCheck WorkShape OrderPerm RenderFromSource LabelsUnique.
(* For every script body that passes the source check: chunk ids are exactly 0 .. n-1; the strict targets - generated gotos,
   success edges of conditions, case and default entries - are chunks of the graph and never chunk 0; every other target
   (failure edges, break / continue destinations, return chunks) is -1 or such a chunk; the chunk right after a switch chunk
   with a case table is its first body chunk and no chunk falls through to it; no switch chunk has an empty table and no
   default (the parser rejects a switch without cases: part of the source check). *)
Theorem final_graph_shape :
  forall body w, emit_graph body = Ok w -> src_ok body ->
  let G := finals w in
  WorkShape.dense G /\ G <> [] /\
  (forall c, In c G -> forall d, In d (stargets c) -> (0 < d)%Z /\ In d (ids G)) /\
  (forall c, In c G -> forall d, In d (targets c) -> d = (-1)%Z \/ ((0 < d)%Z /\ In d (ids G))) /\
  (forall S, In S G -> is_table S -> (0 < cid S)%Z /\ In (cid S + 1)%Z (ids G) /\ forall c, In c G -> tail_of c <> (cid S + 1)%Z) /\
  Forall nonempty_switch G.
Proof. exact WorkShape.final_graph_shape. Qed.
Print Assumptions final_graph_shape.

(* both chunk orders enumerate every chunk of a dense graph exactly once *)
Theorem order_is_a_permutation_of_the_chunks :
  forall b G, OrderPerm.dense G -> G <> [] -> Permutation.Permutation (order_of b G) (map cid G).
Proof. exact OrderPerm.order_of_perm. Qed.
Print Assumptions order_is_a_permutation_of_the_chunks.

(* how each element of the optimized order got there *)
Theorem optimized_order_step :
  forall G, OrderPerm.dense G -> G <> [] ->
  forall pre d post, order_of true G = pre ++ d :: post ->
    (pre = [] /\ d = 0%Z) \/
    (exists pre' p c, pre = pre' ++ [p] /\ get_chunk G p = Some c /\ tail_of c = d) \/
    (forall i, (1 <= i < d)%Z -> In i pre).
Proof. exact OrderPerm.opt_order_step. Qed.
Print Assumptions optimized_order_step.

(* THE RENDER CHECK IS A THEOREM: for every body that passes the source check and both orders, the executable check wf_render
   (order duplicate-free and complete, ids distinct, every referenced chunk rendered, chunk statements simple, chunk 0 never a
   jump target, the last chunk of the order does not run off the end) holds whenever the label names of the emitted script are
   pairwise distinct and the three conditions on names chosen by the author hold (names_okb: an AutoVar command is not called
   end / return / goto; a goto names a label of the script or no label of the emitted script). *)
Theorem wf_render_from_source :
  forall mp name optimize body w code,
  emit_graph body = Ok w -> src_ok body ->
  NoDup (lnames code) ->
  names_okb (finals w) code = true ->
  wf_render mp name (finals w) (order_of optimize (finals w)) code = true.
Proof. exact RenderFromSource.wf_render_from_source. Qed.
Print Assumptions wf_render_from_source.

(* the whole render check and the label check from the source: only the author's names and a size bound remain *)
Theorem render_check_from_source :
  forall mp tl name glob optimize body w code,
  emit_graph body = Ok w -> src_ok body ->
  emit_script mp tl name glob optimize body = Ok code ->
  NoDup (dlabs body) ->
  (Z.of_nat (List.length (finals w)) <= 10 ^ 40)%Z ->
  names_okb (finals w) code = true ->
  wf_render mp name (finals w) (order_of optimize (finals w)) code = true /\ C01Final.labels_okb body (finals w) = true.
Proof. exact RenderFromSource.render_check_from_source. Qed.
Print Assumptions render_check_from_source.

(* the labels of a rendered script are pairwise distinct (generated names are injective in the chunk id, never equal to the
   script name, never equal to a label of the author: the clash check) *)
Theorem rendered_labels_distinct :
  forall mp tl name glob G order code,
    render_chunks mp tl name glob G order = Ok code ->
    NoDup order -> NoDup (map cid G) ->
    (forall d, In d order -> (0 <= d < 10 ^ 40)%Z) ->
    NoDup (chunk_labels G) ->
    NoDup (lnames code).
Proof. exact LabelsUnique.rendered_labels_distinct. Qed.
Print Assumptions rendered_labels_distinct.
