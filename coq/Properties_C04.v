(* C04 - Emitted assembly is closed: labels unique, references resolved, no run-off. *)
From Coq Require Import List ZArith Bool.
From Pory Require Import Lexer Ast Emitter EmitProps LabelSim Worklist WorkRefs WorkLabels.
Import ListNotations.

(* PARTIAL: every target of a generated jump / case of a script is a registered chunk label: the renderer emits the
   label of exactly the registered chunks it renders. Missing for the full statement: that every registered id is a
   chunk of the order (worklist invariant), uniqueness across scripts, and no run-off (lemma 3 of C01). *)
Theorem generated_targets_are_registered_partial :
  forall mp tl name glob fs order is, render_chunks mp tl name glob fs order = Ok is ->
    exists bodies regs, render_bodies mp tl name fs (map (chunk_label name) fs) order = Ok (bodies, regs) /\
      targets_of is = map (lbl name) regs.
Proof. exact render_chunks_targets. Qed.
Print Assumptions generated_targets_are_registered_partial.

(* every statement of a chunk is printed, in order, exactly once (markers aside): nothing is dropped or duplicated *)
Theorem chunk_statements_printed_once :
  forall mp ss, filter is_cmd_or_label (flat_map (render_stmt mp) ss) = flat_map stmt_instr ss.
Proof. exact render_stmts_filter. Qed.
Print Assumptions chunk_statements_printed_once.


(* ---------- generated references resolve (worklist invariant, no validator) ---------- *)
(* In the chunk graph the emitter builds for a script body that passes the source check (a theorem for every accepted
   program: Properties_C01.accepted_bodies_are_src_ok), every chunk id a branch refers to - the target of a generated goto,
   the success / failure edge of a condition, a switch case or default entry, a break / continue destination, the chunk a
   block returns to - is -1 (rendered as 'return', never as a label) or the id of a chunk of that graph; ids are distinct
   (Properties_C01.worklist_establishes_tr_block).  So every generated label that is referenced is defined once. *)
Theorem generated_targets_resolve :
  forall body w, emit_graph body = Ok w -> src_ok body ->
  forall c, In c (finals w) -> forall d, In d (targets c) -> d = (-1)%Z \/ exists c', In c' (finals w) /\ cid c' = d.
Proof. exact WorkRefs.generated_targets_resolve. Qed.
Print Assumptions generated_targets_resolve.


(* ---------- the author's labels are still there, exactly once ---------- *)
(* The labels carried by the chunks of the final graph (each chunk of the graph is rendered by render_chunks, whose statement
   printer prints every statement exactly once: chunk_statements_printed_once) are, as a multiset, exactly the labels the
   author wrote anywhere in the body - inside loops, switch cases, after a break, in unreachable code. *)
Theorem author_labels_conserved :
  forall body w, emit_graph body = Ok w -> src_ok body ->
  Permutation.Permutation (chunk_labels (finals w)) (dlabs body).
Proof. exact WorkLabels.chunk_labels_are_source_labels. Qed.
Print Assumptions author_labels_conserved.

(* ---------- the shape of the final chunk graph (WorkShape.v, worklist invariants, no validator) ---------- *)
From Pory Require Import Sem2 SemTgt RenderSim RenderCheck WorkShape OrderPerm RenderFromSource LabelsUnique.
(* For every script body that passes the source check: chunk ids are exactly 0 .. n-1; the strict targets - generated gotos,
   success edges of conditions, case and default entries - are chunks of the graph and never chunk 0; every other target
   (failure edges, break / continue destinations, return chunks) is -1 or such a chunk; the chunk right after a switch chunk
   with a case table is its first body chunk and no chunk falls through to it; no switch chunk has an empty table and no
   default (the parser rejects a switch without cases: part of the source check). *)
Theorem final_graph_shape :
  forall body w, emit_graph body = Ok w -> src_ok body ->
  let G := finals w in
  WorkShape.dense G /\ G <> [] /\
  (forall c, In c G -> forall d, In d (stargets c) -> (0 < d)%Z /\ In d (ids G)) /\
  (forall c, In c G -> forall d, In d (targets c) -> d = (-1)%Z \/ ((0 < d)%Z /\ In d (ids G))) /\
  (forall S, In S G -> is_table S -> (0 < cid S)%Z /\ In (cid S + 1)%Z (ids G) /\ forall c, In c G -> tail_of c <> (cid S + 1)%Z) /\
  Forall nonempty_switch G.
Proof. exact WorkShape.final_graph_shape. Qed.
Print Assumptions final_graph_shape.

(* both chunk orders enumerate every chunk of a dense graph exactly once *)
Theorem order_is_a_permutation_of_the_chunks :
  forall b G, OrderPerm.dense G -> G <> [] -> Permutation.Permutation (order_of b G) (map cid G).
Proof. exact OrderPerm.order_of_perm. Qed.
Print Assumptions order_is_a_permutation_of_the_chunks.

(* how each element of the optimized order got there *)
Theorem optimized_order_step :
  forall G, OrderPerm.dense G -> G <> [] ->
  forall pre d post, order_of true G = pre ++ d :: post ->
    (pre = [] /\ d = 0%Z) \/
    (exists pre' p c, pre = pre' ++ [p] /\ get_chunk G p = Some c /\ tail_of c = d) \/
    (forall i, (1 <= i < d)%Z -> In i pre).
Proof. exact OrderPerm.opt_order_step. Qed.
Print Assumptions optimized_order_step.

(* THE RENDER CHECK IS A THEOREM: for every body that passes the source check and both orders, the executable check wf_render
   (order duplicate-free and complete, ids distinct, every referenced chunk rendered, chunk statements simple, chunk 0 never a
   jump target, the last chunk of the order does not run off the end) holds whenever the label names of the emitted script are
   pairwise distinct and the three conditions on names chosen by the author hold (names_okb: an AutoVar command is not called
   end / return / goto; a goto names a label of the script or no label of the emitted script). *)
Theorem wf_render_from_source :
  forall mp name optimize body w code,
  emit_graph body = Ok w -> src_ok body ->
  NoDup (lnames code) ->
  names_okb (finals w) code = true ->
  wf_render mp name (finals w) (order_of optimize (finals w)) code = true.
Proof. exact RenderFromSource.wf_render_from_source. Qed.
Print Assumptions wf_render_from_source.

(* the whole render check and the label check from the source: only the author's names and a size bound remain *)
Theorem render_check_from_source :
  forall mp tl name glob optimize body w code,
  emit_graph body = Ok w -> src_ok body ->
  emit_script mp tl name glob optimize body = Ok code ->
  NoDup (dlabs body) ->
  (Z.of_nat (List.length (finals w)) <= 10 ^ 40)%Z ->
  names_okb (finals w) code = true ->
  wf_render mp name (finals w) (order_of optimize (finals w)) code = true /\ C01Final.labels_okb body (finals w) = true.
Proof. exact RenderFromSource.render_check_from_source. Qed.
Print Assumptions render_check_from_source.

(* the labels of a rendered script are pairwise distinct (generated names are injective in the chunk id, never equal to the
   script name, never equal to a label of the author: the clash check) *)
Theorem rendered_labels_distinct :
  forall mp tl name glob G order code,
    render_chunks mp tl name glob G order = Ok code ->
    NoDup order -> NoDup (map cid G) ->
    (forall d, In d order -> (0 <= d < 10 ^ 40)%Z) ->
    NoDup (chunk_labels G) ->
    NoDup (lnames code).
Proof. exact LabelsUnique.rendered_labels_distinct. Qed.
Print Assumptions rendered_labels_distinct.

(* ---- the WHOLE program (ProgramClosed.v). graph_size: a chunk graph never has more than work_fuel chunks, so the 10^40 premise of
   the decimal printer is gone. script_targets_defined, script_ends_in_terminator, script_label_names: per script, without the
   names_okb / NoDup premises. program_parts / program_labels: the labels of the program's code are a permutation of the data
   names (movements, marts, mapscripts headers and tables, texts) and the own labels of every script; the jump targets are
   those of the scripts. names_ok p (executable; on the parsed program: all names - top-level statements, inline map scripts,
   tables, hoisted texts / movements, the author's labels - pairwise distinct and none of the form <script>_<digits> for a
   script of the program): names_ok_all_distinct / program_labels_distinct: then every label of the output is defined exactly
   once; distinct_labels_need_distinct_names: the first half is necessary. program_generated_references_defined (no condition
   on names), mapscripts_references_defined, patch_labels_are_program_names / patched_arguments_defined (every label patched into
   a command argument is a text / movement of the program), program_author_labels_present / _once, program_scripts_closed
   (every script's code is a closed segment ending in a terminator). program_closed: all of it under names_ok.
   EXAMPLES.generated_text_name_vs_chunk_label (ProgramClosed.v): script A with two inline texts and a script named A_Text with
   an `if` define A_Text_1 twice although no name the author wrote imitates a generated name - known finding D21. ---- *)
From Coq Require Import Permutation. From Pory Require Import Parser Format ProgramClosed. Open Scope list_scope.
Theorem graph_size :
  forall (body : list stmt) (w : wst), emit_graph body = Emitter.Ok w -> (Z.of_nat (length (finals w)) <= 10 ^ 40)%Z.
Proof. exact ProgramClosed.graph_size. Qed.
Print Assumptions graph_size.

Theorem script_targets_defined :
  forall (mp : option text) (tl : list text) (name : text) (glob : bool) (body : list stmt) (w : wst),
  emit_graph body = Emitter.Ok w ->
  src_ok body ->
  forall (opt : bool) (code : list instr),
  emit_script mp tl name glob opt body = Emitter.Ok code -> forall l : text, In l (targets_of code) -> In l (lnames code).
Proof. exact ProgramClosed.script_targets_defined. Qed.
Print Assumptions script_targets_defined.

Theorem script_ends_in_terminator :
  forall (mp : option text) (tl : list text) (name : text) (glob : bool) (body : list stmt) (w : wst),
  emit_graph body = Emitter.Ok w ->
  src_ok body -> forall (opt : bool) (code : list instr), emit_script mp tl name glob opt body = Emitter.Ok code -> ends_in_terminator code.
Proof. exact ProgramClosed.script_ends_in_terminator. Qed.
Print Assumptions script_ends_in_terminator.

Theorem script_label_names :
  forall (mp : option text) (tl : list text) (name : text) (glob : bool) (body : list stmt) (w : wst),
  emit_graph body = Emitter.Ok w ->
  src_ok body ->
  forall (opt : bool) (code : list instr),
  emit_script mp tl name glob opt body = Emitter.Ok code ->
  exists gen : list Z,
    Permutation (lnames code) (name :: dlabs body ++ map (lbl name) gen) /\
    NoDup gen /\ (forall i : Z, In i gen -> (0 < i < 10 ^ 40)%Z /\ In (lbl name i) (targets_of code)).
Proof. exact ProgramClosed.script_label_names. Qed.
Print Assumptions script_label_names.

Theorem program_parts :
  forall (opt : bool) (mp : option text) (p : program) (prog : list instr),
  Forall src_ok (ProgWf.bodies_of (tops p)) ->
  emit_program_instrs opt mp p = Emitter.Ok prog ->
  exists parts : list part,
    map p_script parts = NameClash.scripts_of (tops p) /\
    Forall (part_ok mp (map xname (texts p)) opt) parts /\
    Permutation (lnames prog) (data_names p ++ flat_map own_names parts) /\
    Permutation (targets_of prog) (flat_map (fun x : part => targets_of (p_code x)) parts).
Proof. exact ProgramClosed.program_parts. Qed.
Print Assumptions program_parts.

Theorem program_labels :
  forall (hl hd hs : N -> bool) (autovars : list (text * autovar)) (switches : list (text * text)) (fc : fontcfg) (cli_font : text)
    (cli_maxlen : Z) (src : text) (p : program),
  parse_program autovars switches true (parse_format fc cli_font cli_maxlen true) (lex hl hd hs src) = Ok p ->
  forall (optimize : bool) (mp : option text) (prog : list instr),
  emit_program_instrs optimize mp p = Emitter.Ok prog ->
  exists parts : list part,
    map p_script parts = NameClash.scripts_of (tops p) /\
    Forall (part_ok mp (map xname (texts p)) optimize) parts /\
    Permutation (lnames prog) (data_names p ++ flat_map own_names parts) /\
    Permutation (targets_of prog) (flat_map (fun x : part => targets_of (p_code x)) parts).
Proof. exact ProgramClosed.program_labels. Qed.
Print Assumptions program_labels.

Theorem names_ok_all_distinct :
  forall (p : program) (parts : list part),
  names_ok p = true ->
  map p_script parts = NameClash.scripts_of (tops p) -> Forall gen_ok parts -> NoDup (data_names p ++ flat_map own_names parts).
Proof. exact ProgramClosed.names_ok_all_distinct. Qed.
Print Assumptions names_ok_all_distinct.

Theorem program_labels_distinct :
  forall (opt : bool) (mp : option text) (p : program) (prog : list instr),
  Forall src_ok (ProgWf.bodies_of (tops p)) -> emit_program_instrs opt mp p = Emitter.Ok prog -> names_ok p = true -> NoDup (lnames prog).
Proof. exact ProgramClosed.program_labels_distinct. Qed.
Print Assumptions program_labels_distinct.

Theorem distinct_labels_need_distinct_names :
  forall (opt : bool) (mp : option text) (p : program) (prog : list instr),
  Forall src_ok (ProgWf.bodies_of (tops p)) -> emit_program_instrs opt mp p = Emitter.Ok prog -> NoDup (lnames prog) -> NoDup (all_names p).
Proof. exact ProgramClosed.distinct_labels_need_distinct_names. Qed.
Print Assumptions distinct_labels_need_distinct_names.

Theorem program_generated_references_defined :
  forall (opt : bool) (mp : option text) (p : program) (prog : list instr),
  Forall src_ok (ProgWf.bodies_of (tops p)) ->
  emit_program_instrs opt mp p = Emitter.Ok prog -> forall l : text, In l (targets_of prog) -> In l (lnames prog).
Proof. exact ProgramClosed.program_generated_references_defined. Qed.
Print Assumptions program_generated_references_defined.

Theorem mapscripts_references_defined :
  forall (opt : bool) (mp : option text) (p : program) (prog : list instr),
  Forall src_ok (ProgWf.bodies_of (tops p)) ->
  emit_program_instrs opt mp p = Emitter.Ok prog ->
  forall (n : text) (g : bool) (plain : list mapscript) (tables : list tablems),
  In (TMapScripts n g plain tables) (tops p) ->
  In n (lnames prog) /\
  (forall m : mapscript, In m plain -> In (ms_ref_line (msType m) (msName m)) prog /\ (msScript m <> None -> In (msName m) (lnames prog))) /\
  (forall tb : tablems,
   In tb tables ->
   In (ms_ref_line (tmType tb) (tmName tb)) prog /\
   In (tmName tb) (lnames prog) /\
   (forall e : tableentry, In e (tmEntries tb) -> In (ms2_ref_line e) prog /\ (teScript e <> None -> In (teName e) (lnames prog)))).
Proof. exact ProgramClosed.mapscripts_references_defined. Qed.
Print Assumptions mapscripts_references_defined.

Theorem patch_labels_are_program_names :
  forall (autovars : list (text * autovar)) (switches : list (text * text)) (pf : toks -> res (token * text * text * toks)) 
    (ts : toks) (p : program),
  parse_program autovars switches true pf ts = Ok p ->
  exists (imps : list impdata) (pss : list (list patch)) (news : list top),
    tops p = news ++ Hoisting.mov_defs [] (Hoisting.new_movs [] (flat_map idM imps)) /\
    hoisted_tops autovars switches pf news imps pss /\
    (forall ps : list patch,
     In ps pss ->
     forall (c a : nat) (l : text),
     In (c, a, l) ps ->
     (exists x : textdef, In x (texts p) /\ xname x = l) \/ (exists (tk : token) (steps : list token), In (TMovement l false tk steps) (tops p))).
Proof. exact ProgramClosed.patch_labels_are_program_names. Qed.
Print Assumptions patch_labels_are_program_names.

Theorem patched_arguments_defined :
  forall (hl hd hs : N -> bool) (autovars : list (text * autovar)) (switches : list (text * text)) (fc : fontcfg) (cli_font : text)
    (cli_maxlen : Z) (src : text) (p : program),
  parse_program autovars switches true (parse_format fc cli_font cli_maxlen true) (lex hl hd hs src) = Ok p ->
  forall (optimize : bool) (mp : option text) (prog : list instr),
  emit_program_instrs optimize mp p = Emitter.Ok prog ->
  exists (imps : list impdata) (pss : list (list patch)) (news : list top),
    tops p = news ++ Hoisting.mov_defs [] (Hoisting.new_movs [] (flat_map idM imps)) /\
    hoisted_tops autovars switches (parse_format fc cli_font cli_maxlen true) news imps pss /\
    (forall ps : list patch,
     In ps pss ->
     forall (c : cmd) (k : nat) (x : text), nth_error (cargs (pcmd ps c)) k = Some x -> nth_error (cargs c) k = Some x \/ In x (lnames prog)).
Proof. exact ProgramClosed.patched_arguments_defined. Qed.
Print Assumptions patched_arguments_defined.

Theorem program_author_labels_present :
  forall (opt : bool) (mp : option text) (p : program) (prog : list instr),
  Forall src_ok (ProgWf.bodies_of (tops p)) ->
  emit_program_instrs opt mp p = Emitter.Ok prog ->
  forall (name : text) (glob : bool) (body : list stmt),
  In (name, glob, body) (NameClash.scripts_of (tops p)) -> In name (lnames prog) /\ (forall l : text, In l (dlabs body) -> In l (lnames prog)).
Proof. exact ProgramClosed.program_author_labels_present. Qed.
Print Assumptions program_author_labels_present.

Theorem program_author_labels_once :
  forall (opt : bool) (mp : option text) (p : program) (prog : list instr),
  Forall src_ok (ProgWf.bodies_of (tops p)) ->
  emit_program_instrs opt mp p = Emitter.Ok prog ->
  names_ok p = true ->
  forall (name : text) (glob : bool) (body : list stmt),
  In (name, glob, body) (NameClash.scripts_of (tops p)) ->
  count_occ text_dec (lnames prog) name = 1 /\ (forall l : text, In l (dlabs body) -> count_occ text_dec (lnames prog) l = 1).
Proof. exact ProgramClosed.program_author_labels_once. Qed.
Print Assumptions program_author_labels_once.

Theorem program_scripts_closed :
  forall (opt : bool) (mp : option text) (p : program) (prog : list instr),
  Forall src_ok (ProgWf.bodies_of (tops p)) ->
  emit_program_instrs opt mp p = Emitter.Ok prog ->
  forall (name : text) (glob : bool) (body : list stmt),
  In (name, glob, body) (NameClash.scripts_of (tops p)) ->
  exists code pre post : list instr,
    emit_script mp (map xname (texts p)) name glob opt body = Emitter.Ok code /\
    prog = pre ++ code ++ post /\
    ends_in_terminator code /\
    ProgramRun.closed code /\ In name (lnames code) /\ (forall l : text, In l (targets_of code) -> In l (lnames code)).
Proof. exact ProgramClosed.program_scripts_closed. Qed.
Print Assumptions program_scripts_closed.

Theorem program_closed_any_names :
  forall (hl hd hs : N -> bool) (autovars : list (text * autovar)) (switches : list (text * text)) (fc : fontcfg) (cli_font : text)
    (cli_maxlen : Z) (src : text) (p : program),
  parse_program autovars switches true (parse_format fc cli_font cli_maxlen true) (lex hl hd hs src) = Ok p ->
  forall (optimize : bool) (mp : option text) (prog : list instr),
  emit_program_instrs optimize mp p = Emitter.Ok prog -> closed_any_names autovars switches fc cli_font cli_maxlen p optimize mp prog.
Proof. exact ProgramClosed.program_closed_any_names. Qed.
Print Assumptions program_closed_any_names.

Theorem program_closed :
  forall (hl hd hs : N -> bool) (autovars : list (text * autovar)) (switches : list (text * text)) (fc : fontcfg) (cli_font : text)
    (cli_maxlen : Z) (src : text) (p : program),
  parse_program autovars switches true (parse_format fc cli_font cli_maxlen true) (lex hl hd hs src) = Ok p ->
  forall (optimize : bool) (mp : option text) (prog : list instr),
  emit_program_instrs optimize mp p = Emitter.Ok prog ->
  names_ok p = true ->
  NoDup (lnames prog) /\
  closed_any_names autovars switches fc cli_font cli_maxlen p optimize mp prog /\
  (forall l : text, In l (lnames prog) -> count_occ text_dec (lnames prog) l = 1) /\
  (forall (name : text) (glob : bool) (body : list stmt),
   In (name, glob, body) (NameClash.scripts_of (tops p)) ->
   count_occ text_dec (lnames prog) name = 1 /\ (forall l : text, In l (dlabs body) -> count_occ text_dec (lnames prog) l = 1)).
Proof. exact ProgramClosed.program_closed. Qed.
Print Assumptions program_closed.

